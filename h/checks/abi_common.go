package checks

import (
	"fmt"
	"strings"

	"github.com/indexsupply/shovel/dig"

	"verifh/ref"
)

// digInputs converts reference nodes into the JSON-ABI Input declarations dig consumes.
func digInputs(inputs []*ref.Node) []dig.Input {
	var out []dig.Input
	ctr := 0
	var conv func(n *ref.Node) dig.Input
	conv = func(n *ref.Node) dig.Input {
		in := dig.Input{Name: fmt.Sprintf("f%d", ctr), Type: n.JSONType()}
		ctr++
		if n.IsTuple() {
			for _, f := range n.Fields {
				in.Components = append(in.Components, conv(f))
			}
			return in
		}
		if n.Sel {
			in.Column = fmt.Sprintf("c_%s", in.Name)
		}
		return in
	}
	for _, n := range inputs {
		out = append(out, conv(n))
	}
	return out
}

// sigOf renders the declaration with selected leaves marked by '*'.
func sigOf(inputs []*ref.Node) string {
	var conv func(n *ref.Node) string
	conv = func(n *ref.Node) string {
		var s string
		if n.IsTuple() {
			var parts []string
			for _, f := range n.Fields {
				parts = append(parts, conv(f))
			}
			s = "(" + strings.Join(parts, ",") + ")"
		} else {
			s = n.Leaf
			if n.Sel {
				s += "*"
			}
		}
		for _, k := range n.Dims {
			if k == 0 {
				s += "[]"
			} else {
				s += fmt.Sprintf("[%d]", k)
			}
		}
		return s
	}
	var parts []string
	for _, n := range inputs {
		parts = append(parts, conv(n))
	}
	return strings.Join(parts, ",")
}

// allLeaves lists the leaves of an input list in declaration order.
func allLeaves(inputs []*ref.Node) []*ref.Node {
	var ls []*ref.Node
	for _, n := range inputs {
		ls = append(ls, n.Leaves()...)
	}
	return ls
}

func setMask(inputs []*ref.Node, mask int) {
	for i, l := range allLeaves(inputs) {
		l.Sel = mask&(1<<i) != 0
	}
}

func rowRuleDefined(inputs []*ref.Node) bool {
	for _, n := range inputs {
		if !n.RowRuleDefined(false) {
			return false
		}
	}
	return true
}

// arrayDepth: maximal number of array dimensions on a path (bounds the row count on hostile data).
func arrayDepth(n *ref.Node) int {
	d := 0
	for _, f := range n.Fields {
		if x := arrayDepth(f); x > d {
			d = x
		}
	}
	return d + len(n.Dims)
}

var abiShapes = []ref.Shape{
	{ArrLens: []int{1}, ByteLens: []int{1}},
	{ArrLens: []int{0}, ByteLens: []int{0}},
	{ArrLens: []int{2}, ByteLens: []int{32}},
	{ArrLens: []int{2, 0, 1}, ByteLens: []int{33, 0, 31}},
	{ArrLens: []int{1, 2}, ByteLens: []int{31, 32, 1}},
	{ArrLens: []int{0, 2}, ByteLens: []int{0, 33}},
	{ArrLens: []int{3}, ByteLens: []int{64, 5}},
}

// eulerSeq returns a sequence over 0..n-1 in which every ordered pair (i,j), including i==i, occurs consecutively.
func eulerSeq(n int) []int {
	// Hierholzer on the complete digraph with loops
	next := make([]int, n)
	var stack, out []int
	stack = append(stack, 0)
	for len(stack) > 0 {
		v := stack[len(stack)-1]
		if next[v] < n {
			w := next[v]
			next[v]++
			stack = append(stack, w)
		} else {
			out = append(out, v)
			stack = stack[:len(stack)-1]
		}
	}
	for i, j := 0, len(out)-1; i < j; i, j = i+1, j-1 {
		out[i], out[j] = out[j], out[i]
	}
	return out
}

type abiLayer struct {
	Name     string
	Leaves   []string
	Ks       []int
	MaxSize  int
	MaxDepth int
}

func abiLayers(thorough bool) []abiLayer {
	if thorough {
		return []abiLayer{
			{"structural", []string{"uint256", "bytes"}, []int{2, 12}, 7, 4},
			{"spelling", []string{"uint8", "uint256", "int256", "address", "bool", "bytes32", "bytes", "string"}, []int{1, 2, 3, 10, 12}, 4, 4},
		}
	}
	return []abiLayer{
		{"structural", []string{"uint256", "bytes"}, []int{2, 12}, 6, 4},
		{"spelling", []string{"uint8", "uint256", "int256", "address", "bool", "bytes32", "bytes", "string"}, []int{1, 2, 3, 10, 12}, 3, 4},
	}
}

// arrayNodes counts the nodes that carry array dimensions.
func arrayNodes(n *ref.Node) int {
	c := 0
	if len(n.Dims) > 0 {
		c = 1
	}
	for _, f := range n.Fields {
		c += arrayNodes(f)
	}
	return c
}

// abiIns feeds log data through Integration.Insert (pure builds only: in instrumented builds Insert takes the
// shimmed mutex type and the ABI checks are not linked).
type abiIns interface {
	insert(data []byte) (n int, err error, panicked string)
}

var newAbiIns = func(ev dig.Event) (abiIns, bool) { return nil, false }

// abiInsRows is the optional extension of abiIns that also returns the rows handed to CopyFrom.
type abiInsRows interface {
	insertRows(data []byte) (rows [][]any, err error, panicked string)
}
