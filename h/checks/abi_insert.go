//go:build !verif

package checks

import (
	"context"
	"errors"
	"fmt"
	"strings"
	"sync"

	"github.com/indexsupply/shovel/dig"
	"github.com/indexsupply/shovel/eth"
	"github.com/indexsupply/shovel/wpg"
	"github.com/jackc/pgx/v5"
	"github.com/jackc/pgx/v5/pgconn"
)

func init() {
	newAbiIns = func(ev dig.Event) (abiIns, bool) {
		a, ok := newAbiInserter(ev)
		if !ok {
			return nil, false
		}
		return a, true
	}
}

// ---- the Insert path (dig.New + Integration.Insert with a connection that only drains CopyFrom) ----------

type abiConn struct{ rows [][]any }

var errAbiConn = errors.New("abi harness connection: only CopyFrom is supported")

func (f *abiConn) CopyFrom(_ context.Context, _ pgx.Identifier, _ []string, src pgx.CopyFromSource) (int64, error) {
	f.rows = f.rows[:0]
	for src.Next() {
		vals, err := src.Values()
		if err != nil {
			return 0, err
		}
		f.rows = append(f.rows, vals)
	}
	return int64(len(f.rows)), src.Err()
}
func (f *abiConn) Exec(context.Context, string, ...any) (pgconn.CommandTag, error) {
	return pgconn.CommandTag{}, errAbiConn
}
func (f *abiConn) QueryRow(context.Context, string, ...any) pgx.Row { return abiErrRow{} }
func (f *abiConn) Query(context.Context, string, ...any) (pgx.Rows, error) {
	return nil, errAbiConn
}

type abiErrRow struct{}

func (abiErrRow) Scan(...any) error { return errAbiConn }

var _ wpg.Conn = (*abiConn)(nil)

// abiInserter feeds one log (topic0 = the declaration's signature hash, no indexed inputs) through
// Integration.Insert, i.e. gate, Scan, conversion of every cell to its database type, CopyFrom.
type abiInserter struct {
	ig   dig.Integration
	conn abiConn
	mut  sync.Mutex
	blk  []eth.Block
}

func newAbiInserter(ev dig.Event) (*abiInserter, bool) {
	var cols []wpg.Column
	var walk func(in dig.Input)
	walk = func(in dig.Input) {
		for _, c := range in.Components {
			walk(c)
		}
		if in.Column != "" {
			t := "bytea"
			if strings.HasPrefix(in.Type, "uint") || strings.HasPrefix(in.Type, "int") {
				t = "numeric"
			}
			cols = append(cols, wpg.Column{Name: in.Column, Type: t})
		}
	}
	for _, in := range ev.Inputs {
		walk(in)
	}
	if len(cols) == 0 {
		return nil, false
	}
	ig, err := dig.New("abi_ig", ev, nil, wpg.Table{Name: "abi_t", Columns: cols}, dig.Notification{}, "")
	if err != nil {
		return nil, false
	}
	a := &abiInserter{ig: ig}
	a.blk = []eth.Block{{Txs: eth.Txs{{Receipt: eth.Receipt{Logs: eth.Logs{{Topics: []eth.Bytes{ev.SignatureHash()}}}}}}}}
	return a, true
}

// insert returns the number of rows handed to CopyFrom, the error, and a panic message ("" if none).
func (a *abiInserter) insert(data []byte) (n int, err error, panicked string) {
	defer func() {
		if r := recover(); r != nil {
			panicked = fmt.Sprint(r)
			a.mut = sync.Mutex{} // Insert may have died holding it
		}
	}()
	a.blk[0].Txs[0].Receipt.Logs[0].Data = data
	nr, err := a.ig.Insert(context.Background(), &a.mut, &a.conn, a.blk)
	return int(nr), err, ""
}

// insertRows is insert plus the rows handed to CopyFrom by THIS call (nil when Insert failed before CopyFrom).
func (a *abiInserter) insertRows(data []byte) (rows [][]any, err error, panicked string) {
	a.conn.rows = a.conn.rows[:0]
	_, err, panicked = a.insert(data)
	if err != nil || panicked != "" {
		return nil, err, panicked
	}
	return a.conn.rows, nil, ""
}
