package c07

import (
	"encoding/json"
	"fmt"
	"sort"
	"time"

	"github.com/indexsupply/shovel/shovel/glf"

	"verifh/checks"
	"verifh/fw"
)

// C07 — source responses are validated: malformed or inconsistent data is rejected.
//
// The real jrpc2.Client is driven, single-threaded, against the simulated node
// (verifh/simeth). For every configuration (data plan x address filter x range x
// cached?) the uncorrupted call is executed once; the responses it was sent
// determine the complete list of applicable single corruptions (operator x exchange
// x position), each of which is then executed as one case and judged by the oracle
// in oracle.go against the bytes that were actually sent.

func init() {
	checks.Register(&checks.Check{
		ID:        "C07",
		Level:     "exploration",
		Technique: "bounded-exhaustive corruption enumeration of simulated JSON-RPC responses against the real jrpc2.Client, judged by an independent model of what was sent",
		Rule: "configurations = every distinct glf plan reachable from subsets of size <= 2 of the 28 documented field names x {no address filter, one address (plans that call eth_getLogs)} x ranges (six quick ranges starting at blocks 1..8 plus (0,1) and (0,2), where a zero-valued block decoded from a null answer carries the requested number) x {nocache URL, cached URL}, fresh client per case; " +
			"for each configuration EVERY applicable single corruption of EVERY exchange of the call: drop/duplicate/swap(all pairs)/append batch elements, null/remove/empty a result, error member {-32000,-32602,429} x {keep,remove result}, " +
			"renumber a header to n-1,n+1,start-1,start+limit,0, replace parentHash/hash, wrong result types, every log moved out of range / to every other in-range block (with and without blockHash) / duplicated / dropped / other transactionIndex / other logIndex, " +
			"every receipt renumbered (out of range, every other in-range block with and without blockHash) / swapped transactionIndex / dropped / duplicated, every trace renumbered (likewise) / other transactionPosition, blockHash and transactionHash of every log / receipt / trace removed, empty (0x), 31 bytes, another fork's hash, and short blockHash on the first item of a block combined with a foreign hash on each later item (the log hash operators: quick tier on the uncached URL only), / dropped / duplicated, " +
			"body truncated at 0,1,len/2,len-1,inside a string, HTTP status {301,400,429,500,503} x {valid JSON body, text body}, transport error, object<->array, top-level null, empty batch; operators yielding a byte-identical response are enumerated once; " +
			"lagging node: every request of the call answered faithfully from a chain whose head is h, for every h in [start-1, start+limit-1] (null above h, logs/receipts/traces only up to h); " +
			"the same families for Client.Latest and Client.Hash (incl. a block beyond the head); thorough: 7 more ranges and ALL PAIRS of corruptions (same or different exchanges, applied in enumeration order; the combined bhash2, the transactionHash and the missing/empty log blockHash operators are not paired) for every plan on ranges (3,2),(1,3),(5,3) uncached and (3,2) cached, and for Latest and Hash(4). " +
			"after every single-corruption case (and uncorrupted beyond-head case) that FAILED on a stateful client (cached URL with headers/blocks, Client.Latest) the call is repeated on the same client with the node answering the same corrupted answers and with honest answers; the repeated call is judged against its own responses, or, where it fetched nothing itself, against the answer the cache took it from. " +
			"A case is non-trivial when every corruption of the case was reached and changed the response (baselines are trivial unless the range extends beyond the head).",
		Assumptions: []string{
			"an error object with code 0 is not an error object (not enumerated)",
			"request/response id matching is not required; reordered batch elements are judged by the post-condition only",
			"plans without headers/blocks: the block hash comes from the attached items; it must be a full 32-byte blockHash carried by all items naming the block, else the call has to fail",
			"a corrupted response that is itself a consistent answer (e.g. a duplicated receipt, a reordered receipts batch, a last header with another hash) must only satisfy the post-condition",
			"logs nested in a receipt are judged as part of that receipt (their own blockNumber/transactionIndex members are not cross-checked)",
			"the sentinel header of the eth_getLogs exchange is judged for presence only (no error object, result not null); its number/hash are not returned data",
			"an empty receipts array / empty log list is a consistent answer (empty block); only null or missing results and short batches must fail",
			"cases whose verdict may depend on Go map iteration order inside the client (the logs naming one block do not all carry the same blockHash bytes, or not the header's) are executed 120 times; the findings of all executions are united",
			"a lagging-node case that returns without error is additionally judged against the answers a node holding the whole range gives to the same requests (the call must fail or return exactly the data of the full range); pairs of a lagging node with another corruption are judged by the ordinary clauses only",
			"simeth serves what its Exchange log says it served",
		},
		Budget:        map[string]time.Duration{"quick": 80 * time.Second, "thorough": 850 * time.Second},
		MinNontrivial: 15000,
		Run:           run,
		Replay:        replay,
	})
}

type config struct {
	p      plan
	addrs  []string
	start  uint64
	limit  uint64
	cached bool
	pairs  bool
}

var (
	quickRanges    = [][2]uint64{{1, 1}, {1, 3}, {3, 2}, {5, 3}, {6, 2}, {8, 2}, {0, 1}, {0, 2}}
	thoroughRanges = [][2]uint64{{1, 4}, {2, 3}, {4, 1}, {7, 2}, {8, 1}, {3, 4}, {1, 8}}
	pairRanges     = [][2]uint64{{3, 2}, {1, 3}, {5, 3}}
)

func configs(thorough bool) []config {
	var out []config
	ranges := quickRanges
	if thorough {
		ranges = append(append([][2]uint64{}, quickRanges...), thoroughRanges...)
	}
	for _, p := range plans() {
		for _, r := range ranges {
			for _, cached := range []bool{false, true} {
				variants := [][]string{nil}
				if p.F.fetchesLogs() {
					variants = append(variants, []string{hx(addrA)})
				}
				for _, a := range variants {
					cf := config{p: p, addrs: a, start: r[0], limit: r[1], cached: cached}
					if thorough && a == nil {
						for _, pr := range pairRanges {
							cf.pairs = cf.pairs || pr == r && (!cached || pr == pairRanges[0])
						}
					}
					out = append(out, cf)
				}
			}
		}
	}
	return out
}

// beyondHead: the honest node itself answers null for part of the range.
func beyondHead(start, limit uint64) bool { return start+limit-1 > chain.Head().Num }

// tracelessInRange: the client rejects trace_block answers without traces.
func tracelessInRange(start, limit uint64) bool {
	for n := start; n < start+limit && n <= chain.Head().Num; n++ {
		traces := 0
		for _, t := range chain.Blocks[n].Txs {
			traces += len(t.Traces)
		}
		if traces == 0 {
			return true
		}
	}
	return false
}

// evalCase executes and judges one case. Cases whose verdict may depend on map iteration
// order inside the client are executed orderRuns times and the findings of all executions
// are united, so that verdict and counts do not depend on the run.
func evalCase(cs *Case) (string, []finding, *outcome, *model) {
	out := execute(cs)
	cls, fs, m := judge(cs, out)
	if cs.Call != "get" || !m.orderSensitive(out.flags) {
		return cls, fs, out, m
	}
	has := func(key string) bool {
		for _, f := range fs {
			if f.key == key {
				return true
			}
		}
		return false
	}
	classes := []string{cls}
	for r := 1; r < orderRuns; r++ {
		o2 := execute(cs)
		c2, f2, _ := judge(cs, o2)
		classes = append(classes, c2)
		for _, f := range f2 {
			if !has(f.key) {
				fs = append(fs, f)
			}
		}
	}
	m.txHashChange = 0
	if len(fs) > 0 {
		sort.Slice(fs, func(i, j int) bool { return fs[i].key < fs[j].key })
		return "VIOLATION:" + fs[0].key, fs, out, m
	}
	sort.Strings(classes)
	return classes[0], fs, out, m
}

// orderRuns: executions of a case whose verdict may depend on map iteration order
// inside the client (a small Go map is iterated from one of 8 random offsets).
const orderRuns = 120

func report(c *fw.Ctx, cs *Case, cls string, fs []finding) {
	c.Outcome(cls)
	for i, f := range fs {
		if i >= 3 {
			break
		}
		c.Violation("C07", f.class, f.key, fmt.Sprintf("case %s\n%s", caseString(cs), f.detail), cs)
		for _, op := range cs.Ops {
			if len(cs.Ops) == 1 {
				c.Count("vio/"+f.key+"/"+op.Name, 1)
			}
		}
	}
}

func caseString(cs *Case) string {
	b, _ := json.Marshal(cs)
	return string(b)
}

// runCase evaluates one corrupted case.
func runCase(c *fw.Ctx, cs *Case) *outcome {
	cls, fs, out, m := evalCase(cs)
	if m.txHashChange > 0 && len(fs) == 0 {
		c.Count("note/tx-hash-of-the-block-response-replaced-by-an-items-transactionHash", 1)
	}
	nontrivial := true
	for _, a := range out.applied {
		nontrivial = nontrivial && a
	}
	c.Eval(nontrivial)
	if !nontrivial {
		c.Count("degenerate/op-unreached-or-inapplicable", 1)
	}
	for _, op := range cs.Ops {
		if len(cs.Ops) == 1 {
			c.Count("op/"+op.Name, 1)
		} else {
			c.Count("pair-op/"+op.Name, 1)
		}
	}
	if len(cs.Ops) > 1 {
		c.Count("pairs", 1)
	}
	if cs.Follow != "" {
		c.Count("follow/"+cs.Follow, 1)
		c.Count("follow/"+cs.Follow+"/"+cls, 1)
	}
	c.Sample(cs)
	report(c, cs, cls, fs)
	return out
}

// followUps: "a rejected answer leaves no trace in the client". After a call that
// failed, the same call is repeated on the same client, once with the node giving the same
// corrupted answers and once with honest answers; each repetition is one more case.
// Only clients with state are concerned: the cached URL on plans that fetch headers or
// blocks (segment cache), and Client.Latest (latest-block cache).
func followUps(c *fw.Ctx, cs *Case, out *outcome) {
	if out.err == nil || out.panicked != nil || cs.Follow != "" {
		return
	}
	switch cs.Call {
	case "latest":
	case "get":
		if !cs.Cached || !out.flags.hashed() {
			return
		}
	default:
		return
	}
	for _, f := range []string{"same", "good"} {
		fc := *cs
		fc.Follow = f
		runCase(c, &fc)
	}
}

// baseline runs the uncorrupted call and returns the operators applicable to it.
func baseline(c *fw.Ctx, cs *Case, owner bool, expectOK bool) []Op {
	cls, fs, out, _ := evalCase(cs)
	if owner {
		nontrivial := cs.Call == "hash" && cs.N > chain.Head().Num || cs.Call == "get" && beyondHead(cs.Start, cs.Limit)
		c.Eval(nontrivial)
		c.Count("baseline/"+cls, 1)
		if cs.Call == "get" {
			c.Count("configs/plan="+flagsOf(glf.New(cs.Fields, nil, nil)).String(), 1)
		} else {
			c.Count("configs/"+cs.Call, 1)
		}
		if nontrivial {
			c.Count("op/none(beyond-head)", 1)
		}
		report(c, cs, "baseline:"+cls, fs)
		followUps(c, cs, out)
		if expectOK && (out.err != nil || out.panicked != nil) {
			c.HarnessError("baseline %s failed: err=%v panic=%v", caseString(cs), out.err, out.panicked)
		}
	}
	var ops []Op
	oc := opCtx{start: cs.Start, limit: cs.Limit}
	for k, ex := range out.ex {
		var tree any
		if ex.Err != nil || json.Unmarshal(ex.Body, &tree) != nil {
			continue
		}
		ops = append(ops, enumOps(k, ex, tree, oc, cs.Cached && !c.Thorough())...)
	}
	// lagging node: every request of the call is answered faithfully from a chain whose head is
	// h, for every h in [start-1, start+limit-1] (the last one covers the range: a sanity case)
	if cs.Call == "get" && len(out.ex) > 0 {
		for h := cs.Start - 1; h <= cs.Start+cs.Limit-1; h++ {
			ops = append(ops, Op{K: -1, Name: "lag", N: int64(h)})
		}
	}
	return ops
}

// pairEligible: operators that take part in the thorough tier's pairs. The combined
// *.bhash2 operators are pairs already; transactionHash is not judged; of the blockHash
// variants of logs (whose cases are executed orderRuns times) "short" and "foreign" are paired.
func pairEligible(o Op) bool {
	switch o.Name {
	case "log.bhash2", "rcpt.bhash2", "trace.bhash2", "log.txhash", "rcpt.txhash", "trace.txhash":
		return false
	case "log.bhash":
		return o.S == "short" || o.S == "foreign"
	}
	return true
}

func pairable(a, b Op) bool {
	if !pairEligible(a) || !pairEligible(b) || a.Name == "lag" && b.Name == "lag" {
		return false
	}
	if a.K != b.K {
		return true
	}
	hard := func(o Op) bool { return o.Name == "status" || o.Name == "transport" }
	if hard(a) || hard(b) {
		return false
	}
	return !(a.Name == "trunc" && b.Name == "trunc")
}

func runConfig(c *fw.Ctx, base Case, expectOK, pairs bool) {
	owner := c.Mine()
	ops := baseline(c, &base, owner, expectOK)
	for _, op := range ops {
		if !c.Mine() {
			continue
		}
		if c.Expired() {
			return
		}
		cs := base
		cs.Ops = []Op{op}
		followUps(c, &cs, runCase(c, &cs))
	}
	if !pairs {
		return
	}
	for a := range ops {
		if !c.Mine() {
			continue
		}
		for b := a + 1; b < len(ops); b++ {
			if !pairable(ops[a], ops[b]) {
				continue
			}
			if c.Expired() {
				return
			}
			cs := base
			cs.Ops = []Op{ops[a], ops[b]}
			runCase(c, &cs)
		}
	}
}

func run(c *fw.Ctx) {
	world()
	ps := plans()
	var names []string
	for _, p := range ps {
		names = append(names, p.F.String())
	}
	c.Bound("plans", names)
	c.Bound("chain_blocks", len(chain.Blocks))
	c.Bound("ranges_quick", quickRanges)
	if c.Thorough() {
		c.Bound("ranges_thorough", thoroughRanges)
		c.Bound("pair_ranges", pairRanges)
	}
	cfs := configs(c.Thorough())
	c.Bound("configurations", len(cfs))
	for _, cf := range cfs {
		if c.Expired() {
			return
		}
		base := Case{Call: "get", Fields: cf.p.Fields, Addrs: cf.addrs, Start: cf.start, Limit: cf.limit, Cached: cf.cached}
		tracesFetched := cf.p.F.T && !cf.p.F.R && !cf.p.F.L
		expectOK := !beyondHead(cf.start, cf.limit) && !(tracesFetched && tracelessInRange(cf.start, cf.limit))
		runConfig(c, base, expectOK, cf.pairs)
	}
	// Client.Latest and Client.Hash
	runConfig(c, Case{Call: "latest"}, true, c.Thorough())
	for _, n := range []uint64{1, 4, chain.Head().Num, chain.Head().Num + 1} {
		runConfig(c, Case{Call: "hash", N: n}, n <= chain.Head().Num, c.Thorough() && n == 4)
	}
}

func replay(c *fw.Ctx, raw json.RawMessage) {
	var cs Case
	if err := json.Unmarshal(raw, &cs); err != nil {
		c.HarnessError("bad case: %v", err)
		return
	}
	world()
	cls, fs, _, _ := evalCase(&cs)
	c.Eval(true)
	report(c, &cs, cls, fs)
}
