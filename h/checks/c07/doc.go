// Package c07 registers the C07 check (see DESIGN.md §4): "Source responses are
// validated: malformed or inconsistent data is rejected".
//
// Files:
//
//	c07.go      registration, configurations, sharded enumeration (singles; thorough: pairs), replay
//	world.go    the simulated node (8-block chain), plans from glf.New, one execution of the real client
//	ops.go      corruption operators on the decoded response tree / exchange faults, and their enumeration
//	oracle.go   model of what was actually sent (from Exchange.Body) and the post-condition
//	repro_test.go  minimal standalone reproductions of every violation key found on the unchanged tree
//	self_test.go   self-tests of the check's machinery
//
// Violation keys (stable; "<kind>" is headers|blocks|receipts|logs|traces|latest|hash):
//
//	panic:<top shovel frame>/<why the response had to be rejected>
//	<kind>:<reason>-accepted      the property requires an error (transport-error, http-status, undecodable-body,
//	                              wrong-shape, short-batch, error-object, missing-result, null-result, wrong-type,
//	                              wrong-number, out-of-range-item) and the call returned none
//	get:wrong-length, get:wrong-number-{first,middle,last}, get:duplicate-tx
//	<kind>:block-never-sent, <kind>:block-hash-not-the-headers, <kind>:header-not-as-sent, <kind>:unlinked-headers-accepted
//	{logs,receipts,traces}:items-without-one-full-blockhash-accepted, get:block-hash-not-the-items   (plans without headers)
//	get:hash-overwritten-broken-link
//	{logs,receipts,traces}:{misattached,sent-but-not-attached,attached-but-never-sent}[/mixed-block-response]
//	logs:colliding-log-index-dropped   two different logs of one tx carry the same logIndex; eth.Logs.Add keeps the first
//	logs:attached-twice, logs:duplicate-log-index-attached
//	{latest,hash}:not-as-sent
//	lagging-node:<any of the above>   the node's head lay inside the requested range and the call returned, without
//	                                  error, something else than the data of the full range
//	cached:<any of the above>   a follow-up call on the same client returned, without fetching it again, an answer
//	                            of the first call that had to be rejected (segment cache / latest-block cache)
package c07
