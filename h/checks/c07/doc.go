// Package c07 registers the C07 check (see DESIGN.md §4).
package c07
