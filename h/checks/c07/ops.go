package c07

import (
	"bytes"
	"encoding/json"
	"strconv"

	"verifh/simeth"
)

// Operators. Tree operators rewrite the decoded response tree (encoding/json style
// data: []any / map[string]any / string / float64 / bool / nil) of ONE exchange before
// it is marshalled; fault operators set the exchange's Fault.

type opCtx struct{ start, limit uint64 }

func isFault(name string) bool { return name == "status" || name == "transport" || name == "trunc" }

func marshal(v any) []byte {
	b, err := json.Marshal(v)
	if err != nil {
		return []byte("null")
	}
	return b
}

func hexU(v uint64) string { return "0x" + strconv.FormatUint(v, 16) }

// clone deep-copies a tree.
func clone(v any) any {
	switch x := v.(type) {
	case []any:
		o := make([]any, len(x))
		for i := range x {
			o[i] = clone(x[i])
		}
		return o
	case map[string]any:
		o := make(map[string]any, len(x))
		for k, e := range x {
			o[k] = clone(e)
		}
		return o
	}
	return v
}

func asMap(v any) map[string]any { m, _ := v.(map[string]any); return m }
func asArr(v any) ([]any, bool)  { a, ok := v.([]any); return a, ok }

// elems views the response as a list of elements (a single object is a list of one).
func elems(tree any) ([]any, bool) {
	switch x := tree.(type) {
	case []any:
		return x, true
	case map[string]any:
		return []any{x}, false
	}
	return nil, false
}

func truncPos(which string, body []byte) int {
	switch which {
	case "zero":
		return 0
	case "one":
		return 1
	case "half":
		return len(body) / 2
	case "last":
		return len(body) - 1
	case "instr": // inside a hex string value, past the first third of the body
		from := len(body) / 3
		if i := bytes.Index(body[from:], []byte(`:"0x`)); i >= 0 && from+i+7 < len(body) {
			return from + i + 7
		}
		if i := bytes.Index(body, []byte(`:"0x`)); i >= 0 && i+7 < len(body) {
			return i + 7
		}
		return len(body) / 2
	}
	return 0
}

// chainHash returns the hash of block n of the honest chain (used as "another value").
func chainHash(n uint64) string {
	if b := chain.Block(n); b != nil {
		return hx(b.Hash)
	}
	return hx(bogus)
}

func renumTarget(which string, own uint64, oc opCtx) (uint64, bool) {
	switch which {
	case "start-1":
		return oc.start - 1, true
	case "end":
		return oc.start + oc.limit, true
	case "n-1":
		return own - 1, own > 0
	case "n+1":
		return own + 1, true
	case "zero":
		return 0, true
	}
	return 0, false
}

func parseU(v any) (uint64, bool) {
	s, ok := v.(string)
	if !ok || len(s) < 3 || s[:2] != "0x" {
		return 0, false
	}
	n, err := strconv.ParseUint(s[2:], 16, 64)
	return n, err == nil
}

// applyTree applies one tree operator. ok=false: the operator does not apply to this
// tree (index out of range, wrong shape, or it would change nothing); the tree is returned unchanged.
func applyTree(op Op, tree any, oc opCtx) (any, bool) {
	es, batch := elems(tree)
	wrap := func(es []any) any {
		if batch {
			return es
		}
		if len(es) == 1 {
			return es[0]
		}
		return es
	}
	if es == nil {
		return tree, false
	}
	el := func(i int) map[string]any {
		if i < 0 || i >= len(es) {
			return nil
		}
		return asMap(es[i])
	}
	// items of element I's result array
	items := func(i int) ([]any, map[string]any) {
		e := el(i)
		if e == nil {
			return nil, nil
		}
		a, ok := asArr(e["result"])
		if !ok {
			return nil, nil
		}
		return a, e
	}
	item := func(i, j int) map[string]any {
		a, _ := items(i)
		if j < 0 || j >= len(a) {
			return nil
		}
		return asMap(a[j])
	}

	switch op.Name {
	case "shape":
		switch op.S {
		case "object":
			if !batch || len(es) == 0 {
				return tree, false
			}
			return es[0], true
		case "array":
			if batch {
				return tree, false
			}
			return []any{es[0]}, true
		case "null":
			return nil, true
		case "empty":
			if !batch {
				return tree, false
			}
			return []any{}, true
		}
	case "drop":
		if !batch || el(op.I) == nil {
			return tree, false
		}
		return append(append([]any{}, es[:op.I]...), es[op.I+1:]...), true
	case "dup":
		if !batch || el(op.I) == nil {
			return tree, false
		}
		o := append([]any{}, es[:op.I+1]...)
		o = append(o, clone(es[op.I]))
		return append(o, es[op.I+1:]...), true
	case "append0":
		if !batch || len(es) < 2 {
			return tree, false
		}
		return append(append([]any{}, es...), clone(es[0])), true
	case "swap":
		if !batch || el(op.I) == nil || el(op.J) == nil || op.I == op.J {
			return tree, false
		}
		o := append([]any{}, es...)
		o[op.I], o[op.J] = o[op.J], o[op.I]
		return o, true
	case "null":
		e := el(op.I)
		if e == nil {
			return tree, false
		}
		if r, has := e["result"]; has && r == nil {
			return tree, false
		}
		e["result"] = nil
		return wrap(es), true
	case "noresult":
		e := el(op.I)
		if e == nil {
			return tree, false
		}
		if _, has := e["result"]; !has {
			return tree, false
		}
		delete(e, "result")
		return wrap(es), true
	case "empty":
		a, e := items(op.I)
		if e == nil || len(a) == 0 {
			return tree, false
		}
		e["result"] = []any{}
		return wrap(es), true
	case "err":
		e := el(op.I)
		if e == nil {
			return tree, false
		}
		e["error"] = map[string]any{"code": float64(op.N), "message": "simulated failure"}
		if op.S == "remove" {
			delete(e, "result")
		}
		return wrap(es), true
	case "renum":
		r := asMap(el(op.I)["result"])
		own, ok := parseU(r["number"])
		if r == nil || !ok {
			return tree, false
		}
		t, ok := renumTarget(op.S, own, oc)
		if !ok || t == own {
			return tree, false
		}
		r["number"] = hexU(t)
		return wrap(es), true
	case "parent", "hash":
		r := asMap(el(op.I)["result"])
		if r == nil {
			return tree, false
		}
		field := "parentHash"
		if op.Name == "hash" {
			field = "hash"
		}
		var v any
		switch op.S {
		case "bogus":
			v = hx(bogus)
		case "self": // parent := own hash
			v = r["hash"]
		case "next": // hash := hash of the next element
			n := asMap(el((op.I + 1) % len(es))["result"])
			if n == nil {
				return tree, false
			}
			v = n["hash"]
		}
		if v == nil || v == r[field] {
			return tree, false
		}
		r[field] = v
		return wrap(es), true
	case "type":
		e := el(op.I)
		if e == nil {
			return tree, false
		}
		r := asMap(e["result"])
		switch op.S {
		case "string":
			e["result"] = "0x1"
		case "number":
			e["result"] = float64(7)
		case "array":
			e["result"] = []any{}
		case "bool":
			e["result"] = true
		case "numfield":
			if r == nil {
				return tree, false
			}
			r["number"] = float64(7)
		case "hashfield":
			if r == nil {
				return tree, false
			}
			r["hash"] = float64(7)
		default:
			return tree, false
		}
		return wrap(es), true

	// ---- items of eth_getLogs results
	case "log.move":
		l := item(op.I, op.J)
		own, ok := parseU(l["blockNumber"])
		if l == nil || !ok || own == uint64(op.N) {
			return tree, false
		}
		l["blockNumber"] = hexU(uint64(op.N))
		if op.S == "num+hash" {
			l["blockHash"] = chainHash(uint64(op.N))
		}
		return wrap(es), true
	case "log.txidx", "rcpt.txidx":
		l := item(op.I, op.J)
		own, ok := parseU(l["transactionIndex"])
		if l == nil || !ok || own == uint64(op.N) {
			return tree, false
		}
		l["transactionIndex"] = hexU(uint64(op.N))
		return wrap(es), true
	case "log.logidx":
		l := item(op.I, op.J)
		own, ok := parseU(l["logIndex"])
		if l == nil || !ok || own == uint64(op.N) {
			return tree, false
		}
		l["logIndex"] = hexU(uint64(op.N))
		return wrap(es), true
	case "log.dup", "rcpt.dup", "trace.dup":
		a, e := items(op.I)
		if e == nil || op.J < 0 || op.J >= len(a) {
			return tree, false
		}
		o := append([]any{}, a[:op.J+1]...)
		o = append(o, clone(a[op.J]))
		e["result"] = append(o, a[op.J+1:]...)
		return wrap(es), true
	case "log.drop", "rcpt.drop", "trace.drop":
		a, e := items(op.I)
		if e == nil || op.J < 0 || op.J >= len(a) {
			return tree, false
		}
		e["result"] = append(append([]any{}, a[:op.J]...), a[op.J+1:]...)
		return wrap(es), true

	// ---- blockHash / transactionHash members of logs, receipts and traces
	case "log.bhash", "rcpt.bhash", "trace.bhash", "log.txhash", "rcpt.txhash", "trace.txhash":
		field := "blockHash"
		if op.Name[len(op.Name)-6:] == "txhash" {
			field = "transactionHash"
		}
		if !setHash(item(op.I, op.J), field, op.S) {
			return tree, false
		}
		return wrap(es), true
	case "log.bhash2", "rcpt.bhash2", "trace.bhash2": // short hash on item J, a foreign full-length hash on the later item N
		a, b := item(op.I, op.J), item(op.I, int(op.N))
		if a == nil || b == nil || op.J >= int(op.N) {
			return tree, false
		}
		if !setHash(a, "blockHash", op.S) || !setHash(b, "blockHash", "foreign") {
			return tree, false
		}
		return wrap(es), true

	// ---- receipts
	case "rcpt.renum":
		r := item(op.I, op.J)
		own, ok := parseU(r["blockNumber"])
		if r == nil || !ok || own == uint64(op.N) {
			return tree, false
		}
		r["blockNumber"] = hexU(uint64(op.N))
		if op.S == "num+hash" {
			r["blockHash"] = chainHash(uint64(op.N))
		}
		return wrap(es), true
	case "rcpt.swaptx":
		a, b := item(op.I, op.J), item(op.I, int(op.N))
		if a == nil || b == nil || op.J == int(op.N) || a["transactionIndex"] == b["transactionIndex"] {
			return tree, false
		}
		a["transactionIndex"], b["transactionIndex"] = b["transactionIndex"], a["transactionIndex"]
		return wrap(es), true

	// ---- traces (blockNumber / transactionPosition are JSON numbers)
	case "trace.renum":
		t := item(op.I, op.J)
		own, ok := t["blockNumber"].(float64)
		if t == nil || !ok || own == float64(op.N) {
			return tree, false
		}
		t["blockNumber"] = float64(op.N)
		if op.S == "num+hash" {
			t["blockHash"] = chainHash(uint64(op.N))
		}
		return wrap(es), true
	case "trace.txpos":
		t := item(op.I, op.J)
		own, ok := t["transactionPosition"].(float64)
		if t == nil || !ok || own == float64(op.N) {
			return tree, false
		}
		t["transactionPosition"] = float64(op.N)
		return wrap(es), true
	}
	return tree, false
}

// setHash applies one variant to a 32-byte hash member of an item.
func setHash(it map[string]any, field, variant string) bool {
	if it == nil {
		return false
	}
	cur, ok := it[field].(string)
	if !ok || len(cur) != 66 {
		return false
	}
	switch variant {
	case "missing":
		delete(it, field)
	case "empty":
		it[field] = "0x"
	case "short": // 31 bytes
		it[field] = cur[:64]
	case "foreign": // another fork's full-length hash
		it[field] = hx(foreign)
	default:
		return false
	}
	return true
}

var (
	hashVariants = []string{"missing", "empty", "short", "foreign"}
	shortHashes  = []string{"missing", "empty", "short"}
	errCodes     = []int64{-32000, -32602, 429}
	statusCodes  = []int64{301, 400, 429, 500, 503}
	renumKinds   = []string{"n-1", "n+1", "start-1", "end", "zero"}
	truncKinds   = []string{"zero", "one", "half", "last", "instr"}
)

// exKind classifies an exchange by the methods it asks for.
func exKind(ex *simeth.Exchange) string {
	kind := "other"
	for _, c := range ex.Calls {
		switch c.Method {
		case "eth_getLogs":
			return "logs"
		case "eth_getBlockReceipts":
			return "receipts"
		case "trace_block":
			return "traces"
		case "eth_getBlockByNumber":
			kind = "headers"
			if len(c.Params) == 2 && c.Params[1] == true {
				kind = "blocks"
			}
		}
	}
	return kind
}

// otherBlocks lists the in-range blocks other than own.
func otherBlocks(own uint64, oc opCtx) []uint64 {
	var o []uint64
	for n := oc.start; n < oc.start+oc.limit; n++ {
		if n != own {
			o = append(o, n)
		}
	}
	return o
}

// enumOps lists EVERY applicable single corruption of exchange k, given its honest
// response tree (decoded from the bytes the baseline run was sent).
func enumOps(k int, ex *simeth.Exchange, tree any, oc opCtx, lite bool) []Op {
	var ops []Op
	// keep only operators that really change this response, and only one operator per
	// distinct corrupted response (e.g. dropping the only trace == emptying the array)
	seen := map[string]bool{string(marshal(tree)): true}
	add := func(o Op) {
		o.K = k
		if !isFault(o.Name) {
			t, ok := applyTree(o, clone(tree), oc)
			if !ok {
				return
			}
			b := string(marshal(t))
			if seen[b] {
				return
			}
			seen[b] = true
		}
		ops = append(ops, o)
	}
	es, batch := elems(tree)
	kind := exKind(ex)

	// faults and response-level shapes
	add(Op{Name: "transport"})
	for _, c := range statusCodes {
		add(Op{Name: "status", N: c, S: "json"})
		add(Op{Name: "status", N: c, S: "text"})
	}
	for _, t := range truncKinds {
		add(Op{Name: "trunc", S: t})
	}
	for _, s := range []string{"object", "array", "null", "empty"} {
		add(Op{Name: "shape", S: s})
	}

	// element-level
	for i := range es {
		if batch {
			add(Op{Name: "drop", I: i})
			add(Op{Name: "dup", I: i})
			for j := i + 1; j < len(es); j++ {
				add(Op{Name: "swap", I: i, J: j})
			}
		}
		add(Op{Name: "null", I: i})
		add(Op{Name: "noresult", I: i})
		add(Op{Name: "empty", I: i})
		for _, c := range errCodes {
			add(Op{Name: "err", I: i, N: c, S: "keep"})
			add(Op{Name: "err", I: i, N: c, S: "remove"})
		}
		e := asMap(es[i])
		if r := asMap(e["result"]); r != nil { // a header / block object
			for _, w := range renumKinds {
				add(Op{Name: "renum", I: i, S: w})
			}
			add(Op{Name: "parent", I: i, S: "bogus"})
			add(Op{Name: "parent", I: i, S: "self"})
			add(Op{Name: "hash", I: i, S: "bogus"})
			add(Op{Name: "hash", I: i, S: "next"})
			for _, s := range []string{"string", "number", "array", "bool", "numfield", "hashfield"} {
				add(Op{Name: "type", I: i, S: s})
			}
		}
		items, isArr := asArr(e["result"])
		if !isArr {
			continue
		}
		switch kind {
		case "logs":
			// other tx indexes / log indexes present in the same block, for collisions
			for j := range items {
				l := asMap(items[j])
				own, _ := parseU(l["blockNumber"])
				add(Op{Name: "log.move", I: i, J: j, N: int64(oc.start) - 1, S: "num"})
				add(Op{Name: "log.move", I: i, J: j, N: int64(oc.start + oc.limit), S: "num"})
				for _, m := range otherBlocks(own, oc) {
					add(Op{Name: "log.move", I: i, J: j, N: int64(m), S: "num"})
					add(Op{Name: "log.move", I: i, J: j, N: int64(m), S: "num+hash"})
				}
				add(Op{Name: "log.dup", I: i, J: j})
				add(Op{Name: "log.drop", I: i, J: j})
				// transactionIndex: every other tx index seen in this response for the same block, and a fresh one
				seenTx, seenLi := map[uint64]bool{}, map[uint64]bool{}
				for _, o := range items {
					om := asMap(o)
					if bn, _ := parseU(om["blockNumber"]); bn != own {
						continue
					}
					ti, _ := parseU(om["transactionIndex"])
					li, _ := parseU(om["logIndex"])
					if !seenTx[ti] {
						seenTx[ti] = true
						add(Op{Name: "log.txidx", I: i, J: j, N: int64(ti)})
					}
					if !seenLi[li] {
						seenLi[li] = true
						add(Op{Name: "log.logidx", I: i, J: j, N: int64(li)})
					}
				}
				add(Op{Name: "log.txidx", I: i, J: j, N: 7})
				add(Op{Name: "log.logidx", I: i, J: j, N: 99})
				if lite { // quick tier, cached URL: the eth_getLogs path does not depend on the cache
					continue
				}
				for _, v := range hashVariants {
					add(Op{Name: "log.bhash", I: i, J: j, S: v})
					add(Op{Name: "log.txhash", I: i, J: j, S: v})
				}
				// combined: short hash on the first log of a block, a foreign hash on each later log of that block
				firstOfBlock := true
				for _, o := range items[:j] {
					if bn, _ := parseU(asMap(o)["blockNumber"]); bn == own {
						firstOfBlock = false
					}
				}
				if firstOfBlock {
					for j2 := j + 1; j2 < len(items); j2++ {
						if bn, _ := parseU(asMap(items[j2])["blockNumber"]); bn != own {
							continue
						}
						for _, v := range shortHashes {
							add(Op{Name: "log.bhash2", I: i, J: j, N: int64(j2), S: v})
						}
					}
				}
			}
		case "receipts":
			for j := range items {
				r := asMap(items[j])
				own, _ := parseU(r["blockNumber"])
				add(Op{Name: "rcpt.renum", I: i, J: j, N: int64(oc.start) - 1})
				add(Op{Name: "rcpt.renum", I: i, J: j, N: int64(oc.start + oc.limit)})
				add(Op{Name: "rcpt.renum", I: i, J: j, N: int64(oc.start+oc.limit) + 1})
				for _, m := range otherBlocks(own, oc) {
					add(Op{Name: "rcpt.renum", I: i, J: j, N: int64(m)})
					add(Op{Name: "rcpt.renum", I: i, J: j, N: int64(m), S: "num+hash"})
				}
				for j2 := j + 1; j2 < len(items); j2++ {
					add(Op{Name: "rcpt.swaptx", I: i, J: j, N: int64(j2)})
				}
				add(Op{Name: "rcpt.txidx", I: i, J: j, N: 7})
				add(Op{Name: "rcpt.drop", I: i, J: j})
				add(Op{Name: "rcpt.dup", I: i, J: j})
				for _, v := range hashVariants {
					add(Op{Name: "rcpt.bhash", I: i, J: j, S: v})
					add(Op{Name: "rcpt.txhash", I: i, J: j, S: v})
				}
				if j == 0 {
					for j2 := 1; j2 < len(items); j2++ {
						for _, v := range shortHashes {
							add(Op{Name: "rcpt.bhash2", I: i, J: 0, N: int64(j2), S: v})
						}
					}
				}
			}
		case "traces":
			for j := range items {
				t := asMap(items[j])
				own := uint64(0)
				if f, ok := t["blockNumber"].(float64); ok {
					own = uint64(f)
				}
				add(Op{Name: "trace.renum", I: i, J: j, N: int64(oc.start) - 1})
				add(Op{Name: "trace.renum", I: i, J: j, N: int64(oc.start + oc.limit)})
				for _, m := range otherBlocks(own, oc) {
					add(Op{Name: "trace.renum", I: i, J: j, N: int64(m)})
					add(Op{Name: "trace.renum", I: i, J: j, N: int64(m), S: "num+hash"})
				}
				seen := map[float64]bool{}
				for _, o := range items {
					if p, ok := asMap(o)["transactionPosition"].(float64); ok && !seen[p] {
						seen[p] = true
						add(Op{Name: "trace.txpos", I: i, J: j, N: int64(p)})
					}
				}
				add(Op{Name: "trace.txpos", I: i, J: j, N: 7})
				add(Op{Name: "trace.drop", I: i, J: j})
				add(Op{Name: "trace.dup", I: i, J: j})
				for _, v := range hashVariants {
					add(Op{Name: "trace.bhash", I: i, J: j, S: v})
					add(Op{Name: "trace.txhash", I: i, J: j, S: v})
				}
				if j == 0 {
					for j2 := 1; j2 < len(items); j2++ {
						for _, v := range shortHashes {
							add(Op{Name: "trace.bhash2", I: i, J: 0, N: int64(j2), S: v})
						}
					}
				}
			}
		}
	}
	if batch {
		add(Op{Name: "append0"})
	}
	return ops
}
