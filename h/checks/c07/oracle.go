package c07

import (
	"bytes"
	"encoding/hex"
	"encoding/json"
	"fmt"
	"math/big"
	"sort"
	"strconv"
	"strings"

	"github.com/indexsupply/shovel/eth"

	"verifh/simeth"
)

// The oracle reads ONLY what was actually sent (Exchange.Body / Status / Err as
// recorded by the simulated node, decoded here with encoding/json) and what the
// client returned. It shares no code with the client.

type sHeader struct {
	num          uint64
	hash, parent []byte
	time         uint64
}

type sLog struct {
	bn, ti, li        uint64
	bhash, addr, data []byte
	topics            [][]byte
	resp              int
}

type sRcpt struct {
	bn, ti          uint64
	bhash           []byte
	status, gasUsed uint64
	egp             *big.Int
	caddr           []byte
	logs            []sLog
	resp            int
}

type sTrace struct {
	bn, ti   uint64
	bhash    []byte
	from, to []byte
	value    *big.Int
	callType string
	resp     int
}

type model struct {
	must    []string // reasons why the call has to fail, "<kind>:<reason>", in exchange order
	headers map[uint64][]sHeader
	logs    []sLog
	rcpts   []sRcpt
	traces  []sTrace
	mixed   map[string]bool // kind -> some response of that kind carries items naming different blocks

	txHashes     map[key2][]byte // (block, tx index) -> hash, from eth_getBlockByNumber(full) responses
	txHashChange int             // returned txs whose hash differs from the one the block response carried (informational)
}

func hashOf(hs []sHeader) []byte {
	if len(hs) == 0 {
		return nil
	}
	return hs[0].hash
}

func (m *model) need(kind, reason string) {
	r := kind + ":" + reason
	for _, x := range m.must {
		if x == r {
			return
		}
	}
	m.must = append(m.must, r)
}

// ---- field decoding (strconv / encoding/hex / math/big) ----

func pU(v any) (uint64, bool) {
	s, ok := v.(string)
	if !ok || len(s) < 3 || len(s) > 18 || !strings.HasPrefix(s, "0x") {
		return 0, false
	}
	n, err := strconv.ParseUint(s[2:], 16, 64)
	return n, err == nil
}

func pB(v any, nullable bool) ([]byte, bool) {
	if v == nil {
		return nil, nullable
	}
	s, ok := v.(string)
	if !ok || !strings.HasPrefix(s, "0x") {
		return nil, false
	}
	b, err := hex.DecodeString(s[2:])
	return b, err == nil
}

func pI(v any) (*big.Int, bool) {
	s, ok := v.(string)
	if !ok || len(s) < 3 || !strings.HasPrefix(s, "0x") {
		return nil, false
	}
	return new(big.Int).SetString(s[2:], 16)
}

func pN(v any) (uint64, bool) { // JSON number
	f, ok := v.(float64)
	if !ok || f < 0 || f != float64(uint64(f)) {
		return 0, false
	}
	return uint64(f), true
}

func parseHeader(r map[string]any) (sHeader, bool) {
	var h sHeader
	var ok1, ok2, ok3, ok4 bool
	h.num, ok1 = pU(r["number"])
	h.hash, ok2 = pB(r["hash"], false)
	h.parent, ok3 = pB(r["parentHash"], false)
	h.time, ok4 = pU(r["timestamp"])
	return h, ok1 && ok2 && ok3 && ok4
}

func parseLog(l map[string]any, resp int) (sLog, bool) {
	var s sLog
	ok := make([]bool, 6)
	s.bn, ok[0] = pU(l["blockNumber"])
	s.ti, ok[1] = pU(l["transactionIndex"])
	s.li, ok[2] = pU(l["logIndex"])
	s.bhash, ok[3] = pB(l["blockHash"], true)
	s.addr, ok[4] = pB(l["address"], false)
	s.data, ok[5] = pB(l["data"], false)
	tps, isArr := l["topics"].([]any)
	if !isArr {
		return s, false
	}
	for _, t := range tps {
		b, k := pB(t, false)
		if !k {
			return s, false
		}
		s.topics = append(s.topics, b)
	}
	s.resp = resp
	for _, k := range ok {
		if !k {
			return s, false
		}
	}
	return s, true
}

func parseRcpt(r map[string]any, resp int) (sRcpt, bool) {
	var s sRcpt
	ok := make([]bool, 7)
	s.bn, ok[0] = pU(r["blockNumber"])
	s.ti, ok[1] = pU(r["transactionIndex"])
	s.bhash, ok[2] = pB(r["blockHash"], true)
	s.status, ok[3] = pU(r["status"])
	s.gasUsed, ok[4] = pU(r["gasUsed"])
	s.egp, ok[5] = pI(r["effectiveGasPrice"])
	s.caddr, ok[6] = pB(r["contractAddress"], true)
	ls, isArr := r["logs"].([]any)
	if !isArr {
		return s, false
	}
	for _, l := range ls {
		lm, isMap := l.(map[string]any)
		if !isMap {
			return s, false
		}
		sl, k := parseLog(lm, resp)
		if !k {
			return s, false
		}
		s.logs = append(s.logs, sl)
	}
	s.resp = resp
	for _, k := range ok {
		if !k {
			return s, false
		}
	}
	return s, true
}

func parseTrace(t map[string]any, resp int) (sTrace, bool) {
	var s sTrace
	a, isMap := t["action"].(map[string]any)
	if !isMap {
		return s, false
	}
	ok := make([]bool, 6)
	s.bhash, ok[5] = pB(t["blockHash"], true)
	s.bn, ok[0] = pN(t["blockNumber"])
	s.ti, ok[1] = pN(t["transactionPosition"])
	s.from, ok[2] = pB(a["from"], false)
	s.to, ok[3] = pB(a["to"], false)
	s.value, ok[4] = pI(a["value"])
	ct, isStr := a["callType"].(string)
	s.callType, s.resp = ct, resp
	for _, k := range ok {
		if !k {
			return s, false
		}
	}
	return s, isStr
}

// buildModel turns the logged exchanges into the set of things that were sent, plus the
// list of reasons why the property requires the call to fail.
func buildModel(cs *Case, exs []*simeth.Exchange) *model {
	m := &model{headers: map[uint64][]sHeader{}, mixed: map[string]bool{}, txHashes: map[key2][]byte{}}
	inRange := func(n uint64) bool { return n >= cs.Start && n < cs.Start+cs.Limit }
	for xi, ex := range exs {
		kind := exKind(ex)
		if cs.Call != "get" {
			kind = cs.Call
		}
		switch {
		case ex.Err != nil:
			m.need(kind, "transport-error")
			continue
		case ex.Status/100 != 2:
			m.need(kind, "http-status")
			continue
		}
		var tree any
		if err := json.Unmarshal(ex.Body, &tree); err != nil {
			m.need(kind, "undecodable-body")
			continue
		}
		var es []any
		switch x := tree.(type) {
		case []any:
			if !ex.Batch {
				m.need(kind, "wrong-shape")
				continue
			}
			es = x
		case map[string]any:
			if ex.Batch {
				m.need(kind, "wrong-shape")
				continue
			}
			es = []any{x}
		default:
			m.need(kind, "wrong-shape")
			continue
		}
		if len(es) < len(ex.Calls) {
			m.need(kind, "short-batch")
		}
		for ei, e := range es {
			resp := xi*1000 + ei
			em, isMap := e.(map[string]any)
			if !isMap {
				m.need(kind, "wrong-shape")
				continue
			}
			if eo, isObj := em["error"].(map[string]any); isObj {
				if code, isNum := eo["code"].(float64); isNum && code != 0 {
					m.need(kind, "error-object")
				}
			}
			r, has := em["result"]
			if !has {
				m.need(kind, "missing-result")
				continue
			}
			if r == nil {
				m.need(kind, "null-result")
				continue
			}
			switch kind {
			case "headers", "blocks", "latest", "hash":
				ro, isObj := r.(map[string]any)
				h, ok := parseHeader(ro)
				if !isObj || !ok {
					m.need(kind, "wrong-type")
					continue
				}
				if cs.Call == "hash" && h.num != cs.N {
					m.need(kind, "wrong-number")
				}
				m.headers[h.num] = append(m.headers[h.num], h)
				if txs, isArr := ro["transactions"].([]any); isArr {
					for _, t := range txs {
						tm := asMap(t)
						ti, ok1 := pU(tm["transactionIndex"])
						th, ok2 := pB(tm["hash"], false)
						if ok1 && ok2 {
							m.txHashes[key2{h.num, ti}] = th
						}
					}
				}
			case "logs":
				if _, isObj := r.(map[string]any); isObj {
					continue // the sentinel header: judged for presence only (scope decision)
				}
				arr, isArr := r.([]any)
				if !isArr {
					m.need(kind, "wrong-type")
					continue
				}
				for _, it := range arr {
					l, ok := parseLog(asMap(it), resp)
					if !ok {
						m.need(kind, "wrong-type")
						continue
					}
					if !inRange(l.bn) {
						m.need(kind, "out-of-range-item")
					}
					m.logs = append(m.logs, l)
				}
			case "receipts":
				arr, isArr := r.([]any)
				if !isArr {
					m.need(kind, "wrong-type")
					continue
				}
				for i, it := range arr {
					rc, ok := parseRcpt(asMap(it), resp)
					if !ok {
						m.need(kind, "wrong-type")
						continue
					}
					if !inRange(rc.bn) {
						m.need(kind, "out-of-range-item")
					}
					if i > 0 && len(m.rcpts) > 0 && m.rcpts[len(m.rcpts)-1].resp == resp && m.rcpts[len(m.rcpts)-1].bn != rc.bn {
						m.mixed[kind] = true
					}
					m.rcpts = append(m.rcpts, rc)
				}
			case "traces":
				arr, isArr := r.([]any)
				if !isArr {
					m.need(kind, "wrong-type")
					continue
				}
				for i, it := range arr {
					t, ok := parseTrace(asMap(it), resp)
					if !ok {
						m.need(kind, "wrong-type")
						continue
					}
					if !inRange(t.bn) {
						m.need(kind, "out-of-range-item")
					}
					if i > 0 && len(m.traces) > 0 && m.traces[len(m.traces)-1].resp == resp && m.traces[len(m.traces)-1].bn != t.bn {
						m.mixed[kind] = true
					}
					m.traces = append(m.traces, t)
				}
			}
		}
	}
	return m
}

// orderSensitive: the client attaches eth_getLogs results while ranging over a Go map
// (one entry per tx), checking / writing the block hash for the first log of each entry.
// When a block has several entries whose first logs do not all carry the same blockHash
// bytes (or, on plans with headers, not the header's hash) the verdict of the call may
// depend on the iteration order; such cases are executed a fixed number of times.
func (m *model) orderSensitive(f flags) bool {
	// the client looks at the FIRST log (response order) of every (block, tx) entry only
	firstOf := map[key2][]byte{}
	perBlock := map[uint64][][]byte{}
	for _, l := range m.logs {
		k := key2{l.bn, l.ti}
		if _, ok := firstOf[k]; !ok {
			firstOf[k] = l.bhash
			perBlock[l.bn] = append(perBlock[l.bn], l.bhash)
		}
	}
	for bn, hs := range perBlock {
		if len(hs) < 2 { // one entry: nothing to permute
			continue
		}
		ref := hs[0]
		if f.hashed() && len(m.headers[bn]) > 0 {
			ref = m.headers[bn][0].hash
		}
		for _, h := range hs {
			if !bytes.Equal(h, ref) {
				return true
			}
		}
	}
	return false
}

const brokenLinkKey = "get:hash-overwritten-broken-link"

type finding struct {
	key, class, detail string
}

type key2 struct{ bn, ti uint64 }

func (k key2) String() string { return fmt.Sprintf("block %d tx %d", k.bn, k.ti) }

func logEq(a *eth.Log, s *sLog) bool {
	if uint64(a.Idx) != s.li || !bytes.Equal(a.Address, s.addr) || !bytes.Equal(a.Data, s.data) || len(a.Topics) != len(s.topics) {
		return false
	}
	for i := range s.topics {
		if !bytes.Equal(a.Topics[i], s.topics[i]) {
			return false
		}
	}
	return true
}

func sLogSame(a, b *sLog) bool {
	if a.bn != b.bn || a.ti != b.ti || a.li != b.li || !bytes.Equal(a.addr, b.addr) || !bytes.Equal(a.data, b.data) || len(a.topics) != len(b.topics) {
		return false
	}
	for i := range a.topics {
		if !bytes.Equal(a.topics[i], b.topics[i]) {
			return false
		}
	}
	return true
}

func rcptEq(tx *eth.Tx, r *sRcpt) bool {
	if uint64(tx.Status) != r.status || uint64(tx.GasUsed) != r.gasUsed || tx.EffectiveGasPrice.ToBig().Cmp(r.egp) != 0 || !bytes.Equal(tx.ContractAddress, r.caddr) {
		return false
	}
	if len(tx.Logs) != len(r.logs) {
		return false
	}
	for i := range r.logs {
		if !logEq(&tx.Logs[i], &r.logs[i]) {
			return false
		}
	}
	return true
}

func traceEq(a *eth.TraceAction, s *sTrace) bool {
	return bytes.Equal(a.From, s.from) && bytes.Equal(a.To, s.to) && a.Value.ToBig().Cmp(s.value) == 0 && a.CallType == s.callType
}

func tracesEq(tx *eth.Tx, want []sTrace) bool {
	if len(tx.TraceActions) != len(want) {
		return false
	}
	for i := range want {
		if tx.TraceActions[i].Idx != uint64(i) || !traceEq(&tx.TraceActions[i], &want[i]) {
			return false
		}
	}
	return true
}

func bareReceipt(tx *eth.Tx) bool {
	return tx.Status == 0 && tx.GasUsed == 0 && tx.EffectiveGasPrice.IsZero() && len(tx.ContractAddress) == 0
}

// judgeGet evaluates the post-condition of a Client.Get that returned without error.
func judgeGet(cs *Case, out *outcome, m *model) []finding {
	var fs []finding
	seen := map[string]bool{}
	add := func(key, f string, a ...any) {
		if !seen[key] {
			seen[key] = true
			fs = append(fs, finding{key: key, class: "mismatch", detail: fmt.Sprintf(f, a...)})
		}
	}
	blocks := out.blocks
	fl := out.flags

	// 1. exactly the requested consecutive numbers
	if uint64(len(blocks)) != cs.Limit {
		add("get:wrong-length", "requested %d blocks from %d, got %d", cs.Limit, cs.Start, len(blocks))
		return fs
	}
	for i := range blocks {
		if got := uint64(blocks[i].Header.Number); got != cs.Start+uint64(i) {
			pos := "middle"
			switch {
			case i == 0:
				pos = "first"
			case i == len(blocks)-1:
				pos = "last"
			}
			add("get:wrong-number-"+pos, "position %d: requested block %d, returned block %d", i, cs.Start+uint64(i), got)
		}
	}
	if len(fs) > 0 {
		return fs
	}

	// 2. hashes as sent and linked, where the plan supplies them: hash, parent and time of a
	// returned block are those of the header sent for its number.
	if fl.hashed() {
		hk := "headers"
		if fl.B {
			hk = "blocks"
		}
		for i := range blocks {
			h := &blocks[i].Header
			cands := m.headers[uint64(h.Number)]
			if len(cands) == 0 {
				add(hk+":block-never-sent", "block %d was returned but no response carried it", h.Number)
				continue
			}
			exact, rest := false, false
			for _, c := range cands {
				if bytes.Equal(h.Parent, c.parent) && uint64(h.Time) == c.time {
					rest = true
					exact = exact || bytes.Equal(h.Hash, c.hash)
				}
			}
			switch {
			case exact:
			case rest:
				add(hk+":block-hash-not-the-headers", "block %d: returned hash %x (%d bytes), the header sent for it says %x", h.Number, []byte(h.Hash), len(h.Hash), cands[0].hash)
			default:
				add(hk+":header-not-as-sent", "block %d: returned hash %x parent %x time %d; sent hash %x parent %x time %d", h.Number, []byte(h.Hash), []byte(h.Parent), h.Time, cands[0].hash, cands[0].parent, cands[0].time)
			}
			if i > 0 && !bytes.Equal(h.Parent, blocks[i-1].Header.Hash) {
				prev := &blocks[i-1].Header
				asHeader := false
				for _, c := range m.headers[uint64(prev.Number)] {
					asHeader = asHeader || bytes.Equal(prev.Hash, c.hash)
				}
				if asHeader { // the headers as sent were not linked and were accepted
					add(hk+":unlinked-headers-accepted", "returned blocks are not hash-linked: block %d has parent %x but block %d has hash %x (both as sent by the node)", h.Number, []byte(h.Parent), prev.Number, []byte(prev.Hash))
				} else { // linked headers were sent; an item's blockHash replaced the validated hash
					add(brokenLinkKey, "returned blocks are not hash-linked: block %d has parent %x but returned block %d has hash %x (the header sent for it said %x)", h.Number, []byte(h.Parent), prev.Number, []byte(prev.Hash), hashOf(m.headers[uint64(prev.Number)]))
				}
			}
		}
	}

	// 2b. plans without headers: the hash of a block comes from its items; it must be a full
	// 32-byte blockHash carried by ALL items that name the block (else the call has to fail).
	if !fl.hashed() {
		type ih struct {
			kind string
			h    []byte
		}
		per := map[uint64][]ih{}
		for i := range m.logs {
			per[m.logs[i].bn] = append(per[m.logs[i].bn], ih{"logs", m.logs[i].bhash})
		}
		for i := range m.rcpts {
			per[m.rcpts[i].bn] = append(per[m.rcpts[i].bn], ih{"receipts", m.rcpts[i].bhash})
		}
		for i := range m.traces {
			per[m.traces[i].bn] = append(per[m.traces[i].bn], ih{"traces", m.traces[i].bhash})
		}
		for i := range blocks {
			h := &blocks[i].Header
			its := per[uint64(h.Number)]
			if len(its) == 0 {
				continue
			}
			bad := ""
			for _, it := range its {
				if bad == "" && (len(it.h) != 32 || !bytes.Equal(it.h, its[0].h)) {
					bad = it.kind
					var all []string
					for _, x := range its {
						all = append(all, fmt.Sprintf("%s:%x(%dB)", x.kind, x.h, len(x.h)))
					}
					add(bad+":items-without-one-full-blockhash-accepted", "block %d: the items naming it do not all carry one 32-byte blockHash: %s; the call returned it with hash %x", h.Number, strings.Join(all, " "), []byte(h.Hash))
				}
			}
			if bad == "" && !bytes.Equal(h.Hash, its[0].h) {
				add("get:block-hash-not-the-items", "block %d: returned hash %x, every item sent for it says %x", h.Number, []byte(h.Hash), its[0].h)
			}
		}
	}
	// informational: tx hashes supplied by a full block response that an item's transactionHash replaced
	for i := range blocks {
		for j := range blocks[i].Txs {
			tx := &blocks[i].Txs[j]
			if want, ok := m.txHashes[key2{uint64(blocks[i].Header.Number), uint64(tx.Idx)}]; ok && !bytes.Equal(tx.PrecompHash, want) {
				m.txHashChange++
			}
		}
	}

	// 3. everything sent is attached to the block and tx it names; nothing else is
	type want struct {
		logs   []sLog
		rcpts  []sRcpt
		traces []sTrace
	}
	wants := map[key2]*want{}
	at := func(k key2) *want {
		if wants[k] == nil {
			wants[k] = &want{}
		}
		return wants[k]
	}
	for i := range m.logs {
		w := at(key2{m.logs[i].bn, m.logs[i].ti})
		dup := false
		for j := range w.logs {
			dup = dup || sLogSame(&w.logs[j], &m.logs[i])
		}
		if !dup { // the same log sent twice is one log
			w.logs = append(w.logs, m.logs[i])
		}
	}
	for i := range m.rcpts {
		w := at(key2{m.rcpts[i].bn, m.rcpts[i].ti})
		w.rcpts = append(w.rcpts, m.rcpts[i])
	}
	for i := range m.traces {
		w := at(key2{m.traces[i].bn, m.traces[i].ti})
		w.traces = append(w.traces, m.traces[i])
	}
	got := map[key2][]*eth.Tx{}
	for i := range blocks {
		for j := range blocks[i].Txs {
			k := key2{uint64(blocks[i].Header.Number), uint64(blocks[i].Txs[j].Idx)}
			got[k] = append(got[k], &blocks[i].Txs[j])
		}
	}
	sfx := func(kind string) string {
		if m.mixed[kind] {
			return "/mixed-block-response"
		}
		return ""
	}
	// where else is a sent log / receipt / trace attached (other than where an equal item belongs)?
	logElsewhere := func(s *sLog, not key2) (key2, bool) {
		for k, txs := range got {
			if k == not {
				continue
			}
			legit := false
			if w := wants[k]; w != nil {
				for i := range w.logs {
					legit = legit || (w.logs[i].li == s.li && bytes.Equal(w.logs[i].data, s.data) && bytes.Equal(w.logs[i].addr, s.addr))
				}
			}
			if legit {
				continue
			}
			for _, tx := range txs {
				for i := range tx.Logs {
					if logEq(&tx.Logs[i], s) {
						return k, true
					}
				}
			}
		}
		return key2{}, false
	}
	rcptElsewhere := func(s *sRcpt, not key2) (key2, bool) {
		for k, txs := range got {
			if k == not {
				continue
			}
			legit := false
			if w := wants[k]; w != nil {
				for i := range w.rcpts {
					legit = legit || w.rcpts[i].gasUsed == s.gasUsed
				}
			}
			if legit {
				continue
			}
			for _, tx := range txs {
				if rcptEq(tx, s) {
					return k, true
				}
			}
		}
		return key2{}, false
	}
	traceElsewhere := func(s *sTrace, not key2) (key2, bool) {
		for k, txs := range got {
			if k == not {
				continue
			}
			legit := false
			if w := wants[k]; w != nil {
				for i := range w.traces {
					legit = legit || bytes.Equal(w.traces[i].from, s.from)
				}
			}
			if legit {
				continue
			}
			for _, tx := range txs {
				for i := range tx.TraceActions {
					if traceEq(&tx.TraceActions[i], s) {
						return k, true
					}
				}
			}
		}
		return key2{}, false
	}

	var keys []key2
	for k := range wants {
		keys = append(keys, k)
	}
	for k := range got {
		if wants[k] == nil {
			keys = append(keys, k)
		}
	}
	sort.Slice(keys, func(i, j int) bool {
		if keys[i].bn != keys[j].bn {
			return keys[i].bn < keys[j].bn
		}
		return keys[i].ti < keys[j].ti
	})
	empty := &eth.Tx{}
	for _, k := range keys {
		w := wants[k]
		if w == nil {
			w = &want{}
		}
		txs := got[k]
		if len(txs) > 1 {
			add("get:duplicate-tx", "%s appears %d times in the returned block", k, len(txs))
		}
		tx := empty
		if len(txs) > 0 {
			tx = txs[0]
		}
		// logs fetched with eth_getLogs
		if len(m.rcpts) == 0 || len(w.logs) > 0 {
			idx := map[uint64]int{}
			for i := range tx.Logs {
				idx[uint64(tx.Logs[i].Idx)]++
				if idx[uint64(tx.Logs[i].Idx)] == 2 && len(w.rcpts) == 0 {
					add("logs:duplicate-log-index-attached", "%s carries log index %d twice", k, tx.Logs[i].Idx)
				}
			}
			for i := range w.logs {
				s := &w.logs[i]
				n := 0
				for j := range tx.Logs {
					if logEq(&tx.Logs[j], s) {
						n++
					}
				}
				switch {
				case n == 1:
				case n > 1:
					add("logs:attached-twice", "log %d of %s is attached %d times", s.li, k, n)
				default:
					collides := false // the tx it names carries ANOTHER log under the same log index
					for j := range tx.Logs {
						collides = collides || uint64(tx.Logs[j].Idx) == s.li
					}
					if collides {
						add("logs:colliding-log-index-dropped", "the log sent as index %d of %s (data %q) is not attached: %s already carries another log with index %d", s.li, k, s.data, k, s.li)
					} else if e, ok := logElsewhere(s, k); ok {
						add("logs:misattached", "the log sent as index %d of %s (data %q) is attached to %s", s.li, k, s.data, e)
					} else {
						add("logs:sent-but-not-attached", "the log sent as index %d of %s (data %q) is attached nowhere", s.li, k, s.data)
					}
				}
			}
			if len(w.rcpts) == 0 {
				for j := range tx.Logs {
					found := false
					for i := range w.logs {
						found = found || logEq(&tx.Logs[j], &w.logs[i])
					}
					if found {
						continue
					}
					named := ""
					for i := range m.logs {
						if logEq(&tx.Logs[j], &m.logs[i]) {
							named = key2{m.logs[i].bn, m.logs[i].ti}.String()
						}
					}
					if named != "" {
						add("logs:misattached", "%s carries log %d (data %q) which was sent for %s", k, tx.Logs[j].Idx, []byte(tx.Logs[j].Data), named)
					} else {
						add("logs:attached-but-never-sent", "%s carries log %d (data %q) which no response contained for it", k, tx.Logs[j].Idx, []byte(tx.Logs[j].Data))
					}
				}
			}
		}
		// receipts (their nested logs travel with the receipt)
		if len(w.rcpts) > 0 {
			ok := false
			for i := range w.rcpts {
				ok = ok || rcptEq(tx, &w.rcpts[i])
			}
			if !ok {
				s := &w.rcpts[0]
				if e, found := rcptElsewhere(s, k); found {
					add("receipts:misattached"+sfx("receipts"), "the receipt sent for %s (gasUsed %d, %d logs) is attached to %s", k, s.gasUsed, len(s.logs), e)
				} else {
					add("receipts:sent-but-not-attached"+sfx("receipts"), "the receipt sent for %s (status %d gasUsed %d, %d logs) is not what %s carries (status %d gasUsed %d, %d logs)", k, s.status, s.gasUsed, len(s.logs), k, tx.Status, tx.GasUsed, len(tx.Logs))
				}
			}
		} else if len(m.rcpts) > 0 && len(txs) > 0 && (!bareReceipt(tx) || len(tx.Logs) > 0) {
			named := ""
			for i := range m.rcpts {
				if rcptEq(tx, &m.rcpts[i]) {
					named = key2{m.rcpts[i].bn, m.rcpts[i].ti}.String()
				}
			}
			if named != "" {
				add("receipts:misattached"+sfx("receipts"), "%s carries the receipt (gasUsed %d) that was sent for %s", k, tx.GasUsed, named)
			} else {
				add("receipts:attached-but-never-sent"+sfx("receipts"), "%s carries receipt data (status %d gasUsed %d, %d logs) that no response named for it", k, tx.Status, tx.GasUsed, len(tx.Logs))
			}
		}
		// traces, in the order sent
		if !tracesEq(tx, w.traces) {
			switch {
			case len(w.traces) > 0:
				s := &w.traces[0]
				if e, found := traceElsewhere(s, k); found {
					add("traces:misattached"+sfx("traces"), "a trace sent for %s (from %x) is attached to %s", k, s.from, e)
				} else {
					add("traces:sent-but-not-attached"+sfx("traces"), "%d traces were sent for %s, it carries %d (not the same sequence)", len(w.traces), k, len(tx.TraceActions))
				}
			default:
				named := ""
				for i := range m.traces {
					if len(tx.TraceActions) > 0 && traceEq(&tx.TraceActions[0], &m.traces[i]) {
						named = key2{m.traces[i].bn, m.traces[i].ti}.String()
					}
				}
				if named != "" {
					add("traces:misattached"+sfx("traces"), "%s carries a trace (from %x) that was sent for %s", k, []byte(tx.TraceActions[0].From), named)
				} else {
					add("traces:attached-but-never-sent"+sfx("traces"), "%s carries %d traces that no response named for it", k, len(tx.TraceActions))
				}
			}
		}
	}
	return fs
}

// judge returns the outcome class and the findings of one executed case.
// judge returns the outcome class and the findings of one executed case (of its last call).
//
// A follow-up call may legitimately be answered from the client's caches. What it returns
// is then judged against the answer the cache must have taken it from: when the call did
// not itself fetch the headers / blocks (or the latest header), the most recent such
// exchange of the first call is put in front of its own exchanges. If that answer was one
// that has to be rejected, the ordinary clauses fire; their keys carry the prefix
// "cached:" (a rejected answer was served later).
func judge(cs *Case, out *outcome) (string, []finding, *model) {
	exs, prefix := out.ex, ""
	if out.prev != nil {
		var borrowed *simeth.Exchange
		own := false
		switch cs.Call {
		case "get":
			if out.flags.hashed() {
				for _, ex := range out.ex {
					k := exKind(ex)
					own = own || k == "headers" || k == "blocks"
				}
				for _, ex := range out.prev.ex {
					if k := exKind(ex); !own && (k == "headers" || k == "blocks") {
						borrowed = ex
					}
				}
			} else {
				own = true
			}
		case "latest":
			own = len(out.ex) > 0
			if !own && len(out.prev.ex) > 0 {
				borrowed = out.prev.ex[len(out.prev.ex)-1]
			}
		default:
			own = true
		}
		if !own {
			prefix = "cached:"
			if borrowed != nil {
				exs = append([]*simeth.Exchange{borrowed}, out.ex...)
			}
		}
	}
	cls, fs, m := judgeWith(cs, out, exs)
	// lagging node: a call that succeeded although the node does not hold the whole requested
	// range must have returned exactly the data of the full range. The requests the client
	// made are answered once more, by a node that holds the range, and the returned blocks
	// are judged against those answers.
	if len(fs) == 0 && out.err == nil && out.panicked == nil && cs.Call == "get" && len(cs.Ops) == 1 && cs.Ops[0].Name == "lag" {
		var ideal []*simeth.Exchange
		for _, ex := range exs {
			tree, ok := honestFrom(chain, ex)
			if !ok {
				continue
			}
			ideal = append(ideal, &simeth.Exchange{Seq: ex.Seq, Host: ex.Host, Batch: ex.Batch, Calls: ex.Calls, Status: 200, Body: marshal(tree)})
		}
		if _, f2, _ := judgeWith(cs, out, ideal); len(f2) > 0 {
			for i := range f2 {
				f2[i].key = "lagging-node:" + f2[i].key
				f2[i].detail = fmt.Sprintf("the node's head is block %d, the request covers %d..%d; the call returned no error but not the data of the full range (responses below: what a node holding the range answers to the same requests)\n%s\nresponses actually sent: %s", cs.Ops[0].N, cs.Start, cs.Start+cs.Limit-1, f2[i].detail, sentSummary(exs))
			}
			cls, fs = "VIOLATION:"+f2[0].key, f2
		}
	}
	if prefix != "" && len(fs) > 0 {
		for i := range fs {
			fs[i].key = prefix + fs[i].key
			fs[i].detail = "(second call on the same client; first call: err=" + fmt.Sprint(out.prev.err) + ")\n" + fs[i].detail
		}
		cls = "VIOLATION:" + fs[0].key
	}
	return cls, fs, m
}

func judgeWith(cs *Case, out *outcome, exs []*simeth.Exchange) (string, []finding, *model) {
	m := buildModel(cs, exs)
	reason := "well-formed-response"
	if len(m.must) > 0 {
		reason = m.must[0][strings.Index(m.must[0], ":")+1:]
	}
	if out.panicked != nil {
		key := "panic:" + panicSite(out.stack) + "/" + reason
		return "VIOLATION:" + key, []finding{{key: key, class: "panic", detail: fmt.Sprintf("panic: %v\nresponses: %s\n%s", out.panicked, sentSummary(exs), firstLines(out.stack, 14))}}, m
	}
	if out.err != nil {
		return errClass(out.err), nil, m
	}
	if len(m.must) > 0 {
		key := m.must[0] + "-accepted"
		return "VIOLATION:" + key, []finding{{key: key, class: "accepted", detail: fmt.Sprintf("the call returned no error although: %s\nresponses: %s", strings.Join(m.must, ", "), sentSummary(exs))}}, m
	}
	var fs []finding
	switch cs.Call {
	case "get":
		fs = judgeGet(cs, out, m)
	case "latest", "hash":
		var sent *sHeader
		for _, hs := range m.headers {
			for i := range hs {
				sent = &hs[i]
			}
		}
		switch {
		case sent == nil:
			fs = append(fs, finding{key: cs.Call + ":nothing-sent", class: "mismatch", detail: "a value was returned but no header was sent"})
		case !bytes.Equal(out.hash, sent.hash) || (cs.Call == "latest" && out.num != sent.num):
			fs = append(fs, finding{key: cs.Call + ":not-as-sent", class: "mismatch", detail: fmt.Sprintf("returned %d %x, sent %d %x", out.num, out.hash, sent.num, sent.hash)})
		}
	}
	if len(fs) == 0 {
		return "ok:postcondition-holds", nil, m
	}
	for i := range fs {
		fs[i].detail += "\nresponses: " + sentSummary(exs)
	}
	return "VIOLATION:" + fs[0].key, fs, m
}

func firstLines(s string, n int) string {
	l := strings.SplitN(s, "\n", n+1)
	if len(l) > n {
		l = l[:n]
	}
	return strings.Join(l, "\n")
}

// sentSummary abbreviates what was sent (for violation details).
func sentSummary(exs []*simeth.Exchange) string {
	var sb strings.Builder
	for i, ex := range exs {
		var ms []string
		for _, c := range ex.Calls {
			ms = append(ms, c.Method)
		}
		body := string(ex.Body)
		if len(body) > 300 {
			body = body[:300] + fmt.Sprintf("…(%d bytes)", len(ex.Body))
		}
		fmt.Fprintf(&sb, "\n  #%d %s -> status %d err %v body %s", i, strings.Join(ms, ","), ex.Status, ex.Err, body)
	}
	return sb.String()
}
