package c07

// Minimal standalone reproductions of every violation key C07 reports on the
// unchanged tree. Each test drives the REAL jrpc2.Client against the simulated
// node with one hand-written corruption (no use of the check's operator or oracle
// code) and prints what the client returned. A test is SKIPPED when the defect does
// not reproduce (i.e. after the fix landed in /repo).
//
//	cd /verif/h && go test ./checks/c07/ -run TestRepro -v

import (
	"bytes"
	"context"
	"fmt"
	"testing"
	"time"

	"github.com/indexsupply/shovel/eth"
	"github.com/indexsupply/shovel/jrpc2"
	"github.com/indexsupply/shovel/shovel/glf"

	"verifh/simeth"
)

const rurl = "http://node1/nocache"

var rbg = context.Background()

func rclient() *jrpc2.Client { return jrpc2.New(rurl).WithPollDuration(time.Hour) }

// mutateK installs f as the Mutate of the k-th exchange of the next call.
func mutateK(k int, f func(any) any) {
	world()
	nt.Reset()
	nt.Gate = func(ex *simeth.Exchange) {
		if ex.Seq == k {
			ex.Mutate = f
		}
	}
}

func honestNet() { world(); nt.Reset(); nt.Gate = nil }

func lastBody() string {
	ex := nt.Exchanges()
	if len(ex) == 0 {
		return ""
	}
	b := string(ex[len(ex)-1].Body)
	if len(b) > 160 {
		b = b[:160] + "…"
	}
	return b
}

func panics(f func()) (r any) {
	defer func() { r = recover() }()
	f()
	return nil
}

func rget(fields []string, start, limit uint64) ([]eth.Block, error) {
	return rclient().Get(rbg, rurl, glf.New(fields, nil, [][]string{{hx(topic0)}}), start, limit)
}

func el(r any, i int) map[string]any      { return r.([]any)[i].(map[string]any) }
func items(r any, i int) []any            { return el(r, i)["result"].([]any) }
func item(r any, i, j int) map[string]any { return items(r, i)[j].(map[string]any) }

func describe(bs []eth.Block) string {
	s := ""
	for i := range bs {
		s += fmt.Sprintf("[block %d hash %.4x parent %.4x:", bs[i].Header.Number, []byte(bs[i].Header.Hash), []byte(bs[i].Header.Parent))
		for j := range bs[i].Txs {
			tx := &bs[i].Txs[j]
			s += fmt.Sprintf(" tx%d(status=%d gasUsed=%d logs=%d traces=%d)", tx.Idx, tx.Status, tx.GasUsed, len(tx.Logs), len(tx.TraceActions))
		}
		s += "] "
	}
	return s
}

// panic:jrpc2.(*Client).Hash/null-result — an HONEST node asked for a block beyond its head answers {"result":null}.
func TestRepro_HashNullResultPanics(t *testing.T) {
	honestNet()
	r := panics(func() { rclient().Hash(rbg, rurl, chain.Head().Num+1) })
	if r == nil {
		t.Skip("not reproduced (fixed?)")
	}
	t.Logf("REPRODUCED Client.Hash(head+1): node sent %s -> panic: %v", lastBody(), r)
}

// panic:jrpc2.(*Client).Hash/missing-result and /wrong-shape (body `null`)
func TestRepro_HashNoResultPanics(t *testing.T) {
	for name, f := range map[string]func(any) any{
		"result member missing": func(r any) any { delete(r.(map[string]any), "result"); return r },
		"body is null":          func(r any) any { return nil },
	} {
		mutateK(0, f)
		r := panics(func() { rclient().Hash(rbg, rurl, 1) })
		if r == nil {
			t.Skipf("%s: not reproduced", name)
		}
		t.Logf("REPRODUCED Client.Hash(1), %s: node sent %s -> panic: %v", name, lastBody(), r)
	}
}

// panic:jrpc2.(*Client).Latest/{null-result,missing-result,wrong-shape}
func TestRepro_LatestNoResultPanics(t *testing.T) {
	for name, f := range map[string]func(any) any{
		"result null":           func(r any) any { r.(map[string]any)["result"] = nil; return r },
		"result member missing": func(r any) any { delete(r.(map[string]any), "result"); return r },
		"body is null":          func(r any) any { return nil },
	} {
		mutateK(0, f)
		r := panics(func() { rclient().Latest(rbg, rurl, 0) })
		if r == nil {
			t.Skipf("%s: not reproduced", name)
		}
		t.Logf("REPRODUCED Client.Latest, %s: node sent %s -> panic: %v", name, lastBody(), r)
	}
}

// hash:wrong-number-accepted — Hash(n) returns the hash of whatever block the node answered with.
func TestRepro_HashWrongNumberAccepted(t *testing.T) {
	mutateK(0, func(r any) any { // the node answers the request for block 4 with block 3
		m, _ := simeth.Answer(chain, simeth.Call{Method: "eth_getBlockByNumber", Params: []any{"0x3", true}, ID: "x"})
		return m
	})
	h, err := rclient().Hash(rbg, rurl, 4)
	if err != nil || !bytes.Equal(h, chain.Blocks[3].Hash) {
		t.Skipf("not reproduced: %x %v", h, err)
	}
	t.Logf("REPRODUCED Client.Hash(4) = %.4x (the hash of block 3, as answered; block 4 is %.4x), err=%v", h, chain.Blocks[4].Hash, err)
}

// panic:jrpc2.(*Client).logs/short-batch and /wrong-shape
func TestRepro_LogsShortBatchPanics(t *testing.T) {
	for name, f := range map[string]func(any) any{
		"batch of 2 answered with 1 element": func(r any) any { return r.([]any)[:1] },
		"batch answered with []":             func(r any) any { return []any{} },
		"batch answered with null":           func(r any) any { return nil },
	} {
		mutateK(0, f)
		r := panics(func() { rget([]string{"log_idx"}, 1, 1) })
		if r == nil {
			t.Skipf("%s: not reproduced", name)
		}
		t.Logf("REPRODUCED Get(logs,1,1), %s -> panic: %v", name, r)
	}
}

// logs:null-result-accepted, logs:missing-result-accepted
func TestRepro_LogsNullResultAccepted(t *testing.T) {
	for name, f := range map[string]func(any) any{
		"eth_getLogs result null":    func(r any) any { el(r, 1)["result"] = nil; return r },
		"eth_getLogs result missing": func(r any) any { delete(el(r, 1), "result"); return r },
	} {
		mutateK(0, f)
		bs, err := rget([]string{"log_idx"}, 1, 1)
		if err != nil || len(bs) != 1 || len(bs[0].Txs) != 0 {
			t.Skipf("%s: not reproduced: %v %s", name, err, describe(bs))
		}
		t.Logf("REPRODUCED Get(logs,1,1), %s: err=nil, returned %s(block 1 has 4 matching logs)", name, describe(bs))
	}
}

// logs:colliding-log-index-dropped — two logs of one tx with the same logIndex: the second is dropped silently.
func TestRepro_LogsSameIndexDropped(t *testing.T) {
	mutateK(0, func(r any) any { item(r, 1, 1)["logIndex"] = "0x0"; return r }) // block 1 tx 0: logs 0 and 1 -> 0 and 0
	bs, err := rget([]string{"log_idx"}, 1, 1)
	if err != nil || len(bs[0].Tx(0).Logs) != 1 {
		t.Skipf("not reproduced: %v %s", err, describe(bs))
	}
	t.Logf("REPRODUCED Get(logs,1,1) with two logs carrying logIndex 0 in tx 0: err=nil, tx 0 carries %d log (data %q); the log with data \"b1t0l1\" is gone", len(bs[0].Tx(0).Logs), []byte(bs[0].Tx(0).Logs[0].Data))
}

// receipts:null-result-accepted — HONEST node, range reaching beyond its head: block head+1 comes back empty, no error.
func TestRepro_ReceiptsBeyondHeadAccepted(t *testing.T) {
	honestNet()
	head := chain.Head().Num
	bs, err := rget([]string{"tx_status"}, head, 2)
	if err != nil || len(bs) != 2 {
		t.Skipf("not reproduced: %v", err)
	}
	t.Logf("REPRODUCED Get(receipts,%d,2) against an honest node with head %d: err=nil, returned %s; node sent %s", head, head, describe(bs), lastBody())
}

// receipts:{null-result,missing-result,short-batch,wrong-shape}-accepted
func TestRepro_ReceiptsNoResultAccepted(t *testing.T) {
	for name, f := range map[string]func(any) any{
		"result null":              func(r any) any { el(r, 0)["result"] = nil; return r },
		"result member missing":    func(r any) any { delete(el(r, 0), "result"); return r },
		"batch element dropped":    func(r any) any { return r.([]any)[1:] },
		"batch answered with []":   func(r any) any { return []any{} },
		"batch answered with null": func(r any) any { return nil },
	} {
		mutateK(0, f)
		bs, err := rget([]string{"tx_status"}, 1, 2)
		if err != nil || len(bs) != 2 || len(bs[0].Txs) != 0 {
			t.Skipf("%s: not reproduced: %v %s", name, err, describe(bs))
		}
		t.Logf("REPRODUCED Get(receipts,1,2), %s: err=nil, returned %s(block 1 has 2 txs)", name, describe(bs))
	}
}

// receipts:out-of-range-item-accepted and receipts:misattached/mixed-block-response —
// only the FIRST receipt's blockNumber is looked at.
func TestRepro_ReceiptsLaterReceiptRenumbered(t *testing.T) {
	mutateK(0, func(r any) any { item(r, 0, 1)["blockNumber"] = "0x63"; return r }) // block 1's 2nd receipt says block 99
	bs, err := rget([]string{"tx_status"}, 1, 3)
	if err != nil || len(bs[0].Txs) != 2 {
		t.Skipf("out of range: not reproduced: %v %s", err, describe(bs))
	}
	t.Logf("REPRODUCED Get(receipts,1,3), 2nd receipt of block 1 says blockNumber 99: err=nil, returned %s", describe(bs))

	mutateK(0, func(r any) any { item(r, 0, 1)["blockNumber"] = "0x3"; return r }) // … says block 3
	bs, err = rget([]string{"tx_status"}, 1, 3)
	if err != nil || len(bs[0].Txs) != 2 || uint64(bs[0].Tx(1).GasUsed) != chain.Blocks[1].Txs[1].GasUsed {
		t.Skipf("in range: not reproduced: %v %s", err, describe(bs))
	}
	t.Logf("REPRODUCED Get(receipts,1,3), 2nd receipt of block 1 says blockNumber 3: err=nil, it is attached to block 1: %s", describe(bs))
}

// traces:out-of-range-item-accepted, traces:misattached/mixed-block-response, traces:sent-but-not-attached
func TestRepro_TracesRenumbered(t *testing.T) {
	mutateK(0, func(r any) any { // block 1's 2nd trace says block 99
		r.(map[string]any)["result"].([]any)[1].(map[string]any)["blockNumber"] = float64(99)
		return r
	})
	bs, err := rget([]string{"trace_action_from"}, 1, 1)
	if err != nil || len(bs[0].Tx(1).TraceActions) != 2 {
		t.Skipf("later trace: not reproduced: %v %s", err, describe(bs))
	}
	t.Logf("REPRODUCED Get(traces,1,1), 2nd trace says blockNumber 99: err=nil, returned %s", describe(bs))

	mutateK(0, func(r any) any { // the only trace of block 3 says block 4
		r.(map[string]any)["result"].([]any)[0].(map[string]any)["blockNumber"] = float64(4)
		return r
	})
	bs, err = rget([]string{"trace_action_from"}, 3, 2)
	if err != nil || len(bs[0].Txs) != 0 || len(bs[1].Tx(0).TraceActions) != 1 {
		t.Skipf("first trace: not reproduced: %v %s", err, describe(bs))
	}
	t.Logf("REPRODUCED Get(traces,3,2), trace of block 3 says blockNumber 4: err=nil, the trace (from %.4x) is attached nowhere: %s", chain.Blocks[3].Txs[0].Traces[0].From, describe(bs))
}

// get:wrong-numbers — validate() checks the first and the last number only.
func TestRepro_MiddleHeaderRenumbered(t *testing.T) {
	mutateK(0, func(r any) any { el(r, 1)["result"].(map[string]any)["number"] = "0x63"; return r })
	bs, err := rget([]string{"block_num"}, 1, 3)
	if err != nil || uint64(bs[1].Header.Number) != 99 {
		t.Skipf("not reproduced: %v %s", err, describe(bs))
	}
	t.Logf("REPRODUCED Get(headers,1,3), 2nd header says number 99: err=nil, returned %s", describe(bs))
}

// get:broken-link — an item's blockHash is written over the validated header hash.
func TestRepro_ItemHashOverwritesValidatedHash(t *testing.T) {
	mutateK(1, func(r any) any { item(r, 2, 0)["blockNumber"] = "0x2"; return r }) // block 3's receipt says block 2 (keeps block 3's hash)
	bs, err := rget([]string{"block_time", "tx_status"}, 1, 3)
	if err != nil || bytes.Equal(bs[2].Header.Parent, bs[1].Header.Hash) {
		t.Skipf("not reproduced: %v %s", err, describe(bs))
	}
	t.Logf("REPRODUCED Get(headers+receipts,1,3), receipt of block 3 says blockNumber 2: err=nil, block 2 now carries block 3's hash, chain not linked: %s", describe(bs))
}

// (thorough only) receipts:undecodable-body-accepted, panic:…/undecodable-body — the truncated body `nul` decodes without error.
func TestRepro_TruncatedNullBodyAccepted(t *testing.T) {
	world()
	nt.Reset()
	nt.Gate = func(ex *simeth.Exchange) {
		ex.Mutate = func(any) any { return nil }
		ex.Fault = simeth.Fault{Kind: "truncate", Keep: 3}
	}
	bs, err := rget([]string{"tx_status"}, 1, 1)
	if err != nil || len(bs[0].Txs) != 0 {
		t.Skipf("not reproduced: %v %s", err, describe(bs))
	}
	t.Logf("REPRODUCED Get(receipts,1,1), node sent the 3 bytes %q: err=nil, returned %s", lastBody(), describe(bs))
	nt.Reset()
	r := panics(func() { rclient().Hash(rbg, rurl, 1) })
	if r == nil {
		t.Skip("hash: not reproduced (fixed?)")
	}
	t.Logf("REPRODUCED Client.Hash(1), node sent the 3 bytes %q -> panic: %v", lastBody(), r)
}
