package c07

import (
	"strings"
	"testing"

	"verifh/simeth"
)

// Self-tests of the check's own machinery (not of the code under test).

func TestChainAndPlans(t *testing.T) {
	world()
	if err := simeth.CheckRender(chain); err != nil {
		t.Fatal(err)
	}
	ps := plans()
	var names []string
	for _, p := range ps {
		names = append(names, p.F.String())
	}
	if got := strings.Join(names, " "); got != "none h b r l t ht hr hl bt bl br rt lt" {
		t.Errorf("plans: %s", got)
	}
	// chain shape demanded by the design: every quick range within the chain has a block with >= 2 txs of >= 2 logs
	for _, r := range quickRanges {
		if beyondHead(r[0], r[1]) {
			continue
		}
		rich := false
		for n := r[0]; n < r[0]+r[1]; n++ {
			k := 0
			for _, tx := range chain.Blocks[n].Txs {
				if len(tx.Logs) >= 2 {
					k++
				}
			}
			rich = rich || k >= 2
		}
		if !rich {
			t.Errorf("range %v has no rich block", r)
		}
	}
}

// every baseline inside the chain holds, and the oracle is not vacuous: a response the
// client handles correctly but that the oracle is told was different must be flagged.
func TestBaselinesAndOracleBite(t *testing.T) {
	world()
	for _, p := range plans() {
		for _, r := range [][2]uint64{{1, 1}, {3, 2}} {
			for _, cached := range []bool{false, true} {
				cs := &Case{Call: "get", Fields: p.Fields, Start: r[0], Limit: r[1], Cached: cached}
				cls, fs, out, _ := evalCase(cs)
				if cls != "ok:postcondition-holds" || len(fs) != 0 {
					t.Errorf("%s %v cached=%v: %s %v (err %v)", p.F, r, cached, cls, fs, out.err)
					continue
				}
				if len(out.ex) == 0 {
					continue
				}
				// tamper with what the oracle believes was sent in the last exchange: swap in another block's answer
				last := out.ex[len(out.ex)-1]
				orig := last.Body
				last.Body = []byte(strings.ReplaceAll(string(orig), `"0x`, `"0x1`))
				if cls2, fs2, _ := judge(cs, out); len(fs2) == 0 {
					t.Errorf("%s %v: oracle accepted tampered evidence (%s)", p.F, r, cls2)
				}
				last.Body = orig
			}
		}
	}
}

func TestEnumerationIsDistinctAndApplicable(t *testing.T) {
	world()
	cs := &Case{Call: "get", Fields: []string{"block_time", "log_idx"}, Start: 1, Limit: 3}
	out := execute(cs)
	if out.err != nil || len(out.ex) != 2 {
		t.Fatalf("baseline: %v, %d exchanges", out.err, len(out.ex))
	}
	oc := opCtx{1, 3}
	total := 0
	for k, ex := range out.ex {
		tree, _ := honest(ex)
		ops := enumOps(k, ex, clone(tree), oc, false)
		total += len(ops)
		seen := map[string]bool{}
		for _, op := range ops {
			if isFault(op.Name) {
				continue
			}
			h, _ := honest(ex)
			m, ok := applyTree(op, h, oc)
			b := string(marshal(m))
			if !ok || seen[b] {
				t.Errorf("op %v: applicable=%v duplicate=%v", op, ok, seen[b])
			}
			seen[b] = true
		}
	}
	if total < 200 {
		t.Errorf("only %d operators", total)
	}
}
