package c07

import (
	"context"
	"encoding/hex"
	"fmt"
	"io"
	"log/slog"
	"math/big"
	"runtime/debug"
	"strings"
	"sync"
	"time"

	"github.com/indexsupply/shovel/eth"
	"github.com/indexsupply/shovel/jrpc2"
	"github.com/indexsupply/shovel/shovel/glf"

	"verifh/simeth"
)

// ---- the world: one simulated node per process ------------------------------

const host = "node1"

var (
	worldOnce sync.Once
	nt        *simeth.Net
	node      *simeth.Node
	chain     *simeth.Chain

	topic0  = simeth.Word("C07.topic0")
	topic1  = simeth.Word("C07.topic1")
	topic2  = simeth.Word("C07.topic2")
	topicX  = simeth.Word("C07.other")
	addrA   = simeth.Addr("C07.A")
	addrB   = simeth.Addr("C07.B")
	bogus   = simeth.Word("C07.bogus")
	foreign = simeth.Word("C07.fork") // the hash of the same block number on another fork
)

func hx(b []byte) string { return "0x" + hex.EncodeToString(b) }

func urlFor(cached bool) string {
	if cached {
		return "http://" + host
	}
	return "http://" + host + "/nocache"
}

func lg(addr []byte, data string, topics ...[]byte) *simeth.Log {
	return &simeth.Log{Address: addr, Topics: topics, Data: []byte(data), Tag: data}
}

func tr(seed, ct string) *simeth.Trace {
	v := new(big.Int).SetBytes(simeth.Word("C07.v" + seed)[:12])
	return &simeth.Trace{From: simeth.Addr("C07.f" + seed), To: simeth.Addr("C07.t" + seed), Value: v, CallType: ct}
}

// buildChain: genesis + 8 blocks.
//
//	1: 2 txs x 2 logs      2: empty            3: 1 tx, 1 log        4: 2 txs, 3+2 logs (one log does not match topic0)
//	5: 1 tx, 2 logs        6: 2 txs x 2 logs   7: empty              8: 2 txs, 1+0 logs
//
// every tx has 1..2 traces; logs carry 1..3 topics and come from two addresses.
func buildChain() *simeth.Chain {
	specs := []simeth.BlockSpec{
		{Txs: []simeth.TxSpec{
			{Logs: []*simeth.Log{lg(addrA, "b1t0l0", topic0), lg(addrB, "b1t0l1", topic0, topic1)}, Traces: []*simeth.Trace{tr("1a", "call")}},
			{Logs: []*simeth.Log{lg(addrA, "b1t1l2", topic0, topic1, topic2), lg(addrB, "b1t1l3", topic0)}, Traces: []*simeth.Trace{tr("1b", "call"), tr("1c", "delegatecall")}},
		}},
		{},
		{Txs: []simeth.TxSpec{
			{Logs: []*simeth.Log{lg(addrB, "b3t0l0", topic0, topic1)}, Traces: []*simeth.Trace{tr("3a", "staticcall")}},
		}},
		{Txs: []simeth.TxSpec{
			{Logs: []*simeth.Log{lg(addrA, "b4t0l0", topic0), lg(addrA, "b4t0l1", topic0, topic1), lg(addrB, "b4t0l2", topicX)}, Traces: []*simeth.Trace{tr("4a", "call")}},
			{Logs: []*simeth.Log{lg(addrB, "b4t1l3", topic0, topic1, topic2), lg(addrA, "b4t1l4", topic0)}, Traces: []*simeth.Trace{tr("4b", "call")}, NoTo: true},
		}},
		{Txs: []simeth.TxSpec{
			{Logs: []*simeth.Log{lg(addrA, "b5t0l0", topic0, topic1), lg(addrB, "b5t0l1", topic0)}, Traces: []*simeth.Trace{tr("5a", "call"), tr("5b", "call")}},
		}},
		{Txs: []simeth.TxSpec{
			{Logs: []*simeth.Log{lg(addrB, "b6t0l0", topic0), lg(addrA, "b6t0l1", topic0, topic1)}, Traces: []*simeth.Trace{tr("6a", "delegatecall")}},
			{Logs: []*simeth.Log{lg(addrA, "b6t1l2", topic0, topic1, topic2), lg(addrB, "b6t1l3", topic0, topic1)}, Traces: []*simeth.Trace{tr("6b", "call")}},
		}},
		{},
		{Txs: []simeth.TxSpec{
			{Logs: []*simeth.Log{lg(addrA, "b8t0l0", topic0)}, Traces: []*simeth.Trace{tr("8a", "call")}},
			{Traces: []*simeth.Trace{tr("8b", "call")}},
		}},
	}
	return simeth.Build(specs, 7)
}

func world() {
	worldOnce.Do(func() {
		chain = buildChain()
		nt = simeth.NewNet()
		node = simeth.NewNode(host, chain)
		nt.Add(node)
		nt.Install()
		// the client logs every rejected segment; keep the worker logs small
		slog.SetDefault(slog.New(slog.NewTextHandler(io.Discard, &slog.HandlerOptions{Level: slog.Level(100)})))
	})
}

// ---- plans ------------------------------------------------------------------

// the 28 field names understood by dig.logWithCtx.get
var fieldNames = []string{
	"block_hash", "block_num", "block_time", "tx_hash", "tx_idx", "tx_signer", "tx_to", "tx_value", "tx_input",
	"tx_type", "tx_status", "log_idx", "tx_gas_used", "tx_gas_price", "tx_effective_gas_price", "tx_contract_address",
	"tx_max_priority_fee_per_gas", "tx_max_fee_per_gas", "tx_nonce", "log_addr", "trace_action_call_type",
	"trace_action_idx", "trace_action_from", "trace_action_to", "trace_action_value", "src_name", "ig_name", "chain_id",
}

type flags struct{ H, B, R, L, T bool }

func flagsOf(f *glf.Filter) flags {
	return flags{f.UseHeaders, f.UseBlocks, f.UseReceipts, f.UseLogs, f.UseTraces}
}

func (f flags) String() string {
	s := ""
	for _, x := range []struct {
		on bool
		c  string
	}{{f.H, "h"}, {f.B, "b"}, {f.R, "r"}, {f.L, "l"}, {f.T, "t"}} {
		if x.on {
			s += x.c
		}
	}
	if s == "" {
		return "none"
	}
	return s
}

// hashed: the plan supplies block hashes that validate() links.
func (f flags) hashed() bool { return f.H || f.B }

// fetchesLogs: Client.Get uses a switch: receipts, else logs, else traces.
func (f flags) fetchesLogs() bool { return f.L && !f.R }

type plan struct {
	Fields []string
	F      flags
}

// plans: every distinct flag combination reachable from glf.New over subsets of size <= 2 of the field names.
func plans() []plan {
	seen := map[flags]bool{}
	var out []plan
	add := func(fields []string) {
		f := flagsOf(glf.New(fields, nil, nil))
		if !seen[f] {
			seen[f] = true
			out = append(out, plan{Fields: fields, F: f})
		}
	}
	add(nil)
	for i := range fieldNames {
		add([]string{fieldNames[i]})
	}
	for i := range fieldNames {
		for j := i + 1; j < len(fieldNames); j++ {
			add([]string{fieldNames[i], fieldNames[j]})
		}
	}
	return out
}

// ---- cases ------------------------------------------------------------------

// Op is one corruption: applied to the K-th exchange of the call.
type Op struct {
	K    int    `json:"k"`
	Name string `json:"op"`
	I    int    `json:"i,omitempty"` // batch element
	J    int    `json:"j,omitempty"` // item within the element's result array (or second element for swap)
	N    int64  `json:"n,omitempty"` // numeric parameter (target block, code, index)
	S    string `json:"s,omitempty"` // variant
}

func (o Op) String() string {
	return fmt.Sprintf("k%d:%s(i=%d,j=%d,n=%d,s=%s)", o.K, o.Name, o.I, o.J, o.N, o.S)
}

// Case is the replayable description of one evaluation.
type Case struct {
	Call   string   `json:"call"` // "get" | "latest" | "hash"
	Fields []string `json:"fields,omitempty"`
	Addrs  []string `json:"addrs,omitempty"`
	Start  uint64   `json:"start,omitempty"`
	Limit  uint64   `json:"limit,omitempty"`
	Cached bool     `json:"cached,omitempty"`
	N      uint64   `json:"n,omitempty"` // Hash(n)
	Ops    []Op     `json:"ops,omitempty"`
	Follow string   `json:"follow,omitempty"` // "" | "same" | "good": repeat the call on the same client, the node answering the same corrupted / an honest answer; the SECOND call is judged
}

type outcome struct {
	blocks   []eth.Block
	num      uint64
	hash     []byte
	err      error
	panicked any
	stack    string
	ex       []*simeth.Exchange
	applied  []bool // per op: reached and applicable
	flags    flags
	prev     *outcome // the first call, when this is the outcome of a follow-up call on the same client
}

// exSig identifies an exchange within one call by what it asks for: kind and occurrence.
func exSig(ex *simeth.Exchange, seen map[string]int) string {
	k := exKind(ex)
	n := seen[k]
	seen[k]++
	return fmt.Sprintf("%s#%d", k, n)
}

// execute drives the real client against the simulated node: one call with the case's
// corruptions and, for a follow-up case, a second identical call on the SAME client with
// the node answering the same corrupted answers again ("same") or honestly ("good").
// The outcome of the last call is returned (prev = the first).
func execute(cs *Case) *outcome {
	world()
	url := urlFor(cs.Cached)
	client := jrpc2.New(url).WithPollDuration(time.Hour)
	defer func() { nt.Gate = nil }()

	first := runCall(cs, client, url, cs.Ops, nil, false)
	if cs.Follow == "" {
		return first
	}
	// which request each corrupted exchange of the first call answered
	sigs, seen := map[int]string{}, map[string]int{}
	for _, ex := range first.ex {
		sigs[ex.Seq] = exSig(ex, seen)
	}
	var ops []Op
	if cs.Follow == "same" {
		ops = cs.Ops
	}
	second := runCall(cs, client, url, ops, sigs, true)
	second.prev = first
	return second
}

// runCall performs one call. Operator op is applied to the exchange with Seq == op.K, or,
// in a follow-up call (sigs != nil), to the exchange asking what exchange op.K of the
// first call asked (a cache may have removed earlier exchanges).
func runCall(cs *Case, client *jrpc2.Client, url string, ops []Op, sigs map[int]string, follow bool) *outcome {
	out := &outcome{applied: make([]bool, len(ops))}
	nt.Reset()
	oc := opCtx{start: cs.Start, limit: cs.Limit}
	seen := map[string]int{}
	nt.Gate = func(ex *simeth.Exchange) {
		sig := exSig(ex, seen)
		var mine []int
		src := chain
		for i := range ops {
			if ops[i].Name == "lag" { // the node serves every request from a chain that ends at block N
				src = lagChain(uint64(ops[i].N))
				out.applied[i] = uint64(ops[i].N) < cs.Start+cs.Limit-1
				continue
			}
			if sigs == nil && ops[i].K == ex.Seq || sigs != nil && sigs[ops[i].K] == sig {
				mine = append(mine, i)
			}
		}
		if len(mine) == 0 && src == chain {
			return
		}
		tree, ok := honestFrom(src, ex)
		if !ok {
			return
		}
		for _, i := range mine {
			if op := ops[i]; !isFault(op.Name) {
				tree, out.applied[i] = applyTree(op, tree, oc)
			}
		}
		final := tree
		ex.Mutate = func(any) any { return final }
		body := marshal(final)
		for _, i := range mine {
			op := ops[i]
			if !isFault(op.Name) {
				continue
			}
			out.applied[i] = true
			switch op.Name {
			case "transport":
				ex.Fault = simeth.Fault{Kind: "transport"}
			case "status":
				b := "<html><body>upstream says no</body></html>"
				if op.S == "json" {
					b = string(body)
				}
				ex.Fault = simeth.Fault{Kind: "status", Code: int(op.N), Body: b}
			case "trunc":
				ex.Fault = simeth.Fault{Kind: "truncate", Keep: truncPos(op.S, body)}
			}
		}
	}
	func() {
		defer func() {
			if r := recover(); r != nil {
				out.panicked, out.stack = r, string(debug.Stack())
			}
		}()
		ctx := context.Background()
		switch cs.Call {
		case "get":
			f := glf.New(cs.Fields, cs.Addrs, [][]string{{hx(topic0)}})
			out.flags = flagsOf(f)
			out.blocks, out.err = client.Get(ctx, url, f, cs.Start, cs.Limit)
		case "latest":
			n := uint64(0)
			if follow {
				n = 1 // may be answered from the client's latest-block cache
			}
			out.num, out.hash, out.err = client.Latest(ctx, url, n)
		case "hash":
			out.hash, out.err = client.Hash(ctx, url, cs.N)
		}
	}()
	out.ex = nt.Exchanges()
	return out
}

var lagChains = map[uint64]*simeth.Chain{}

// lagChain is the honest chain as a node sees it whose head is block h.
func lagChain(h uint64) *simeth.Chain {
	if h >= chain.Head().Num {
		return chain
	}
	if lagChains[h] == nil {
		lagChains[h] = chain.Truncate(h)
	}
	return lagChains[h]
}

// honest computes the uncorrupted response tree of an exchange.
func honest(ex *simeth.Exchange) (any, bool) { return honestFrom(chain, ex) }

// honestFrom computes the faithful response tree of an exchange for a node serving chain c.
func honestFrom(c *simeth.Chain, ex *simeth.Exchange) (any, bool) {
	var resps []any
	for _, call := range ex.Calls {
		m, err := simeth.Answer(c, call)
		if err != nil {
			return nil, false
		}
		resps = append(resps, m)
	}
	if !ex.Batch {
		return resps[0], true
	}
	return resps, true
}

// panicSite names the top frame of the code under test in a recovered stack.
func panicSite(stack string) string {
	const mod = "github.com/indexsupply/shovel/"
	for _, line := range strings.Split(stack, "\n") {
		if !strings.HasPrefix(line, mod) {
			continue
		}
		fn := strings.TrimPrefix(line, mod)
		if i := strings.LastIndex(fn, "("); i > 0 && strings.HasSuffix(fn, ")") {
			fn = fn[:i]
		}
		return fn
	}
	return "unknown"
}

// errClass maps a client error to a stable outcome class.
func errClass(err error) string {
	s := err.Error()
	switch {
	case strings.Contains(s, "rpc http error"):
		return "error:http"
	case strings.Contains(s, "unable to json decode"):
		return "error:decode"
	case strings.Contains(s, "unable to do http request"):
		return "error:transport"
	case strings.Contains(s, "code="):
		return "error:rpc"
	case strings.Contains(s, "rpc response contains invalid data"), strings.Contains(s, "corrupt chain segment"), strings.Contains(s, "no blocks"):
		return "error:validate"
	case strings.Contains(s, "out of range block"):
		return "error:range"
	case strings.Contains(s, "block not found"), strings.Contains(s, "missing block in block map"):
		return "error:unknown-block"
	case strings.Contains(s, "empty result"):
		return "error:empty-result"
	case strings.Contains(s, "eth backend missing logs"):
		return "error:missing-header"
	case strings.Contains(s, "duplicate log index"):
		return "error:duplicate-log-index"
	case strings.Contains(s, "missing result"):
		return "error:missing-result"
	case strings.Contains(s, "of different blocks in one response"):
		return "error:mixed-response"
	}
	return "error:other"
}
