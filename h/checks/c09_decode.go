package checks

import (
	"bytes"
	"encoding/json"
	"fmt"
	"time"

	"github.com/indexsupply/shovel/dig"

	"verifh/fw"
	"verifh/ref"
)

// C09 — ABI event data is decoded exactly for every type shape.
//
// Small-scope exhaustive: every event declaration (1..3 non-indexed inputs)
// up to a size bound, every selection mask inside the domain where the row
// rule is defined, 7 value shapes, and an Euler sequence of scans on ONE
// decoder instance so that every ordered pair of encodings is decoded
// back-to-back (reuse). Oracle: an independent ABI encoder produced the data
// from known values; the rows are computed from those values by ref.Rows.

type c09Case struct {
	Layer  string      `json:"layer"`
	Inputs []*ref.Node `json:"inputs"`
	Seq    []int       `json:"seq"` // shape indices scanned in order on one Result
}

func init() {
	Register(&Check{
		ID:        "C09",
		Level:     "exploration",
		Technique: "small-scope exhaustive enumeration of ABI type trees x selection masks x value shapes, decoded by the real dig.Result and compared with rows from an independent encoder/reference",
		Rule: "all events with 1..3 non-indexed inputs whose type trees (leaf | T[k] | T[] | tuple of 1..3) total <= 6 nodes (thorough 7) over leaves {uint256,bytes}, k in {2,12}, and <= 3 nodes (thorough 4) over 8 leaf spellings, k in {1,2,3,10,12}; " +
			"every selection mask over the leaves (masks selecting an array nested in a tuple that is an array element are excluded, as in the property); 7 value shapes (array lengths 0..3, byte lengths 0,1,31,32,33,64); " +
			"per (event, mask) one decoder instance scans an Euler sequence so every ordered pair of shapes is decoded consecutively. Non-trivial = at least one leaf selected; every (event, mask) is enumerated once.",
		Assumptions: []string{
			"when every selected array is empty (or none is selected) the documented single row carrying the scalars is expected",
			"reference encoder and row rule are written from the Solidity ABI spec / shovel docs (h/ref/abi.go); checked against hand-computed encodings in h/ref tests",
			"declarations are built through dig.Event/Input JSON-ABI type strings and Event.ABIType(), the only construction path available to configurations",
		},
		Budget:        map[string]time.Duration{"quick": 150 * time.Second, "thorough": 1100 * time.Second},
		MinNontrivial: 5000,
		Run:           c09Run,
		Replay:        c09Replay,
	})
}

func cellsEqual(a, b []byte) bool { return bytes.Equal(a, b) } // nil == empty

func rowsEqual(a, b [][][]byte) (bool, string) {
	if len(a) != len(b) {
		return false, fmt.Sprintf("row count: got %d want %d", len(a), len(b))
	}
	for i := range a {
		if len(a[i]) != len(b[i]) {
			return false, fmt.Sprintf("row %d: column count got %d want %d", i, len(a[i]), len(b[i]))
		}
		for j := range a[i] {
			if !cellsEqual(a[i][j], b[i][j]) {
				return false, fmt.Sprintf("row %d col %d: got %x want %x", i, j, a[i][j], b[i][j])
			}
		}
	}
	return true, ""
}

// c09Eval decodes seq on one Result; returns a violation description or "".
func c09Eval(inputs []*ref.Node, seq []int) (class, detail string) {
	defer func() {
		if r := recover(); r != nil {
			class, detail = "panic", fmt.Sprintf("panic: %v", r)
		}
	}()
	ev := dig.Event{Name: "E", Inputs: digInputs(inputs)}
	res := dig.NewResult(ev.ABIType())
	type enc struct {
		data []byte
		rows [][][]byte
	}
	cache := map[int]*enc{}
	for step, si := range seq {
		e := cache[si]
		if e == nil {
			sh := abiShapes[si]
			sh.Reset()
			vals := make([]ref.Value, len(inputs))
			for i, n := range inputs {
				vals[i] = ref.Gen(n, &sh)
			}
			e = &enc{data: ref.EncodeInputs(inputs, vals), rows: ref.Rows(inputs, vals)}
			cache[si] = e
		}
		data := append([]byte(nil), e.data...) // the decoder returns sub-slices; never share buffers between scans
		if err := res.Scan(data); err != nil {
			return "error", fmt.Sprintf("step %d shape %d: Scan error %v on well-formed %d-byte encoding", step, si, err, len(data))
		}
		if ok, why := rowsEqual(res.Bytes(), e.rows); !ok {
			return "rows", fmt.Sprintf("step %d shape %d: %s", step, si, why)
		}
	}
	return "", ""
}

func c09Run(c *fw.Ctx) {
	seq := eulerSeq(len(abiShapes))
	keys := 0
	for _, L := range abiLayers(c.Thorough()) {
		c.Bound(L.Name+"_max_nodes", L.MaxSize)
		ref.EnumEvents(L.MaxSize, L.MaxDepth, L.Leaves, L.Ks, func(inputs []*ref.Node) {
			if !c.Mine() || c.Expired() {
				return
			}
			nl := len(allLeaves(inputs))
			for mask := 0; mask < 1<<nl; mask++ {
				setMask(inputs, mask)
				if !rowRuleDefined(inputs) {
					c.Count("masks_outside_row_rule_domain", 1)
					continue
				}
				class, detail := c09Eval(inputs, seq)
				c.Eval(mask != 0)
				c.Count("scans", int64(len(seq)))
				if class != "" {
					sig := sigOf(inputs)
					if keys < 40 || c.Res.VioCount[class+":"+sig] > 0 {
						if c.Res.VioCount[class+":"+sig] == 0 {
							keys++
						}
						c.Violation("C09", class, class+":"+sig, sig+": "+detail, c09Case{Layer: L.Name, Inputs: cloneSeqSel(inputs), Seq: seq})
					} else {
						c.Count("violations_beyond_key_cap", 1)
					}
					c.Outcome(class)
				} else {
					c.Outcome("ok")
				}
				if mask == (1<<nl)-1 {
					c.Sample(map[string]any{"event": sigOf(inputs), "layer": L.Name, "scans": len(seq)})
				}
			}
		})
	}
}

func cloneSeqSel(inputs []*ref.Node) []*ref.Node {
	var out []*ref.Node
	for _, n := range inputs {
		out = append(out, n.Clone())
	}
	return out
}

func c09Replay(c *fw.Ctx, raw json.RawMessage) {
	var k c09Case
	if err := json.Unmarshal(raw, &k); err != nil {
		c.HarnessError("bad case: %v", err)
		return
	}
	class, detail := c09Eval(k.Inputs, k.Seq)
	c.Eval(true)
	if class != "" {
		sig := sigOf(k.Inputs)
		c.Violation("C09", class, class+":"+sig, sig+": "+detail, k)
	}
}
