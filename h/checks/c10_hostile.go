package checks

import (
	"encoding/json"
	"fmt"
	"math/big"
	"runtime"
	"time"
	"unsafe"

	"github.com/indexsupply/shovel/dig"

	"verifh/fw"
	"verifh/ref"
)

// C10 — decoding arbitrary log data never panics, over-reads or runs unbounded.
//
// For every event declaration of the structural layer (<= 5 nodes; thorough 6)
// and every selection mask: (1) every truncation length of a valid encoding,
// (2) every 32-byte word of a valid encoding replaced by each of 18 boundary
// values (thorough: every pair of words x 8 values for events <= 4 nodes),
// (3) every string of <= 4 words (thorough 5) over a 6-value word alphabet.

type c10Case struct {
	Inputs []*ref.Node `json:"inputs"`
	Group  string      `json:"group"`          // "prefix" | "word" | "pair" | "alpha"
	Data   string      `json:"data,omitempty"` // hex of the single failing input (set when known)
}

func init() {
	Register(&Check{
		ID:        "C10",
		Level:     "exploration",
		Technique: "bounded-exhaustive hostile-input enumeration (all truncations, all single/paired boundary-word substitutions, all short word strings) on the real decoder (Result.Scan and Integration.Insert) with panic/over-read/row-count/allocation oracles",
		Rule: "events: all declarations <= 5 nodes (thorough 6) over leaves {uint256,bytes}, k in {2,12}, every selection mask; inputs: every prefix length of a valid encoding (beyond 640 bytes: the three lengths around every word boundary); every word (encodings > 2 KiB: first 40 and last 8 words) x 18 boundary values {0,1,31,32,33,len-32,len-31,len,len+1,2^31,2^32,2^63-1,2^63,2^64-32,2^64-1,2^64,2^255,2^256-1}; all strings of <= 4 words over {0,1,32,64,2^63,2^256-1}. " +
			"Non-trivial = the input differs from the valid encoding and at least one leaf is selected; each (event,mask,input) is enumerated once.",
		Assumptions: []string{
			"row-count bound on hostile data: (number of array nodes + 1) x (len/32+2)^(max array nesting depth); overlapping offsets legitimately multiply rows, a length *claimed* by the data must not",
			"allocation is judged per (event, mask, input family) group with runtime.MemStats.TotalAlloc (exact): total <= 2x the sum of per-decode allowances (rows the input size permits + constant) + 1 MiB",
			"a single case running > 20 s is reported as unbounded (inputs are <= a few KiB and decode in microseconds)",
		},
		Budget:        map[string]time.Duration{"quick": 150 * time.Second, "thorough": 1100 * time.Second},
		MinNontrivial: 5000,
		CaseLimit:     20 * time.Second,
		Crumbs:        true,
		Run:           c10Run,
		Replay:        c10Replay,
	})
}

func c10Boundary(l int) [][]byte {
	mk := func(x *big.Int) []byte {
		w := make([]byte, 32)
		x.FillBytes(w)
		return w
	}
	two := func(n uint) *big.Int { return new(big.Int).Lsh(big.NewInt(1), n) }
	sub := func(a *big.Int, b int64) *big.Int { return new(big.Int).Sub(a, big.NewInt(b)) }
	clamp := func(v int) *big.Int {
		if v < 0 {
			v = 0
		}
		return big.NewInt(int64(v))
	}
	return [][]byte{
		mk(big.NewInt(0)), mk(big.NewInt(1)), mk(big.NewInt(31)), mk(big.NewInt(32)), mk(big.NewInt(33)),
		mk(clamp(l - 32)), mk(clamp(l - 31)), mk(clamp(l)), mk(clamp(l + 1)),
		mk(two(31)), mk(two(32)), mk(sub(two(63), 1)), mk(two(63)), mk(sub(two(64), 32)), mk(sub(two(64), 1)), mk(two(64)),
		mk(two(255)), mk(sub(two(256), 1)),
	}
}

var c10Alpha = func() [][]byte {
	b := c10Boundary(0)
	w64 := make([]byte, 32)
	w64[31] = 64
	return [][]byte{b[0], b[1], b[3], w64, b[12], b[17]}
}()

// c10Allow is the allocation allowance of one decode of a len-byte input: rows the
// decoder may legitimately materialise plus a constant for building the decoder.
func c10Allow(ncols, depth, l int) uint64 {
	narr := depth >> 8
	depth &= 0xff
	words := l/32 + 2
	bound := narr + 1
	for i := 0; i < depth || i < 1; i++ {
		bound *= words
	}
	return uint64((bound+1)*(ncols*24+48)*2 + 16384)
}

func c10One(ev dig.Event, ncols, depth int, data []byte) (class, detail string) {
	narr := depth >> 8
	depth &= 0xff
	defer func() {
		if r := recover(); r != nil {
			class, detail = "panic", fmt.Sprintf("panic: %v", r)
		}
	}()
	words := len(data)/32 + 2
	bound := narr + 1
	for i := 0; i < depth || i < 1; i++ {
		bound *= words
	}
	res := dig.NewResult(ev.ABIType())
	err := res.Scan(data)
	if err != nil {
		return "", ""
	}
	if res.Len() > bound {
		return "rows", fmt.Sprintf("%d rows from a %d-byte input (bound %d)", res.Len(), len(data), bound)
	}
	if len(data) == 0 {
		return "", ""
	}
	lo := uintptr(unsafe.Pointer(&data[0]))
	hi := lo + uintptr(len(data))
	for i := 0; i < res.Len(); i++ {
		for j, cell := range res.At(i) {
			if len(cell) == 0 {
				continue
			}
			p := uintptr(unsafe.Pointer(&cell[0]))
			if p < lo || p+uintptr(len(cell)) > hi {
				return "overread", fmt.Sprintf("row %d col %d: %d-byte cell lies outside the %d-byte input", i, j, len(cell), len(data))
			}
		}
	}
	return "", ""
}

func c10Group(c *fw.Ctx, inputs []*ref.Node, group string, only string) {
	ev := dig.Event{Name: "E", Inputs: digInputs(inputs)}
	ncols := ref.Number(inputs)
	depth, narr := 0, 0
	for _, n := range inputs {
		if d := arrayDepth(n); d > depth {
			depth = d
		}
		narr += arrayNodes(n)
	}
	depth |= narr << 8 // packed: max nesting depth (low byte), number of array-bearing nodes
	sel := ncols > 0
	sig := sigOf(inputs)
	kcase := c10Case{Inputs: cloneSeqSel(inputs), Group: group}
	if only == "" {
		raw, _ := json.Marshal(kcase)
		fw.Crumb(raw)
		c.Enter(fw.Violation{Property: "C10", Class: "unbounded", Key: "unbounded:" + group + ":" + sig, Detail: "a decode in this group did not return within 20 s", Case: raw})
		defer c.Leave()
	}
	// Allocation is judged per group with the exact (stop-the-world) counter: the sum over
	// the group's decodes must stay within the sum of the per-decode allowances. A length
	// claimed by the data (2^20 … 2^62 elements) exceeds that by orders of magnitude.
	var allow uint64
	var ms0 runtime.MemStats
	runtime.ReadMemStats(&ms0)
	defer func() {
		var ms1 runtime.MemStats
		runtime.ReadMemStats(&ms1)
		if got := ms1.TotalAlloc - ms0.TotalAlloc; got > allow*2+1<<20 {
			k := kcase
			k.Data = only
			c.Violation("C10", "alloc", "alloc:"+group+":"+sig, fmt.Sprintf("%s [%s]: decodes allocated %d bytes in total, allowance %d", sig, group, got, allow*2+1<<20), k)
			c.Outcome("alloc")
		}
	}()
	// the same inputs through Integration.Insert (gate, Scan, conversion of every cell to its database type, CopyFrom)
	ins, hasIns := newAbiIns(ev)
	try := func(data []byte, valid bool) {
		c.Tick()
		allow += c10Allow(ncols, depth, len(data)) + uint64(3*len(data))
		class, detail := c10One(ev, ncols, depth, data)
		if class == "" && hasIns {
			allow += 4*c10Allow(ncols, depth, len(data)) + uint64(3*len(data))
			if _, _, p := ins.insert(data); p != "" {
				class, detail = "panic-insert", "Integration.Insert: panic: "+p
			}
			c.Count("inserts", 1)
		}
		c.Eval(sel && !valid)
		if class != "" {
			k := kcase
			k.Data = fmt.Sprintf("%x", data)
			c.Violation("C10", class, class+":"+group+":"+sig, fmt.Sprintf("%s [%s] input %x: %s", sig, group, data, detail), k)
			c.Outcome(class)
		}
	}
	if only != "" {
		var data []byte
		fmt.Sscanf(only, "%x", &data)
		try(data, false)
		return
	}
	sh := abiShapes[3]
	sh.Reset()
	vals := make([]ref.Value, len(inputs))
	for i, n := range inputs {
		vals[i] = ref.Gen(n, &sh)
	}
	valid := ref.EncodeInputs(inputs, vals)
	switch group {
	case "prefix":
		for l := 0; l <= len(valid); l++ {
			if l > 640 && l%32 > 1 && l%32 < 31 && l != len(valid) {
				continue // beyond 20 words: only lengths around each word boundary
			}
			if len(valid) > 2048 && l > 48*32 && l < len(valid)-8*32 {
				continue // large encodings: first 48 and last 8 words
			}
			try(append([]byte(nil), valid[:l]...), l == len(valid))
		}
	case "word":
		bvs := c10Boundary(len(valid))
		for w := 0; w+32 <= len(valid); w += 32 {
			if len(valid) > 2048 && w >= 40*32 && w < len(valid)-8*32 {
				continue // large encodings: first 40 and last 8 words
			}
			for _, bv := range bvs {
				d := append([]byte(nil), valid...)
				copy(d[w:], bv)
				try(d, false)
			}
		}
	case "pair":
		bvs := c10Boundary(len(valid))
		pick := []int{0, 3, 7, 8, 12, 13, 15, 17}
		// large encodings (fixed arrays of 12): pairs among the first 24 and the last 6 words only
		skip := func(w int) bool { return len(valid) > 40*32 && w >= 24*32 && w < len(valid)-6*32 }
		for w1 := 0; w1+32 <= len(valid); w1 += 32 {
			if skip(w1) {
				continue
			}
			if c.Expired() {
				return
			}
			for w2 := w1 + 32; w2+32 <= len(valid); w2 += 32 {
				if skip(w2) {
					continue
				}
				for _, i := range pick {
					for _, j := range pick {
						d := append([]byte(nil), valid...)
						copy(d[w1:], bvs[i])
						copy(d[w2:], bvs[j])
						try(d, false)
					}
				}
			}
		}
	case "alpha4", "alpha5":
		maxw := 4
		if group == "alpha5" {
			maxw = 5
		}
		var rec func(prefix []byte, n int)
		rec = func(prefix []byte, n int) {
			try(append([]byte(nil), prefix...), false)
			if n == maxw {
				return
			}
			for _, w := range c10Alpha {
				rec(append(prefix, w...), n+1)
			}
		}
		rec(nil, 0)
	}
}

func c10Run(c *fw.Ctx) {
	maxSize := 5
	if c.Thorough() {
		maxSize = 6
	}
	c.Bound("max_nodes", maxSize)
	ref.EnumEvents(maxSize, 4, []string{"uint256", "bytes"}, []int{2, 12}, func(inputs []*ref.Node) {
		if !c.Mine() || c.Expired() {
			return
		}
		size := 0
		for _, n := range inputs {
			size += n.Size()
		}
		nl := len(allLeaves(inputs))
		for mask := 0; mask < 1<<nl; mask++ {
			setMask(inputs, mask)
			c10Group(c, inputs, "prefix", "")
			c10Group(c, inputs, "word", "")
			if size <= 4 {
				if c.Thorough() {
					c10Group(c, inputs, "pair", "")
					c10Group(c, inputs, "alpha5", "")
				} else if size <= 3 {
					c10Group(c, inputs, "alpha4", "")
				}
			}
			if mask == (1<<nl)-1 {
				c.Sample(map[string]any{"event": sigOf(inputs), "groups": "prefix,word(,pair,alpha)"})
			}
		}
	})
	c.Outcome("ok")
}

func c10Replay(c *fw.Ctx, raw json.RawMessage) {
	var k c10Case
	if err := json.Unmarshal(raw, &k); err != nil {
		c.HarnessError("bad case: %v", err)
		return
	}
	ref.Number(k.Inputs)
	c10Group(c, k.Inputs, k.Group, k.Data)
}
