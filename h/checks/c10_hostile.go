package checks

import (
	"bytes"
	"encoding/json"
	"fmt"
	"math/big"
	"runtime"
	"time"
	"unsafe"

	"github.com/indexsupply/shovel/dig"

	"verifh/fw"
	"verifh/ref"
)

// C10 — decoding arbitrary log data never panics, over-reads or runs unbounded.
//
// For every event declaration of the structural layer (<= 5 nodes; thorough 6)
// and every selection mask: (1) every truncation length of a valid encoding,
// (2) every 32-byte word of a valid encoding replaced by each of 18 boundary
// values (thorough: every pair of words x 8 values for events <= 4 nodes),
// (3) every string of <= 4 words (thorough 5) over a 6-value word alphabet,
// (4) every ordered pair (events <= 4 nodes, thorough 5: triple) of valid / half-cut encodings decoded back-to-back
// on one reused Result and one reused Integration, each call judged against its own input.

type c10Case struct {
	Inputs []*ref.Node `json:"inputs"`
	Group  string      `json:"group"`          // "prefix" | "word" | "pair" | "alpha"
	Data   string      `json:"data,omitempty"` // hex of the single failing input (set when known)
}

func init() {
	Register(&Check{
		ID:        "C10",
		Level:     "exploration",
		Technique: "bounded-exhaustive hostile-input enumeration (all truncations, all single/paired boundary-word substitutions, all short word strings, all ordered pairs/triples of encodings decoded back-to-back on one reused decoder) on the real decoder (Result.Scan and Integration.Insert) with panic/sub-range-of-this-call's-input/row-count/allocation oracles",
		Rule: "events: all declarations <= 5 nodes (thorough 6) over leaves {uint256,bytes}, k in {2,12}, every selection mask; inputs: every prefix length of a valid encoding (beyond 640 bytes: the three lengths around every word boundary); every word (encodings > 2 KiB: first 40 and last 8 words) x 18 boundary values {0,1,31,32,33,len-32,len-31,len,len+1,2^31,2^32,2^63-1,2^63,2^64-32,2^64-1,2^64,2^255,2^256-1}; all strings of <= 4 words over {0,1,32,64,2^63,2^256-1}. " +
			"Histories (group seq): per (event, mask) ONE reused dig.Result and ONE reused Integration decode (s2) a de Bruijn sequence of order 2 over the letters {valid encodings of the 7 value shapes (array lengths 0..3, byte lengths 0,1,5,31,32,33,64)} + {word-aligned first half of each}, duplicates removed (<= 14 letters, every ordered pair back-to-back, <= 197 calls) and, for events <= 4 nodes (thorough 5), (s3) a de Bruijn sequence of order 3 over the valid letters (every ordered triple back-to-back, <= 345 calls); every call gets its own buffer and is judged on its own: each returned cell / copied bytea value is empty or lies (by address) inside the bytes supplied to that call, each copied integer is zero or occurs in them. " +
			"Non-trivial = the input differs from the valid encoding (seq: the call is not the first of its sequence) and at least one leaf is selected; each (event,mask,input) and each (event,mask,sequence,step) is enumerated once.",
		Assumptions: []string{
			"row-count bound on hostile data: (number of array nodes + 1) x (len/32+2)^(max array nesting depth); overlapping offsets legitimately multiply rows, a length *claimed* by the data must not",
			"allocation is judged per (event, mask, input family) group with runtime.MemStats.TotalAlloc (exact): total <= 2x the sum of per-decode allowances (rows the input size permits + constant) + 1 MiB",
			"sub-range is judged by address: every call is given a freshly allocated copy of its input that stays alive for the whole sequence, so bytes retained from an earlier call can never lie inside the current input; a sequence stops at its first violating call",
			"a single case running > 20 s is reported as unbounded (inputs are <= a few KiB and decode in microseconds)",
		},
		Budget:        map[string]time.Duration{"quick": 150 * time.Second, "thorough": 1100 * time.Second},
		MinNontrivial: 5000,
		CaseLimit:     20 * time.Second,
		Crumbs:        true,
		Run:           c10Run,
		Replay:        c10Replay,
	})
}

func c10Boundary(l int) [][]byte {
	mk := func(x *big.Int) []byte {
		w := make([]byte, 32)
		x.FillBytes(w)
		return w
	}
	two := func(n uint) *big.Int { return new(big.Int).Lsh(big.NewInt(1), n) }
	sub := func(a *big.Int, b int64) *big.Int { return new(big.Int).Sub(a, big.NewInt(b)) }
	clamp := func(v int) *big.Int {
		if v < 0 {
			v = 0
		}
		return big.NewInt(int64(v))
	}
	return [][]byte{
		mk(big.NewInt(0)), mk(big.NewInt(1)), mk(big.NewInt(31)), mk(big.NewInt(32)), mk(big.NewInt(33)),
		mk(clamp(l - 32)), mk(clamp(l - 31)), mk(clamp(l)), mk(clamp(l + 1)),
		mk(two(31)), mk(two(32)), mk(sub(two(63), 1)), mk(two(63)), mk(sub(two(64), 32)), mk(sub(two(64), 1)), mk(two(64)),
		mk(two(255)), mk(sub(two(256), 1)),
	}
}

var c10Alpha = func() [][]byte {
	b := c10Boundary(0)
	w64 := make([]byte, 32)
	w64[31] = 64
	return [][]byte{b[0], b[1], b[3], w64, b[12], b[17]}
}()

// c10Allow is the allocation allowance of one decode of a len-byte input: rows the
// decoder may legitimately materialise plus a constant for building the decoder.
func c10Allow(ncols, depth, l int) uint64 {
	narr := depth >> 8
	depth &= 0xff
	words := l/32 + 2
	bound := narr + 1
	for i := 0; i < depth || i < 1; i++ {
		bound *= words
	}
	return uint64((bound+1)*(ncols*24+48)*2 + 16384)
}

func c10One(ev dig.Event, ncols, depth int, data []byte) (class, detail string) {
	return c10Judge(dig.NewResult(ev.ABIType()), depth, data, "overread")
}

// c10Bound is the row-count bound of one decode of a len-byte input.
func c10Bound(depth, l int) int {
	narr := depth >> 8
	depth &= 0xff
	words := l/32 + 2
	bound := narr + 1
	for i := 0; i < depth || i < 1; i++ {
		bound *= words
	}
	return bound
}

// c10Judge scans data with res (fresh, or reused by a sequence) and judges the call: no panic, row count within
// the bound the input size permits, and every returned cell is empty or a sub-range (by address) of THIS call's data.
func c10Judge(res *dig.Result, depth int, data []byte, subClass string) (class, detail string) {
	defer func() {
		if r := recover(); r != nil {
			class, detail = "panic", fmt.Sprintf("panic: %v", r)
		}
	}()
	bound := c10Bound(depth, len(data))
	err := res.Scan(data)
	if err != nil {
		return "", ""
	}
	if res.Len() > bound {
		return "rows", fmt.Sprintf("%d rows from a %d-byte input (bound %d)", res.Len(), len(data), bound)
	}
	for i := 0; i < res.Len(); i++ {
		for j, cell := range res.At(i) {
			if !c10Within(cell, data) {
				return subClass, fmt.Sprintf("row %d col %d: %d-byte cell %x is not a sub-range of the %d-byte input of this call", i, j, len(cell), c10Head(cell), len(data))
			}
		}
	}
	return "", ""
}

func c10Head(b []byte) []byte {
	if len(b) > 40 {
		return b[:40]
	}
	return b
}

// c10Within: cell is empty or its memory lies inside data (same backing array range).
func c10Within(cell, data []byte) bool {
	if len(cell) == 0 {
		return true
	}
	if len(data) == 0 {
		return false
	}
	lo := uintptr(unsafe.Pointer(&data[0]))
	hi := lo + uintptr(len(data))
	p := uintptr(unsafe.Pointer(&cell[0]))
	return p >= lo && p+uintptr(len(cell)) <= hi
}

// c10JudgeInsert feeds data through the (reused) Integration and judges the rows handed to CopyFrom by this call:
// a byte-slice value is empty or a sub-range (by address) of this call's data; an integer value is zero or its
// 32-byte big-endian form occurs in this call's data.
func c10JudgeInsert(ir abiInsRows, data []byte) (class, detail string) {
	rows, err, p := ir.insertRows(data)
	if p != "" {
		return "panic-insert", "Integration.Insert: panic: " + p
	}
	if err != nil {
		return "", ""
	}
	for i, row := range rows {
		for j, v := range row {
			switch x := v.(type) {
			case []byte:
				if !c10Within(x, data) {
					return "subrange-insert", fmt.Sprintf("Integration.Insert: row %d col %d: %d-byte value %x is not a sub-range of the %d-byte log data of this call", i, j, len(x), c10Head(x), len(data))
				}
			case interface{ Bytes32() [32]byte }:
				w := x.Bytes32()
				if w != [32]byte{} && !bytes.Contains(data, w[:]) {
					return "subrange-insert", fmt.Sprintf("Integration.Insert: row %d col %d: integer %x does not occur in the %d-byte log data of this call", i, j, w, len(data))
				}
			}
		}
	}
	return "", ""
}

// c10DeBruijn returns a linear sequence over 0..k-1 in which every word of length n occurs as a window
// (Fredricksen-Kessler-Maiorana; the cyclic sequence is unrolled by repeating its first n-1 symbols).
func c10DeBruijn(k, n int) []int {
	a := make([]int, n+1)
	var seq []int
	var db func(t, p int)
	db = func(t, p int) {
		if t > n {
			if n%p == 0 {
				seq = append(seq, a[1:p+1]...)
			}
			return
		}
		a[t] = a[t-p]
		db(t+1, p)
		for j := a[t-p] + 1; j < k; j++ {
			a[t] = j
			db(t+1, t)
		}
	}
	db(1, 1)
	l := len(seq)
	for i := 0; i < n-1; i++ {
		seq = append(seq, seq[i%l])
	}
	return seq
}

// c10Letters: the sequence alphabet of one declaration: the valid encodings of the 7 value shapes (array lengths
// 0..3, byte lengths 0,1,5,31,32,33,64) and, second, the word-aligned first half of each; duplicates removed.
func c10Letters(inputs []*ref.Node) (valid, cut [][]byte) {
	seen := map[string]bool{}
	for si := range abiShapes {
		sh := abiShapes[si]
		sh.Reset()
		vals := make([]ref.Value, len(inputs))
		for i, n := range inputs {
			vals[i] = ref.Gen(n, &sh)
		}
		e := ref.EncodeInputs(inputs, vals)
		if !seen[string(e)] {
			seen[string(e)] = true
			valid = append(valid, e)
		}
	}
	for _, e := range valid[:len(valid):len(valid)] {
		h := e[:len(e)/64*32]
		if !seen[string(h)] {
			seen[string(h)] = true
			cut = append(cut, h)
		}
	}
	return valid, cut
}

func c10Group(c *fw.Ctx, inputs []*ref.Node, group string, only string) {
	ev := dig.Event{Name: "E", Inputs: digInputs(inputs)}
	ncols := ref.Number(inputs)
	depth, narr := 0, 0
	for _, n := range inputs {
		if d := arrayDepth(n); d > depth {
			depth = d
		}
		narr += arrayNodes(n)
	}
	depth |= narr << 8 // packed: max nesting depth (low byte), number of array-bearing nodes
	sel := ncols > 0
	sig := sigOf(inputs)
	kcase := c10Case{Inputs: cloneSeqSel(inputs), Group: group}
	if only == "" || group == "seq" {
		kcase.Data = only
		raw, _ := json.Marshal(kcase)
		fw.Crumb(raw)
		c.Enter(fw.Violation{Property: "C10", Class: "unbounded", Key: "unbounded:" + group + ":" + sig, Detail: "a decode in this group did not return within 20 s", Case: raw})
		defer c.Leave()
	}
	// Allocation is judged per group with the exact (stop-the-world) counter: the sum over
	// the group's decodes must stay within the sum of the per-decode allowances. A length
	// claimed by the data (2^20 … 2^62 elements) exceeds that by orders of magnitude.
	var allow uint64
	var ms0 runtime.MemStats
	runtime.ReadMemStats(&ms0)
	defer func() {
		var ms1 runtime.MemStats
		runtime.ReadMemStats(&ms1)
		if got := ms1.TotalAlloc - ms0.TotalAlloc; got > allow*2+1<<20 {
			k := kcase
			k.Data = only
			c.Violation("C10", "alloc", "alloc:"+group+":"+sig, fmt.Sprintf("%s [%s]: decodes allocated %d bytes in total, allowance %d", sig, group, got, allow*2+1<<20), k)
			c.Outcome("alloc")
		}
	}()
	if group == "seq" {
		c10Seq(c, inputs, ev, ncols, depth, sel, sig, kcase, only, &allow)
		return
	}
	// the same inputs through Integration.Insert (gate, Scan, conversion of every cell to its database type, CopyFrom)
	ins, hasIns := newAbiIns(ev)
	try := func(data []byte, valid bool) {
		c.Tick()
		allow += c10Allow(ncols, depth, len(data)) + uint64(3*len(data))
		class, detail := c10One(ev, ncols, depth, data)
		if class == "" && hasIns {
			allow += 4*c10Allow(ncols, depth, len(data)) + uint64(3*len(data))
			if _, _, p := ins.insert(data); p != "" {
				class, detail = "panic-insert", "Integration.Insert: panic: "+p
			}
			c.Count("inserts", 1)
		}
		c.Eval(sel && !valid)
		if class != "" {
			k := kcase
			k.Data = fmt.Sprintf("%x", data)
			c.Violation("C10", class, class+":"+group+":"+sig, fmt.Sprintf("%s [%s] input %x: %s", sig, group, data, detail), k)
			c.Outcome(class)
		}
	}
	if only != "" {
		var data []byte
		fmt.Sscanf(only, "%x", &data)
		try(data, false)
		return
	}
	sh := abiShapes[3]
	sh.Reset()
	vals := make([]ref.Value, len(inputs))
	for i, n := range inputs {
		vals[i] = ref.Gen(n, &sh)
	}
	valid := ref.EncodeInputs(inputs, vals)
	switch group {
	case "prefix":
		for l := 0; l <= len(valid); l++ {
			if l > 640 && l%32 > 1 && l%32 < 31 && l != len(valid) {
				continue // beyond 20 words: only lengths around each word boundary
			}
			if len(valid) > 2048 && l > 48*32 && l < len(valid)-8*32 {
				continue // large encodings: first 48 and last 8 words
			}
			try(append([]byte(nil), valid[:l]...), l == len(valid))
		}
	case "word":
		bvs := c10Boundary(len(valid))
		for w := 0; w+32 <= len(valid); w += 32 {
			if len(valid) > 2048 && w >= 40*32 && w < len(valid)-8*32 {
				continue // large encodings: first 40 and last 8 words
			}
			for _, bv := range bvs {
				d := append([]byte(nil), valid...)
				copy(d[w:], bv)
				try(d, false)
			}
		}
	case "pair":
		bvs := c10Boundary(len(valid))
		pick := []int{0, 3, 7, 8, 12, 13, 15, 17}
		// large encodings (fixed arrays of 12): pairs among the first 24 and the last 6 words only
		skip := func(w int) bool { return len(valid) > 40*32 && w >= 24*32 && w < len(valid)-6*32 }
		for w1 := 0; w1+32 <= len(valid); w1 += 32 {
			if skip(w1) {
				continue
			}
			if c.Expired() {
				return
			}
			for w2 := w1 + 32; w2+32 <= len(valid); w2 += 32 {
				if skip(w2) {
					continue
				}
				for _, i := range pick {
					for _, j := range pick {
						d := append([]byte(nil), valid...)
						copy(d[w1:], bvs[i])
						copy(d[w2:], bvs[j])
						try(d, false)
					}
				}
			}
		}
	case "alpha4", "alpha5":
		maxw := 4
		if group == "alpha5" {
			maxw = 5
		}
		var rec func(prefix []byte, n int)
		rec = func(prefix []byte, n int) {
			try(append([]byte(nil), prefix...), false)
			if n == maxw {
				return
			}
			for _, w := range c10Alpha {
				rec(append(prefix, w...), n+1)
			}
		}
		rec(nil, 0)
	}
}

// c10Seq: histories on ONE reused decoder. Per (event, mask) one fresh Result and one fresh Integration decode
// (s3) a de Bruijn sequence of order 3 over the valid letters — every ordered triple of encodings back-to-back —
// and (s2) a de Bruijn sequence of order 2 over valid+cut letters — every ordered pair, including a decode that
// fails half-way followed by a valid one. Every call of the sequence is judged by the sub-range oracle against
// the bytes supplied to THAT call (each call gets its own buffer, so data kept from an earlier call is foreign).
func c10Seq(c *fw.Ctx, inputs []*ref.Node, ev dig.Event, ncols, depth int, sel bool, sig string, kcase c10Case, only string, allow *uint64) {
	valid, cut := c10Letters(inputs)
	for _, name := range []string{"s3", "s2"} {
		if only != "" && only != name {
			continue
		}
		letters, order := valid, 3
		if name == "s2" {
			letters, order = append(append([][]byte(nil), valid...), cut...), 2
		}
		seq := c10DeBruijn(len(letters), order)
		res := dig.NewResult(ev.ABIType())
		var ir abiInsRows
		if ins, ok := newAbiIns(ev); ok {
			ir, _ = ins.(abiInsRows)
		}
		*allow += 5 * c10Allow(ncols, depth, 0)
		keep := make([][]byte, 0, len(seq)) // every call's buffer stays alive (and distinct) for the whole sequence
		for step, li := range seq {
			c.Tick()
			data := append([]byte(nil), letters[li]...)
			keep = append(keep, data)
			*allow += c10Allow(ncols, depth, len(data)) + uint64(3*len(data))
			class, detail := c10Judge(res, depth, data, "subrange")
			c.Count("seq_scans", 1)
			if class == "" && ir != nil {
				*allow += 4*c10Allow(ncols, depth, len(data)) + uint64(3*len(data))
				class, detail = c10JudgeInsert(ir, data)
				c.Count("seq_inserts", 1)
			}
			c.Eval(sel && step > 0)
			if class != "" {
				k := kcase
				k.Data = name
				hist := ""
				for _, pj := range seq[max(0, step-2) : step+1] {
					kind := "valid"
					if pj >= len(valid) {
						kind = "cut"
					}
					hist += fmt.Sprintf(" #%d(%s,%dB)", pj, kind, len(letters[pj]))
				}
				c.Violation("C10", class, class+":seq:"+sig, fmt.Sprintf("%s [seq %s] step %d of %d on one reused decoder, last letters (oldest first):%s, input of this call %x: %s", sig, name, step, len(seq), hist, data, detail), k)
				c.Outcome(class)
				break
			}
		}
		runtime.KeepAlive(keep)
	}
}

func c10Run(c *fw.Ctx) {
	maxSize := 5
	if c.Thorough() {
		maxSize = 6
	}
	c.Bound("max_nodes", maxSize)
	ref.EnumEvents(maxSize, 4, []string{"uint256", "bytes"}, []int{2, 12}, func(inputs []*ref.Node) {
		if !c.Mine() || c.Expired() {
			return
		}
		size := 0
		for _, n := range inputs {
			size += n.Size()
		}
		nl := len(allLeaves(inputs))
		for mask := 0; mask < 1<<nl; mask++ {
			setMask(inputs, mask)
			c10Group(c, inputs, "prefix", "")
			c10Group(c, inputs, "word", "")
			if size <= 4 || (c.Thorough() && size <= 5) {
				c10Group(c, inputs, "seq", "s3") // every ordered triple of valid encodings on one reused decoder
			}
			c10Group(c, inputs, "seq", "s2") // every ordered pair of valid / half-cut encodings on one reused decoder
			if size <= 4 {
				if c.Thorough() {
					c10Group(c, inputs, "pair", "")
					c10Group(c, inputs, "alpha5", "")
				} else if size <= 3 {
					c10Group(c, inputs, "alpha4", "")
				}
			}
			if mask == (1<<nl)-1 {
				c.Sample(map[string]any{"event": sigOf(inputs), "groups": "prefix,word(,pair,alpha)"})
			}
		}
	})
	c.Outcome("ok")
}

func c10Replay(c *fw.Ctx, raw json.RawMessage) {
	var k c10Case
	if err := json.Unmarshal(raw, &k); err != nil {
		c.HarnessError("bad case: %v", err)
		return
	}
	ref.Number(k.Inputs)
	c10Group(c, k.Inputs, k.Group, k.Data)
}
