// Package c13 decides property C13: only logs of the declared event are
// decoded (signature hash and topic count).
//
// Part A judges the pure functions dig.Event.Signature / SignatureHash on an
// exhaustive small scope of declarations; part L walks the LENGTH of the canonical
// signature (every length of a range, several construction families) with the
// same oracle plus prefix-hash decoy logs at the gate; part B drives the real
// dig.Integration.Insert with a fake wpg.Conn over an alphabet of logs (alone
// and in ordered pairs) and counts which logs produced rows.
package c13

import (
	"encoding/json"
	"runtime"
	"time"

	"verifh/checks"
	"verifh/fw"
	"verifh/ref"
)

const prop = "C13"

// kase is the replayable description of one case (all parts).
type kase struct {
	Part       string      `json:"part"` // "A" enumerated declaration, "K" published vector, "E" hand-written edge, "B" gate, "H" history, "L" signature length
	Name       string      `json:"name,omitempty"`
	Inputs     []*ref.Node `json:"inputs,omitempty"`
	Indexed    []bool      `json:"indexed,omitempty"`
	Selected   []bool      `json:"selected,omitempty"`   // B: inputs bound to a column (absent = all)
	Index      int         `json:"index,omitempty"`      // K / E: table index
	Logs       []logT      `json:"logs,omitempty"`       // B
	Sig        string      `json:"sig,omitempty"`        // informational: reference signature
	Slots      []slotT     `json:"slots,omitempty"`      // H: integrations built in sequence
	Interleave bool        `json:"interleave,omitempty"` // H
	Full       bool        `json:"full,omitempty"`       // H: full log alphabet
	Set        string      `json:"set,omitempty"`        // L: which case of the declaration (Name = family, Index = signature length)
}

func init() {
	checks.Register(&checks.Check{
		ID:        "C13",
		Level:     "exploration",
		Technique: "small-scope exhaustive enumeration: (A) event names x ABI type trees x indexed layouts judged against an independent canonicaliser + independent Keccak-256 and a table of published topic0 hashes; (L) a signature-LENGTH family: declarations whose canonical signature has exactly n bytes for every n of a contiguous range and around larger powers of two, each judged by the same oracle and gated against the log of the event and decoy logs carrying the Keccak-256 of proper prefixes of the signature; (B) real dig.Integration.Insert on a fake wpg.Conn over a log alphabet (alone and all ordered pairs), rows attributed to logs by log_idx",
		Rule: "A: names {T,Transfer,a_b1,X9} x every input list of 0..3 inputs whose type trees (leaf | T[] | T[k], k in {1,2,10,12} | tuple of 1..3 fields, tuple nesting <= 3, multi-dimensional arrays) total <= 4 nodes over 8 leaf spellings plus exactly 5 nodes over 4 leaf spellings {uint256,address,bytes,bytes32} " +
			"(thorough: <= 5 nodes over 8 leaf spellings plus exactly 6 nodes over the 4) x every indexed layout; plus 17 published (declaration, topic0) vectors (Seaport OrderFulfilled as JSON-ABI text) and 8 hand-written edge declarations given as JSON-ABI text. Non-trivial = declaration contains a tuple or an array. " +
			"L (signature length): for every length n in 4..300 and 511,512,513,1023,1024,1025 (thorough: 4..700 and 2^k-1,2^k,2^k+1 up to 2049) x 6 construction families (event name padded behind a fixed ERC-20 input list / behind (uint256 indexed,(uint256,bytes)); inputs added to a flat list cycling over {uint256,address,bytes,bool,string} / nesting levels added to (uint8,(uint8,...bytes32)) / to alternately dynamic and fixed tuple arrays / tuple-array inputs added to a Seaport-like list; the remaining bytes go into the name) one declaration whose reference signature has exactly n bytes (none when n is below the family's minimum): Signature and SignatureHash judged against the reference; for the 4 families without arrays additionally a fresh Integration per log set for: the log of the event alone; ONE tx holding, for EVERY proper prefix length p < n, a log with the matching topic count whose topic0 is Keccak-256(signature[:p]), with the log of the event in the middle; and each such prefix log alone for the buffer-size boundaries p in {0, n-1, 2^k-1, 2^k, 2^k+1 (k>=2), 136m-1, 136m, 136m+1}. Non-trivial = n > 32 (hash cases) / log set contains a prefix decoy (gate cases). " +
			"B: events 'Transfer' with 1..3 inputs over {uint256,address,bytes} indexed or not and a tuple (uint256,bytes) indexed or not (thorough: also string,bool), x every selection pattern (each input with or without a column, at least one selected; an indexed tuple is never selected; unselected non-indexed inputs are still carried in the data); per integration 46 logs " +
			"(9 topic0 variants x 1..5 topics, plus the empty topic list), each alone and every ordered pair in one tx (quick tier, integrations with an unselected input: only the pairs in which at least one log carries the declared hash or no topics, 562 instead of 2162 log sets), fresh Integration per log set. The expected topic count is always (indexed inputs of the DECLARATION)+1, whatever is selected. Non-trivial = log set contains a non-matching log. " +
			"H (history inside one case): sequences of k in {2,3} integrations built one after the other in one process, each slot = one of 18 events ({Transfer,Approval} x 9 input lists incl. indexed string/bytes/uint256[]/uint256[2] topics, selected or not) built fresh inside the case, or THE SAME declaration object as an earlier slot; x {no interleaving, Signature/SignatureHash of the slot's own declaration and of a foreign event after every dig.New}; " +
			"then every integration is gated against its log alphabet (quick: declared hash x 1..5 topics, empty list, the 8 other topic0 variants with the matching count; thorough: all 46), the logs of the other events of the sequence, and one tx holding all of them; the declaration is deep-compared with a pristine copy after dig.New and after Insert; slices returned by SignatureHash are held and re-read after later hash computations (also in every part A case).",
		Assumptions: []string{
			"reference signature = ref.EventSignature (h/ref/sig.go, written from the Solidity ABI spec); reference hash = ref.Keccak256 (independent Keccak-f[1600]); the 17 published topic0 values are checked against the reference hash first (harness error if they disagree)",
			"every case builds its declarations fresh (part B: a deep copy per log set, part H: inside the case); nothing built by one case is seen by another, so a recorded case replays in a fresh process; the process runs with GOMAXPROCS(1) so per-P caches of the code under test behave identically in workers and replays",
			"part B judges WHICH logs produce rows (count per log, attributed by the log_idx column), not the other column values (C11); arrays are not used in part B so that a matching log yields exactly one row",
			"part B selects at least one input (a selected input is required for log indexing); an indexed tuple with selected components is not enumerated (its components cannot be read from topics)",
			"configurations are completed by config.ValidateFix and handed to dig.New exactly as shovel/task.go NewDestination does; no filters, no notifications, so only CopyFrom of the fake connection is used",
			"part L: event names of up to several hundred bytes and input lists of up to ~150 inputs (~300 in the thorough tier) are legal ABI and are treated as in the domain of 'all event names and input type trees'; the prefix decoys are logs of OTHER events by construction (a Keccak-256 collision between a signature and one of its proper prefixes is assumed impossible)",
		"logs with 5 topics (impossible on chain, representable in eth.Log) are included so that 'more topics than indexed inputs' is covered for 3 indexed inputs",
		},
		Budget:        map[string]time.Duration{"quick": 240 * time.Second, "thorough": 800 * time.Second},
		MinNontrivial: 100000,
		Run:           run,
		Replay:        replay,
	})
}

// The check is single-threaded; one P makes the behaviour of per-P caches in the code under
// test (sync.Pool and the like) the same in every worker and in every replay process.
func pin() { runtime.GOMAXPROCS(1) }

func run(c *fw.Ctx) {
	pin()
	runA(c)
	if c.Res.Exhaustive {
		runL(c)
	}
	if c.Res.Exhaustive {
		runH(c)
	}
	if c.Res.Exhaustive {
		runB(c)
	}
}

func replay(c *fw.Ctx, raw json.RawMessage) {
	var k kase
	if err := json.Unmarshal(raw, &k); err != nil {
		c.HarnessError("bad case: %v", err)
		return
	}
	c.Eval(true)
	pin()
	switch k.Part {
	case "A":
		if len(k.Indexed) != len(k.Inputs) {
			c.HarnessError("bad case: indexed/inputs length")
			return
		}
		mask := 0
		for i, b := range k.Indexed {
			if b {
				mask |= 1 << i
			}
		}
		d := newDeclA(k.Inputs)
		want := ref.EventSignature(k.Name, k.Inputs)
		evalA(c, d, k.Name, mask, want, ref.Keccak256([]byte(want)))
	case "K":
		evalKnown(c, k.Index)
	case "E":
		evalEdge(c, k.Index)
	case "B":
		ev, err := newEventB(k.Name, k.Inputs, k.Indexed, k.Selected)
		if err != nil {
			c.HarnessError("replay: %v", err)
			return
		}
		var logs []*logB
		for _, l := range k.Logs {
			lb, err := l.decode()
			if err != nil {
				c.HarnessError("replay: %v", err)
				return
			}
			logs = append(logs, lb)
		}
		evalB(c, ev, logs)
	case "L":
		replayL(c, k)
	case "H":
		evalH(c, k.Slots, k.Interleave, k.Full)
	default:
		c.HarnessError("bad case part %q", k.Part)
	}
}
