// Package c13 registers the C13 check (see DESIGN.md §4).
package c13
