package c13

import (
	"bytes"
	"encoding/hex"
	"encoding/json"
	"fmt"
	"strings"

	"github.com/indexsupply/shovel/dig"

	"verifh/fw"
	"verifh/ref"
)

// ---- part A: Event.Signature / Event.SignatureHash ------------------------

var namesA = []string{"T", "Transfer", "a_b1", "X9"}

var (
	leaves8 = []string{"uint256", "address", "bytes", "string", "bool", "bytes32", "int8", "uint8"}
	leaves4 = []string{"uint256", "address", "bytes", "bytes32"}
	ksA     = []int{1, 2, 10, 12}
)

const maxTupleNesting = 3

// layerA: all input lists whose total node count is in [MinSize, MaxSize]
// over the given leaves. Layers use disjoint size ranges, so every
// declaration is enumerated once.
type layerA struct {
	Name             string
	Leaves           []string
	MinSize, MaxSize int
}

func layersA(thorough bool) []layerA {
	if thorough {
		return []layerA{{"leaves8", leaves8, 0, 5}, {"leaves4-size6", leaves4, 6, 6}}
	}
	return []layerA{{"leaves8", leaves8, 0, 4}, {"leaves4-size5", leaves4, 5, 5}}
}

func tupleNesting(n *ref.Node) int {
	d := 0
	for _, f := range n.Fields {
		if x := tupleNesting(f); x > d {
			d = x
		}
	}
	if n.IsTuple() {
		d++
	}
	return d
}

// nodesBySize[s] = every type tree of exactly s nodes (tuple nesting <= 3).
func nodesBySize(maxSize int, leaves []string) [][]*ref.Node {
	out := make([][]*ref.Node, maxSize+1)
	for s := 1; s <= maxSize; s++ {
		for _, n := range ref.EnumNodes(s, 1<<20, leaves, ksA) {
			if tupleNesting(n) <= maxTupleNesting {
				out[s] = append(out[s], n)
			}
		}
	}
	return out
}

// enumLists calls fn for every list of 0..3 nodes whose sizes sum to total.
// The slice passed to fn is reused.
func enumLists(total int, by [][]*ref.Node, fn func([]*ref.Node) bool) {
	if total == 0 {
		fn(nil)
		return
	}
	buf := make([]*ref.Node, 3)
	for _, a := range by[total] {
		buf[0] = a
		if !fn(buf[:1]) {
			return
		}
	}
	for s1 := 1; s1 < total; s1++ {
		for _, a := range by[s1] {
			for _, b := range by[total-s1] {
				buf[0], buf[1] = a, b
				if !fn(buf[:2]) {
					return
				}
			}
		}
	}
	for s1 := 1; s1 < total; s1++ {
		for s2 := 1; s1+s2 < total; s2++ {
			for _, a := range by[s1] {
				for _, b := range by[s2] {
					for _, d := range by[total-s1-s2] {
						buf[0], buf[1], buf[2] = a, b, d
						if !fn(buf[:3]) {
							return
						}
					}
				}
			}
		}
	}
}

// names given to inputs / components: they must not influence the signature,
// so hostile-looking but legal identifiers are used ("tuple" in particular).
var (
	topNames  = []string{"tuple", "from", "uint256"}
	compNames = []string{"tuple", "value", "bytes32"}
)

func toInput(n *ref.Node, name string) dig.Input {
	in := dig.Input{Name: name, Type: n.JSONType()}
	if n.IsTuple() {
		in.Components = make([]dig.Input, len(n.Fields))
		for i, f := range n.Fields {
			in.Components[i] = toInput(f, compNames[i])
		}
	}
	return in
}

type declA struct {
	nodes      []*ref.Node
	inputs     []dig.Input // Indexed all false
	feature    string
	nontrivial bool
}

func feature(nodes []*ref.Node) string {
	rank := 0 // 0 flat, 1 array, 2 tuple, 3 tuple-array, 4 nested-tuple
	var walk func(n *ref.Node, inTuple bool)
	walk = func(n *ref.Node, inTuple bool) {
		r := 0
		switch {
		case n.IsTuple() && inTuple:
			r = 4
		case n.IsTuple() && len(n.Dims) > 0:
			r = 3
		case n.IsTuple():
			r = 2
		case len(n.Dims) > 0:
			r = 1
		}
		if r > rank {
			rank = r
		}
		for _, f := range n.Fields {
			walk(f, true)
		}
	}
	for _, n := range nodes {
		walk(n, false)
	}
	if len(nodes) == 0 {
		return "no-inputs"
	}
	return []string{"flat", "array", "tuple", "tuple-array", "nested-tuple"}[rank]
}

func newDeclA(nodes []*ref.Node) *declA {
	d := &declA{nodes: nodes}
	for i, n := range nodes {
		d.inputs = append(d.inputs, toInput(n, topNames[i%len(topNames)]))
	}
	d.feature = feature(nodes)
	d.nontrivial = d.feature != "flat" && d.feature != "no-inputs"
	return d
}

func (d *declA) event(name string, mask int) dig.Event {
	ins := make([]dig.Input, len(d.inputs))
	copy(ins, d.inputs)
	for i := range ins {
		ins[i].Indexed = mask&(1<<i) != 0
	}
	return dig.Event{Name: name, Type: "event", Inputs: ins}
}

func (d *declA) kase(name string, mask int, want string) kase {
	k := kase{Part: "A", Name: name, Sig: want}
	for i, n := range d.nodes {
		k.Inputs = append(k.Inputs, n.Clone())
		k.Indexed = append(k.Indexed, mask&(1<<i) != 0)
	}
	return k
}

const otherSig = "Other(int8,(bool,string)[])"

var (
	otherEvent = dig.Event{Name: "Other", Type: "event", Inputs: []dig.Input{{Name: "a", Type: "int8"}, {Name: "b", Type: "tuple[]", Components: []dig.Input{{Name: "c", Type: "bool"}, {Name: "d", Type: "string"}}}}}
)

// sigAndHash: Signature and SignatureHash of ev (hash = copy of the returned bytes); overwritten != ""
// when the returned slice changed while another event was hashed.
func sigAndHash(ev dig.Event) (sig string, hash []byte, overwritten, panicked string) {
	defer func() {
		if r := recover(); r != nil {
			panicked = fmt.Sprint(r)
		}
	}()
	sig = ev.Signature()
	h := ev.SignatureHash()
	hash = append([]byte(nil), h...) // content at the time it was returned
	// hold the returned slice, hash another event, look again
	_ = otherEvent.SignatureHash() // judged as a declaration of its own elsewhere; here it only disturbs
	if !bytes.Equal(h, hash) {
		overwritten = fmt.Sprintf("held %x when returned, holds %x after SignatureHash of %s", hash, h, otherSig)
	}
	return
}

// evalA judges one (name, declaration, indexed layout). Returns true when it held.
func evalA(c *fw.Ctx, d *declA, name string, mask int, want string, wantHash []byte) bool {
	ev := d.event(name, mask)
	got, gotHash, ow, p := sigAndHash(ev)
	decl := func() string { b, _ := json.Marshal(ev); return string(b) }
	switch {
	case p != "":
		c.Outcome("A:panic")
		c.Violation(prop, "panic", "sig:panic", fmt.Sprintf("Signature/SignatureHash panicked: %s\ndeclaration %s", p, decl()), d.kase(name, mask, want))
	case got != want:
		key := "sig:canonical-mismatch/" + d.feature
		if mask != 0 {
			if got0, _, _, p0 := sigAndHash(d.event(name, 0)); p0 == "" && got0 == want {
				key = "sig:indexed-changes-signature"
			}
		}
		c.Outcome("A:sig-mismatch")
		c.Violation(prop, "mismatch", key, fmt.Sprintf("Event.Signature() = %q, canonical signature is %q (hash got %x want %x)\ndeclaration %s", got, want, gotHash, wantHash, decl()), d.kase(name, mask, want))
	case len(gotHash) != 32:
		c.Outcome("A:hash-length")
		c.Violation(prop, "mismatch", "hash:length", fmt.Sprintf("SignatureHash() has %d bytes for %q", len(gotHash), want), d.kase(name, mask, want))
	case !bytes.Equal(gotHash, wantHash):
		c.Outcome("A:hash-mismatch")
		c.Violation(prop, "mismatch", "hash:not-keccak256-of-signature", fmt.Sprintf("SignatureHash() = %x, Keccak-256(%q) = %x", gotHash, want, wantHash), d.kase(name, mask, want))
	case ow != "":
		c.Outcome("A:hash-overwritten")
		c.Violation(prop, "mismatch", "hash:earlier-result-overwritten", fmt.Sprintf("the slice returned by SignatureHash() of %q %s", want, ow), d.kase(name, mask, want))
	default:
		c.Outcome("A:ok/" + d.feature)
		return true
	}
	return false
}

func runA(c *fw.Ctx) {
	// published vectors and hand-written edges first (cheap, strongest evidence)
	for i := range known {
		if !c.Mine() {
			continue
		}
		evalKnown(c, i)
	}
	for i := range edges {
		if !c.Mine() {
			continue
		}
		evalEdge(c, i)
	}
	c.Bound("A_names", namesA)
	c.Bound("A_array_suffixes", append([]int{0}, ksA...))
	c.Bound("A_max_tuple_nesting", maxTupleNesting)
	c.Bound("A_max_inputs", 3)
	for _, L := range layersA(c.Thorough()) {
		by := nodesBySize(L.MaxSize, L.Leaves)
		for total := L.MinSize; total <= L.MaxSize; total++ {
			stop := false
			enumLists(total, by, func(nodes []*ref.Node) bool {
				if !c.Mine() {
					return true
				}
				if c.Expired() {
					stop = true
					return false
				}
				d := newDeclA(nodes)
				c.Count("A_declarations", 1)
				c.Count("A_declarations/"+d.feature, 1)
				for _, name := range namesA {
					want := ref.EventSignature(name, nodes)
					wantHash := ref.Keccak256([]byte(want))
					for mask := 0; mask < 1<<len(nodes); mask++ {
						c.Eval(d.nontrivial)
						evalA(c, d, name, mask, want, wantHash)
					}
					if name == "Transfer" {
						c.Sample(map[string]any{"part": "A", "layer": L.Name, "signature": want, "topic0": hex.EncodeToString(wantHash), "layouts": 1 << len(nodes)})
					}
				}
				return true
			})
			if stop {
				return
			}
		}
		c.Bound("A_"+L.Name, map[string]any{"leaves": L.Leaves, "min_nodes": L.MinSize, "max_nodes": L.MaxSize})
	}
}

// ---- published vectors ------------------------------------------------------

type knownEvent struct {
	Sig    string // published canonical signature
	Topic0 string // published topic0
	Decl   string // compact declaration "Name: [indexed ]type name, ..." or JSON-ABI text (starts with '{')
}

// Each of these is a widely published (signature, topic0) pair; the harness
// first checks the pair with the independent Keccak (harness error on
// disagreement), then demands the same from dig.
var known = []knownEvent{
	{"Transfer(address,address,uint256)", "ddf252ad1be2c89b69c2b068fc378daa952ba7f163c4a11628f55a4df523b3ef", "Transfer: indexed address from, indexed address to, uint256 value"},
	{"Transfer(address,address,uint256)", "ddf252ad1be2c89b69c2b068fc378daa952ba7f163c4a11628f55a4df523b3ef", "Transfer: indexed address from, indexed address to, indexed uint256 tokenId"}, // ERC-721: same hash, other layout
	{"Approval(address,address,uint256)", "8c5be1e5ebec7d5bd14f71427d1e84f3dd0314c0f7b2291e5b200ac8c7c3b925", "Approval: indexed address owner, indexed address spender, uint256 value"},
	{"ApprovalForAll(address,address,bool)", "17307eab39ab6107e8899845ad3d59bd9653f200f220920489ca2b5937696c31", "ApprovalForAll: indexed address owner, indexed address operator, bool approved"},
	{"Swap(address,uint256,uint256,uint256,uint256,address)", "d78ad95fa46c994b6551d0da85fc275fe613ce37657fb8d5e3d130840159d822", "Swap: indexed address sender, uint256 amount0In, uint256 amount1In, uint256 amount0Out, uint256 amount1Out, indexed address to"},
	{"Sync(uint112,uint112)", "1c411e9a96e071241c2f21f7726b17ae89e3cab4c78be50e062b03a9fffbbad1", "Sync: uint112 reserve0, uint112 reserve1"},
	{"Mint(address,uint256,uint256)", "4c209b5fc8ad50758f13e2e1088ba56a560dff690a1c6fef26394f4c03821c4f", "Mint: indexed address sender, uint256 amount0, uint256 amount1"},
	{"Burn(address,uint256,uint256,address)", "dccd412f0b1252819cb1fd330b93224ca42612892bb3f4f789976e6d81936496", "Burn: indexed address sender, uint256 amount0, uint256 amount1, indexed address to"},
	{"PairCreated(address,address,address,uint256)", "0d3648bd0f6ba80134a33ba9275ac585d9d315f0ad8355cddefde31afa28d0e9", "PairCreated: indexed address token0, indexed address token1, address pair, uint256 n"},
	{"Deposit(address,uint256)", "e1fffcc4923d04b559f4d29a8bfc6cda04eb5b0d3c460751c2402c5c5cc9109c", "Deposit: indexed address dst, uint256 wad"},
	{"Withdrawal(address,uint256)", "7fcf532c15f0a6db0bd6d0e038bea71d30d808c7d98cb3bf7268a95bf5081b65", "Withdrawal: indexed address src, uint256 wad"},
	{"TransferSingle(address,address,address,uint256,uint256)", "c3d58168c5ae7397731d063d5bbf3d657854427343f4c083240f7aacaa2d0f62", "TransferSingle: indexed address operator, indexed address from, indexed address to, uint256 id, uint256 value"},
	{"TransferBatch(address,address,address,uint256[],uint256[])", "4a39dc06d4c0dbc64b70af90fd698a233a518aa5d07e595d983b8c0526c8f7fb", "TransferBatch: indexed address operator, indexed address from, indexed address to, uint256[] ids, uint256[] values"},
	{"URI(string,uint256)", "6bb7ff708619ba0610cba295a58592e0451dee2622938c8755667688daf3529b", "URI: string value, indexed uint256 id"},
	{"OwnershipTransferred(address,address)", "8be0079c531659141344cd1fd0a4f28419497f9722a3daafe3b4186f6b6457e0", "OwnershipTransferred: indexed address previousOwner, indexed address newOwner"},
	{"Swap(address,address,int256,int256,uint160,uint128,int24)", "c42079f94a6350d7e6235f29174924f928cc2ac818eb64fed8004e115fbcca67", "Swap: indexed address sender, indexed address recipient, int256 amount0, int256 amount1, uint160 sqrtPriceX96, uint128 liquidity, int24 tick"},
	{"OrderFulfilled(bytes32,address,address,address,(uint8,address,uint256,uint256)[],(uint8,address,uint256,uint256,address)[])", "9d9af8e38d66c62e2c12f0225249fd9d721c54b83f48d9352c97c6cacdcb6f31", seaportOrderFulfilled},
}

// The event of /repo/shovel/testdata/seaport.json (Seaport 1.x OrderFulfilled), JSON-ABI text.
const seaportOrderFulfilled = `{"anonymous": false, "name": "OrderFulfilled", "type": "event", "inputs": [
 {"indexed": false, "internalType": "bytes32", "name": "orderHash", "type": "bytes32", "column": "order_hash"},
 {"indexed": true, "internalType": "address", "name": "offerer", "type": "address", "column": "offerer"},
 {"indexed": true, "internalType": "address", "name": "zone", "type": "address", "column": "zone"},
 {"indexed": false, "internalType": "address", "name": "recipient", "type": "address", "column": "recipient"},
 {"components": [
   {"internalType": "enum ItemType", "name": "itemType", "type": "uint8"},
   {"internalType": "address", "name": "token", "type": "address", "column": "offer_token"},
   {"internalType": "uint256", "name": "identifier", "type": "uint256"},
   {"internalType": "uint256", "name": "amount", "type": "uint256"}],
  "indexed": false, "internalType": "struct SpentItem[]", "name": "offer", "type": "tuple[]"},
 {"components": [
   {"internalType": "enum ItemType", "name": "itemType", "type": "uint8"},
   {"internalType": "address", "name": "token", "type": "address"},
   {"internalType": "uint256", "name": "identifier", "type": "uint256"},
   {"internalType": "uint256", "name": "amount", "type": "uint256"},
   {"internalType": "address payable", "name": "recipient", "type": "address", "column": "consideration_recipient"}],
  "indexed": false, "internalType": "struct ReceivedItem[]", "name": "consideration", "type": "tuple[]"}]}`

// parseDecl: JSON-ABI text, or the compact flat form "Name: [indexed ]type name, ...".
func parseDecl(s string) (dig.Event, error) {
	var ev dig.Event
	if len(s) > 0 && s[0] == '{' {
		err := json.Unmarshal([]byte(s), &ev)
		return ev, err
	}
	name, rest, ok := strings.Cut(s, ":")
	if !ok || name == "" {
		return ev, fmt.Errorf("bad compact declaration %q", s)
	}
	ev.Name, ev.Type = name, "event"
	for _, part := range strings.Split(rest, ",") {
		w := strings.Fields(part)
		in := dig.Input{}
		if len(w) == 3 && w[0] == "indexed" {
			in.Indexed = true
			w = w[1:]
		}
		if len(w) != 2 {
			return ev, fmt.Errorf("bad compact input %q", part)
		}
		in.Type, in.Name = w[0], w[1]
		ev.Inputs = append(ev.Inputs, in)
	}
	return ev, nil
}

func hasTupleOrArray(ev dig.Event) bool {
	var walk func(ins []dig.Input) bool
	walk = func(ins []dig.Input) bool {
		for _, in := range ins {
			if len(in.Components) > 0 || (len(in.Type) > 0 && in.Type[len(in.Type)-1] == ']') {
				return true
			}
		}
		return false
	}
	return walk(ev.Inputs)
}

// judgeLiteral: a declaration with a hand-written canonical signature and (optionally) a published topic0.
func judgeLiteral(c *fw.Ctx, part string, idx int, decl, wantSig, published string) {
	ev, err := parseDecl(decl)
	if err != nil {
		c.HarnessError("%s[%d]: %v", part, idx, err)
		return
	}
	wantHash := ref.Keccak256([]byte(wantSig))
	if published != "" && hex.EncodeToString(wantHash) != published {
		c.HarnessError("%s[%d]: published topic0 %s of %q disagrees with the reference Keccak-256 %x (table or reference wrong)", part, idx, published, wantSig, wantHash)
		return
	}
	c.Eval(hasTupleOrArray(ev))
	c.Count(part+"_literals", 1)
	k := kase{Part: part, Index: idx, Sig: wantSig}
	got, gotHash, ow, p := sigAndHash(ev)
	sigKey, hashKey := "sig:edge-declaration", "hash:not-keccak256-of-signature"
	if part == "K" {
		sigKey, hashKey = "sig:published-signature", "hash:published-vector"
	}
	switch {
	case p != "":
		c.Outcome(part + ":panic")
		c.Violation(prop, "panic", "sig:panic", fmt.Sprintf("Signature/SignatureHash panicked: %s\ndeclaration %s", p, decl), k)
	case got != wantSig:
		c.Outcome(part + ":sig-mismatch")
		c.Violation(prop, "mismatch", sigKey, fmt.Sprintf("Event.Signature() = %q, want %q (hash got %x want %x)\ndeclaration %s", got, wantSig, gotHash, wantHash, decl), k)
	case !bytes.Equal(gotHash, wantHash):
		c.Outcome(part + ":hash-mismatch")
		c.Violation(prop, "mismatch", hashKey, fmt.Sprintf("SignatureHash() = %x, topic0 of %q is %x", gotHash, wantSig, wantHash), k)
	case ow != "":
		c.Outcome(part + ":hash-overwritten")
		c.Violation(prop, "mismatch", "hash:earlier-result-overwritten", fmt.Sprintf("the slice returned by SignatureHash() of %q %s", wantSig, ow), k)
	default:
		c.Outcome(part + ":ok")
	}
}

func evalKnown(c *fw.Ctx, i int) {
	if i < 0 || i >= len(known) {
		c.HarnessError("known index %d", i)
		return
	}
	judgeLiteral(c, "K", i, known[i].Decl, known[i].Sig, known[i].Topic0)
}

// ---- hand-written edge declarations (JSON-ABI text) ---------------------------

type edgeDecl struct{ Sig, Decl string }

var edges = []edgeDecl{
	// no inputs
	{"E()", `{"name":"E","type":"event","inputs":[]}`},
	// "tuple" occurs once in the type string, components nested inside components
	{"Nested((uint256,(address,(bool,bytes))))", `{"name":"Nested","type":"event","inputs":[
	 {"name":"a","type":"tuple","indexed":false,"components":[
	  {"name":"x","type":"uint256"},
	  {"name":"y","type":"tuple","components":[
	   {"name":"p","type":"address"},
	   {"name":"q","type":"tuple","components":[{"name":"r","type":"bool"},{"name":"s","type":"bytes"}]}]}]}]}`},
	// inputs and components named "tuple"
	{"a_b1((uint256,(address)[]),bytes32)", `{"name":"a_b1","type":"event","inputs":[
	 {"name":"tuple","type":"tuple","components":[
	  {"name":"tuple","type":"uint256"},
	  {"name":"tuple","type":"tuple[]","components":[{"name":"tuple","type":"address"}]}]},
	 {"name":"tuple2","type":"bytes32","indexed":true}]}`},
	// tuple[2] whose components are themselves tuple[]
	{"X9(((uint8)[],(bytes32,string)[])[2])", `{"name":"X9","type":"event","inputs":[
	 {"name":"a","type":"tuple[2]","components":[
	  {"name":"b","type":"tuple[]","components":[{"name":"c","type":"uint8"}]},
	  {"name":"d","type":"tuple[]","components":[{"name":"e","type":"bytes32"},{"name":"f","type":"string"}]}]}]}`},
	// multi-dimensional arrays of leaves and of tuples
	{"T(uint256[2][],(address,uint256[10])[][3])", `{"name":"T","type":"event","inputs":[
	 {"name":"m","type":"uint256[2][]"},
	 {"name":"n","type":"tuple[][3]","components":[{"name":"o","type":"address"},{"name":"p","type":"uint256[10]"}]}]}`},
	// indexed inputs around a tuple array
	{"Transfer(address,(uint256,bytes)[2][],string)", `{"name":"Transfer","type":"event","inputs":[
	 {"name":"from","type":"address","indexed":true},
	 {"name":"items","type":"tuple[2][]","components":[{"name":"id","type":"uint256"},{"name":"blob","type":"bytes"}]},
	 {"name":"memo","type":"string","indexed":true}]}`},
	// single-component tuples, three deep
	{"T((((uint256))))", `{"name":"T","type":"event","inputs":[
	 {"name":"a","type":"tuple","components":[{"name":"b","type":"tuple","components":[{"name":"c","type":"tuple","components":[{"name":"d","type":"uint256"}]}]}]}]}`},
	// multi-digit fixed lengths
	{"T((bool)[12][10],int8[1])", `{"name":"T","type":"event","inputs":[
	 {"name":"a","type":"tuple[12][10]","components":[{"name":"b","type":"bool"}]},
	 {"name":"c","type":"int8[1]","indexed":true}]}`},
}

func evalEdge(c *fw.Ctx, i int) {
	if i < 0 || i >= len(edges) {
		c.HarnessError("edge index %d", i)
		return
	}
	judgeLiteral(c, "E", i, edges[i].Decl, edges[i].Sig, "")
}
