package c13

import (
	"bytes"
	"context"
	"encoding/hex"
	"errors"
	"fmt"
	"reflect"
	"sort"
	"strings"
	"sync"

	"github.com/indexsupply/shovel/dig"
	"github.com/indexsupply/shovel/eth"
	"github.com/indexsupply/shovel/shovel/config"
	"github.com/indexsupply/shovel/wctx"
	"github.com/indexsupply/shovel/wpg"
	"github.com/jackc/pgx/v5"
	"github.com/jackc/pgx/v5/pgconn"

	"verifh/fw"
	"verifh/ref"
)

// ---- part B: the gate in Integration.processLog ----------------------------

// fakeConn implements wpg.Conn without a database: CopyFrom drains the source
// and records the rows; nothing else is expected to be called.
type fakeConn struct {
	copies  int
	table   pgx.Identifier
	columns []string
	rows    [][]any
	other   []string // unexpected calls
}

var errNotSupported = errors.New("c13 fake connection: only CopyFrom is supported")

func (f *fakeConn) CopyFrom(_ context.Context, table pgx.Identifier, cols []string, src pgx.CopyFromSource) (int64, error) {
	f.copies++
	f.table = table
	f.columns = append([]string(nil), cols...)
	for src.Next() {
		vals, err := src.Values()
		if err != nil {
			return 0, err
		}
		f.rows = append(f.rows, append([]any(nil), vals...))
	}
	if err := src.Err(); err != nil {
		return 0, err
	}
	return int64(len(f.rows)), nil
}

func (f *fakeConn) Exec(_ context.Context, q string, _ ...any) (pgconn.CommandTag, error) {
	f.other = append(f.other, "Exec "+q)
	return pgconn.CommandTag{}, errNotSupported
}

type errRow struct{}

func (errRow) Scan(...any) error { return errNotSupported }

func (f *fakeConn) QueryRow(_ context.Context, q string, _ ...any) pgx.Row {
	f.other = append(f.other, "QueryRow "+q)
	return errRow{}
}

func (f *fakeConn) Query(_ context.Context, q string, _ ...any) (pgx.Rows, error) {
	f.other = append(f.other, "Query "+q)
	return nil, errNotSupported
}

var _ wpg.Conn = (*fakeConn)(nil)

// eventB is one declaration under test with everything derived from it.
type eventB struct {
	Name     string
	Nodes    []*ref.Node
	Indexed  []bool
	Sel      []bool             // which inputs are bound to a column (at least one)
	k        int                // number of indexed inputs of the DECLARATION (selected or not)
	conf     config.Integration // the declaration object handed to dig.New in history cases (part H); part B hands out copies
	pristine config.Integration // deep copy taken before any dig.New saw the declaration
	topic0   []byte             // reference topic0
	data     []byte             // well-formed data for the non-indexed inputs (empty when all are indexed)
	sig      string
}

var pgType = map[string]string{"uint256": "numeric", "address": "bytea", "bytes": "bytea", "string": "text", "bool": "bool"}

// digInputB: when selected, every leaf of the input is bound to its own column.
func digInputB(n *ref.Node, name, col string, indexed, selected bool, cols *[]wpg.Column) dig.Input {
	in := dig.Input{Name: name, Type: n.JSONType(), Indexed: indexed}
	if n.IsTuple() {
		for i, f := range n.Fields {
			s := string(rune('a' + i))
			in.Components = append(in.Components, digInputB(f, name+"_"+s, col+"_"+s, false, selected, cols))
		}
		return in
	}
	if !selected {
		return in
	}
	in.Column = col
	t := pgType[n.Leaf]
	if t == "" {
		t = "bytea"
	}
	*cols = append(*cols, wpg.Column{Name: col, Type: t})
	return in
}

const (
	igName  = "c13_ig"
	srcName = "c13_src"
	tblName = "c13_tbl"
)

// newEventB: sel == nil means every input is selected.
func newEventB(name string, nodes []*ref.Node, indexed, sel []bool) (*eventB, error) {
	if sel == nil {
		sel = make([]bool, len(nodes))
		for i := range sel {
			sel[i] = true
		}
	}
	if len(nodes) != len(indexed) || len(nodes) != len(sel) || len(nodes) == 0 {
		return nil, fmt.Errorf("bad event: %d inputs, %d indexed flags, %d selection flags", len(nodes), len(indexed), len(sel))
	}
	ev := &eventB{Name: name, Nodes: nodes, Indexed: indexed, Sel: sel}
	var (
		cols   []wpg.Column
		inputs []dig.Input
		nonIdx []*ref.Node
		anySel bool
		selNon bool // a non-indexed input is selected
	)
	for i, n := range nodes {
		if indexed[i] && sel[i] && n.IsTuple() {
			return nil, fmt.Errorf("indexed tuple with selected components is outside the domain")
		}
		inputs = append(inputs, digInputB(n, fmt.Sprintf("in%d", i), fmt.Sprintf("c%d", i), indexed[i], sel[i], &cols))
		anySel = anySel || sel[i]
		if indexed[i] {
			ev.k++
		} else {
			nonIdx = append(nonIdx, n)
			selNon = selNon || sel[i]
		}
	}
	if !anySel {
		return nil, fmt.Errorf("no input selected: outside the domain (log indexing needs a selected input)")
	}
	root := &config.Root{Integrations: []config.Integration{{
		Name:    igName,
		Enabled: true,
		Table:   wpg.Table{Name: tblName, Columns: cols},
		Event:   dig.Event{Name: name, Type: "event", Inputs: inputs},
	}}}
	if err := config.ValidateFix(root); err != nil {
		return nil, fmt.Errorf("config.ValidateFix rejected the declaration: %w", err)
	}
	ev.conf = root.Integrations[0]
	ev.pristine = cloneConf(ev.conf)
	// the block data AddRequiredFields is documented to add
	wantBD := []string{"ig_name", "src_name", "block_num", "tx_idx", "log_idx"}
	if selNon {
		wantBD = append(wantBD, "abi_idx")
	}
	var gotBD []string
	for _, bd := range ev.conf.Block {
		gotBD = append(gotBD, bd.Name)
	}
	if strings.Join(gotBD, ",") != strings.Join(wantBD, ",") {
		return nil, fmt.Errorf("required block fields: got %v want %v", gotBD, wantBD)
	}
	ev.sig = ref.EventSignature(name, nodes)
	ev.topic0 = ref.Keccak256([]byte(ev.sig))
	if len(nonIdx) > 0 {
		sh := ref.Shape{ArrLens: []int{2}, ByteLens: []int{33, 0, 31}}
		vals := make([]ref.Value, len(nonIdx))
		for i, n := range nonIdx {
			vals[i] = ref.Gen(n, &sh)
		}
		ev.data = ref.EncodeInputs(nonIdx, vals)
	}
	return ev, nil
}

func (ev *eventB) decl() string {
	var parts []string
	for i, n := range ev.Nodes {
		s := ref.CanonType(n)
		if ev.Indexed[i] {
			s += " indexed"
		}
		if ev.Sel[i] {
			s += " ->column"
		}
		parts = append(parts, s)
	}
	return ev.Name + "(" + strings.Join(parts, ", ") + ")"
}

// logB is one letter of the log alphabet.
type logB struct {
	Topics [][]byte
	Data   []byte
	Desc   string // topic0 variant / topic count
}

type logT struct {
	Topics []string `json:"topics"`
	Data   string   `json:"data"`
	Desc   string   `json:"desc"`
}

func (l *logB) encode() logT {
	t := logT{Data: hex.EncodeToString(l.Data), Desc: l.Desc, Topics: []string{}}
	for _, x := range l.Topics {
		t.Topics = append(t.Topics, hex.EncodeToString(x))
	}
	return t
}

func (t logT) decode() (*logB, error) {
	l := &logB{Desc: t.Desc}
	var err error
	if l.Data, err = hex.DecodeString(t.Data); err != nil {
		return nil, err
	}
	for _, x := range t.Topics {
		b, err := hex.DecodeString(x)
		if err != nil {
			return nil, err
		}
		l.Topics = append(l.Topics, b)
	}
	return l, nil
}

// matches is the property's rule, evaluated on the raw log.
func (ev *eventB) matches(l *logB) bool {
	return len(l.Topics) == ev.k+1 && bytes.Equal(l.Topics[0], ev.topic0)
}

// class of a log relative to the event (used in violation keys).
func (ev *eventB) class(l *logB) string {
	if len(l.Topics) == 0 {
		return "empty-topics"
	}
	cnt := "other-count"
	if len(l.Topics) == ev.k+1 {
		cnt = "matching-count"
	}
	t0 := l.Topics[0]
	switch {
	case bytes.Equal(t0, ev.topic0) && len(l.Topics) == ev.k+1:
		return "match"
	case bytes.Equal(t0, ev.topic0) && len(l.Topics) < ev.k+1:
		return "hash-fewer-topics"
	case bytes.Equal(t0, ev.topic0):
		return "hash-more-topics"
	case len(t0) != 32:
		return "bad-length-topic0/" + cnt
	}
	diff := 0
	for i := range t0 {
		for x := t0[i] ^ ev.topic0[i]; x != 0; x &= x - 1 {
			diff++
		}
	}
	if diff == 1 {
		return "near-hash/" + cnt
	}
	return "other-event-hash/" + cnt
}

const maxTopics = 5

func topicWord(i int) []byte {
	w := make([]byte, 32)
	w[0], w[12], w[31] = 0xB0|byte(i), 0x5A, byte(0x10+i)
	return w
}

type topic0Variant struct {
	Name string
	T0   []byte
}

func (ev *eventB) topic0Variants() []topic0Variant {
	flip := func(i int) []byte {
		b := append([]byte(nil), ev.topic0...)
		b[i] ^= 0x01
		return b
	}
	otherType := append([]*ref.Node{ref.Leaf("bytes32")}, ev.Nodes[1:]...)
	extra := append(append([]*ref.Node(nil), ev.Nodes...), ref.Leaf("uint256"))
	return []topic0Variant{
		{"hash", append([]byte(nil), ev.topic0...)},
		{"flip-bit-first-byte", flip(0)},
		{"flip-bit-last-byte", flip(31)},
		{"same-name-other-type", ref.Topic0(ev.Name, otherType)},
		{"same-name-extra-input", ref.Topic0(ev.Name, extra)},
		{"zero", make([]byte, 32)},
		{"31-bytes", append([]byte(nil), ev.topic0[:31]...)},
		{"33-bytes", append(append([]byte(nil), ev.topic0...), 0)},
		{"0-bytes", []byte{}},
	}
}

// alphabet: every topic0 variant with every topic count 1..5, plus the empty topic list.
func (ev *eventB) alphabet() []*logB {
	out := []*logB{{Topics: nil, Data: ev.data, Desc: "no topics"}}
	for _, v := range ev.topic0Variants() {
		for n := 1; n <= maxTopics; n++ {
			l := &logB{Data: ev.data, Desc: fmt.Sprintf("topic0=%s topics=%d", v.Name, n)}
			l.Topics = append(l.Topics, v.T0)
			for i := 1; i < n; i++ {
				l.Topics = append(l.Topics, topicWord(i))
			}
			out = append(out, l)
		}
	}
	return out
}

func logIdxOf(pos int) uint64 { return uint64(5 + 4*pos) }

type runResult struct {
	panicked string
	err      error
	n        int64
	conn     *fakeConn
	declDiff string // non-empty: dig.New / Insert modified the declaration they were given
}

// buildIG calls dig.New with the given declaration object exactly as shovel/task.go NewDestination does.
func buildIG(c *config.Integration) (ig dig.Integration, panicked string, err error) {
	defer func() {
		if r := recover(); r != nil {
			panicked = fmt.Sprint(r)
		}
	}()
	ig, err = dig.New(c.Name, c.Event, c.Block, c.Table, c.Notification, c.FilterAGG)
	return
}

// runOn executes one Insert of one block / one tx holding the logs on the given Integration.
func runOn(ig *dig.Integration, logs []*logB) (res runResult) {
	res.conn = &fakeConn{}
	defer func() {
		if r := recover(); r != nil {
			res.panicked = fmt.Sprint(r)
		}
	}()
	blocks := make([]eth.Block, 1)
	blocks[0].Header = eth.Header{Number: 100, Hash: bytes.Repeat([]byte{0xB1}, 32), Parent: bytes.Repeat([]byte{0xB0}, 32)}
	blocks[0].Txs = make(eth.Txs, 1)
	tx := &blocks[0].Txs[0]
	tx.Idx = 2
	for i, l := range logs {
		el := eth.Log{Idx: eth.Uint64(logIdxOf(i)), Address: bytes.Repeat([]byte{0xAD}, 20), Data: append([]byte(nil), l.Data...)}
		if l.Topics != nil {
			el.Topics = make([]eth.Bytes, len(l.Topics))
			for j, t := range l.Topics {
				el.Topics[j] = append(eth.Bytes{}, t...)
			}
		}
		tx.Logs = append(tx.Logs, el)
	}
	ctx := wctx.WithChainID(wctx.WithIGName(wctx.WithSrcName(context.Background(), srcName), igName), 1)
	res.n, res.err = ig.Insert(ctx, &sync.Mutex{}, res.conn, blocks)
	return
}

// runSet: a FRESH copy of the declaration, a fresh Integration built from it, one Insert.
// Nothing is shared with any other case; the copy is compared with the pristine declaration afterwards.
func (ev *eventB) runSet(logs []*logB) (res runResult) {
	conf := cloneConf(ev.pristine)
	ig, p, err := buildIG(&conf)
	if p != "" || err != nil {
		res.conn = &fakeConn{}
		res.panicked = p
		if err != nil {
			res.err = fmt.Errorf("dig.New: %w", err)
		}
		return
	}
	res = runOn(&ig, logs)
	res.declDiff = confDiff(&conf, &ev.pristine)
	return
}

// cloneConf: deep copy of everything dig.New receives.
func cloneConf(c config.Integration) config.Integration {
	o := c
	o.Sources = append([]config.Source(nil), c.Sources...)
	o.Dependencies = append([]string(nil), c.Dependencies...)
	o.Table.Columns = append([]wpg.Column(nil), c.Table.Columns...)
	o.Table.Unique = cloneSS(c.Table.Unique)
	o.Table.Index = cloneSS(c.Table.Index)
	o.Notification.Columns = append([]string(nil), c.Notification.Columns...)
	o.Block = nil
	for _, bd := range c.Block {
		bd.Filter.Arg = append([]string(nil), bd.Filter.Arg...)
		o.Block = append(o.Block, bd)
	}
	o.Event.Inputs = cloneInputs(c.Event.Inputs)
	return o
}

func cloneSS(x [][]string) [][]string {
	if x == nil {
		return nil
	}
	o := make([][]string, len(x))
	for i := range x {
		o[i] = append([]string(nil), x[i]...)
	}
	return o
}

func cloneInputs(ins []dig.Input) []dig.Input {
	if ins == nil {
		return nil
	}
	o := make([]dig.Input, len(ins))
	for i, in := range ins {
		in.Filter.Arg = append([]string(nil), in.Filter.Arg...)
		in.Components = cloneInputs(in.Components)
		o[i] = in
	}
	return o
}

func inputsDiff(path string, a, b []dig.Input) string {
	if len(a) != len(b) {
		return fmt.Sprintf("%s: %d inputs, were %d", path, len(a), len(b))
	}
	for i := range a {
		p := fmt.Sprintf("%s[%d]", path, i)
		x, y := a[i], b[i]
		switch {
		case x.Type != y.Type:
			return fmt.Sprintf("%s.type is now %q, was %q", p, x.Type, y.Type)
		case x.Name != y.Name:
			return fmt.Sprintf("%s.name is now %q, was %q", p, x.Name, y.Name)
		case x.Indexed != y.Indexed:
			return fmt.Sprintf("%s.indexed is now %v, was %v", p, x.Indexed, y.Indexed)
		case x.Column != y.Column:
			return fmt.Sprintf("%s.column is now %q, was %q", p, x.Column, y.Column)
		case x.Op != y.Op || x.Ref != y.Ref || strings.Join(x.Arg, "\x00") != strings.Join(y.Arg, "\x00"):
			return fmt.Sprintf("%s filter changed", p)
		}
		if d := inputsDiff(p+".components", x.Components, y.Components); d != "" {
			return d
		}
	}
	return ""
}

// confDiff describes the first difference between a declaration and its pristine copy ("" = deeply equal).
func confDiff(now, was *config.Integration) string {
	if now.Event.Name != was.Event.Name || now.Event.Type != was.Event.Type || now.Event.Anon != was.Event.Anon {
		return "event name/type/anonymous changed"
	}
	if d := inputsDiff("event.inputs", now.Event.Inputs, was.Event.Inputs); d != "" {
		return d
	}
	if !reflect.DeepEqual(now.Block, was.Block) {
		return fmt.Sprintf("block fields are now %v, were %v", now.Block, was.Block)
	}
	if !reflect.DeepEqual(now.Table, was.Table) {
		return fmt.Sprintf("table is now %v, was %v", now.Table, was.Table)
	}
	if now.Name != was.Name || now.FilterAGG != was.FilterAGG || !reflect.DeepEqual(now.Notification, was.Notification) {
		return "name/filter_agg/notification changed"
	}
	return ""
}

func asUint(v any) (uint64, bool) {
	switch x := v.(type) {
	case eth.Uint64:
		return uint64(x), true
	case uint64:
		return x, true
	case int:
		return uint64(x), x >= 0
	case int64:
		return uint64(x), x >= 0
	}
	return 0, false
}

// judge returns "" when the log set behaved as the property demands, else (key, class, detail).
func (ev *eventB) judge(logs []*logB) (key, class, detail string) {
	r := ev.runSet(logs)
	if r.declDiff != "" {
		return "decl:modified-by-dig.New", "mismatch", "dig.New/Insert modified the declaration it was given: " + r.declDiff
	}
	return ev.judgeRes(r, logs, "gate:", func(l *logB) runResult { return ev.runSet([]*logB{l}) })
}

// judgeRes judges the outcome r of one Insert of logs; alone re-runs one log on a fresh Integration (nil: not available).
func (ev *eventB) judgeRes(r runResult, logs []*logB, pfx string, alone func(*logB) runResult) (key, class, detail string) {
	classes := make([]string, len(logs))
	want := 0
	for i, l := range logs {
		classes[i] = ev.class(l)
		if ev.matches(l) {
			want++
		}
	}
	// culprit of a panic / error: the first log that fails the same way alone, else the combination
	culprit := func(bad func(runResult) bool) string {
		if len(logs) == 1 {
			return classes[0]
		}
		if alone == nil {
			return "log-set"
		}
		for i, l := range logs {
			if bad(alone(l)) {
				return classes[i]
			}
		}
		cs := append([]string(nil), classes...)
		sort.Strings(cs)
		return "pair:" + strings.Join(cs, "+")
	}
	switch {
	case r.panicked != "":
		cp := culprit(func(x runResult) bool { return x.panicked != "" })
		key = pfx + "panic/" + cp
		if cp == "empty-topics" {
			key = pfx + "panic-empty-topics"
		}
		return key, "panic", fmt.Sprintf("Insert panicked: %s", r.panicked)
	case r.err != nil:
		cp := culprit(func(x runResult) bool { return x.err != nil })
		key = pfx + "error/" + cp
		if cp == "match" {
			key = pfx + "error-on-matching-log"
		}
		return key, "error", fmt.Sprintf("Insert returned an error: %v", r.err)
	case len(r.conn.other) > 0 || r.conn.copies != 1:
		return pfx + "unexpected-connection-use", "mismatch", fmt.Sprintf("CopyFrom calls=%d, other calls=%v", r.conn.copies, r.conn.other)
	}
	li := -1
	for i, cn := range r.conn.columns {
		if cn == "log_idx" {
			li = i
		}
	}
	if li < 0 {
		return pfx + "no-log-idx-column", "mismatch", fmt.Sprintf("CopyFrom columns %v carry no log_idx", r.conn.columns)
	}
	per := make([]int, len(logs))
	for _, row := range r.conn.rows {
		v, ok := uint64(0), false
		if li < len(row) {
			v, ok = asUint(row[li])
		}
		pos := -1
		for i := range logs {
			if ok && v == logIdxOf(i) {
				pos = i
			}
		}
		if pos < 0 {
			return pfx + "wrong-log-idx", "mismatch", fmt.Sprintf("a row carries log_idx=%v which is no log of the transaction (row %v)", row[li], row)
		}
		per[pos]++
	}
	for i, l := range logs {
		switch {
		case !ev.matches(l) && per[i] > 0:
			return pfx + "rows-from-nonmatching/" + classes[i], "mismatch", fmt.Sprintf("log %d (%s) is not a log of the declared event but produced %d row(s)", i, l.Desc, per[i])
		case ev.matches(l) && per[i] == 0:
			// root cause: does the matching log produce its row when it is alone in the tx?
			key = pfx + "no-rows-for-matching"
			if len(logs) == 2 && alone != nil {
				if a := alone(l); a.panicked == "" && a.err == nil && len(a.conn.rows) == 1 {
					key = pfx + "no-rows-for-matching/disturbed-by:" + classes[1-i]
				}
			}
			return key, "mismatch", fmt.Sprintf("log %d (%s) is a log of the declared event but produced no row", i, l.Desc)
		case ev.matches(l) && per[i] != 1:
			return pfx + "row-count-for-matching", "mismatch", fmt.Sprintf("log %d (%s) produced %d rows, want 1", i, l.Desc, per[i])
		}
	}
	if int(r.n) != want || len(r.conn.rows) != want {
		return pfx + "row-count", "mismatch", fmt.Sprintf("Insert returned %d, %d rows copied, want %d", r.n, len(r.conn.rows), want)
	}
	return "", "", ""
}

func evalB(c *fw.Ctx, ev *eventB, logs []*logB) {
	key, class, detail := ev.judge(logs)
	nm := 0
	for _, l := range logs {
		if ev.matches(l) {
			nm++
		}
	}
	if key == "" {
		c.Outcome(fmt.Sprintf("B:ok/logs=%d/rows=%d", len(logs), nm))
		return
	}
	c.Outcome("B:" + class)
	k := kase{Part: "B", Name: ev.Name, Indexed: ev.Indexed, Selected: ev.Sel, Sig: ev.sig}
	for _, n := range ev.Nodes {
		k.Inputs = append(k.Inputs, n.Clone())
	}
	var descs []string
	for _, l := range logs {
		k.Logs = append(k.Logs, l.encode())
		descs = append(descs, fmt.Sprintf("{%s: %d topics, topic0=%x, %d data bytes}", l.Desc, len(l.Topics), first(l.Topics), len(l.Data)))
	}
	c.Violation(prop, class, key, fmt.Sprintf("%s\nevent %s  topic0=%x indexed=%d\nlogs of the tx in order: %s", detail, ev.decl(), ev.topic0, ev.k, strings.Join(descs, " ")), k)
}

func allTrue(b []bool) bool {
	for _, x := range b {
		if !x {
			return false
		}
	}
	return true
}

func first(t [][]byte) []byte {
	if len(t) == 0 {
		return nil
	}
	return t[0]
}

// typesB: the per-input alternatives (type, indexed?).
type altB struct {
	node    *ref.Node
	indexed bool
}

func altsB(thorough bool) []altB {
	leaves := []string{"uint256", "address", "bytes"}
	if thorough {
		leaves = append(leaves, "string", "bool")
	}
	var out []altB
	for _, l := range leaves {
		out = append(out, altB{ref.Leaf(l), false}, altB{ref.Leaf(l), true})
	}
	out = append(out, altB{ref.Tuple([]*ref.Node{ref.Leaf("uint256"), ref.Leaf("bytes")}), false})
	// an indexed tuple (its topic is a hash): only enumerated without a column
	out = append(out, altB{ref.Tuple([]*ref.Node{ref.Leaf("uint256"), ref.Leaf("bytes")}), true})
	return out
}

const nameB = "Transfer"

func runB(c *fw.Ctx) {
	alts := altsB(c.Thorough())
	c.Bound("B_input_alternatives", len(alts))
	c.Bound("B_max_inputs", 3)
	c.Bound("B_topic_counts", []int{0, 1, 2, 3, 4, 5})
	c.Bound("B_topic0_variants", 9)
	for n := 1; n <= 3; n++ {
		idx := make([]int, n)
		for {
			// every selection pattern with at least one selected input
			for mask := 1; mask < 1<<n; mask++ {
				ok := true
				for i, a := range idx {
					if mask&(1<<i) != 0 && alts[a].indexed && alts[a].node.IsTuple() {
						ok = false // an indexed tuple cannot have selected components
					}
				}
				if !ok {
					continue
				}
				if !c.Mine() {
					continue
				}
				if c.Expired() {
					return
				}
				nodes := make([]*ref.Node, n)
				indexed := make([]bool, n)
				sel := make([]bool, n)
				for i, a := range idx {
					nodes[i], indexed[i], sel[i] = alts[a].node, alts[a].indexed, mask&(1<<i) != 0
				}
				runEventB(c, nodes, indexed, sel)
			}
			// next combination
			i := n - 1
			for ; i >= 0; i-- {
				idx[i]++
				if idx[i] < len(alts) {
					break
				}
				idx[i] = 0
			}
			if i < 0 {
				break
			}
		}
	}
}

func runEventB(c *fw.Ctx, nodes []*ref.Node, indexed, sel []bool) {
	ev, err := newEventB(nameB, nodes, indexed, sel)
	if err != nil {
		c.HarnessError("part B event: %v", err)
		return
	}
	c.Count("B_integrations", 1)
	c.Count(fmt.Sprintf("B_integrations/indexed=%d", ev.k), 1)
	selIdx, unselIdx, unselIdxAfterLastSel, lastSel := 0, 0, 0, -1
	for i := range sel {
		if sel[i] {
			lastSel = i
		}
	}
	for i := range sel {
		switch {
		case indexed[i] && sel[i]:
			selIdx++
		case indexed[i]:
			unselIdx++
			if i > lastSel {
				unselIdxAfterLastSel++
			}
		}
	}
	switch {
	case unselIdxAfterLastSel > 0:
		c.Count("B_integrations/unselected-indexed-input-after-last-selected", 1)
	case unselIdx > 0:
		c.Count("B_integrations/unselected-indexed-input", 1)
	case lastSel >= 0 && selIdx+unselIdx == ev.k && allTrue(sel):
		c.Count("B_integrations/all-selected", 1)
	default:
		c.Count("B_integrations/unselected-non-indexed-only", 1)
	}
	alpha := ev.alphabet()
	nMatch := 0
	for _, l := range alpha {
		if ev.matches(l) {
			nMatch++
		}
	}
	if nMatch != 1 {
		c.HarnessError("alphabet of %s has %d matching logs, want 1", ev.decl(), nMatch)
		return
	}
	one := func(logs []*logB) {
		nontrivial := false
		for _, l := range logs {
			if ev.matches(l) {
				c.Count("B_matching_logs", 1)
			} else {
				c.Count("B_nonmatching_logs", 1)
				nontrivial = true
			}
		}
		c.Eval(nontrivial)
		c.Count("B_inserts", 1)
		evalB(c, ev, logs)
	}
	for _, a := range alpha {
		one([]*logB{a})
	}
	// quick tier, partial selections: only the ordered pairs in which at least one log carries the
	// declared hash (any topic count) or no topics at all; all-selected integrations and the thorough
	// tier run every ordered pair.
	full := c.Thorough() || allTrue(sel)
	family := func(l *logB) bool { return len(l.Topics) == 0 || bytes.Equal(l.Topics[0], ev.topic0) }
	sets := len(alpha)
	for _, a := range alpha {
		for _, b := range alpha {
			if !full && !family(a) && !family(b) {
				continue
			}
			one([]*logB{a, b})
			sets++
		}
	}
	c.Sample(map[string]any{"part": "B", "event": ev.decl(), "topic0": hex.EncodeToString(ev.topic0), "alphabet": len(alpha), "log_sets": sets})
}
