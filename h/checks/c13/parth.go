package c13

import (
	"bytes"
	"fmt"
	"strings"

	"github.com/indexsupply/shovel/dig"

	"verifh/fw"
	"verifh/ref"
)

// ---- part H: history inside one case ----------------------------------------
//
// One case builds k in {2,3} integrations one after the other in one process
// (as shovel's NewTask / loadTasks do), each from a declaration built fresh
// inside the case or from THE SAME declaration object as an earlier slot
// (source concurrency > 1, or an integration listed under two sources),
// optionally interleaves Signature/SignatureHash computations of other events,
// and only then gates logs against EVERY integration. Nothing outlives the
// case, so a recorded case replays in a fresh process.

// slotT is one integration of the sequence (replayable).
type slotT struct {
	Name     string      `json:"name,omitempty"`
	Inputs   []*ref.Node `json:"inputs,omitempty"`
	Indexed  []bool      `json:"indexed,omitempty"`
	Selected []bool      `json:"selected,omitempty"`
	Shared   int         `json:"shared"` // >= 0: reuse the declaration object of that earlier slot; -1: fresh declaration
}

type inH struct {
	leaf    string
	dims    []int
	indexed bool
	sel     bool
}

// the input lists of the part H event alphabet: value-type topics, hashed-type
// topics (string, bytes, arrays), selected and not selected.
var listsH = [][]inH{
	{{"address", nil, true, true}, {"address", nil, true, true}, {"uint256", nil, false, true}},    // ERC-20 layout
	{{"string", nil, true, true}, {"address", nil, true, true}, {"uint256", nil, false, true}},     // indexed string, selected
	{{"bytes32", nil, true, true}, {"address", nil, true, true}, {"uint256", nil, false, true}},    // the same with a 32-byte topic type
	{{"bytes", nil, true, true}, {"uint256", nil, false, true}},                                    // indexed bytes
	{{"uint256", []int{0}, true, true}, {"address", nil, true, true}, {"bytes", nil, false, true}}, // indexed dynamic array
	{{"uint256", []int{2}, true, false}, {"uint256", nil, false, true}},                            // indexed fixed array without a column
	{{"address", nil, true, true}, {"address", nil, true, true}, {"uint256", nil, true, true}},     // ERC-721 layout (same signature as the first)
	{{"string", nil, true, false}, {"uint256", nil, false, true}},                                  // indexed string without a column
	{{"uint256", nil, false, true}, {"string", nil, false, true}},                                  // nothing indexed
}

var namesH = []string{"Transfer", "Approval"}

func alphabetSlotsH() []slotT {
	var out []slotT
	for _, name := range namesH {
		for _, l := range listsH {
			s := slotT{Name: name, Shared: -1}
			for _, in := range l {
				s.Inputs = append(s.Inputs, ref.Leaf(in.leaf, in.dims...))
				s.Indexed = append(s.Indexed, in.indexed)
				s.Selected = append(s.Selected, in.sel)
			}
			out = append(out, s)
		}
	}
	return out
}

// alphabetH: the logs gated against one integration of a history case.
// full: the whole part B alphabet; otherwise the declared hash with every topic
// count, the empty topic list, and every other topic0 variant with the matching count.
func (ev *eventB) alphabetH(full bool) []*logB {
	all := ev.alphabet()
	if full {
		return all
	}
	var out []*logB
	for _, l := range all {
		if len(l.Topics) == 0 || bytes.Equal(l.Topics[0], ev.topic0) || len(l.Topics) == ev.k+1 {
			out = append(out, l)
		}
	}
	return out
}

func (ev *eventB) matchingLog() *logB {
	l := &logB{Data: ev.data, Desc: "log of " + ev.sig}
	l.Topics = append(l.Topics, append([]byte(nil), ev.topic0...))
	for i := 1; i <= ev.k; i++ {
		l.Topics = append(l.Topics, topicWord(i))
	}
	return l
}

type failH struct{ key, class, detail string }

// evalH executes one history case and reports every distinct failure of it.
func evalH(c *fw.Ctx, slots []slotT, interleave, full bool) {
	fails := historyCase(slots, interleave, full)
	if len(fails) == 0 {
		c.Outcome(fmt.Sprintf("H:ok/k=%d/interleave=%v", len(slots), interleave))
		return
	}
	k := kase{Part: "H", Slots: slots, Interleave: interleave, Full: full}
	var d []string
	for i, s := range slots {
		if s.Shared >= 0 {
			d = append(d, fmt.Sprintf("#%d = same declaration object as #%d", i, s.Shared))
			continue
		}
		var parts []string
		for j, n := range s.Inputs {
			t := ref.CanonType(n)
			if s.Indexed[j] {
				t += " indexed"
			}
			if s.Selected[j] {
				t += " ->column"
			}
			parts = append(parts, t)
		}
		d = append(d, fmt.Sprintf("#%d = %s(%s)", i, s.Name, strings.Join(parts, ", ")))
	}
	seen := map[string]bool{}
	for _, f := range fails {
		if f.key == "harness" {
			c.HarnessError("part H: %s", f.detail)
			return
		}
		if seen[f.key] {
			continue
		}
		seen[f.key] = true
		c.Outcome("H:" + f.class)
		c.Violation(prop, f.class, f.key, fmt.Sprintf("%s\nintegrations built in this order in one process (interleaved hash computations: %v): %s", f.detail, interleave, strings.Join(d, "; ")), k)
	}
}

func historyCase(slots []slotT, interleave, full bool) (fails []failH) {
	fail := func(key, class, format string, a ...any) {
		fails = append(fails, failH{key, class, fmt.Sprintf(format, a...)})
	}
	n := len(slots)
	evs := make([]*eventB, n)
	igs := make([]*dig.Integration, n)
	held := make([][]byte, n)     // slices returned by SignatureHash, kept while later hashes are computed
	heldCopy := make([][]byte, n) // their content at the time they were returned
	noise := dig.Event{Name: "Noise", Type: "event", Inputs: []dig.Input{{Name: "n", Type: "uint8", Indexed: true}, {Name: "m", Type: "string[]"}}}
	noiseWant := ref.Keccak256([]byte("Noise(uint8,string[])"))
	for i, s := range slots {
		if s.Shared >= 0 {
			if s.Shared >= i {
				fail("harness", "harness", "slot %d shares with later slot %d", i, s.Shared)
				return
			}
			evs[i] = evs[s.Shared]
		} else {
			ev, err := newEventB(s.Name, s.Inputs, s.Indexed, s.Selected)
			if err != nil {
				fail("harness", "harness", "slot %d: %v", i, err)
				return
			}
			evs[i] = ev
		}
		ev := evs[i]
		// the declaration OBJECT (not a copy) goes to dig.New, as in shovel
		ig, p, err := buildIG(&ev.conf)
		switch {
		case p != "":
			fail("gate:history/panic-in-dig.New", "panic", "dig.New #%d panicked: %s", i, p)
			return
		case err != nil:
			fail("gate:history/error-in-dig.New", "error", "dig.New #%d: %v", i, err)
			return
		}
		igs[i] = &ig
		if d := confDiff(&ev.conf, &ev.pristine); d != "" {
			fail("decl:modified-by-dig.New", "mismatch", "dig.New #%d modified the declaration it was given: %s", i, d)
		}
		if interleave {
			h, p := safeHash(ev.conf.Event)
			if p != "" {
				fail("sig:panic", "panic", "SignatureHash of declaration #%d panicked: %s", i, p)
				return
			}
			held[i], heldCopy[i] = h, append([]byte(nil), h...)
			if !bytes.Equal(h, ev.topic0) {
				fail("hash:history/not-keccak256-of-signature", "mismatch", "after dig.New #%d, SignatureHash() of declaration #%d = %x, Keccak-256(%q) = %x", i, i, h, ev.sig, ev.topic0)
			}
			nh, p := safeHash(noise)
			if p != "" || !bytes.Equal(nh, noiseWant) || noise.Signature() != "Noise(uint8,string[])" {
				fail("hash:history/not-keccak256-of-signature", "mismatch", "interleaved SignatureHash of Noise(uint8,string[]) = %x (panic %q), want %x", nh, p, noiseWant)
			}
		}
	}
	for i := range slots {
		if held[i] != nil && !bytes.Equal(held[i], heldCopy[i]) {
			fail("hash:earlier-result-overwritten", "mismatch", "the slice returned by SignatureHash() of declaration #%d held %x when returned and holds %x after later hash computations", i, heldCopy[i], held[i])
		}
	}
	// gate: every integration against its own alphabet, the logs of the other events, and one tx with all of them
	var all []*logB
	for i := range slots {
		if slots[i].Shared < 0 {
			all = append(all, evs[i].matchingLog())
		}
	}
	for i := range slots {
		ev := evs[i]
		judgeOne := func(logs []*logB) {
			r := runOn(igs[i], logs)
			if key, class, detail := ev.judgeRes(r, logs, "gate:history/", nil); key != "" {
				var ds []string
				for _, l := range logs {
					ds = append(ds, fmt.Sprintf("{%s: %d topics, topic0=%x}", l.Desc, len(l.Topics), first(l.Topics)))
				}
				fail(key, class, "integration #%d (%s, topic0 %x, %d indexed): %s; tx logs: %s", i, ev.decl(), ev.topic0, ev.k, detail, strings.Join(ds, " "))
			}
		}
		for _, l := range ev.alphabetH(full) {
			judgeOne([]*logB{l})
		}
		for _, l := range all {
			judgeOne([]*logB{l})
		}
		judgeOne(all)
		if d := confDiff(&ev.conf, &ev.pristine); d != "" {
			fail("decl:modified-by-dig.New", "mismatch", "after Insert on integration #%d the declaration differs from what was given: %s", i, d)
		}
	}
	return fails
}

func safeHash(ev dig.Event) (h []byte, panicked string) {
	defer func() {
		if r := recover(); r != nil {
			panicked = fmt.Sprint(r)
		}
	}()
	return ev.SignatureHash(), ""
}

func runH(c *fw.Ctx) {
	alpha := alphabetSlotsH()
	full := c.Thorough()
	c.Bound("H_event_alphabet", len(alpha))
	c.Bound("H_sequence_lengths", []int{2, 3})
	c.Bound("H_interleave", []bool{false, true})
	// slot choices at position p: any event of the alphabet (fresh declaration) or the declaration object of an earlier slot
	choices := func(p int) []slotT {
		out := append([]slotT(nil), alpha...)
		for j := 0; j < p; j++ {
			out = append(out, slotT{Shared: j})
		}
		return out
	}
	one := func(slots []slotT) {
		for _, il := range []bool{false, true} {
			c.Eval(true)
			c.Count("H_cases", 1)
			c.Count(fmt.Sprintf("H_cases/k=%d", len(slots)), 1)
			shared := false
			for _, s := range slots {
				shared = shared || s.Shared >= 0
			}
			if shared {
				c.Count("H_cases/with-shared-declaration-object", 1)
			}
			evalH(c, slots, il, full)
		}
	}
	for _, s0 := range choices(0) {
		for _, s1 := range choices(1) {
			if !c.Mine() {
				continue
			}
			if c.Expired() {
				return
			}
			one([]slotT{s0, s1})
			for _, s2 := range choices(2) {
				// a slot sharing with a shared slot is the same as sharing with its origin
				if s2.Shared >= 0 && []slotT{s0, s1}[s2.Shared].Shared >= 0 {
					continue
				}
				one([]slotT{s0, s1, s2})
			}
		}
	}
}
