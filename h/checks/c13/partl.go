package c13

import (
	"bytes"
	"encoding/hex"
	"encoding/json"
	"fmt"
	"strconv"
	"strings"

	"github.com/indexsupply/shovel/dig"

	"verifh/fw"
	"verifh/ref"
)

// ---- part L: the LENGTH of the canonical signature ---------------------------
//
// Parts A and B enumerate small type trees, so every signature they see is
// short. Part L walks the length axis: for every length n of a range (and
// around larger buffer-size boundaries) and every construction family it
// builds a declaration whose reference signature has EXACTLY n bytes, and
// judges (1) Signature / SignatureHash against the independent canonicaliser
// and the independent Keccak-256, (2) the gate of Integration.Insert on the
// log of the event and on decoy logs whose topic0 is the Keccak-256 of a
// PROPER PREFIX of the signature (what a truncating / chunked / fixed-buffer
// hash computation would yield).

// famL: one way to construct a declaration of a given signature length.
type famL struct {
	Name string
	Gate bool // also drive Integration.Insert (families without arrays, one row per matching log)
	// Build: ok=false when n is below the family's minimum.
	Build func(n int) (name string, nodes []*ref.Node, indexed []bool, ok bool)
}

const padChars = "abcdefghijklmnopqrstuvwxyz_ABCDEFGHIJKLMNOPQRSTUVWXYZ0123456789"

// padName: an identifier of exactly total bytes that starts with prefix (cut when total is shorter);
// the padding is position dependent so that no two prefixes of a name are equal.
func padName(prefix string, total int) string {
	if total <= len(prefix) {
		return prefix[:total]
	}
	var b strings.Builder
	b.WriteString(prefix)
	for i := len(prefix); i < total; i++ {
		b.WriteByte(padChars[(i*7+i/len(padChars))%len(padChars)])
	}
	return b.String()
}

func argsLen(nodes []*ref.Node) int { return len(ref.EventSignature("", nodes)) }

// fixedL: a fixed input list, the event NAME is padded up to the wanted length.
func fixedL(prefix string, nodes []*ref.Node, indexed []bool) func(int) (string, []*ref.Node, []bool, bool) {
	return func(n int) (string, []*ref.Node, []bool, bool) {
		t := n - argsLen(nodes)
		if t < 1 {
			return "", nil, nil, false
		}
		return padName(prefix, t), nodes, indexed, true
	}
}

// growL: the input list grows (next(i) = the declaration with i growth steps) as long as the
// signature with the unpadded name still fits; the few remaining bytes go into the name.
func growL(prefix string, next func(i int) ([]*ref.Node, []bool)) func(int) (string, []*ref.Node, []bool, bool) {
	return func(n int) (string, []*ref.Node, []bool, bool) {
		nodes, indexed := next(0)
		for i := 1; ; i++ {
			nn, ii := next(i)
			if argsLen(nn)+len(prefix) > n {
				break
			}
			nodes, indexed = nn, ii
		}
		t := n - argsLen(nodes)
		if t < 1 {
			return "", nil, nil, false
		}
		return padName(prefix, t), nodes, indexed, true
	}
}

var flatCycleL = []string{"uint256", "address", "bytes", "bool", "string"}

// flat input list: address indexed, then i more inputs cycling over 5 leaf types; the second
// address is indexed too.
func flatInputsL(i int) ([]*ref.Node, []bool) {
	nodes := []*ref.Node{ref.Leaf("address")}
	indexed := []bool{true}
	seenAddr := false
	for j := 0; j < i; j++ {
		l := flatCycleL[j%len(flatCycleL)]
		nodes = append(nodes, ref.Leaf(l))
		indexed = append(indexed, l == "address" && !seenAddr)
		if l == "address" {
			seenAddr = true
		}
	}
	return nodes, indexed
}

// nested static/dynamic tuples without arrays: uint256, (uint8,(uint8,(...(uint8,bytes32))))
func nestedInputsL(i int) ([]*ref.Node, []bool) {
	n := ref.Leaf("bytes32")
	for j := 0; j <= i; j++ {
		n = ref.Tuple([]*ref.Node{ref.Leaf("uint8"), n})
	}
	return []*ref.Node{ref.Leaf("uint256"), n}, []bool{false, false}
}

// nested tuple arrays, alternately dynamic and fixed: (bool,(bool,(...bytes...)[2])[])[2]
func nestedArrayInputsL(i int) ([]*ref.Node, []bool) {
	n := ref.Leaf("bytes")
	for j := 0; j <= i; j++ {
		n = ref.Tuple([]*ref.Node{ref.Leaf("bool"), n}, (j%2)*2)
	}
	return []*ref.Node{n, ref.Leaf("address")}, []bool{false, true}
}

// struct-list shape of order books (Seaport-like): bytes32, address indexed, then i tuple arrays
// (uint8,address,uint256,uint256)[]
func structListInputsL(i int) ([]*ref.Node, []bool) {
	nodes := []*ref.Node{ref.Leaf("bytes32"), ref.Leaf("address")}
	indexed := []bool{false, true}
	for j := 0; j < i; j++ {
		nodes = append(nodes, ref.Tuple([]*ref.Node{ref.Leaf("uint8"), ref.Leaf("address"), ref.Leaf("uint256"), ref.Leaf("uint256")}, 0))
		indexed = append(indexed, false)
	}
	return nodes, indexed
}

var famsL = []famL{
	{"name-padded/erc20", true, fixedL("Transfer", []*ref.Node{ref.Leaf("address"), ref.Leaf("address"), ref.Leaf("uint256")}, []bool{true, true, false})},
	{"name-padded/tuple", true, fixedL("Filled", []*ref.Node{ref.Leaf("uint256"), ref.Tuple([]*ref.Node{ref.Leaf("uint256"), ref.Leaf("bytes")})}, []bool{true, false})},
	{"inputs-added/flat", true, growL("Transfer", flatInputsL)},
	{"inputs-added/nested-tuple", true, growL("Nested", nestedInputsL)},
	{"inputs-added/nested-tuple-array", false, growL("X9", nestedArrayInputsL)},
	{"inputs-added/struct-arrays", false, growL("OrderFulfilled", structListInputsL)},
}

func famByName(name string) *famL {
	for i := range famsL {
		if famsL[i].Name == name {
			return &famsL[i]
		}
	}
	return nil
}

// lengthsL: every length of a range, then 2^k-1, 2^k, 2^k+1.
func lengthsL(thorough bool) (out []int) {
	hi, maxPow := 300, 10
	if thorough {
		hi, maxPow = 700, 11
	}
	for n := 4; n <= hi; n++ {
		out = append(out, n)
	}
	for k := 9; k <= maxPow; k++ {
		for d := -1; d <= 1; d++ {
			if n := 1<<k + d; n > hi {
				out = append(out, n)
			}
		}
	}
	return out
}

// boundaryPrefixes: the proper prefix lengths p < n that are buffer-size boundaries: 0, n-1,
// 2^k-1 / 2^k / 2^k+1 (k >= 2), and m*136-1 / m*136 / m*136+1 (136 = rate of Keccak-256).
func boundaryPrefixes(n int) []int {
	seen := map[int]bool{}
	var out []int
	add := func(p int) {
		if p >= 0 && p < n && !seen[p] {
			seen[p] = true
			out = append(out, p)
		}
	}
	add(0)
	for k := 2; 1<<k-1 < n; k++ {
		add(1<<k - 1)
		add(1 << k)
		add(1<<k + 1)
	}
	for m := 1; m*136-1 < n; m++ {
		add(m*136 - 1)
		add(m * 136)
		add(m*136 + 1)
	}
	add(n - 1)
	return out
}

func bucketL(n int) string {
	for _, b := range []int{32, 64, 128, 136, 256} {
		if n <= b {
			return "len<=" + strconv.Itoa(b)
		}
	}
	return "len>256"
}

// eventL: one declaration of part L.
type eventL struct {
	fam     *famL
	n       int
	name    string
	nodes   []*ref.Node
	indexed []bool
	sig     string
	topic0  []byte
	event   dig.Event // the declaration whose Signature / SignatureHash are judged
	ev      *eventB   // gate families only
}

func buildL(fam *famL, n int) (*eventL, bool, error) {
	name, nodes, indexed, ok := fam.Build(n)
	if !ok {
		return nil, false, nil
	}
	e := &eventL{fam: fam, n: n, name: name, nodes: nodes, indexed: indexed}
	e.sig = ref.EventSignature(name, nodes)
	if len(e.sig) != n {
		return nil, false, fmt.Errorf("family %s: built a signature of %d bytes, wanted %d: %s", fam.Name, len(e.sig), n, e.sig)
	}
	e.topic0 = ref.Keccak256([]byte(e.sig))
	if fam.Gate {
		ev, err := newEventB(name, nodes, indexed, nil)
		if err != nil {
			return nil, false, fmt.Errorf("family %s length %d: %w", fam.Name, n, err)
		}
		if ev.sig != e.sig {
			return nil, false, fmt.Errorf("family %s length %d: two reference signatures", fam.Name, n)
		}
		e.ev = ev
		e.event = cloneConf(ev.pristine).Event // the declaration as config.ValidateFix completed it
	} else {
		e.event = dig.Event{Name: name, Type: "event"}
		for i, nd := range nodes {
			in := inputL(nd, "in"+strconv.Itoa(i))
			in.Indexed = indexed[i]
			e.event.Inputs = append(e.event.Inputs, in)
		}
	}
	return e, true, nil
}

// inputL: the declaration of one input without columns (any number of components).
func inputL(n *ref.Node, name string) dig.Input {
	in := dig.Input{Name: name, Type: n.JSONType()}
	for i, f := range n.Fields {
		in.Components = append(in.Components, inputL(f, name+"_"+strconv.Itoa(i)))
	}
	return in
}

func (e *eventL) kase(set string) kase {
	return kase{Part: "L", Name: e.fam.Name, Index: e.n, Set: set, Sig: e.sig}
}

// prefixLog: a log with the topic count of the event whose topic0 is Keccak-256(sig[:p]).
func (e *eventL) prefixLog(p int) *logB {
	l := &logB{Data: e.ev.data, Desc: fmt.Sprintf("topic0=keccak256(first %d of the %d signature bytes) topics=%d", p, e.n, e.ev.k+1)}
	l.Topics = append(l.Topics, ref.Keccak256([]byte(e.sig[:p])))
	for i := 1; i <= e.ev.k; i++ {
		l.Topics = append(l.Topics, topicWord(i))
	}
	return l
}

// sets: the names of the cases of one declaration, in execution order.
func (e *eventL) sets() []string {
	out := []string{"sig"}
	if e.ev == nil {
		return out
	}
	out = append(out, "match-alone", "all-prefixes")
	for _, p := range boundaryPrefixes(e.n) {
		out = append(out, "prefix:"+strconv.Itoa(p))
	}
	return out
}

func (e *eventL) logsOf(set string) ([]*logB, error) {
	switch {
	case set == "match-alone":
		return []*logB{e.ev.matchingLog()}, nil
	case set == "all-prefixes":
		// one tx: every proper prefix in ascending order, the log of the event in the middle
		var logs []*logB
		for p := 0; p < e.n; p++ {
			if p == e.n/2 {
				logs = append(logs, e.ev.matchingLog())
			}
			logs = append(logs, e.prefixLog(p))
		}
		return logs, nil
	case strings.HasPrefix(set, "prefix:"):
		p, err := strconv.Atoi(set[len("prefix:"):])
		if err != nil || p < 0 || p >= e.n {
			return nil, fmt.Errorf("bad prefix set %q for length %d", set, e.n)
		}
		return []*logB{e.prefixLog(p)}, nil
	}
	return nil, fmt.Errorf("unknown log set %q", set)
}

// evalL executes one case (one set) of one declaration.
func evalL(c *fw.Ctx, e *eventL, set string) {
	b := bucketL(e.n)
	if set == "sig" {
		c.Eval(e.n > 32)
		got, gotHash, ow, p := sigAndHash(e.event)
		decl := func() string { x, _ := json.Marshal(e.event); return string(x) }
		switch {
		case p != "":
			c.Outcome("L:panic")
			c.Violation(prop, "panic", "sig:panic", fmt.Sprintf("Signature/SignatureHash panicked: %s\ndeclaration %s", p, decl()), e.kase(set))
		case got != e.sig:
			c.Outcome("L:sig-mismatch")
			c.Violation(prop, "mismatch", "sig:canonical-mismatch/"+b, fmt.Sprintf("Event.Signature() = %q, canonical signature (%d bytes) is %q\ndeclaration %s", got, e.n, e.sig, decl()), e.kase(set))
		case len(gotHash) != 32:
			c.Outcome("L:hash-length")
			c.Violation(prop, "mismatch", "hash:length", fmt.Sprintf("SignatureHash() has %d bytes for %q", len(gotHash), e.sig), e.kase(set))
		case !bytes.Equal(gotHash, e.topic0):
			detail := fmt.Sprintf("SignatureHash() = %x, Keccak-256 of the %d byte signature %q = %x", gotHash, e.n, e.sig, e.topic0)
			for p := 0; p < e.n; p++ {
				if bytes.Equal(gotHash, ref.Keccak256([]byte(e.sig[:p]))) {
					detail += fmt.Sprintf("\n(the returned value is the Keccak-256 of the first %d bytes of the signature)", p)
					break
				}
			}
			c.Outcome("L:hash-mismatch")
			c.Violation(prop, "mismatch", "hash:not-keccak256-of-signature/"+b, detail, e.kase(set))
		case ow != "":
			c.Outcome("L:hash-overwritten")
			c.Violation(prop, "mismatch", "hash:earlier-result-overwritten", fmt.Sprintf("the slice returned by SignatureHash() of %q %s", e.sig, ow), e.kase(set))
		default:
			c.Outcome("L:ok/" + e.fam.Name)
		}
		return
	}
	if e.ev == nil {
		c.HarnessError("part L: family %s has no gate cases (set %q)", e.fam.Name, set)
		return
	}
	logs, err := e.logsOf(set)
	if err != nil {
		c.HarnessError("part L: %v", err)
		return
	}
	ev := e.ev
	nm := 0
	for _, l := range logs {
		if ev.matches(l) {
			nm++
			c.Count("L_matching_logs", 1)
		} else {
			c.Count("L_prefix_decoy_logs", 1)
		}
	}
	c.Eval(nm < len(logs))
	c.Count("L_inserts", 1)
	pfx := "gate-" + b + ":"
	var key, class, detail string
	r := ev.runSet(logs)
	if r.declDiff != "" {
		key, class, detail = "decl:modified-by-dig.New", "mismatch", "dig.New/Insert modified the declaration it was given: "+r.declDiff
	} else {
		key, class, detail = ev.judgeRes(r, logs, pfx, func(l *logB) runResult { return ev.runSet([]*logB{l}) })
	}
	if key == "" {
		kind := set
		if strings.HasPrefix(set, "prefix:") {
			kind = "prefix-alone"
		}
		c.Outcome(fmt.Sprintf("L:gate-ok/%s/rows=%d", kind, nm))
		return
	}
	c.Outcome("L:gate-" + class)
	c.Violation(prop, class, key, fmt.Sprintf("%s\nevent %s\ncanonical signature (%d bytes) %q topic0=%x indexed=%d\nlog set %q: %d logs in one tx", detail, ev.decl(), e.n, e.sig, ev.topic0, ev.k, set, len(logs)), e.kase(set))
}

func replayL(c *fw.Ctx, k kase) {
	fam := famByName(k.Name)
	if fam == nil {
		c.HarnessError("replay: unknown part L family %q", k.Name)
		return
	}
	e, ok, err := buildL(fam, k.Index)
	if err != nil || !ok {
		c.HarnessError("replay: part L family %s length %d cannot be built: %v", k.Name, k.Index, err)
		return
	}
	evalL(c, e, k.Set)
}

func runL(c *fw.Ctx) {
	lens := lengthsL(c.Thorough())
	var famNames []string
	for _, f := range famsL {
		famNames = append(famNames, f.Name)
	}
	c.Bound("L_families", famNames)
	// the contiguous range lens[0]..contiguousTo, then the isolated lengths around powers of two
	contiguousTo, isolated := lens[0], []int{}
	for i, n := range lens {
		if n == lens[0]+i {
			contiguousTo = n
		} else {
			isolated = append(isolated, n)
		}
	}
	c.Bound("L_lengths", map[string]any{"every_length_from": lens[0], "to": contiguousTo, "then": isolated, "count": len(lens)})
	for _, n := range lens {
		for i := range famsL {
			fam := &famsL[i]
			if !c.Mine() {
				continue
			}
			if c.Expired() {
				return
			}
			e, ok, err := buildL(fam, n)
			if err != nil {
				c.HarnessError("part L: %v", err)
				return
			}
			if !ok {
				c.Count("L_below_family_minimum", 1)
				continue
			}
			c.Count("L_declarations", 1)
			c.Count("L_declarations/"+fam.Name, 1)
			c.Count("L_declarations/"+bucketL(n), 1)
			for _, set := range e.sets() {
				evalL(c, e, set)
			}
			if n == 137 || n == 1025 {
				c.Sample(map[string]any{"part": "L", "family": fam.Name, "length": n, "signature": e.sig, "topic0": hex.EncodeToString(e.topic0), "inputs": len(e.nodes), "cases": len(e.sets())})
			}
		}
	}
}
