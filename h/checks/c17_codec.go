package checks

import (
	"bytes"
	"encoding/hex"
	stdjson "encoding/json"
	"fmt"
	"math/big"
	"strconv"
	"strings"
	"time"
	"unicode/utf8"

	gojson "github.com/goccy/go-json"
	"github.com/indexsupply/shovel/bint"
	"github.com/indexsupply/shovel/eth"

	"verifh/fw"
)

// C17 — wire codecs are exact and total.
//
// Bounded-exhaustive enumeration of inputs against strconv / encoding/hex /
// math/big. Domains: (1) ALL byte strings of length 0..6 over a 12 symbol
// alphabet as raw tokens for the three UnmarshalJSON methods, and as JSON
// member values through encoding/json and goccy/go-json (the decoder the RPC
// client uses); (2) structured uint64 sub-domain × spellings; (3) byte
// strings of every length 0..4096 (quick: 0..600 and a stride above);
// (4) every ordered triple of decodes into one destination; (5) bint with
// every pad width 1..32; (7) the FULL byte range 0..255 as "digits" of 0x-prefixed string tokens: every
// digit string of length 1..2, every position x byte value of digit counts 3..18 (thorough ..34), every
// non-ASCII code point UTF-8 encoded inside a well-formed document — raw calls, encoding/json, goccy/go-json,
// each type on its own — and the string helpers on the same position x byte value family.

const c17Alphabet = "\"0xX19aFgnu "

type c17Case struct {
	Kind  string   `json:"kind"`
	Token string   `json:"token,omitempty"`
	Hex   string   `json:"hex,omitempty"` // token bytes in hex when the token is not valid UTF-8 (JSON would not round-trip it)
	Seq   []string `json:"seq,omitempty"`
	N     uint64   `json:"n,omitempty"`
	W     int      `json:"w,omitempty"`
}

func init() {
	Register(&Check{
		ID:        "C17",
		Level:     "exploration",
		Technique: "bounded-exhaustive input enumeration against reference codecs (strconv, encoding/hex, math/big)",
		Rule: "all tokens of length 0..6 (thorough: 0..7) over the alphabet " + strconv.Quote(c17Alphabet) + " fed to Uint64/Byte/Bytes.UnmarshalJSON directly and via encoding/json and goccy/go-json; " +
			"uint64 values with <=2 non-zero nibbles + boundaries x {lower,upper,mixed,zero-padded} spellings; byte strings of every length x 3 patterns x 2 cases, one bad digit at every position (len<=64), odd digit counts; " +
			"all ordered triples from 16 hex values (incl. growth from len < cap) and the token null into one Bytes destination (directly and as a struct field through encoding/json and goccy/go-json); bint Encode/Decode boundary set x pad 1..32; eth.DecodeHex/EncodeHex on every byte string of length 0..2 and lengths 3..40 x every first byte x 3 fills x {0x, 0X, unprefixed, odd} spellings, DecodeUint64/EncodeUint64 on the quantity set. " +
			"Full byte range: tokens \"0x<digits>\" whose digits are ALL 256 byte values - every digit string of length 1 and 2 (256+65536), digit counts 3..18 (thorough: 3..34) x every position x every byte value x fill digits {1,f,A} - and every non-ASCII code point of U+0080..U+FFFF (above: quick those whose last two continuation bytes are equal, thorough all) UTF-8 encoded alone, after a digit and before a digit (well-formed JSON documents); each token goes to Uint64/Byte/Bytes.UnmarshalJSON directly and as a member value through encoding/json and goccy/go-json into each type separately, the reference (isHex + strconv + encoding/hex) deciding value or rejection; eth.DecodeHex/DecodeUint64 on digit counts 1..16 (thorough: 1..40) x every position x every byte value x fill digits {1,f} x {0x, 0X, unprefixed}. " +
			"A case is non-trivial when it is a judged spelling (0x-prefixed string token, or a structured value); every case is distinct by construction.",
		Assumptions: []string{
			"quantities with more than 16 hex digits are not spellings of a 64-bit value and are not judged",
			"tokens that are not 0x-prefixed JSON strings are judged only for absence of panics",
			"eth.Byte values above 0xff are not valid for the type and are not judged for value",
			"string tokens with a backslash among the digits (JSON escape sequences) are judged only for absence of panics",
			"through a JSON decoder a non-hex token is rejected when Unmarshal returns any error, whether from the decoder or from the codec",
			"the string helpers have no error result: for a spelling with a non-hex byte eth.DecodeHex rejects by returning fewer bytes than the spelling has and eth.DecodeUint64 by panicking; only a full value for such a spelling is a violation",
		},
		Budget:        map[string]time.Duration{"quick": 120 * time.Second, "thorough": 900 * time.Second},
		MinNontrivial: 1000,
		Run:           c17Run,
		Replay:        c17Replay,
	})
}

// c17TokCase is the replayable form of a raw token: arbitrary bytes do not survive a JSON string.
func c17TokCase(tok string) c17Case {
	if utf8.ValidString(tok) {
		return c17Case{Kind: "token", Token: tok}
	}
	return c17Case{Kind: "token", Hex: hex.EncodeToString([]byte(tok))}
}

func isHex(c byte) bool {
	return c >= '0' && c <= '9' || c >= 'a' && c <= 'f' || c >= 'A' && c <= 'F'
}

// c17Token checks one raw token against the three unmarshalers.
func c17Token(c *fw.Ctx, tok string) {
	judged := false
	// as a member value per type, value and accept/reject judged (string tokens "0x…" only)
	c17Strict(c, tok)
	// direct calls
	func() {
		defer func() {
			if r := recover(); r != nil {
				c.Violation("C17", "panic", "unmarshal/panic", fmt.Sprintf("token %q: panic %v", tok, r), c17TokCase(tok))
			}
		}()
		var u eth.Uint64
		uerr := u.UnmarshalJSON([]byte(tok))
		var b eth.Byte
		berr := b.UnmarshalJSON([]byte(tok))
		var bs eth.Bytes
		bserr := bs.UnmarshalJSON([]byte(tok))
		// judged only for string tokens "0x…"
		if len(tok) >= 4 && tok[0] == '"' && tok[len(tok)-1] == '"' && tok[1] == '0' && tok[2] == 'x' && !strings.Contains(tok[1:len(tok)-1], "\"") {
			digits := tok[3 : len(tok)-1]
			allhex := true
			for i := 0; i < len(digits); i++ {
				if !isHex(digits[i]) {
					allhex = false
				}
			}
			judged = true
			switch {
			case !allhex && len(digits) <= 16:
				if uerr == nil {
					c.Violation("C17", "mismatch", "uint64/accepts-nonhex", fmt.Sprintf("Uint64 %q: no error, got %d", tok, u), c17TokCase(tok))
				}
				if berr == nil {
					c.Violation("C17", "mismatch", "byte/accepts-nonhex", fmt.Sprintf("Byte %q: no error", tok), c17TokCase(tok))
				}
				if bserr == nil {
					c.Violation("C17", "mismatch", "bytes/accepts-nonhex", fmt.Sprintf("Bytes %q: no error, got %x", tok, []byte(bs)), c17TokCase(tok))
				}
			case !allhex:
				if bserr == nil {
					c.Violation("C17", "mismatch", "bytes/accepts-nonhex", fmt.Sprintf("Bytes %q: no error", tok), c17TokCase(tok))
				}
			case allhex:
				if len(digits) >= 1 && len(digits) <= 16 {
					want, _ := strconv.ParseUint(digits, 16, 64)
					if uerr != nil || uint64(u) != want {
						c.Violation("C17", "mismatch", "uint64/value", fmt.Sprintf("Uint64 %q: got %d err=%v want %d", tok, u, uerr, want), c17TokCase(tok))
					}
					if want <= 0xff && (berr != nil || uint64(b) != want) {
						c.Violation("C17", "mismatch", "byte/value", fmt.Sprintf("Byte %q: got %d err=%v want %d", tok, b, berr, want), c17TokCase(tok))
					}
				}
				if len(digits)%2 == 0 {
					want, _ := hex.DecodeString(digits)
					if bserr != nil || !bytes.Equal(bs, want) {
						c.Violation("C17", "mismatch", "bytes/value", fmt.Sprintf("Bytes %q: got %x err=%v want %x", tok, []byte(bs), bserr, want), c17TokCase(tok))
					}
				} else if bserr == nil {
					c.Violation("C17", "mismatch", "bytes/accepts-odd", fmt.Sprintf("Bytes %q: odd digit count accepted, got %x", tok, []byte(bs)), c17TokCase(tok))
				}
			}
		}
	}()
	// through the two JSON decoders as member values (only syntactically valid JSON reaches the methods)
	type holder struct {
		A eth.Uint64
		B eth.Bytes
		C eth.Byte
	}
	doc := []byte(`{"A":` + tok + `,"B":` + tok + `,"C":` + tok + `}`)
	func() {
		defer func() {
			if r := recover(); r != nil {
				c.Violation("C17", "panic", "unmarshal/panic-via-encoding-json", fmt.Sprintf("token %q: panic %v", tok, r), c17TokCase(tok))
			}
		}()
		var h holder
		_ = stdjson.Unmarshal(doc, &h)
	}()
	func() {
		defer func() {
			if r := recover(); r != nil {
				c.Violation("C17", "panic", "unmarshal/panic-via-goccy", fmt.Sprintf("token %q: panic %v", tok, r), c17TokCase(tok))
			}
		}()
		var h holder
		_ = gojson.Unmarshal(doc, &h)
	}()
	c.Eval(judged)
	if judged {
		c.Sample(map[string]string{"token": tok})
	}
}

func c17Quantity(c *fw.Ctx, n uint64) {
	lower := strconv.FormatUint(n, 16)
	upper := strings.ToUpper(lower)
	mixed := []byte(lower)
	for i := range mixed {
		if i%2 == 0 && mixed[i] >= 'a' {
			mixed[i] -= 32
		}
	}
	sp := []string{lower, upper, string(mixed)}
	if len(lower) < 16 {
		sp = append(sp, "0"+lower, strings.Repeat("0", 16-len(lower))+lower)
	}
	for _, s := range sp {
		tok := `"0x` + s + `"`
		func() {
			defer func() {
				if r := recover(); r != nil {
					c.Violation("C17", "panic", "uint64/panic", fmt.Sprintf("%q: %v", tok, r), c17TokCase(tok))
				}
			}()
			var u eth.Uint64
			if err := u.UnmarshalJSON([]byte(tok)); err != nil || uint64(u) != n {
				c.Violation("C17", "mismatch", "uint64/value", fmt.Sprintf("Uint64 %q: got %d err=%v want %d", tok, u, err, n), c17TokCase(tok))
			}
			var h struct{ A eth.Uint64 }
			if err := gojson.Unmarshal([]byte(`{"A":`+tok+`}`), &h); err != nil || uint64(h.A) != n {
				c.Violation("C17", "mismatch", "uint64/value-via-goccy", fmt.Sprintf("Uint64 %q: got %d err=%v want %d", tok, h.A, err, n), c17TokCase(tok))
			}
		}()
		c.Eval(true)
	}
	// EncodeUint64 is what the client sends; it must round-trip through the decoder
	enc := eth.EncodeUint64(n)
	var u eth.Uint64
	if err := u.UnmarshalJSON([]byte(`"` + enc + `"`)); err != nil || uint64(u) != n || enc != "0x"+lower {
		c.Violation("C17", "mismatch", "uint64/encode-roundtrip", fmt.Sprintf("EncodeUint64(%d)=%q decodes to %d err=%v", n, enc, u, err), c17Case{Kind: "quantity", N: n})
	}
	c.Eval(true)
}

func c17Bint(c *fw.Ctx, n uint64) {
	size := 1
	for x := n >> 8; x > 0; x >>= 8 {
		size++
	}
	for w := 1; w <= 32; w++ {
		func() {
			defer func() {
				r := recover()
				if w < size {
					if r == nil {
						c.Violation("C17", "mismatch", "bint/too-small-accepted", fmt.Sprintf("Encode(make(%d), %d) did not panic", w, n), c17Case{Kind: "bint", N: n, W: w})
					} else if fmt.Sprint(r) != "bint: supplied slice is too small for input" {
						c.Violation("C17", "panic", "bint/wrong-panic", fmt.Sprintf("Encode(make(%d), %d): %v", w, n, r), c17Case{Kind: "bint", N: n, W: w})
					}
					return
				}
				if r != nil {
					c.Violation("C17", "panic", "bint/panic", fmt.Sprintf("Encode(make(%d), %d): %v", w, n, r), c17Case{Kind: "bint", N: n, W: w})
				}
			}()
			buf := make([]byte, w)
			out := bint.Encode(buf, n)
			want := new(big.Int).SetUint64(n).FillBytes(make([]byte, w))
			if !bytes.Equal(out, want) {
				c.Violation("C17", "mismatch", "bint/encode", fmt.Sprintf("Encode(pad %d, %d) = %x want %x", w, n, out, want), c17Case{Kind: "bint", N: n, W: w})
			}
			if got := bint.Decode(out); got != n {
				c.Violation("C17", "mismatch", "bint/roundtrip", fmt.Sprintf("Decode(Encode(pad %d, %d)) = %d", w, n, got), c17Case{Kind: "bint", N: n, W: w})
			}
		}()
		c.Eval(true)
	}
	func() {
		defer func() {
			if r := recover(); r != nil {
				c.Violation("C17", "panic", "bint/panic-nil", fmt.Sprintf("Encode(nil, %d): %v", n, r), c17Case{Kind: "bint", N: n, W: 0})
			}
		}()
		out := bint.Encode(nil, n)
		want := new(big.Int).SetUint64(n).Bytes()
		if n == 0 {
			want = []byte{0}
		}
		if !bytes.Equal(out, want) || bint.Decode(out) != n {
			c.Violation("C17", "mismatch", "bint/encode-nil", fmt.Sprintf("Encode(nil, %d) = %x want %x", n, out, want), c17Case{Kind: "bint", N: n, W: 0})
		}
	}()
	c.Eval(true)
}

func c17BytesLen(c *fw.Ctx, l int) {
	defer func() {
		if r := recover(); r != nil {
			c.Violation("C17", "panic", "bytes/panic", fmt.Sprintf("byte string of length %d: panic %v", l, r), c17Case{Kind: "byteslen", N: uint64(l)})
		}
	}()
	pats := []func(i int) byte{
		func(i int) byte { return byte(i*7 + 1) },
		func(i int) byte { return 0xff },
		func(i int) byte { return byte(0xa0 | i&0xf) },
	}
	for pi, p := range pats {
		raw := make([]byte, l)
		for i := range raw {
			raw[i] = p(i)
		}
		for _, up := range []bool{false, true} {
			s := hex.EncodeToString(raw)
			if up {
				s = strings.ToUpper(s)
			}
			tok := `"0x` + s + `"`
			var bs eth.Bytes
			// start from a longer, dirty destination so that stale bytes would show
			bs = append(bs, bytes.Repeat([]byte{0x5a}, l+3)...)
			err := bs.UnmarshalJSON([]byte(tok))
			if err != nil || !bytes.Equal(bs, raw) {
				c.Violation("C17", "mismatch", "bytes/value", fmt.Sprintf("len %d pattern %d upper=%v: err=%v got %d bytes", l, pi, up, err, len(bs)), c17TokCase(tok))
			}
			c.Eval(true)
			if l > 0 {
				// odd digit count
				odd := `"0x` + s[:len(s)-1] + `"`
				var o eth.Bytes
				if err := o.UnmarshalJSON([]byte(odd)); err == nil {
					c.Violation("C17", "mismatch", "bytes/accepts-odd", fmt.Sprintf("len %d: odd digit count accepted", l), c17Case{Kind: "token", Token: odd})
				}
				c.Eval(true)
			}
			if l > 0 && l <= 64 && pi == 0 {
				for pos := 0; pos < len(s); pos++ {
					for _, bad := range []byte{'g', 'x', ' ', 'G'} {
						m := []byte(s)
						m[pos] = bad
						t := `"0x` + string(m) + `"`
						var o eth.Bytes
						if err := o.UnmarshalJSON([]byte(t)); err == nil {
							c.Violation("C17", "mismatch", "bytes/accepts-nonhex", fmt.Sprintf("%q accepted", t), c17Case{Kind: "token", Token: t})
						}
						c.Eval(true)
					}
				}
			}
		}
	}
}

// hex values, plus the JSON token null ("tok:null"): decoding null into a reused destination must leave an empty value
var c17SeqVals = []string{"", "00", "ff", "0102", "a1b2c3", "00000000", "ffffffffffffffff", "11", "2233445566778899aabbccddeeff0011", "7f", "deadbeef", "00ff00ff00", "tok:null",
	// longer than everything above, and of sizes that the allocator rounds up (26 -> cap 32, then 38 > cap): growth from len < cap
	"0102030405060708090a0b0c0d0e0f1011", "aa112233445566778899aabbccddeeff00112233445566778899", "bb00112233445566778899aabbccddeeff00112233445566778899aabbccddeeff001122334455", "cc" + "00112233445566778899aabbccddeeff00112233445566778899aabbccddeeff"}

type c17Doc struct {
	To eth.Bytes `json:"to"`
}

func c17Seq(c *fw.Ctx, seq []string) {
	defer func() {
		if r := recover(); r != nil {
			c.Violation("C17", "panic", "bytes/reuse-panic", fmt.Sprintf("sequence %v: panic %v", seq, r), c17Case{Kind: "seq", Seq: seq})
			c.Eval(true)
		}
	}()
	var dst eth.Bytes
	var dst2 eth.Bytes
	var viaStd, viaGoccy c17Doc
	for step, s := range seq {
		tok := `"0x` + s + `"`
		var want []byte
		if strings.HasPrefix(s, "tok:") {
			tok = strings.TrimPrefix(s, "tok:")
		} else {
			want, _ = hex.DecodeString(s)
		}
		if err := dst.UnmarshalJSON([]byte(tok)); err != nil || !bytes.Equal(dst, want) {
			c.Violation("C17", "mismatch", "bytes/reuse-stale", fmt.Sprintf("sequence %v step %d: got %x err=%v want %x", seq, step, []byte(dst), err, want), c17Case{Kind: "seq", Seq: seq})
		}
		doc := []byte(`{"to":` + tok + `}`)
		if err := stdjson.Unmarshal(doc, &viaStd); err != nil || !bytes.Equal(viaStd.To, want) {
			c.Violation("C17", "mismatch", "bytes/reuse-stale-via-encoding-json", fmt.Sprintf("sequence %v step %d: got %x err=%v want %x", seq, step, []byte(viaStd.To), err, want), c17Case{Kind: "seq", Seq: seq})
		}
		if err := gojson.Unmarshal(doc, &viaGoccy); err != nil || !bytes.Equal(viaGoccy.To, want) {
			c.Violation("C17", "mismatch", "bytes/reuse-stale-via-goccy", fmt.Sprintf("sequence %v step %d: got %x err=%v want %x", seq, step, []byte(viaGoccy.To), err, want), c17Case{Kind: "seq", Seq: seq})
		}
		dst2.Write(want)
		if !bytes.Equal(dst2, want) {
			c.Violation("C17", "mismatch", "bytes/write-stale", fmt.Sprintf("sequence %v step %d: Write left %x want %x", seq, step, []byte(dst2), want), c17Case{Kind: "seq", Seq: seq})
		}
	}
	c.Eval(true)
}

// c17Helpers judges the string helpers of eth/encoding.go on VALID spellings only (they are documented to
// cope with the 0x prefix and an odd digit count; what they do with invalid input is not part of the property).
func c17Helpers(c *fw.Ctx, raw []byte) {
	defer func() {
		if r := recover(); r != nil {
			c.Violation("C17", "panic", "hexhelper/panic", fmt.Sprintf("bytes %x: panic %v", raw, r), c17Case{Kind: "helper", Token: hex.EncodeToString(raw)})
		}
	}()
	h := hex.EncodeToString(raw)
	cas := c17Case{Kind: "helper", Token: h}
	if got := eth.EncodeHex(raw); got != "0x"+h {
		c.Violation("C17", "mismatch", "hexhelper/encode", fmt.Sprintf("EncodeHex(%x) = %q", raw, got), cas)
	}
	spell := []string{"0x" + h, "0X" + strings.ToUpper(h), "0x" + strings.ToUpper(h), h, strings.ToUpper(h)}
	if len(h) > 0 && h[0] == '0' {
		// odd digit count: the leading zero nibble left out, as nodes spell quantities
		spell = append(spell, "0x"+h[1:], h[1:])
	}
	for _, sp := range spell {
		if strings.HasPrefix(sp, "0x") && len(sp) == len(h) || strings.HasPrefix(sp, "0X") && len(sp) == len(h) {
			continue // an unprefixed spelling that itself begins with 0x is ambiguous
		}
		if got := eth.DecodeHex(sp); !bytes.Equal(got, raw) {
			c.Violation("C17", "mismatch", "hexhelper/decode", fmt.Sprintf("DecodeHex(%q) = %x want %x", sp, got, raw), cas)
		}
		c.Eval(true)
	}
	if got := eth.DecodeHex(eth.EncodeHex(raw)); !bytes.Equal(got, raw) {
		c.Violation("C17", "mismatch", "hexhelper/roundtrip", fmt.Sprintf("DecodeHex(EncodeHex(%x)) = %x", raw, got), cas)
	}
}

func c17HelperQuantity(c *fw.Ctx, n uint64) {
	defer func() {
		if r := recover(); r != nil {
			c.Violation("C17", "panic", "hexhelper/uint64-panic", fmt.Sprintf("%d: panic %v", n, r), c17Case{Kind: "helperq", N: n})
		}
	}()
	cas := c17Case{Kind: "helperq", N: n}
	d := strconv.FormatUint(n, 16)
	if got := eth.EncodeUint64(n); got != "0x"+d {
		c.Violation("C17", "mismatch", "hexhelper/encode-uint64", fmt.Sprintf("EncodeUint64(%d) = %q", n, got), cas)
	}
	for _, sp := range []string{"0x" + d, "0X" + strings.ToUpper(d), d, "0x0" + d, "0x00" + d} {
		if len(sp) > 18 {
			continue
		}
		if got := eth.DecodeUint64(sp); got != n {
			c.Violation("C17", "mismatch", "hexhelper/decode-uint64", fmt.Sprintf("DecodeUint64(%q) = %d want %d", sp, got, n), cas)
		}
		c.Eval(true)
	}
}

// c17Strict judges one string token "0x<digits>" as the value of a JSON member, decoded by encoding/json and by
// goccy/go-json into each of the three types separately (one document per type, so that one rejection cannot
// hide another). The reference decides: all digits hex (isHex, strconv, encoding/hex) => the value; any other
// byte => the decoder must return an error, whatever the reason (malformed document or rejected by the codec).
// Tokens with a quote or a backslash among the digits are left to c17Token (escape sequences are not enumerated).
func c17Strict(c *fw.Ctx, tok string) {
	if len(tok) < 4 || tok[0] != '"' || tok[len(tok)-1] != '"' || tok[1] != '0' || tok[2] != 'x' {
		return
	}
	digits := tok[3 : len(tok)-1]
	if strings.ContainsAny(digits, "\"\\") {
		return
	}
	allhex := true
	for i := 0; i < len(digits); i++ {
		if !isHex(digits[i]) {
			allhex = false
		}
	}
	cas := c17TokCase(tok)
	doc := []byte(`{"A":` + tok + `}`)
	type dec struct {
		name string
		fn   func([]byte, any) error
	}
	for _, d := range []dec{{"encoding-json", stdjson.Unmarshal}, {"goccy", gojson.Unmarshal}} {
		func() {
			defer func() {
				if r := recover(); r != nil {
					c.Violation("C17", "panic", "unmarshal/panic-via-"+d.name, fmt.Sprintf("token %q: panic %v", tok, r), cas)
				}
			}()
			var hu struct{ A eth.Uint64 }
			var hb struct{ A eth.Byte }
			var hs struct{ A eth.Bytes }
			uerr := d.fn(doc, &hu)
			berr := d.fn(doc, &hb)
			serr := d.fn(doc, &hs)
			if len(digits) >= 1 && len(digits) <= 16 {
				if allhex {
					want, _ := strconv.ParseUint(digits, 16, 64)
					if uerr != nil || uint64(hu.A) != want {
						c.Violation("C17", "mismatch", "uint64/value-via-"+d.name, fmt.Sprintf("Uint64 %q: got %d err=%v want %d", tok, hu.A, uerr, want), cas)
					}
					if want <= 0xff && (berr != nil || uint64(hb.A) != want) {
						c.Violation("C17", "mismatch", "byte/value-via-"+d.name, fmt.Sprintf("Byte %q: got %d err=%v want %d", tok, hb.A, berr, want), cas)
					}
				} else {
					if uerr == nil {
						c.Violation("C17", "mismatch", "uint64/accepts-nonhex-via-"+d.name, fmt.Sprintf("Uint64 %q: no error, got %#x", tok, uint64(hu.A)), cas)
					}
					if berr == nil {
						c.Violation("C17", "mismatch", "byte/accepts-nonhex-via-"+d.name, fmt.Sprintf("Byte %q: no error, got %#x", tok, uint64(hb.A)), cas)
					}
				}
			}
			switch {
			case !allhex:
				if serr == nil {
					c.Violation("C17", "mismatch", "bytes/accepts-nonhex-via-"+d.name, fmt.Sprintf("Bytes %q: no error, got %x", tok, []byte(hs.A)), cas)
				}
			case len(digits)%2 == 1:
				if serr == nil {
					c.Violation("C17", "mismatch", "bytes/accepts-odd-via-"+d.name, fmt.Sprintf("Bytes %q: odd digit count accepted, got %x", tok, []byte(hs.A)), cas)
				}
			default:
				want, _ := hex.DecodeString(digits)
				if serr != nil || !bytes.Equal(hs.A, want) {
					c.Violation("C17", "mismatch", "bytes/value-via-"+d.name, fmt.Sprintf("Bytes %q: got %x err=%v want %x", tok, []byte(hs.A), serr, want), cas)
				}
			}
		}()
	}
}

// c17Wide is one case of the full-byte-range families: the token "0x<digits>" with ARBITRARY bytes as digits,
// judged on the raw UnmarshalJSON calls and through both JSON decoders per type (c17Token, which includes
// c17Strict). Tokens that domain (1) already enumerates (short, all bytes in c17Alphabet) are left out.
func c17Wide(c *fw.Ctx, digits []byte, baseMaxLen int) {
	tok := `"0x` + string(digits) + `"`
	if len(tok) <= baseMaxLen {
		inBase := true
		for _, b := range digits {
			if strings.IndexByte(c17Alphabet, b) < 0 {
				inBase = false
			}
		}
		if inBase {
			return
		}
	}
	c17Token(c, tok)
}

// c17HelperWide judges eth.DecodeHex / eth.DecodeUint64 on digit strings of ARBITRARY bytes. The helpers have no
// error result: DecodeHex can only reject by returning fewer bytes than the spelling has, DecodeUint64 only by
// panicking. All-hex digits must give the reference value; anything else must not be accepted as a full value.
func c17HelperWide(c *fw.Ctx, digits []byte) {
	allhex := true
	for _, b := range digits {
		if !isHex(b) {
			allhex = false
		}
	}
	if allhex && len(digits) <= 4 {
		return // valid spellings of byte strings of length 0..2 are all in (6)
	}
	d := string(digits)
	cas := c17Case{Kind: "helperwide", Hex: hex.EncodeToString(digits)}
	padded := d
	if len(padded)%2 == 1 {
		padded = "0" + padded
	}
	spell := []string{"0x" + d, "0X" + d}
	if !(len(d) >= 2 && d[0] == '0' && (d[1] == 'x' || d[1] == 'X')) {
		spell = append(spell, d) // an unprefixed spelling that itself begins with 0x is ambiguous
	}
	for _, sp := range spell {
		func() {
			defer func() {
				if r := recover(); r != nil {
					c.Violation("C17", "panic", "hexhelper/panic", fmt.Sprintf("DecodeHex(%q): panic %v", sp, r), cas)
				}
			}()
			got := eth.DecodeHex(sp)
			if allhex {
				if want, _ := hex.DecodeString(padded); !bytes.Equal(got, want) {
					c.Violation("C17", "mismatch", "hexhelper/decode", fmt.Sprintf("DecodeHex(%q) = %x want %x", sp, got, want), cas)
				}
			} else if len(got) >= len(padded)/2 {
				c.Violation("C17", "mismatch", "hexhelper/accepts-nonhex", fmt.Sprintf("DecodeHex(%q) = %x: a full-length value for a spelling with a non-hex byte", sp, got), cas)
			}
		}()
		if len(d) <= 16 {
			func() {
				var got uint64
				returned := false
				defer func() {
					r := recover()
					if allhex {
						want, _ := strconv.ParseUint(d, 16, 64)
						if r != nil || got != want {
							c.Violation("C17", "mismatch", "hexhelper/decode-uint64", fmt.Sprintf("DecodeUint64(%q) = %d panic=%v want %d", sp, got, r, want), cas)
						}
					} else if returned {
						c.Violation("C17", "mismatch", "hexhelper/uint64-accepts-nonhex", fmt.Sprintf("DecodeUint64(%q) = %#x: a value for a spelling with a non-hex byte", sp, got), cas)
					}
				}()
				got = eth.DecodeUint64(sp)
				returned = true
			}()
		}
		c.Eval(true)
	}
}

// c17OnePos enumerates, for one digit count l, every position x every byte value 0..255 x the fill digits,
// each distinct digit string once (a byte equal to the fill gives the same string at every position).
func c17OnePos(l int, fills []byte, f func(digits []byte)) {
	for _, fill := range fills {
		for pos := 0; pos < l; pos++ {
			for v := 0; v < 256; v++ {
				if byte(v) == fill && pos > 0 {
					continue
				}
				d := bytes.Repeat([]byte{fill}, l)
				d[pos] = byte(v)
				f(d)
			}
		}
	}
}

// c17Runes calls f with the UTF-8 encoding of every code point of the tier's non-ASCII domain whose lead byte
// is lead: all of U+0080..U+FFFF (no surrogates); above that, quick keeps the code points whose last two
// continuation bytes are equal (every lead byte, every second byte, every continuation value), thorough all.
func c17Runes(lead byte, thorough bool, f func(enc []byte)) {
	var lo, hi rune
	switch {
	case lead >= 0xc2 && lead <= 0xdf:
		lo = rune(lead&0x1f) << 6
		hi = lo | 0x3f
	case lead >= 0xe0 && lead <= 0xef:
		lo = rune(lead&0x0f) << 12
		hi = lo | 0xfff
	case lead >= 0xf0 && lead <= 0xf4:
		lo = rune(lead&0x07) << 18
		hi = lo | 0x3ffff
	default:
		return
	}
	for r := lo; r <= hi && r <= utf8.MaxRune; r++ {
		if r < 0x80 || r >= 0xd800 && r <= 0xdfff {
			continue
		}
		if r >= 0x10000 && !thorough && (r>>6)&0x3f != r&0x3f {
			continue
		}
		var buf [4]byte
		n := utf8.EncodeRune(buf[:], r)
		if buf[0] != lead {
			continue // overlong range of this lead byte (e0 80.., f0 80..)
		}
		f(buf[:n])
	}
}

func c17Values(thorough bool) []uint64 {
	seen := map[uint64]bool{}
	var vals []uint64
	add := func(v uint64) {
		if !seen[v] {
			seen[v] = true
			vals = append(vals, v)
		}
	}
	add(0)
	for i := 0; i < 16; i++ {
		for a := uint64(1); a < 16; a++ {
			add(a << (4 * i))
			for j := 0; j < i; j++ {
				for b := uint64(1); b < 16; b++ {
					if !thorough && (a != 1 && a != 15 && a != 10) && (b != 1 && b != 15) {
						continue
					}
					add(a<<(4*i) | b<<(4*j))
				}
			}
		}
	}
	for s := 0; s < 64; s++ {
		add(1 << s)
		add(1<<s - 1)
		add(^uint64(0) >> s)
		add(^uint64(0) << s)
	}
	return vals
}

func c17Run(c *fw.Ctx) {
	// (1) all tokens of length 0..6; shard on the first two symbols
	maxLen := 6
	if c.Thorough() {
		maxLen = 7
	}
	c.Bound("token_max_len", maxLen)
	A := c17Alphabet
	var rec func(prefix []byte)
	rec = func(prefix []byte) {
		c17Token(c, string(prefix))
		if len(prefix) == maxLen {
			return
		}
		for i := 0; i < len(A); i++ {
			rec(append(prefix, A[i]))
		}
	}
	if c.Shard == 0 {
		c17Token(c, "")
		for i := 0; i < len(A); i++ {
			c17Token(c, string(A[i]))
		}
		for _, t := range []string{"null", "true", "false", "0", "-1", "1e9", "{}", "[]", `""`, `"0"`, `"0x"`, `{"a":1}`, `[1,2]`, `"0x1"`, `"0x1"`, "1234", `" 0x1"`, `"0x1 "`, `"0X1f"`, `"0x 1"`} {
			c17Token(c, t)
		}
	}
	for i := 0; i < len(A) && !c.Expired(); i++ {
		for j := 0; j < len(A); j++ {
			if !c.Mine() {
				continue
			}
			rec([]byte{A[i], A[j]})
		}
	}
	// (7) the full byte range. (7a) every digit string of length 1 and 2 over ALL 256 byte values; (7b) digit
	// counts 3..18 (thorough: ..34): every position x every byte value x 3 fill digits. Each as a raw token for
	// the three UnmarshalJSON methods and as a JSON member value through encoding/json and goccy/go-json.
	wideMax := 18
	if c.Thorough() {
		wideMax = 34
	}
	c.Bound("wide_max_digits", wideMax)
	for a := 0; a < 256 && !c.Expired(); a++ {
		if !c.Mine() {
			continue
		}
		c17Wide(c, []byte{byte(a)}, maxLen)
		for b := 0; b < 256; b++ {
			c17Wide(c, []byte{byte(a), byte(b)}, maxLen)
		}
	}
	for l := 3; l <= wideMax; l++ {
		if !c.Mine() {
			continue
		}
		c17OnePos(l, []byte{'1', 'f', 'A'}, func(d []byte) { c17Wide(c, d, maxLen) })
	}
	// (7c) WELL-FORMED documents with non-ASCII characters: every code point of the tier's domain (see c17Runes),
	// UTF-8 encoded, alone, after a digit and before a digit
	for lead := 0xc2; lead <= 0xf4 && !c.Expired(); lead++ {
		if !c.Mine() {
			continue
		}
		c17Runes(byte(lead), c.Thorough(), func(enc []byte) {
			c.Count("non_ascii_code_points", 1)
			if len(enc) > 2 { // every two-byte digit string is in (7a) already
				c17Wide(c, enc, maxLen)
			}
			c17Wide(c, append([]byte{'a'}, enc...), maxLen)
			c17Wide(c, append(append([]byte{}, enc...), '7'), maxLen)
		})
	}
	// (7d) the string helpers on the same position x byte value family, digit counts 1..16 (thorough: ..40)
	helperMax := 16
	if c.Thorough() {
		helperMax = 40
	}
	for l := 1; l <= helperMax; l++ {
		if !c.Mine() {
			continue
		}
		c17OnePos(l, []byte{'1', 'f'}, func(d []byte) { c17HelperWide(c, d) })
	}
	// (2) quantities
	vals := c17Values(c.Thorough())
	c.Bound("quantity_values", len(vals))
	for _, v := range vals {
		if c.Mine() {
			c17Quantity(c, v)
		}
	}
	// (5) bint on a boundary subset
	for i, v := range vals {
		if (c.Thorough() || i%7 == 0 || v < 70000) && c.Mine() {
			c17Bint(c, v)
		}
	}
	// (3) byte strings
	maxL := 4096
	c.Bound("bytes_max_len", maxL)
	for l := 0; l <= maxL && !c.Expired(); l++ {
		if !c.Thorough() && l > 600 && l%61 != 0 && l < 4090 {
			continue
		}
		if c.Mine() {
			c17BytesLen(c, l)
		}
	}
	// (6) string helpers: every byte string of length 0..2 exhaustively, lengths 3..40 with every value of the first
	// byte (leading zero bytes and nibbles matter) x 3 fill patterns, and the quantity set
	if c.Mine() {
		c17Helpers(c, nil)
		for a := 0; a < 256; a++ {
			c17Helpers(c, []byte{byte(a)})
		}
	}
	for a := 0; a < 256; a++ {
		if !c.Mine() {
			continue
		}
		for b := 0; b < 256; b++ {
			c17Helpers(c, []byte{byte(a), byte(b)})
		}
		for l := 3; l <= 40; l++ {
			for _, fill := range []byte{0x00, 0x5a, 0xff} {
				raw := bytes.Repeat([]byte{fill}, l)
				raw[0] = byte(a)
				c17Helpers(c, raw)
				raw[0], raw[1] = 0, byte(a) // a run of leading zero bytes
				c17Helpers(c, raw)
			}
		}
	}
	for _, v := range vals {
		if c.Mine() {
			c17HelperQuantity(c, v)
		}
	}
	// (4) ordered triples
	for _, a := range c17SeqVals {
		for _, b := range c17SeqVals {
			if !c.Mine() {
				continue
			}
			for _, d := range c17SeqVals {
				c17Seq(c, []string{a, b, d})
			}
		}
	}
	c.Outcome("ok")
}

func c17Replay(c *fw.Ctx, raw stdjson.RawMessage) {
	var k c17Case
	if err := stdjson.Unmarshal(raw, &k); err != nil {
		c.HarnessError("bad case: %v", err)
		return
	}
	switch k.Kind {
	case "helperwide":
		d, _ := hex.DecodeString(k.Hex)
		c17HelperWide(c, d)
	case "token":
		if k.Hex != "" {
			b, _ := hex.DecodeString(k.Hex)
			k.Token = string(b)
		}
		c17Token(c, k.Token)
		// structured paths use the same keys; run them too where applicable
		if strings.HasPrefix(k.Token, `"0x`) {
			d := strings.TrimSuffix(strings.TrimPrefix(k.Token, `"0x`), `"`)
			if n, err := strconv.ParseUint(d, 16, 64); err == nil {
				c17Quantity(c, n)
			}
			if raw, err := hex.DecodeString(d); err == nil && len(raw) <= 4096 {
				c17BytesLen(c, len(raw))
			}
		}
	case "quantity":
		c17Quantity(c, k.N)
	case "bint":
		c17Bint(c, k.N)
	case "seq":
		c17Seq(c, k.Seq)
	case "byteslen":
		c17BytesLen(c, int(k.N))
	case "helper":
		raw, _ := hex.DecodeString(k.Token)
		c17Helpers(c, raw)
	case "helperq":
		c17HelperQuantity(c, k.N)
	}
}
