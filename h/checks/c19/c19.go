package c19

import (
	"encoding/json"
	"errors"
	"fmt"
	"io"
	"log/slog"
	"net/http"
	"net/http/httptest"
	"strings"
	"time"

	"verifh/checks"
	"verifh/fw"
)

// C19 — dashboard pages that change configuration require authentication.
//
// Exhaustive enumeration of a finite product on the real web.Handler
// (web.New / Authn / Login) through net/http/httptest, judged by a reference
// access predicate (env.go). EVERY CASE IS SELF-CONTAINED: it builds its own
// handler instance(s), logs in itself, and issues its whole request history;
// nothing (handler, cookie value) is shared between cases, so a replay of one
// case in a fresh process sees exactly what the worker saw. The property is
// per request, so the oracle is applied to every request of a case.
//
//	routes  the mux.Handle* statements of the CURRENT cmd/shovel/main.go (parsed
//	        at run time): the five configuration-changing / streaming pages are
//	        registered and wrapped in Authn; no sensitive method is registered bare
//	authn   2 switches × 2 password modes × remote addresses × cookie states ×
//	        proxy-header variants × methods × every protected route, served by a
//	        ServeMux that mirrors main.go (real Authn around recording stubs);
//	        the SAME request is presented 2× (thorough 3×) to the same handler
//	login   switches × password modes × remote addresses × methods × password
//	        guesses × header variants on a fresh handler each; an issued session
//	        is then presented twice to the issuer and twice to another instance
//	seq     every sequence of length 1..3 (thorough 1..4) over seven operations on
//	        ONE handler instance whose mux carries the REAL handler methods of
//	        every dashboard route (always-down database), the reference tracking
//	        a browser cookie jar fed by EVERY response (seq.go)
//	visit   [earlier operation,] a GET/POST to ANY dashboard route from loopback /
//	        public with / without the jar [thorough: two of them], then the jar is
//	        presented from a public address to every protected route (seq.go)
//	confdoc the configuration as a JSON DOCUMENT (every accepted spelling of the two
//	        switches × password modes) decoded as main.go does; the reference is
//	        computed from the document, the handler gets the decoded value (confdoc.go)
//	conc    N concurrent requests on one wrapped route under the controlled
//	        scheduler: every interleaving of the statements of shovel/web with a
//	        bounded number of preemptions (conc.go) — schedule exploration
//	sweep   a session issued by this handler with the character at EVERY position
//	        changed, and cut to EVERY proper prefix length, each presented 2×
type Case struct {
	Kind     string   `json:"kind"` // route | authn | login | seq
	Disable  bool     `json:"disable_authn"`
	LoopAuth bool     `json:"enable_loopback_authn"`
	PW       string   `json:"password,omitempty"`   // configured | generated
	Doc      string   `json:"config_doc,omitempty"` // "": configuration built as a Go literal; else spellings of the switches in a JSON document (env.go)
	Remote   string   `json:"remote"`
	Cookie   string   `json:"cookie,omitempty"`
	Hdr      string   `json:"headers,omitempty"`
	Method   string   `json:"method,omitempty"`
	Route    string   `json:"route,omitempty"`
	Guess    string   `json:"guess,omitempty"`
	Seq      []string `json:"seq,omitempty"`
	Repeat   int      `json:"repeat,omitempty"`  // authn: how many times the same request is presented to the same handler
	Threads  []string `json:"threads,omitempty"` // conc: one request kind per concurrent thread
	Choices  []int    `json:"choices,omitempty"` // conc: the schedule (explorer choice sequence, trailing zeros trimmed)
}

func mustJSON(v any) json.RawMessage {
	b, err := json.Marshal(v)
	if err != nil {
		b, _ = json.Marshal(fmt.Sprint(v))
	}
	return b
}

func (k Case) cfg() cfg { return cfg{Disable: k.Disable, LoopAuth: k.LoopAuth, PW: k.PW, Doc: k.Doc} }

func mk(kind string, k cfg) Case {
	return Case{Kind: kind, Disable: k.Disable, LoopAuth: k.LoopAuth, PW: k.PW, Doc: k.Doc}
}

func init() {
	checks.Register(&checks.Check{
		ID:    "C19",
		Level: "exploration",
		Technique: "exhaustive enumeration of configuration × request tuples and short request histories on the real web.Handler via httptest, against a reference access predicate; route table parsed from main.go; " +
			"plus preemption-bounded schedule exploration (controlled scheduler, a scheduling point before every statement of package shovel/web, DFS over choice sequences) of 2–3 concurrent requests on one handler",
		Rule: "Every case is self-contained (own handler instances, own logins, own request history) and the oracle judges every request of the case. " +
			"routes: every mux.Handle/HandleFunc statement of cmd/shovel/main.go + the five required protected paths. " +
			"authn: {disable_authn}×{enable_loopback_authn}×{configured,generated password}×remote address (10; thorough 25: v4/v6/v4-mapped loopback, private, public, unspecified, malformed, empty)×14 cookie states " +
			"(none, 3 garbage, issued by this handler via loopback/remote login, issued by another handler instance ×2, one character changed ×3, truncated ×2, right value under another name)×3 proxy-header variants×methods (4; thorough 7)×every protected route; the same request is presented 2× (thorough 3×) to the same handler. " +
			"login: same configurations×addresses×5 methods×8 guesses (correct, wrong first/last byte, empty, missing, proper prefix, correct+suffix, other case)×3 header variants, each on a fresh handler; every issued session is presented 2× to the issuer and 2× to a second instance. " +
			"seq: all sequences of length 1..3 (thorough 1..4) over {login-ok-loopback, login-ok-remote, login-wrong, login-ok-elsewhere (correct login to ANOTHER instance, cookie goes to the jar), protected-with-jar-cookie, protected-without-cookie, protected-with-garbage-cookie} × 8 configurations on one handler whose mux mirrors main.go with the real handler methods; a Set-Cookie under the session name in ANY response replaces the jar, and the jar is a valid session only if a correct-password login to this handler filled it. " +
			"visit: 8 configurations × {no earlier operation, login-ok-remote, login-wrong, login-ok-elsewhere} × one request (thorough additionally: two requests) to any dashboard route registered in main.go × {GET,POST} × {loopback, public} × {with, without jar}, then the jar is presented from a public address with GET and POST to every protected route. " +
			"confdoc: the configuration written as a JSON document — disable_authn and enable_loopback_authn each absent/false/true (the spellings the plain-bool fields accept; 9 combinations) × {root_password given, absent} — decoded with encoding/json into config.Root + config.ValidateFix exactly as cmd/shovel/main.go does and handed to web.New; reference computed from the document; × remote addresses × cookie states {none, garbage, own session, another instance's session} (thorough: all 14) × {GET,POST} (thorough 7 methods) × every protected route, plus correct/wrong/empty logins from a public and a loopback address. " +
			"conc (schedule exploration, NOT plain enumeration): authn in force (disable_authn off) × enable_loopback_authn × every ordered pair (thorough also every ordered triple) of request kinds {operator with a session from a login made before the concurrent phase, public visitor without cookie / with garbage cookie / with another process's cookie, loopback visitor}, one controlled thread per request, all on the same Authn-wrapped route of one handler; all interleavings at statement granularity of shovel/web with ≤2 preemptions (thorough: pairs ≤3 on every protected route and both password modes, triples ≤2); a case is (configuration, route, kinds, choice sequence) and every request of every execution is judged by the same per-request oracle. " +
			"sweep: every single-character change and every proper prefix of an issued session, presented 2×. " +
			"Every case is one distinct tuple; a case is non-trivial when disable_authn is off (loopback/session logic decides) — for login cases additionally when the method is POST (the password decides).",
		Assumptions: []string{
			"requests are delivered with net/http semantics (ServeMux + httptest recorder); no sockets, TLS or reverse proxy in front",
			"in the authn/login/sweep/conc parts the protected inner handlers are recording stubs; in the seq/visit parts they are the real methods running against a database that is down: what AddSource/SaveSource/… do once reached is not judged, only whether they were reached and which cookies any response hands out",
			"conc: interleavings are explored at the granularity of statements of package shovel/web (instrumented build, VERIF_STMT_YIELD=shovel/web); net/http, kr/session and age run atomically between two scheduling points; schedules with more preemptions than the bound are not explored; weak-memory effects are out of scope (that is C18's race detector)",
			"a session cookie re-issued in answer to a request that itself carried a valid session counts as valid (renewal); one handed to anybody else does not",
			"the route table is read from the source text of cmd/shovel/main.go (the file the binary was built from, overlay-aware); registrations made elsewhere or through other identifiers than <x>.Handle/<x>.HandleFunc with a literal pattern are not seen",
			"GET /login is judged only for status in {200,500} and absence of Set-Cookie (its template is not judged)",
			"cookie attributes (Secure, MaxAge, SameSite) and session expiry are not judged",
			"configuration documents: only the boolean spellings absent/false/true are enumerated (quoted or $ENV spellings are decode errors on plain bool fields); root_password is a literal (no $ENV expansion); all other parts build config.Root as a Go literal",
			"the generated password is read from the unexported Handler.password field by reflection (after a GET /login from loopback if the handler holds none yet); an empty or absent guess is never the password",
		},
		Budget:        map[string]time.Duration{"quick": 120 * time.Second, "thorough": 800 * time.Second},
		MinNontrivial: 20000,
		Run:           run,
		Replay:        replay,
	})
}

func quiet() {
	// Login logs the generated password on every call; keep worker logs empty.
	slog.SetDefault(slog.New(slog.NewTextHandler(io.Discard, nil)))
}

// ---- part 1: route table ---------------------------------------------------

func judgeRoute(c *fw.Ctx, rt *routeTable, path string) {
	var found []reg
	for _, r := range rt.Regs {
		if r.Path == path {
			found = append(found, r)
		}
	}
	required := false
	for _, p := range requiredProtected {
		required = required || p == path
	}
	cas := Case{Kind: "route", Route: path}
	sensitive := required
	out := "route-open"
	if len(found) == 0 {
		if required {
			c.Violation("C19", "unprotected", "route-missing:"+path, fmt.Sprintf("%s registers no handler for %s (the page is required to exist behind Authn)", rt.File, path), cas)
			out = "route-missing"
		}
	}
	for _, r := range found {
		if sensitiveMethods[r.Method] {
			sensitive = true
		}
		switch {
		case r.Wrapped:
			out = "route-wrapped"
		case required || sensitiveMethods[r.Method]:
			c.Violation("C19", "unprotected", "route-unprotected:"+path,
				fmt.Sprintf("%s:%d registers %s with handler method %q WITHOUT the Authn wrapper", rt.File, r.Line, path, r.Method), cas)
			out = "route-unprotected"
		}
	}
	c.Eval(sensitive)
	c.Outcome(out)
	if sensitive {
		c.Count("routes_sensitive", 1)
		if path == "/save-source" {
			c.Sample(map[string]any{"case": cas, "registrations": found, "outcome": out})
		}
	}
}

func partRoutes(c *fw.Ctx, rt *routeTable) {
	seen := map[string]bool{}
	var paths []string
	for _, r := range rt.Regs {
		if !seen[r.Path] {
			seen[r.Path] = true
			paths = append(paths, r.Path)
		}
	}
	for _, p := range requiredProtected {
		if !seen[p] {
			seen[p] = true
			paths = append(paths, p)
		}
	}
	for _, p := range paths {
		judgeRoute(c, rt, p)
	}
	c.Count("routes_registered", int64(len(rt.Regs)))
}

// ---- part 2 / 5: one protected request -------------------------------------

// mintFailure reports a correct-password login that yielded no session as a
// login violation (replayable as a login case).
func mintFailure(c *fw.Ctx, k cfg, err error) {
	var m errMint
	if !errors.As(err, &m) {
		c.HarnessError("%v", err)
		return
	}
	remote := remotePublic
	if m.tag == "L" {
		remote = remoteLoopback
	}
	cas := mk("login", k)
	cas.Remote, cas.Method, cas.Guess, cas.Hdr = remote, "POST", "correct", "none"
	c.Violation("C19", "mismatch", "login/correct-password-rejected", err.Error(), cas)
}

// judgeAuthn is one self-contained authn case: a fresh handler (and a fresh
// "other process"), its own logins, then the same request presented
// cas.Repeat times to that handler, each presentation judged by the reference.
// It returns the outcome class of the case.
func judgeAuthn(c *fw.Ctx, rt *routeTable, cas Case) string {
	a, ok := addrOf(cas.Remote)
	if !ok {
		c.HarnessError("remote address %q is not in the reference table", cas.Remote)
		return "harness"
	}
	if _, ok := rt.find(cas.Route); !ok {
		c.HarnessError("route %q is not in the enumerated route set of %s", cas.Route, rt.File)
		return "harness"
	}
	e, err := newEnv(cas.cfg(), rt)
	if err != nil {
		c.HarnessError("%v", err)
		return "harness"
	}
	cu, err := cookieFor(cas.Cookie, e, func() (*env, error) { return newEnv(cas.cfg(), rt) })
	if err != nil {
		mintFailure(c, e.k, err)
		return "no-session"
	}
	n := cas.Repeat
	if n < 1 {
		n = 1
	}
	out := ""
	for i := 1; i <= n; i++ {
		r, err := protectedReq(cas.Method, cas.Route, cas.Remote, cas.Hdr, cu.Header)
		if err != nil {
			c.HarnessError("%v", err)
			return "harness"
		}
		suffix, what := "", ""
		if i > 1 {
			// the first presentation was judged correct: what fails now depends on the history
			suffix, what = "/on-repeat", fmt.Sprintf("presentation #%d of the same request to the same handler: ", i)
		}
		var good bool
		out, good = judgeProtected(c, e, r, cas, a.Loopback, cu.Valid, cu.Kind, "authn/", suffix, what)
		if !good {
			break
		}
	}
	return out
}

// judgeProtected serves one request to a protected route and compares with the
// reference; ok=false when a violation was reported.
func judgeProtected(c *fw.Ctx, e *env, r *http.Request, cas Case, loopback, valid bool, cookieKind, keyPrefix, keySuffix, what string) (out string, ok bool) {
	out, ok, _ = judgeProtectedRec(c, e, r, cas, loopback, valid, cookieKind, keyPrefix, keySuffix, what)
	return out, ok
}

func judgeProtectedRec(c *fw.Ctx, e *env, r *http.Request, cas Case, loopback, valid bool, cookieKind, keyPrefix, keySuffix, what string) (out string, ok bool, rec *httptest.ResponseRecorder) {
	allowed, why := allowedRef(e.k, loopback, valid)
	rec, p := e.serve(r)
	if p != nil {
		c.Violation("C19", "panic", keyPrefix+"panic", fmt.Sprintf("%+v: %spanic: %v", cas, what, p), cas)
		return "panic", false, rec
	}
	ranHere, ranOther := e.ran[cas.Route], 0
	for path, n := range e.ran {
		if path != cas.Route {
			ranOther += n
		}
	}
	loc := rec.Header().Get("Location")
	lb := "nonloopback"
	if loopback {
		lb = "loopback"
	}
	obs := fmt.Sprintf("stub ran %d× (other routes %d×), status %d, Location %q", ranHere, ranOther, rec.Code, loc)
	switch {
	case !allowed && ranHere+ranOther > 0:
		c.Violation("C19", "unauthenticated", keyPrefix+"served-not-allowed/"+lb+"/cookie-"+cookieKind+keySuffix,
			fmt.Sprintf("%+v: %sreference denies (authn enabled, %s remote, cookie %s) but the protected handler was served: %s", cas, what, lb, cookieKind, obs), cas)
		return "served:NOT-ALLOWED", false, rec
	case allowed && ranHere+ranOther == 0:
		c.Violation("C19", "mismatch", keyPrefix+"denied-allowed/"+why+keySuffix,
			fmt.Sprintf("%+v: %sreference allows (%s) but the protected handler did not run: %s", cas, what, why, obs), cas)
		return "denied:ALLOWED", false, rec
	case allowed && (ranHere != 1 || ranOther != 0 || (!e.real && rec.Code != 200)):
		c.Violation("C19", "mismatch", keyPrefix+"bad-served"+keySuffix,
			fmt.Sprintf("%+v: %sallowed (%s): expected the stub of %s exactly once and status 200: %s", cas, what, why, cas.Route, obs), cas)
		return "served:odd", false, rec
	case !allowed && (rec.Code != http.StatusSeeOther || loc != "/login"):
		c.Violation("C19", "mismatch", keyPrefix+"bad-redirect"+keySuffix,
			fmt.Sprintf("%+v: %sdenied: expected 303 to /login: %s", cas, what, obs), cas)
		return "denied:odd", false, rec
	case allowed:
		return "served:" + why, true, rec
	}
	return "redirect:cookie-" + cookieKind, true, rec
}

func methods(thorough bool) []string {
	if thorough {
		return []string{"GET", "POST", "PUT", "HEAD", "DELETE", "PATCH", "OPTIONS"}
	}
	return []string{"GET", "POST", "PUT", "HEAD"}
}

func repeats(thorough bool) int {
	if thorough {
		return 3
	}
	return 2
}

func partAuthn(c *fw.Ctx, rt *routeTable) {
	ms := methods(c.Thorough())
	as := tierAddrs(c.Thorough())
	rep := repeats(c.Thorough())
	c.Bound("authn_addresses", len(as))
	c.Bound("authn_cookie_states", len(cookieStates))
	c.Bound("authn_methods", ms)
	c.Bound("authn_header_variants", hdrVariants)
	c.Bound("authn_presentations_per_case", rep)
	var routes []string
	for _, r := range rt.Enum {
		routes = append(routes, r.Path)
	}
	c.Bound("authn_routes", routes)
	for _, k := range allCfgs() {
		for _, a := range as {
			for _, cs := range cookieStates {
				if !c.Mine() {
					continue
				}
				if c.Expired() {
					return
				}
				for _, hv := range hdrVariants {
					for _, m := range ms {
						for _, route := range routes {
							cas := mk("authn", k)
							cas.Remote, cas.Cookie, cas.Hdr, cas.Method, cas.Route, cas.Repeat = a.S, cs, hv, m, route, rep
							out := judgeAuthn(c, rt, cas)
							c.Eval(!k.Disable)
							c.Outcome(out)
							c.Count("authn_cases", 1)
							c.Count("authn_requests", int64(rep))
							if strings.HasPrefix(out, "served:session") && a.S == remotePublic && c.Shard%4 == 1 {
								c.Sample(map[string]any{"case": cas, "outcome": out})
							}
						}
					}
				}
			}
		}
	}
}

func partSweep(c *fw.Ctx, rt *routeTable) {
	route := rt.Enum[0].Path
	type job struct {
		k      cfg
		remote string
		base   string
	}
	var jobs []job
	for _, k := range allCfgs() {
		if k.Disable {
			continue
		}
		for _, remote := range []string{remotePublic, remoteLoopback} {
			for _, base := range []string{"R", "L"} {
				if !c.Thorough() && (remote != remotePublic || base != "R") {
					continue
				}
				jobs = append(jobs, job{k, remote, base})
			}
		}
	}
	c.Bound("sweep_jobs", len(jobs))
	// the token length is a constant of the session format; measure it once
	probe, err := newEnv(cfg{PW: "configured"}, rt)
	if err != nil {
		c.HarnessError("%v", err)
		return
	}
	tok := probe.mint("R")
	if tok == nil || tok.Value == "" {
		mintFailure(c, probe.k, errMint{"this", "R"})
		return
	}
	n := len(tok.Value)
	c.Bound("sweep_token_chars", n)
	for _, j := range jobs {
		for i := 0; i < n; i++ {
			if !c.Mine() {
				continue
			}
			if c.Expired() {
				return
			}
			for _, op := range []string{"flip", "trunc"} {
				if op == "trunc" && i == 0 {
					continue // the empty value is the named state "empty"
				}
				cas := mk("authn", j.k)
				cas.Remote, cas.Cookie, cas.Hdr, cas.Method, cas.Route, cas.Repeat = j.remote, fmt.Sprintf("%s:%s@%d", op, j.base, i), "none", "GET", route, 2
				out := judgeAuthn(c, rt, cas)
				c.Eval(true)
				c.Outcome(out)
				c.Count("sweep_cases", 1)
			}
		}
	}
}

// ---- part 3: login ----------------------------------------------------------

var loginMethods = []string{"GET", "POST", "PUT", "HEAD", "DELETE"}

func judgeLogin(c *fw.Ctx, rt *routeTable, cas Case) string {
	k := cas.cfg()
	e, err := newEnv(k, rt)
	if err != nil {
		c.HarnessError("%v", err)
		return "harness"
	}
	r, g, err := e.loginReq(cas.Method, cas.Remote, cas.Hdr, cas.Guess)
	if err != nil {
		c.HarnessError("%v", err)
		return "harness"
	}
	rec, p := e.serve(r)
	if p != nil {
		c.Violation("C19", "panic", "login/panic", fmt.Sprintf("%+v: panic: %v", cas, p), cas)
		return "panic"
	}
	setCookies := rec.Header().Values("Set-Cookie")
	loc := rec.Header().Get("Location")
	obs := fmt.Sprintf("status %d, Location %q, %d Set-Cookie header(s)", rec.Code, loc, len(setCookies))
	// would the issued thing open a protected page? (diagnosis only)
	opens := func() string {
		ck := sessionCookie(rec)
		if ck == nil {
			return ""
		}
		rq, _ := protectedReq("GET", rt.Enum[0].Path, remotePublic, "none", ck.Name+"="+ck.Value)
		e.serve(rq)
		if e.ran[rt.Enum[0].Path] > 0 {
			return "; the issued cookie OPENS " + rt.Enum[0].Path + " from " + remotePublic
		}
		return "; the issued cookie does not open " + rt.Enum[0].Path
	}
	switch cas.Method {
	case "GET":
		if len(setCookies) > 0 {
			c.Violation("C19", "unauthenticated", "login/set-cookie-on-get", fmt.Sprintf("%+v: GET /login set a cookie: %s%s", cas, obs, opens()), cas)
			return "login-get:COOKIE"
		}
		if rec.Code != 200 && rec.Code != 500 {
			c.Violation("C19", "mismatch", "login/get-status", fmt.Sprintf("%+v: GET /login: %s", cas, obs), cas)
			return "login-get:odd"
		}
		return fmt.Sprintf("login-get-%d", rec.Code)
	case "POST":
	default:
		if len(setCookies) > 0 {
			c.Violation("C19", "unauthenticated", "login/set-cookie-on-bad-method", fmt.Sprintf("%+v: %s /login set a cookie: %s%s", cas, cas.Method, obs, opens()), cas)
			return "login-405:COOKIE"
		}
		if rec.Code != http.StatusMethodNotAllowed {
			c.Violation("C19", "mismatch", "login/method-not-405", fmt.Sprintf("%+v: %s /login: %s", cas, cas.Method, obs), cas)
			return "login-405:odd"
		}
		return "login-405"
	}
	// POST. Reference: the guess is right iff it IS the password (byte for byte, and actually supplied).
	// An empty or absent guess is never right (a password is never empty).
	correct := cas.Guess != "missing" && g != "" && g == e.pw
	if !correct {
		if len(setCookies) > 0 {
			c.Violation("C19", "unauthenticated", "login/session-issued-for-wrong-password/"+cas.Guess,
				fmt.Sprintf("%+v: wrong guess (class %s, %d bytes vs %d byte password) but a cookie was set: %s%s", cas, cas.Guess, len(g), len(e.pw), obs, opens()), cas)
			return "login-401:COOKIE"
		}
		if rec.Code != http.StatusUnauthorized {
			c.Violation("C19", "mismatch", "login/wrong-password-status/"+cas.Guess, fmt.Sprintf("%+v: wrong guess: expected 401: %s", cas, obs), cas)
			return "login-401:odd"
		}
		return "login-401"
	}
	ck := sessionCookie(rec)
	if rec.Code != http.StatusSeeOther || loc != "/" || len(setCookies) != 1 || ck == nil || ck.Value == "" {
		c.Violation("C19", "mismatch", "login/correct-password-rejected", fmt.Sprintf("%+v: correct password: expected 303 to / with one session cookie: %s", cas, obs), cas)
		return "login-ok:odd"
	}
	if ck.Name != sessionCookieName {
		c.Count("cookie_name_differs_from_library_default", 1)
	}
	// the issuer accepts it from a non-loopback address (whatever enable_loopback_authn says), every time …
	route := rt.Enum[0].Path
	for i := 1; i <= 2; i++ {
		rq, _ := protectedReq("GET", route, remotePublic, "none", ck.Name+"="+ck.Value)
		rec2, p := e.serve(rq)
		if p != nil {
			c.Violation("C19", "panic", "login/panic", fmt.Sprintf("%+v: panic presenting the session: %v", cas, p), cas)
			return "panic"
		}
		if e.ran[route] != 1 || rec2.Code != 200 {
			c.Violation("C19", "mismatch", "login/cookie-not-accepted-by-issuer",
				fmt.Sprintf("%+v: presentation #%d: the session just issued does not open %s from %s on the issuing handler: stub ran %d×, status %d", cas, i, route, remotePublic, e.ran[route], rec2.Code), cas)
			return "login-ok:unusable"
		}
	}
	// … and another process (same configuration, own key) does not, however often it is shown, unless authn is off
	other, err := newEnv(k, rt)
	if err != nil {
		c.HarnessError("%v", err)
		return "harness"
	}
	for i := 1; i <= 2; i++ {
		rq, _ := protectedReq("GET", route, remotePublic, "none", ck.Name+"="+ck.Value)
		rec3, p := other.serve(rq)
		if p != nil {
			c.Violation("C19", "panic", "login/panic", fmt.Sprintf("%+v: panic presenting the session to another instance: %v", cas, p), cas)
			return "panic"
		}
		if allowed, _ := allowedRef(k, false, false); !allowed && (other.ran[route] != 0 || rec3.Code != http.StatusSeeOther) {
			c.Violation("C19", "unauthenticated", "login/cookie-accepted-by-other-instance",
				fmt.Sprintf("%+v: presentation #%d: a session issued by one handler instance opens %s on another instance: stub ran %d×, status %d", cas, i, route, other.ran[route], rec3.Code), cas)
			return "login-ok:PORTABLE"
		} else if allowed && other.ran[route] != 1 {
			c.Violation("C19", "mismatch", "authn/denied-allowed/disabled", fmt.Sprintf("%+v: authn disabled but another instance denies: status %d", cas, rec3.Code), cas)
			return "login-ok:odd"
		}
	}
	return "login-ok"
}

func partLogin(c *fw.Ctx, rt *routeTable) {
	as := tierAddrs(c.Thorough())
	c.Bound("login_methods", loginMethods)
	c.Bound("login_guesses", guessClasses)
	for _, k := range allCfgs() {
		for _, a := range as {
			if !c.Mine() {
				continue
			}
			if c.Expired() {
				return
			}
			for _, m := range loginMethods {
				for _, g := range guessClasses {
					for _, hv := range hdrVariants {
						cas := mk("login", k)
						cas.Remote, cas.Method, cas.Guess, cas.Hdr = a.S, m, g, hv
						out := judgeLogin(c, rt, cas)
						c.Eval(m == "POST")
						c.Outcome(out)
						c.Count("login_requests", 1)
						if out == "login-ok" && c.Shard%4 == 2 || out == "login-401" && c.Shard%4 == 3 {
							c.Sample(map[string]any{"case": cas, "outcome": out})
						}
					}
				}
			}
		}
	}
}

// ---- run / replay -----------------------------------------------------------

func run(c *fw.Ctx) {
	quiet()
	rt, err := loadRoutes()
	if err != nil {
		c.HarnessError("%v", err)
		return
	}
	c.Bound("main_go", rt.File)
	if c.Shard == 0 {
		partRoutes(c, rt)
	}
	partAuthn(c, rt)
	partLogin(c, rt)
	partSeq(c, rt)
	partVisit(c, rt)
	partConc(c, rt)
	partConfDoc(c, rt)
	partSweep(c, rt)
}

func replay(c *fw.Ctx, raw json.RawMessage) {
	quiet()
	var k Case
	if err := json.Unmarshal(raw, &k); err != nil {
		c.HarnessError("bad case: %v", err)
		return
	}
	rt, err := loadRoutes()
	if err != nil {
		c.HarnessError("%v", err)
		return
	}
	switch k.Kind {
	case "route":
		judgeRoute(c, rt, k.Route)
	case "authn":
		fmt.Println("outcome:", judgeAuthn(c, rt, k))
	case "conc":
		replayConc(c, rt, k)
	case "login":
		fmt.Println("outcome:", judgeLogin(c, rt, k))
	case "seq":
		fmt.Println("outcome:", judgeSeq(c, rt, k))
	default:
		c.HarnessError("unknown case kind %q", k.Kind)
	}
}
