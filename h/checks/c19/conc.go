package c19

import (
	"fmt"
	"net/http"
	"net/http/httptest"
	"strings"

	"verifh/explore"
	"verifh/fw"
	"verifh/vrt"
)

// ---- part 6: concurrent requests on one handler ------------------------------
//
// SCHEDULE EXPLORATION WITH A PREEMPTION BOUND (not plain enumeration): the
// check binary is built with a scheduling point (vrt.Yield) before every
// statement of package shovel/web. Inside a vrt world N controlled threads each
// send ONE request through the same mux / the same Authn-wrapped route of one
// handler; the DFS explorer (verifh/explore) enumerates every interleaving of
// the statements of the N requests with at most P preemptions (a switch away
// from a request that could continue; switches when a request has finished
// are free). Code outside shovel/web (net/http, kr/session, age) runs
// atomically between two scheduling points.
//
// A case is (configuration, route, request kinds, choice sequence); everything
// else (handler, sessions) is rebuilt by the case itself, so a replay in a
// fresh process follows the same schedule. The oracle is the sequential one,
// per request: the protected handler ran for a request iff the reference
// allows THAT request; a denied request is answered 303 → /login.

var concKinds = []string{"operator", "visitor-none", "visitor-garbage", "visitor-foreign", "loopback"}

type concReq struct {
	kind       string
	remote     string
	loopback   bool
	valid      bool
	cookieKind string
	cookie     string
}

type concRes struct {
	outs     []string
	trans    int64
	trace    []string
	harness  string
	panics   []string
	deadlock string
}

// concExec runs ONE execution: fresh handler, logins, then the concurrent phase under ch.
func concExec(c *fw.Ctx, rt *routeTable, cas Case, ch vrt.Chooser, states *vrt.StateSet) (res concRes) {
	k := cas.cfg()
	e, err := newEnv(k, rt)
	if err != nil {
		res.harness = err.Error()
		return
	}
	reg, ok := rt.find(cas.Route)
	if !ok {
		res.harness = fmt.Sprintf("route %q is not in the enumerated route set", cas.Route)
		return
	}
	_ = reg
	// sequential prologue (outside the world: no scheduling points): the operator logs in
	var reqs []*http.Request
	var meta []concReq
	for i, kind := range cas.Threads {
		m := concReq{kind: kind, remote: remotePublic, cookieKind: "none"}
		switch kind {
		case "operator":
			ck := e.mint("R")
			if ck == nil || ck.Value == "" {
				mintFailure(c, k, errMint{"this", "R"})
				res.harness = "-"
				return
			}
			m.cookie, m.valid, m.cookieKind = ck.Name+"="+ck.Value, true, "valid"
		case "visitor-none":
		case "visitor-garbage":
			m.cookie, m.cookieKind = sessionCookieName+"=garbage", "invalid"
		case "visitor-foreign":
			other, err := newEnv(k, rt)
			if err != nil {
				res.harness = err.Error()
				return
			}
			ck := other.mint("R")
			if ck == nil || ck.Value == "" {
				mintFailure(c, k, errMint{"other", "R"})
				res.harness = "-"
				return
			}
			m.cookie, m.cookieKind = ck.Name+"="+ck.Value, "foreign"
		case "loopback":
			m.remote, m.loopback = remoteLoopback, true
		default:
			res.harness = fmt.Sprintf("unknown request kind %q", kind)
			return
		}
		r, err := protectedReq("POST", cas.Route, m.remote, "none", m.cookie)
		if err != nil {
			res.harness = err.Error()
			return
		}
		r.Header.Set(reqIDHeader, fmt.Sprint(i))
		reqs, meta = append(reqs, r), append(meta, m)
	}
	for key := range e.ranReq {
		delete(e.ranReq, key)
	}
	n := len(reqs)
	recs := make([]*httptest.ResponseRecorder, n)
	panics := make([]any, n)
	for i := range recs {
		recs[i] = httptest.NewRecorder()
	}
	w := vrt.NewWorld(ch)
	w.TraceOn = true
	w.States = states
	w.StateKey = func() uint64 {
		h := uint64(0)
		for i := 0; i < n; i++ {
			h = h*31 + uint64(e.ranReq[fmt.Sprint(i)])
		}
		return h
	}
	w.Run(func() {
		var ts []*vrt.Thread
		for i := range reqs {
			i := i
			ts = append(ts, w.GoNamed(fmt.Sprintf("r%d:%s", i, cas.Threads[i]), func() {
				defer func() { panics[i] = recover() }()
				e.mux.ServeHTTP(recs[i], reqs[i])
			}))
		}
		w.Join(ts...)
	})
	problems := w.Close()
	res.trans, res.trace = w.Transitions, w.Trace
	if w.Deadlock {
		res.deadlock = w.DeadlockMsg
	}
	res.panics = w.Panics
	if problems != "" {
		res.harness = problems
		return
	}
	// the oracle, per request
	for i, m := range meta {
		what := fmt.Sprintf("concurrent request %d/%d (%s), schedule %v: ", i+1, n, m.kind, cas.Choices)
		if panics[i] != nil {
			c.Violation("C19", "panic", "conc/panic", fmt.Sprintf("%+v: %spanic: %v", cas, what, panics[i]), cas)
			res.outs = append(res.outs, "panic")
			continue
		}
		allowed, why := allowedRef(k, m.loopback, m.valid)
		ran, rec := e.ranReq[fmt.Sprint(i)], recs[i]
		loc := rec.Header().Get("Location")
		lb := "nonloopback"
		if m.loopback {
			lb = "loopback"
		}
		obs := fmt.Sprintf("protected handler ran %d× for this request, status %d, Location %q; all requests: %v", ran, rec.Code, loc, cas.Threads)
		switch {
		case !allowed && ran > 0:
			c.Violation("C19", "unauthenticated", "conc/served-not-allowed/"+lb+"/cookie-"+m.cookieKind,
				fmt.Sprintf("%+v: %sreference denies (authn enabled, %s remote, cookie %s) but the protected handler was served: %s", cas, what, lb, m.cookieKind, obs), cas)
			res.outs = append(res.outs, "served:NOT-ALLOWED")
		case allowed && ran == 0:
			c.Violation("C19", "mismatch", "conc/denied-allowed/"+why,
				fmt.Sprintf("%+v: %sreference allows (%s) but the protected handler did not run: %s", cas, what, why, obs), cas)
			res.outs = append(res.outs, "denied:ALLOWED")
		case allowed && (ran != 1 || rec.Code != 200):
			c.Violation("C19", "mismatch", "conc/bad-served", fmt.Sprintf("%+v: %sallowed (%s): expected the handler once and status 200: %s", cas, what, why, obs), cas)
			res.outs = append(res.outs, "served:odd")
		case !allowed && (rec.Code != http.StatusSeeOther || loc != "/login"):
			c.Violation("C19", "mismatch", "conc/bad-redirect", fmt.Sprintf("%+v: %sdenied: expected 303 to /login: %s", cas, what, obs), cas)
			res.outs = append(res.outs, "denied:odd")
		case allowed:
			res.outs = append(res.outs, "served:"+why)
		default:
			res.outs = append(res.outs, "redirect:"+m.cookieKind)
		}
	}
	return res
}

// scheduleOf reduces a trace ("thread:label" per scheduling point) to the order in which the threads ran.
func scheduleOf(trace []string) string {
	var b strings.Builder
	for _, t := range trace {
		if t[0] == 'r' { // request threads are named r<i>:<kind>
			b.WriteByte(t[1])
		}
	}
	return b.String()
}

func tuples(alphabet []string, n int) [][]string {
	if n == 0 {
		return [][]string{nil}
	}
	var out [][]string
	for _, t := range tuples(alphabet, n-1) {
		for _, a := range alphabet {
			out = append(out, append(append([]string{}, t...), a))
		}
	}
	return out
}

func partConc(c *fw.Ctx, rt *routeTable) {
	type job struct {
		k       cfg
		route   string
		threads []string
		preempt int
	}
	route1 := rt.Enum[0].Path
	if _, ok := rt.find("/save-source"); ok {
		route1 = "/save-source"
	}
	var jobs []job
	for _, la := range []bool{false, true} {
		for _, pw := range []string{"configured", "generated"} {
			if !c.Thorough() && pw != "configured" {
				continue
			}
			k := cfg{Disable: false, LoopAuth: la, PW: pw} // authn in force
			for _, r := range rt.Enum {
				if !c.Thorough() && r.Path != route1 {
					continue
				}
				for _, t := range tuples(concKinds, 2) {
					p := 2
					if c.Thorough() {
						p = 3
					}
					jobs = append(jobs, job{k, r.Path, t, p})
				}
			}
			if c.Thorough() && pw == "configured" {
				for _, t := range tuples(concKinds, 3) {
					jobs = append(jobs, job{k, route1, t, 2})
				}
			}
		}
	}
	c.Bound("conc_jobs", len(jobs))
	c.Bound("conc_request_kinds", concKinds)
	if c.Thorough() {
		c.Bound("conc_threads_and_preemptions", "2 threads ≤3 preemptions on every protected route; 3 threads ≤2 preemptions on "+route1)
	} else {
		c.Bound("conc_threads_and_preemptions", "2 threads ≤2 preemptions on "+route1)
	}
	for _, j := range jobs {
		if !c.Mine() {
			continue
		}
		if c.Expired() {
			return
		}
		var b explore.Bounds
		b[vrt.KPreempt] = j.preempt
		states := vrt.NewStateSet()
		schedules, orders := map[string]bool{}, map[string]bool{}
		base := mk("conc", j.k)
		base.Remote, base.Route, base.Threads = remotePublic, j.route, j.threads
		st := explore.Explore(b, true, func(r *explore.Run) bool {
			cas := base
			// the choices are only known after the run; the violation case is completed below
			before := len(c.Res.Violations)
			res := concExec(c, rt, cas, r, states)
			choices := append([]int{}, r.Trimmed()...)
			for i := before; i < len(c.Res.Violations); i++ {
				cas.Choices = choices
				c.Res.Violations[i].Case = mustJSON(cas)
				c.Res.Violations[i].Detail = strings.Replace(c.Res.Violations[i].Detail, "Choices:[]}", fmt.Sprintf("Choices:%v}", choices), 1)
				c.Res.Violations[i].Detail = strings.Replace(c.Res.Violations[i].Detail, "schedule []", fmt.Sprintf("schedule %v (threads ran in the order %s)", choices, scheduleOf(res.trace)), 1)
			}
			if r.Diverged != "" {
				c.HarnessError("HARNESS-NONDETERMINISM conc job %+v: %s", j, r.Diverged)
				return false
			}
			if res.harness != "" {
				if res.harness != "-" {
					c.HarnessError("conc job %+v: %s", j, res.harness)
				}
				return false
			}
			if res.deadlock != "" {
				c.HarnessError("conc job %+v: requests blocked: %s", j, res.deadlock)
				return false
			}
			if len(res.panics) > 0 {
				c.HarnessError("conc job %+v: %s", j, res.panics[0])
				return false
			}
			schedules[fmt.Sprint(r.Choices())] = true // a schedule IS a choice sequence
			orders[scheduleOf(res.trace)] = true      // coarser: which thread reached each scheduling point
			c.Eval(true)
			c.Outcome("conc:" + strings.Join(res.outs, "+"))
			c.Res.Traces++
			c.Res.Transitions += res.trans
			c.Count("conc_executions", 1)
			c.Count("conc_transitions", res.trans)
			c.Count(fmt.Sprintf("conc_executions_%d_threads", len(j.threads)), 1)
			if len(choices) > 0 && len(j.threads) == 2 && j.threads[0] == "operator" && j.threads[1] == "visitor-none" && c.Shard%4 == 3 {
				cas.Choices = choices
				c.Sample(map[string]any{"case": cas, "outcome": res.outs, "thread_order": scheduleOf(res.trace)})
			}
			return !c.Expired()
		})
		_ = st
		c.Res.States += int64(states.Len())
		c.Count("conc_states", int64(states.Len()))
		c.Count("conc_distinct_schedules", int64(len(schedules)))
		c.Count("conc_distinct_thread_orders", int64(len(orders)))
		c.Count("conc_jobs_done", 1)
	}
}

func replayConc(c *fw.Ctx, rt *routeTable, cas Case) {
	r := explore.Replay(cas.Choices)
	res := concExec(c, rt, cas, r, nil)
	if res.harness != "" && res.harness != "-" {
		c.HarnessError("%s", res.harness)
		return
	}
	if r.Diverged != "" {
		c.HarnessError("HARNESS-NONDETERMINISM replay diverged: %s", r.Diverged)
		return
	}
	fmt.Println("outcome:", res.outs, "thread order:", scheduleOf(res.trace))
	for _, t := range res.trace {
		fmt.Println("  ", t)
	}
}
