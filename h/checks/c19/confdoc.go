package c19

import (
	"verifh/fw"
)

// ---- part 7: the configuration as the operator writes it ----------------------
//
// cmd/shovel/main.go never builds config.Dashboard as a Go value: it decodes a
// JSON file into config.Root and calls config.ValidateFix. This part does the
// same for every accepted spelling of the two switches (absent / false / true;
// 9 combinations) × both password modes, hands the DECODED configuration to
// web.New, and judges protected requests and logins with the reference
// computed from what the document SAYS (cfg.Disable / cfg.LoopAuth are derived
// from the spellings, see docCfgs) — a decoder that mixes the switches up is
// then seen as "served although the document does not allow it".

func partConfDoc(c *fw.Ctx, rt *routeTable) {
	cfgs := docCfgs()
	as := tierAddrs(c.Thorough())
	states := []string{"none", "garbage", "this-remote", "other-remote"}
	ms := []string{"GET", "POST"}
	if c.Thorough() {
		states, ms = cookieStates, methods(true)
	}
	c.Bound("confdoc_documents", len(cfgs))
	c.Bound("confdoc_switch_spellings", switchSpellings)
	c.Bound("confdoc_cookie_states", states)
	for _, k := range cfgs {
		if c.Shard == 0 && k.PW == "configured" {
			if doc, err := k.document(); err == nil {
				c.Count("confdoc_documents_rendered", 1)
				if k.Doc == "d=absent,l=true" {
					c.Bound("confdoc_example", map[string]any{"config_doc": k.Doc, "document": doc, "reference": map[string]bool{"disable_authn": k.Disable, "enable_loopback_authn": k.LoopAuth}})
				}
			}
		}
		for _, a := range as {
			if !c.Mine() {
				continue
			}
			if c.Expired() {
				return
			}
			for _, cs := range states {
				for _, m := range ms {
					for _, r := range rt.Enum {
						cas := mk("authn", k)
						cas.Remote, cas.Cookie, cas.Hdr, cas.Method, cas.Route, cas.Repeat = a.S, cs, "none", m, r.Path, 1
						out := judgeAuthn(c, rt, cas)
						c.Eval(!k.Disable)
						c.Outcome("doc:" + out)
						c.Count("confdoc_authn_cases", 1)
					}
				}
			}
			// the password travels through the document as well
			if a.S == remotePublic || a.S == remoteLoopback {
				for _, g := range []string{"correct", "wrong-last", "empty"} {
					cas := mk("login", k)
					cas.Remote, cas.Method, cas.Guess, cas.Hdr = a.S, "POST", g, "none"
					out := judgeLogin(c, rt, cas)
					c.Eval(true)
					c.Outcome("doc:" + out)
					c.Count("confdoc_login_cases", 1)
				}
			}
		}
	}
}
