// Package c19 registers the C19 check (see DESIGN.md §4).
package c19
