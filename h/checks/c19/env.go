package c19

import (
	"context"
	"encoding/base64"
	"encoding/json"
	"fmt"
	"net"
	"net/http"
	"net/http/httptest"
	"net/url"
	"reflect"
	"strconv"
	"strings"
	"sync"
	"unsafe"

	"github.com/jackc/pgx/v5/pgxpool"
	"verifh/vrt"

	"github.com/indexsupply/shovel/shovel/config"
	"github.com/indexsupply/shovel/shovel/web"
)

// ---- reference model ------------------------------------------------------

// addrs is the enumerated remote-address domain. The loopback classification
// is written down by hand per address (it IS the reference; nothing here calls
// net.ParseIP or the code's isLoopback): 127.0.0.0/8, ::1 and the v4-mapped
// form of 127.x are loopback; everything else, including anything that is not
// a well-formed ip:port, is not.
type addr struct {
	S        string
	Class    string
	Loopback bool
	Thorough bool // only enumerated in the thorough tier
}

var addrs = []addr{
	{"127.0.0.1:1", "v4-loopback", true, false},
	{"127.9.9.9:1", "v4-loopback", true, false},
	{"[::1]:1", "v6-loopback", true, false},
	{"[::ffff:127.0.0.1]:1", "v4mapped-loopback", true, false},
	{"10.0.0.1:1", "private", false, false},
	{"192.168.1.1:1", "private", false, false},
	{"8.8.8.8:1", "public", false, false},
	{"[2001:db8::1]:1", "public", false, false},
	{"garbage", "malformed", false, false},
	{"", "empty", false, false},
	// thorough: edges of 127/8, neighbours of ::1, more malformed shapes
	{"127.255.255.254:1", "v4-loopback", true, true},
	{"[::ffff:127.255.0.3]:1", "v4mapped-loopback", true, true},
	{"[0:0:0:0:0:0:0:1]:1", "v6-loopback", true, true},
	{"126.255.255.255:1", "public", false, true},
	{"128.0.0.1:1", "public", false, true},
	{"1.127.0.0:1", "public", false, true},
	{"0.0.0.0:1", "unspecified", false, true},
	{"[::]:1", "unspecified", false, true},
	{"[::2]:1", "public", false, true},
	{"[::ffff:10.0.0.1]:1", "private", false, true},
	{"[fe80::1]:1", "link-local", false, true},
	{"localhost:1", "malformed", false, true}, // a name is not an address
	{"127.0.0.1", "malformed", false, true},   // no port: not what net/http produces
	{"127.0.0.1:1:1", "malformed", false, true},
	{":1", "malformed", false, true},
}

func addrOf(s string) (addr, bool) {
	for _, a := range addrs {
		if a.S == s {
			return a, true
		}
	}
	return addr{}, false
}

func tierAddrs(thorough bool) []addr {
	var out []addr
	for _, a := range addrs {
		if !a.Thorough || thorough {
			out = append(out, a)
		}
	}
	return out
}

const (
	remotePublic   = "8.8.8.8:1"
	remoteLoopback = "127.0.0.1:1"
)

// cfg is one point of the configuration space.
type cfg struct {
	Disable  bool   `json:"disable_authn"`
	LoopAuth bool   `json:"enable_loopback_authn"`
	PW       string `json:"password"` // "configured" | "generated"
	// Doc == "": the handler gets a config.Root built as a Go literal.
	// Doc == "d=<sp>,l=<sp>" (sp ∈ absent|false|true): the configuration is a JSON
	// DOCUMENT in which disable_authn / enable_loopback_authn are spelled that way;
	// it is decoded exactly as cmd/shovel/main.go does (json.Decoder into
	// config.Root, then config.ValidateFix) and the DECODED value goes to web.New.
	// Disable / LoopAuth then state what the operator WROTE; the reference
	// predicate is computed from them, never from the decoded struct.
	Doc string `json:"config_doc,omitempty"`
}

// switchSpellings are the spellings of a boolean switch that the unchanged tree
// accepts (the fields are plain Go bools: a quoted "true" is a decode error
// there and therefore not part of the judged domain).
var switchSpellings = []string{"absent", "false", "true"}

// docCfgs: every spelling of the two switches × the two password modes, as documents.
func docCfgs() []cfg {
	var out []cfg
	for _, d := range switchSpellings {
		for _, l := range switchSpellings {
			for _, p := range []string{"configured", "generated"} {
				out = append(out, cfg{Disable: d == "true", LoopAuth: l == "true", PW: p, Doc: "d=" + d + ",l=" + l})
			}
		}
	}
	return out
}

// document renders the configuration file the operator wrote.
func (k cfg) document() (string, error) {
	ds, ls, ok := strings.Cut(k.Doc, ",")
	ds, ok1 := strings.CutPrefix(ds, "d=")
	ls, ok2 := strings.CutPrefix(ls, "l=")
	valid := func(s string) bool { return s == "absent" || s == "false" || s == "true" }
	if !ok || !ok1 || !ok2 || !valid(ds) || !valid(ls) {
		return "", fmt.Errorf("malformed config_doc %q", k.Doc)
	}
	if k.Disable != (ds == "true") || k.LoopAuth != (ls == "true") {
		return "", fmt.Errorf("case says disable_authn=%v enable_loopback_authn=%v but its document spells %q", k.Disable, k.LoopAuth, k.Doc)
	}
	var fields []string
	if ls != "absent" {
		fields = append(fields, `"enable_loopback_authn": `+ls)
	}
	if ds != "absent" {
		fields = append(fields, `"disable_authn": `+ds)
	}
	switch k.PW {
	case "configured":
		fields = append(fields, `"root_password": "`+configuredPassword+`"`)
	case "generated":
	default:
		return "", fmt.Errorf("unknown password mode %q", k.PW)
	}
	doc := `{"pg_url": "postgres:///c19", "eth_sources": [], "integrations": []`
	if len(fields) > 0 { // nothing to say about the dashboard: the operator leaves the object out
		doc += `, "dashboard": {` + strings.Join(fields, ", ") + `}`
	}
	return doc + "}", nil
}

// decodeDocument reads the document the way cmd/shovel/main.go reads its config file.
func decodeDocument(doc string) (*config.Root, error) {
	var conf config.Root
	if err := json.NewDecoder(strings.NewReader(doc)).Decode(&conf); err != nil {
		return nil, fmt.Errorf("decoding %s: %v", doc, err)
	}
	if err := config.ValidateFix(&conf); err != nil {
		return nil, fmt.Errorf("ValidateFix of %s: %v", doc, err)
	}
	return &conf, nil
}

func allCfgs() []cfg {
	var out []cfg
	for _, d := range []bool{false, true} {
		for _, l := range []bool{false, true} {
			for _, p := range []string{"configured", "generated"} {
				out = append(out, cfg{Disable: d, LoopAuth: l, PW: p})
			}
		}
	}
	return out
}

// allowedRef is the reference access predicate of the property statement.
func allowedRef(k cfg, loopback, validSession bool) (bool, string) {
	switch {
	case k.Disable:
		return true, "disabled"
	case !k.LoopAuth && loopback:
		return true, "loopback"
	case validSession:
		return true, "session"
	}
	return false, ""
}

// ---- header variants ------------------------------------------------------

// Proxy-style headers that claim a loopback client. The reference ignores
// them: only the transport-level remote address counts.
var hdrVariants = []string{"none", "xff", "proxy"}

func applyHdr(r *http.Request, v string) error {
	switch v {
	case "", "none":
	case "xff":
		r.Header.Set("X-Forwarded-For", "127.0.0.1")
	case "proxy":
		r.Header.Set("X-Forwarded-For", "::1")
		r.Header.Set("X-Real-Ip", "127.0.0.1")
		r.Header.Set("Forwarded", "for=127.0.0.1;host=localhost;proto=https")
		r.Host = "localhost"
	default:
		return fmt.Errorf("unknown header variant %q", v)
	}
	return nil
}

// ---- one handler instance ("one process") ---------------------------------

const configuredPassword = "hunter2"

// sessionCookieName is session.DefaultCookie.Name of github.com/kr/session
// v0.2.1 (web.Handler never changes the name); garbage cookies are sent under
// it. Cookies derived from an issued session keep the name they were issued
// with; a differing name is counted (cookie_name_differs_from_library_default).
const sessionCookieName = "session"

type env struct {
	k    cfg
	conf *config.Root
	h    *web.Handler
	mux  *http.ServeMux
	pw   string
	ran  map[string]int // route path → times the protected stub ran for the current request

	// real: the mux mirrors EVERY dashboard registration of main.go with the real
	// handler methods (behind a run recorder) instead of stubs; see newRealEnv.
	real bool
	// ranReq: request id (header X-C19-Req) → times a protected handler ran for it;
	// used where several requests are in flight at once (conc.go).
	ranReq map[string]int

	minted map[string]*http.Cookie // "R" login from remotePublic, "L" login from remoteLoopback
}

const reqIDHeader = "X-C19-Req"

// passwordOf reads the unexported Handler.password.
//
// The generated password is only ever disclosed through a log line inside
// Login; capturing it there would need a process-wide slog default handler
// and would depend on Login being called (and logging) before the first
// guess can be built. Reading the field is independent of any request having
// been made and of the log format; if the field disappears the check stops
// with a harness error instead of guessing.
func passwordOf(h *web.Handler) (string, error) {
	f := reflect.ValueOf(h).Elem().FieldByName("password")
	if !f.IsValid() || f.Kind() != reflect.Slice || f.Type().Elem().Kind() != reflect.Uint8 || !f.CanAddr() {
		return "", fmt.Errorf("web.Handler has no []byte field `password`")
	}
	b := *(*[]byte)(unsafe.Pointer(f.UnsafeAddr()))
	return string(b), nil
}

func newEnv(k cfg, rt *routeTable) (*env, error) { return newEnvOpt(k, rt, false) }

// newRealEnv builds a handler whose mux mirrors main.go with the REAL handler
// methods: every `mux.Handle*(path, …wh.Method…)` statement becomes
// path → [Authn(] recorder → h.Method [)]. The handler gets a pgx pool whose
// dial function always fails ("the database is down"): every handler runs its
// own code up to the first query and answers with its own error path, no nil
// pointers involved. mgr stays nil (only reached after a successful insert).
// Requests must carry an already cancelled context (cancelledContext) so that
// the event-stream handler returns.
func newRealEnv(k cfg, rt *routeTable) (*env, error) { return newEnvOpt(k, rt, true) }

var (
	downPoolOnce sync.Once
	downPool     *pgxpool.Pool
	downPoolErr  error
)

// failingPool is shared by all handlers of the process: it never holds a
// connection, so it carries no state from one case to the next.
func failingPool() (*pgxpool.Pool, error) {
	downPoolOnce.Do(func() {
		pc, err := pgxpool.ParseConfig("postgres://c19@127.0.0.1:1/none?sslmode=disable")
		if err != nil {
			downPoolErr = err
			return
		}
		pc.ConnConfig.DialFunc = func(context.Context, string, string) (net.Conn, error) {
			return nil, fmt.Errorf("c19: there is no database in this harness")
		}
		pc.ConnConfig.LookupFunc = func(_ context.Context, host string) ([]string, error) { return []string{host}, nil }
		downPool, downPoolErr = pgxpool.NewWithConfig(context.Background(), pc)
	})
	return downPool, downPoolErr
}

// cancelledContext is a request context that is already cancelled. Inside a
// vrt world the channel model only knows closes made through vrt, so the close
// is announced there as well (the instrumented event-stream handler selects on
// Done() through the model).
type cancelledCtx struct {
	context.Context
	done chan struct{}
}

func (c cancelledCtx) Done() <-chan struct{} { return c.done }
func (c cancelledCtx) Err() error            { return context.Canceled }

func cancelledContext() context.Context {
	d := make(chan struct{})
	if vrt.W() != nil {
		vrt.Close(d)
	}
	close(d)
	return cancelledCtx{context.Background(), d}
}

func newEnvOpt(k cfg, rt *routeTable, real bool) (*env, error) {
	var pool *pgxpool.Pool
	if real {
		var err error
		if pool, err = failingPool(); err != nil {
			return nil, fmt.Errorf("building the always-down pgx pool: %v", err)
		}
	}
	for try := 0; try < 1000; try++ {
		e := &env{k: k, conf: &config.Root{}, ran: map[string]int{}, ranReq: map[string]int{}, minted: map[string]*http.Cookie{}, real: real}
		if k.Doc != "" {
			doc, err := k.document()
			if err != nil {
				return nil, err
			}
			if e.conf, err = decodeDocument(doc); err != nil {
				return nil, err
			}
		} else {
			e.conf.Dashboard.DisableAuthn = k.Disable
			e.conf.Dashboard.EnableLoopbackAuthn = k.LoopAuth
			if k.PW == "configured" {
				e.conf.Dashboard.RootPassword = configuredPassword
			}
		}
		switch k.PW {
		case "configured":
			e.pw = configuredPassword // the reference password IS the configured one; the handler's copy is not consulted
		case "generated":
		default:
			return nil, fmt.Errorf("unknown password mode %q", k.PW)
		}
		// stub mode: mgr and pgp are nil, the protected inner handlers are recording stubs
		e.h = web.New(nil, e.conf, pool)
		if k.PW == "generated" {
			pw, err := passwordOf(e.h)
			if err != nil {
				return nil, err
			}
			// A generated password made of digits only has no distinct
			// "different case" spelling; draw again so that every guess class
			// is a distinct string in every run (deterministic counts).
			if pw != "" && strings.ToUpper(pw) == pw {
				continue
			}
			// pw may be empty here (a tree that generates the password later);
			// password() then finds it out when a guess first needs it. The
			// guesses "empty" and "missing" never need it.
			e.pw = pw
		}
		e.mux = http.NewServeMux()
		stubFor := func(path string) http.HandlerFunc {
			return func(w http.ResponseWriter, r *http.Request) {
				e.ran[path]++
				e.ranReq[r.Header.Get(reqIDHeader)]++
				w.WriteHeader(200)
				w.Write([]byte("ran"))
			}
		}
		if !real {
			e.mux.HandleFunc("/login", e.h.Login)
			for _, r := range rt.Enum {
				if r.Wrapped {
					e.mux.Handle(r.Path, e.h.Authn(stubFor(r.Path))) // the real wrapper around a stub
				} else {
					e.mux.HandleFunc(r.Path, stubFor(r.Path)) // registered as in main.go: without the wrapper
				}
			}
			return e, nil
		}
		seen := map[string]bool{}
		for _, r := range rt.Regs {
			if r.Method == "" || seen[r.Path] {
				continue // pprof and closures are not dashboard handler methods
			}
			seen[r.Path] = true
			mv := reflect.ValueOf(e.h).MethodByName(r.Method)
			if !mv.IsValid() {
				return nil, fmt.Errorf("%s:%d registers handler method %q which *web.Handler does not have", rt.File, r.Line, r.Method)
			}
			fn, ok := mv.Interface().(func(http.ResponseWriter, *http.Request))
			if !ok {
				return nil, fmt.Errorf("%s:%d: web.Handler.%s is not an http handler function", rt.File, r.Line, r.Method)
			}
			path := r.Path
			inner := func(w http.ResponseWriter, rq *http.Request) {
				e.ran[path]++
				fn(w, rq)
			}
			if r.Wrapped {
				e.mux.Handle(path, e.h.Authn(inner))
			} else {
				e.mux.HandleFunc(path, inner)
			}
		}
		for _, r := range rt.Enum {
			if !seen[r.Path] { // a required page main.go does not register (reported by the routes part)
				seen[r.Path] = true
				e.mux.Handle(r.Path, e.h.Authn(stubFor(r.Path)))
			}
		}
		if !seen["/login"] {
			e.mux.HandleFunc("/login", e.h.Login)
		}
		return e, nil
	}
	return nil, fmt.Errorf("could not obtain a generated password with a letter in 1000 draws")
}

// password is the password an operator would type: the configured one, or the
// generated one. If the handler holds no generated password yet, the operator's
// way of learning it is taken first (open the login page from the machine
// itself; Login discloses the temporary password in the log at that point) and
// the field is read again.
func (e *env) password() (string, error) {
	if e.pw != "" {
		return e.pw, nil
	}
	r := httptest.NewRequest("GET", "/login", nil)
	r.RemoteAddr = remoteLoopback
	e.serve(r)
	pw, err := passwordOf(e.h)
	if err != nil {
		return "", err
	}
	if pw == "" {
		return "", fmt.Errorf("handler has no password even after GET /login (mode %s)", e.k.PW)
	}
	e.pw = pw
	return pw, nil
}

// serve runs one request through the mux; panics of the code under test are
// returned, not propagated.
func (e *env) serve(r *http.Request) (rec *httptest.ResponseRecorder, panicked any) {
	rec = httptest.NewRecorder()
	for k := range e.ran {
		delete(e.ran, k)
	}
	if e.real {
		r = r.WithContext(cancelledContext())
	}
	defer func() { panicked = recover() }()
	e.mux.ServeHTTP(rec, r)
	return rec, nil
}

// guesses are the password-guess classes, relative to the actual password.
var guessClasses = []string{"correct", "wrong-last", "wrong-first", "empty", "missing", "prefix", "suffix", "case"}

func (e *env) guess(class string) (val string, present bool, err error) {
	// an empty or absent guess is never the password and needs no knowledge of it
	switch class {
	case "empty":
		return "", true, nil
	case "missing":
		return "", false, nil
	}
	flip := func(b byte) byte {
		if b == '0' {
			return '1'
		}
		return '0'
	}
	p, err := e.password()
	if err != nil {
		return "", false, err
	}
	if len(p) < 2 {
		return "", false, fmt.Errorf("password %q is too short to derive guesses from", p)
	}
	switch class {
	case "correct":
		return p, true, nil
	case "wrong-last":
		return p[:len(p)-1] + string(flip(p[len(p)-1])), true, nil
	case "wrong-first":
		return string(flip(p[0])) + p[1:], true, nil
	case "prefix":
		return p[:len(p)-1], true, nil
	case "suffix":
		return p + "x", true, nil
	case "case":
		return strings.ToUpper(p), true, nil
	}
	return "", false, fmt.Errorf("unknown guess class %q", class)
}

// loginReq builds a request to /login. The guess travels in the form body for
// POST/PUT/PATCH and in the query string for bodyless methods.
func (e *env) loginReq(method, remote, hdr, guessClass string) (*http.Request, string, error) {
	g, present, err := e.guess(guessClass)
	if err != nil {
		return nil, "", err
	}
	form := ""
	if present {
		form = url.Values{"password": {g}}.Encode()
	}
	var r *http.Request
	switch method {
	case "POST", "PUT", "PATCH":
		r = httptest.NewRequest(method, "/login", strings.NewReader(form))
		r.Header.Set("Content-Type", "application/x-www-form-urlencoded")
	default:
		t := "/login"
		if form != "" {
			t += "?" + form
		}
		r = httptest.NewRequest(method, t, nil)
	}
	r.RemoteAddr = remote
	if err := applyHdr(r, hdr); err != nil {
		return nil, "", err
	}
	return r, g, nil
}

func sessionCookie(rec *httptest.ResponseRecorder) *http.Cookie {
	var last *http.Cookie
	for _, c := range rec.Result().Cookies() {
		last = c
	}
	return last
}

// mint logs in with the correct password from the given address and returns
// the issued cookie (nil when no cookie came back).
func (e *env) mint(tag string) *http.Cookie {
	if c, ok := e.minted[tag]; ok {
		return c
	}
	remote := remotePublic
	if tag == "L" {
		remote = remoteLoopback
	}
	var c *http.Cookie
	if r, _, err := e.loginReq("POST", remote, "none", "correct"); err == nil {
		rec, p := e.serve(r)
		if p == nil && rec.Code == http.StatusSeeOther {
			c = sessionCookie(rec)
		}
	}
	e.minted[tag] = c
	return c
}

// ---- cookie states --------------------------------------------------------

// Named cookie states of the main product. States of the form
// "flip:<R|L>@<pos>" / "trunc:<R|L>@<n>" are a cookie issued by THIS handler
// with one character changed / cut to its first n characters (n<0: drop -n).
var cookieStates = []string{
	"none", "garbage", "garbage-b64", "empty",
	"this-remote", "this-loopback",
	"other-remote", "other-loopback",
	"flip:R@first", "flip:R@mid", "flip:L@last",
	"trunc:R@-1", "trunc:L@half",
	"wrong-name",
}

const b64url = "ABCDEFGHIJKLMNOPQRSTUVWXYZabcdefghijklmnopqrstuvwxyz0123456789-_"

// flipChar changes one character of a base64url token so that the DECODED
// bytes always change: the top bit of the 6-bit digit is inverted (that bit is
// significant even in a final partial quantum); padding becomes a digit.
func flipChar(tok string, i int) string {
	b := []byte(tok)
	if j := strings.IndexByte(b64url, b[i]); j >= 0 {
		b[i] = b64url[j^32]
	} else {
		b[i] = 'A'
	}
	return string(b)
}

type cookieUse struct {
	Header string // value of the Cookie request header ("" = none)
	Valid  bool   // reference: an unmodified session issued by a successful login to THIS handler
	Kind   string // none | invalid | foreign | valid  (for outcome classes and violation keys)
}

// errMint reports that a correct-password login did not yield a cookie.
type errMint struct{ who, tag string }

func (e errMint) Error() string {
	return "correct-password login on the " + e.who + " handler (" + e.tag + ") issued no session"
}

func resolvePos(s string, n int) (int, error) {
	switch s {
	case "first":
		return 0, nil
	case "mid":
		return n / 2, nil
	case "last":
		return n - 1, nil
	case "half":
		return n / 2, nil
	}
	return strconv.Atoi(s)
}

func cookieFor(state string, e *env, mkOther func() (*env, error)) (cookieUse, error) {
	// States built from a session of THIS handler log in twice first, always in
	// the order remote, loopback (the handler has then seen both kinds of login);
	// the other states present their cookie to a handler nobody has logged in to.
	// Either way the history is part of the case and the same on replay.
	name := sessionCookieName
	base := func(tag string) (*http.Cookie, error) {
		r, l := e.mint("R"), e.mint("L")
		c := r
		if tag == "L" {
			c = l
		}
		if c == nil || c.Value == "" {
			return nil, errMint{"this", tag}
		}
		return c, nil
	}
	switch state {
	case "none":
		return cookieUse{"", false, "none"}, nil
	case "garbage":
		return cookieUse{name + "=garbage", false, "invalid"}, nil
	case "garbage-b64":
		return cookieUse{name + "=" + base64.URLEncoding.EncodeToString([]byte("age-encryption.org/v1\n-> X25519 AAAA\nnot a real header\n")), false, "invalid"}, nil
	case "empty":
		return cookieUse{name + "=", false, "invalid"}, nil
	case "this-remote", "this-loopback":
		c, err := base(map[string]string{"this-remote": "R", "this-loopback": "L"}[state])
		if err != nil {
			return cookieUse{}, err
		}
		return cookieUse{c.Name + "=" + c.Value, true, "valid"}, nil
	case "other-remote", "other-loopback":
		tag := map[string]string{"other-remote": "R", "other-loopback": "L"}[state]
		other, err := mkOther() // another process: same configuration, own key
		if err != nil {
			return cookieUse{}, err
		}
		other.mint("R")
		other.mint("L")
		c := other.minted[tag]
		if c == nil || c.Value == "" {
			return cookieUse{}, errMint{"other", tag}
		}
		return cookieUse{c.Name + "=" + c.Value, false, "foreign"}, nil
	case "wrong-name":
		c, err := base("R")
		if err != nil {
			return cookieUse{}, err
		}
		return cookieUse{c.Name + "2=" + c.Value, false, "invalid"}, nil
	}
	op, rest, ok := strings.Cut(state, ":")
	tag, pos, ok2 := strings.Cut(rest, "@")
	if !ok || !ok2 || (tag != "R" && tag != "L") {
		return cookieUse{}, fmt.Errorf("unknown cookie state %q", state)
	}
	c, err := base(tag)
	if err != nil {
		return cookieUse{}, err
	}
	n, err := resolvePos(pos, len(c.Value))
	if err != nil {
		return cookieUse{}, fmt.Errorf("cookie state %q: %v", state, err)
	}
	switch op {
	case "flip":
		if n < 0 || n >= len(c.Value) {
			return cookieUse{}, fmt.Errorf("cookie state %q: position outside the %d character token", state, len(c.Value))
		}
		return cookieUse{c.Name + "=" + flipChar(c.Value, n), false, "invalid"}, nil
	case "trunc":
		if n < 0 {
			n += len(c.Value)
		}
		if n < 0 || n >= len(c.Value) {
			return cookieUse{}, fmt.Errorf("cookie state %q: length outside the %d character token", state, len(c.Value))
		}
		return cookieUse{c.Name + "=" + c.Value[:n], false, "invalid"}, nil
	}
	return cookieUse{}, fmt.Errorf("unknown cookie state %q", state)
}

// protectedReq builds a request to a protected route.
func protectedReq(method, route, remote, hdr, cookieHeader string) (*http.Request, error) {
	var r *http.Request
	switch method {
	case "POST", "PUT", "PATCH":
		r = httptest.NewRequest(method, route, strings.NewReader("chainID=1&name=x&ethURL=http%3A%2F%2Fx"))
		r.Header.Set("Content-Type", "application/x-www-form-urlencoded")
	default:
		r = httptest.NewRequest(method, route, nil)
	}
	r.RemoteAddr = remote
	if cookieHeader != "" {
		r.Header.Set("Cookie", cookieHeader)
	}
	if err := applyHdr(r, hdr); err != nil {
		return nil, err
	}
	return r, nil
}
