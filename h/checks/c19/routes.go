package c19

import (
	"encoding/json"
	"fmt"
	"go/ast"
	"go/parser"
	"go/token"
	"os"
	"strconv"
	"strings"
)

// Route registration table of cmd/shovel/main.go, read from the SOURCE at run
// time (cmd/shovel is package main and cannot be imported).
//
// The file that is parsed is the one the check binary was built from: when
// bin/mutant runs the check it builds with `-overlay $VERIF_OVERLAY` and keeps
// that variable exported for the run and for the replays, so a replacement of
// /repo/cmd/shovel/main.go named in the overlay is honoured here as well
// (otherwise a mutated route table would be compiled but never looked at).

const mainGo = "/repo/cmd/shovel/main.go"

// reg is one `mux.Handle(…)` / `mux.HandleFunc(…)` statement.
type reg struct {
	Path    string `json:"path"`
	Wrapped bool   `json:"wrapped"` // the handler expression contains a call <handler>.Authn(…)
	Method  string `json:"method"`  // first <handler>.<Method> selector other than Authn ("" when none)
	Line    int    `json:"line"`
}

// requiredProtected are the configuration-changing / streaming pages of the
// property statement; sensitiveMethods are the web.Handler methods behind them.
var requiredProtected = []string{"/task-updates", "/add-source", "/save-source", "/add-integration", "/save-integration"}
var sensitiveMethods = map[string]bool{"Updates": true, "AddSource": true, "SaveSource": true, "AddIntegration": true, "SaveIntegration": true}

type routeTable struct {
	File string
	Regs []reg
	// Enum is the list of routes every request of the enumeration is sent to:
	// every Authn-wrapped route, every unwrapped route of a sensitive method,
	// and the five required paths (wrapped synthetically when main.go does not
	// register them at all, so that the wrapper is still exercised).
	Enum []reg
}

func mainGoPath() (string, error) {
	ov := os.Getenv("VERIF_OVERLAY")
	if ov == "" {
		return mainGo, nil
	}
	b, err := os.ReadFile(ov)
	if err != nil {
		return "", fmt.Errorf("VERIF_OVERLAY is set but unreadable: %v", err)
	}
	var o struct{ Replace map[string]string }
	if err := json.Unmarshal(b, &o); err != nil {
		return "", fmt.Errorf("VERIF_OVERLAY %s: %v", ov, err)
	}
	if r := o.Replace[mainGo]; r != "" {
		return r, nil
	}
	return mainGo, nil
}

func loadRoutes() (*routeTable, error) {
	p, err := mainGoPath()
	if err != nil {
		return nil, err
	}
	fset := token.NewFileSet()
	f, err := parser.ParseFile(fset, p, nil, 0)
	if err != nil {
		return nil, fmt.Errorf("parsing %s: %v", p, err)
	}
	// the variable(s) holding the *web.Handler: `x = web.New(…)` / `x := web.New(…)`
	handlers := map[string]bool{}
	isWebNew := func(e ast.Expr) bool {
		c, ok := e.(*ast.CallExpr)
		if !ok {
			return false
		}
		s, ok := c.Fun.(*ast.SelectorExpr)
		if !ok || s.Sel.Name != "New" {
			return false
		}
		x, ok := s.X.(*ast.Ident)
		return ok && x.Name == "web"
	}
	ast.Inspect(f, func(n ast.Node) bool {
		switch v := n.(type) {
		case *ast.ValueSpec:
			for i, val := range v.Values {
				if isWebNew(val) && i < len(v.Names) {
					handlers[v.Names[i].Name] = true
				}
			}
		case *ast.AssignStmt:
			for i, val := range v.Rhs {
				if isWebNew(val) && i < len(v.Lhs) {
					if id, ok := v.Lhs[i].(*ast.Ident); ok {
						handlers[id.Name] = true
					}
				}
			}
		}
		return true
	})
	if len(handlers) == 0 {
		return nil, fmt.Errorf("%s: no `x = web.New(…)` found; cannot tell which selectors are dashboard handler methods", p)
	}
	rt := &routeTable{File: p}
	ast.Inspect(f, func(n ast.Node) bool {
		c, ok := n.(*ast.CallExpr)
		if !ok || len(c.Args) != 2 {
			return true
		}
		s, ok := c.Fun.(*ast.SelectorExpr)
		if !ok || (s.Sel.Name != "Handle" && s.Sel.Name != "HandleFunc") {
			return true
		}
		lit, ok := c.Args[0].(*ast.BasicLit)
		if !ok || lit.Kind != token.STRING {
			return true
		}
		pat, err := strconv.Unquote(lit.Value)
		if err != nil {
			return true
		}
		if i := strings.LastIndexByte(pat, ' '); i >= 0 { // "METHOD /path" patterns
			pat = pat[i+1:]
		}
		r := reg{Path: pat, Line: fset.Position(c.Pos()).Line}
		ast.Inspect(c.Args[1], func(m ast.Node) bool {
			// closures are looked into as well: `func(w, r) { wh.SaveSource(w, r) }` is an unwrapped SaveSource
			sel, ok := m.(*ast.SelectorExpr)
			if !ok {
				return true
			}
			x, ok := sel.X.(*ast.Ident)
			if !ok || !handlers[x.Name] {
				return true
			}
			if sel.Sel.Name == "Authn" {
				r.Wrapped = true
			} else if r.Method == "" {
				r.Method = sel.Sel.Name
			}
			return true
		})
		rt.Regs = append(rt.Regs, r)
		return true
	})
	if len(rt.Regs) == 0 {
		return nil, fmt.Errorf("%s: no mux.Handle/HandleFunc statement found", p)
	}
	seen := map[string]bool{}
	for _, r := range rt.Regs {
		if (r.Wrapped || sensitiveMethods[r.Method]) && !seen[r.Path] {
			seen[r.Path] = true
			rt.Enum = append(rt.Enum, r)
		}
	}
	for _, p := range requiredProtected {
		if !seen[p] {
			seen[p] = true
			rt.Enum = append(rt.Enum, reg{Path: p, Wrapped: true, Method: "(not registered in main.go)"})
		}
	}
	return rt, nil
}

func (rt *routeTable) find(path string) (reg, bool) {
	for _, r := range rt.Enum {
		if r.Path == path {
			return r, true
		}
	}
	return reg{}, false
}
