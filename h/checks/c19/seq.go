package c19

import (
	"fmt"
	"net/http"
	"net/http/httptest"
	"strings"

	"verifh/fw"
	"verifh/vrt"
)

// ---- part 4: request histories on one handler -------------------------------
//
// A sequence case runs on a handler whose mux mirrors main.go with the REAL
// handler methods (newRealEnv), inside a single-threaded vrt world (the
// instrumented event-stream handler needs the channel model to see its
// cancelled request context). The reference keeps a browser-style jar:
//
//   - every response of the sequence is searched for a Set-Cookie under the
//     session cookie name; if there is one it replaces the jar content;
//   - the jar holds a VALID session iff its content was issued by a
//     correct-password POST /login to THIS handler (or was handed out in
//     answer to a request that itself carried such a valid session);
//     anything else — issued by another instance ("foreign"), by a
//     wrong-password login ("invalid"), or by any other response of this
//     handler ("unearned") — is not a session of this process.
//
// Every request to a protected route is judged: the handler behind Authn runs
// iff the reference allows it.

var seqOps = []string{"login-ok-loopback", "login-ok-remote", "login-wrong", "login-ok-elsewhere", "protected-jar-cookie", "protected-no-cookie", "protected-garbage-cookie"}

// visit operations: "visit <METHOD> <path> <loopback|public> <jar|nojar>";
// "present-all": the jar is presented from a public address to every protected
// route with GET and POST.
const opPresentAll = "present-all"

func visitOp(method, path, from, jar string) string {
	return "visit " + method + " " + path + " " + from + " " + jar
}

// dashboardRoutes are the paths main.go registers with a web.Handler method.
func dashboardRoutes(rt *routeTable) []string {
	seen := map[string]bool{}
	var out []string
	for _, r := range rt.Regs {
		if r.Method != "" && !seen[r.Path] {
			seen[r.Path] = true
			out = append(out, r.Path)
		}
	}
	return out
}

type seqRun struct {
	c        *fw.Ctx
	rt       *routeTable
	cas      Case
	e, other *env
	jar      string
	jarValid bool
	jarKind  string
	names    map[string]bool // names under which sessions are issued
	last     string
	nreq     int
}

// absorb applies the jar rule to one response.
func (s *seqRun) absorb(rec *httptest.ResponseRecorder, earned, foreign, carriedValid bool) {
	var ck *http.Cookie
	for _, c := range rec.Result().Cookies() {
		if s.names[c.Name] {
			ck = c
		}
	}
	if ck == nil {
		return
	}
	if ck.Value == "" || ck.MaxAge < 0 {
		s.jar, s.jarValid, s.jarKind = "", false, "none" // the browser drops the cookie
		return
	}
	s.jar = ck.Name + "=" + ck.Value
	switch {
	case earned:
		s.jarValid, s.jarKind = true, "valid"
	case foreign:
		s.jarValid, s.jarKind = false, "foreign"
	case carriedValid:
		s.jarValid, s.jarKind = true, "valid" // re-issued to somebody who was logged in
	default:
		s.jarValid, s.jarKind = false, "unearned"
		s.c.Count("obs_session_cookie_set_by_non_login_response", 1)
	}
}

// protected sends one request to a protected route and judges it.
func (s *seqRun) protected(method, route, remote string, loopback bool, hdr string, valid bool, kind, step string) {
	r, err := protectedReq(method, route, remote, "none", hdr)
	if err != nil {
		s.c.HarnessError("%v", err)
		return
	}
	scas := s.cas
	scas.Route = route
	s.nreq++
	var rec *httptest.ResponseRecorder
	s.last, _, rec = judgeProtectedRec(s.c, s.e, r, scas, loopback, valid, kind, "seq/", "", step+": ")
	if rec != nil {
		s.absorb(rec, false, false, valid)
	}
}

func (s *seqRun) step(i int, op string) bool {
	c, cas, e := s.c, s.cas, s.e
	step := fmt.Sprintf("step %d (%s)", i+1, op)
	switch {
	case op == "login-ok-loopback" || op == "login-ok-remote" || op == "login-wrong" || op == "login-ok-elsewhere":
		target, remote, guess := e, remotePublic, "correct"
		if op == "login-ok-loopback" {
			remote = remoteLoopback
		}
		if op == "login-wrong" {
			guess = "wrong-last"
		}
		if op == "login-ok-elsewhere" {
			if s.other == nil {
				var err error
				if s.other, err = newRealEnv(cas.cfg(), s.rt); err != nil {
					c.HarnessError("%v", err)
					return false
				}
			}
			target = s.other
		}
		r, _, err := target.loginReq("POST", remote, "none", guess)
		if err != nil {
			c.HarnessError("%v", err)
			return false
		}
		s.nreq++
		rec, p := target.serve(r)
		if p != nil {
			c.Violation("C19", "panic", "seq/panic", fmt.Sprintf("%+v: %s: panic: %v", cas, step, p), cas)
			s.last = "panic"
			return false
		}
		ck := sessionCookie(rec)
		nset := len(rec.Header().Values("Set-Cookie"))
		if guess == "correct" {
			if rec.Code != http.StatusSeeOther || nset != 1 || ck == nil || ck.Value == "" {
				c.Violation("C19", "mismatch", "seq/correct-password-rejected", fmt.Sprintf("%+v: %s: status %d, %d Set-Cookie", cas, step, rec.Code, nset), cas)
				s.last = "login-ok:odd"
				return false
			}
			if op == "login-ok-remote" && !ck.Secure {
				// not judged (cookie attributes are outside the property); recorded as an observation
				c.Count("obs_remote_login_cookie_not_secure_after_loopback_login", 1)
			}
			s.names[ck.Name] = true
			s.absorb(rec, target == e, target != e, false)
			if target == e {
				s.last = "login-ok"
			} else {
				s.last = "login-elsewhere"
			}
		} else {
			if nset > 0 {
				c.Violation("C19", "unauthenticated", "seq/session-issued-for-wrong-password", fmt.Sprintf("%+v: %s: wrong password but %d Set-Cookie header(s), status %d", cas, step, nset, rec.Code), cas)
				if ck != nil {
					s.jar, s.jarValid, s.jarKind = ck.Name+"="+ck.Value, false, "invalid" // a browser would store it
				}
			} else if rec.Code != http.StatusUnauthorized {
				c.Violation("C19", "mismatch", "seq/wrong-password-status", fmt.Sprintf("%+v: %s: status %d", cas, step, rec.Code), cas)
			}
			s.last = "login-401"
		}
	case op == "protected-jar-cookie" || op == "protected-no-cookie" || op == "protected-garbage-cookie":
		hdr, valid, kind := "", false, "none"
		if op == "protected-jar-cookie" && s.jar != "" {
			hdr, valid, kind = s.jar, s.jarValid, s.jarKind
		}
		if op == "protected-garbage-cookie" {
			hdr, kind = sessionCookieName+"=garbage", "invalid"
		}
		s.protected("GET", s.rt.Enum[0].Path, remotePublic, false, hdr, valid, kind, step)
	case op == opPresentAll:
		for _, r := range s.rt.Enum {
			for _, m := range []string{"GET", "POST"} {
				hdr, valid, kind := "", false, "none"
				if s.jar != "" {
					hdr, valid, kind = s.jar, s.jarValid, s.jarKind
				}
				s.protected(m, r.Path, remotePublic, false, hdr, valid, kind, fmt.Sprintf("%s, %s %s", step, m, r.Path))
			}
		}
	case strings.HasPrefix(op, "visit "):
		f := strings.Fields(op)
		if len(f) != 5 || (f[3] != "loopback" && f[3] != "public") || (f[4] != "jar" && f[4] != "nojar") {
			c.HarnessError("malformed sequence operation %q", op)
			return false
		}
		method, path, remote, loopback := f[1], f[2], remotePublic, false
		if f[3] == "loopback" {
			remote, loopback = remoteLoopback, true
		}
		hdr, valid, kind := "", false, "none"
		if f[4] == "jar" && s.jar != "" {
			hdr, valid, kind = s.jar, s.jarValid, s.jarKind
		}
		if _, isProtected := s.rt.find(path); isProtected {
			s.protected(method, path, remote, loopback, hdr, valid, kind, step)
			break
		}
		// an open page (/, /diag, /metrics, /login): nothing to judge about access; its response may feed the jar
		r, err := protectedReq(method, path, remote, "none", hdr)
		if err != nil {
			c.HarnessError("%v", err)
			return false
		}
		s.nreq++
		rec, p := e.serve(r)
		if p != nil {
			c.Violation("C19", "panic", "seq/panic", fmt.Sprintf("%+v: %s: panic: %v", cas, step, p), cas)
			s.last = "panic"
			return false
		}
		s.absorb(rec, false, false, valid)
		s.last = fmt.Sprintf("open-%d", rec.Code/100*100)
	default:
		c.HarnessError("unknown sequence operation %q", op)
		return false
	}
	return true
}

// judgeSeq runs one sequence case; returns its outcome class.
func judgeSeq(c *fw.Ctx, rt *routeTable, cas Case) string {
	e, err := newRealEnv(cas.cfg(), rt)
	if err != nil {
		c.HarnessError("%v", err)
		return "harness"
	}
	s := &seqRun{c: c, rt: rt, cas: cas, e: e, jarKind: "none", names: map[string]bool{sessionCookieName: true}}
	w := vrt.NewWorld(nil) // one controlled thread: no choices, only the channel model
	w.Run(func() {
		for i, op := range cas.Seq {
			if !s.step(i, op) {
				return
			}
		}
	})
	problems := w.Close()
	switch {
	case w.Deadlock:
		c.HarnessError("sequence %v blocked: %s", cas.Seq, w.DeadlockMsg)
		return "harness"
	case len(w.Panics) > 0:
		c.HarnessError("sequence %v: %s", cas.Seq, w.Panics[0])
		return "harness"
	case problems != "":
		c.HarnessError("sequence %v: %s", cas.Seq, problems)
		return "harness"
	}
	c.Count("seq_requests", int64(s.nreq))
	return "seq-end:" + s.last
}

func partSeq(c *fw.Ctx, rt *routeTable) {
	maxLen := 3
	if c.Thorough() {
		maxLen = 4
	}
	c.Bound("seq_max_len", maxLen)
	c.Bound("seq_alphabet", seqOps)
	var seqs [][]string
	var rec func(prefix []string)
	rec = func(prefix []string) {
		if len(prefix) > 0 {
			seqs = append(seqs, append([]string{}, prefix...))
		}
		if len(prefix) == maxLen {
			return
		}
		for _, op := range seqOps {
			rec(append(prefix, op))
		}
	}
	rec(nil)
	for _, k := range allCfgs() {
		for _, s := range seqs {
			if !c.Mine() {
				continue
			}
			if c.Expired() {
				return
			}
			cas := mk("seq", k)
			cas.Remote, cas.Seq = remotePublic, s
			out := judgeSeq(c, rt, cas)
			c.Eval(!k.Disable)
			c.Outcome(out)
			c.Count("seq_sequences", 1)
			c.Count("seq_steps", int64(len(s)))
			if len(s) == maxLen && c.Shard%4 == 0 && s[0] == "login-ok-loopback" {
				c.Sample(map[string]any{"case": cas, "outcome": out})
			}
		}
	}
}

// partVisit: [optional earlier operation,] a request to ANY dashboard route
// (GET/POST, from loopback/public, with/without the jar) [, thorough: a second
// one], then the jar is presented from a public address to every protected
// route. Whatever cookie any response hands out ends up in the jar.
func partVisit(c *fw.Ctx, rt *routeTable) {
	dash := dashboardRoutes(rt)
	c.Bound("visit_routes", dash)
	var visitsNoJar, visitsAll []string
	for _, p := range dash {
		for _, m := range []string{"GET", "POST"} {
			for _, from := range []string{"loopback", "public"} {
				visitsNoJar = append(visitsNoJar, visitOp(m, p, from, "nojar"))
				visitsAll = append(visitsAll, visitOp(m, p, from, "nojar"), visitOp(m, p, from, "jar"))
			}
		}
	}
	var seqs [][]string
	for _, v := range visitsNoJar { // empty jar: "jar" and "nojar" would be the same request
		seqs = append(seqs, []string{v, opPresentAll})
	}
	for _, pre := range []string{"login-ok-remote", "login-wrong", "login-ok-elsewhere"} {
		for _, v := range visitsAll {
			seqs = append(seqs, []string{pre, v, opPresentAll})
		}
	}
	if c.Thorough() {
		for _, v1 := range visitsNoJar {
			for _, v2 := range visitsAll {
				seqs = append(seqs, []string{v1, v2, opPresentAll})
			}
		}
	}
	c.Bound("visit_sequences_per_config", len(seqs))
	for _, k := range allCfgs() {
		for _, s := range seqs {
			if !c.Mine() {
				continue
			}
			if c.Expired() {
				return
			}
			cas := mk("seq", k)
			cas.Remote, cas.Seq = remotePublic, s
			out := judgeSeq(c, rt, cas)
			c.Eval(!k.Disable)
			c.Outcome("visit:" + out)
			c.Count("visit_sequences", 1)
			if c.Shard%4 == 0 && strings.Contains(s[0], "/task-updates loopback") {
				c.Sample(map[string]any{"case": cas, "outcome": out})
			}
		}
	}
}
