//go:build verif

package cache

import (
	"encoding/json"
	"fmt"
	"os"
	"strconv"
	"strings"
	"time"

	"verifh/checks"
	"verifh/explore"
	"verifh/fw"
	"verifh/simeth"
	"verifh/vrt"
)

// C08 — source-side caches are transparent: same data, bounded reuse, no cached errors.
//
// The harness drives the real jrpc2.Client (segment caches bcache/hcache, head cache lcache
// with its poller) directly against the simulated node, under the controlled scheduler.

type c08Case struct {
	Job     job    `json:"job"`
	Bounds  [6]int `json:"bounds"`
	Choices []int  `json:"choices"`
}

func init() {
	checks.Register(&checks.Check{
		ID:        "C08",
		Level:     "model_checking",
		Technique: "stateless model checking of the real jrpc2.Client caches (controlled scheduler over instrumented code, simulated node): all interleavings of 2-3 caller threads and the head poller up to a preemption bound, every single injected RPC failure at every exchange; oracle = exact (no log/tx/receipt field missing, none extra) uncached reference per caller computed from the chain model and cross-checked against the real nocache client + counting of reads served without asking the node from the call log and the node's exchange log",
		Rule: "jobs = max-reads m in {1,2,3} x one program of 1-2 calls per thread (2 threads; 3 threads with 1 call, thorough also 3 threads with 1-2 calls) over {Get(filter A), Get(filter B), Get(filter C), Get(no logs), Get(receipts)} on colliding ranges (1,2),(1,2),(2,2),(3,1) of a static 6-block chain (2 txs x 2 logs per block, two addresses x two event signatures; filter A = address X, filter B = topic0 S1, sharing one log and each selecting one the other does not; filter C = address Y, disjoint from A), separately for the header-segment cache and the block-segment cache and once across both; filter-sequence jobs = one caller reading the hot range (1,2) 2-3 (thorough: 2-4) times in a row through one caching client, EVERY word over the data plans {A, B, C, no logs} (block cache: + receipts) x max-reads {2,3}, i.e. every order of different filters on one cached segment inside and across the max-reads window (A B, B A, A B A, A C B, receipts then logs, logs then none, ...), every call judged against the uncached reference of ITS OWN plan; two-thread jobs with A/C and B/C on the hot segment; head jobs = programs over {Latest(floor 0|3|4|5|6), announce(head n)+poller tick, announce(head n of a sibling branch forking above block 3: same height, other hash)+tick}, the announcements always polled by the REAL head poller (its reused decode buffer included): one announcement between reads; every ordered pair (quick: over {3,5,6,4',5'}, thorough: {3,4,5,6,4',5',6'}) and some triples of announcements followed by reads, i.e. accepted heads followed by repeats, regressions and same-height replacements the cache must reject; waiter jobs = 3 threads on one segment, one with 2-3 follow-up reads, every single failure at every exchange (a download fails while callers wait on it, then the key is read again); mixed Get+Latest jobs; the sequences of the repository's own sequential cache tests. " +
			"Per job every schedule with <= 2 preemptions and <= 2 deviations in total (head jobs with announcements: 1; thorough: core jobs 3, the rest 2), all free choices (who runs at call boundaries and when a thread blocks or ends) exhaustively, and on fault jobs additionally every single rpc-error-object / transport-error at every exchange (Get's fetch, logs and receipts exchanges, Latest's own fetch, the poller's poll). An execution is non-trivial when at least one read was served from cache or a fault was injected; distinct = distinct (job, choice sequence).",
		Assumptions: []string{
			"simulated node (h/simeth) answers like a well-behaved geth; see DESIGN.md §7",
			"interleavings are at synchronisation-point granularity (mutex, once, channel, spawn, RPC exchange); unsynchronised memory accesses are C18's subject",
			"the uncached reference of a call is computed from the chain model and the call's own data plan and is exact in both directions: a filter-matching log missing, a wrong log, a log index twice within a tx, AND anything an uncached client would not return (a log that does not match the caller's filter, any log on a plan without logs, a tx without a log of the caller's plan on a header plan, receipt fields on a plan without receipts) are all flagged; the real nocache client run over every data plan of the alphabet agrees with this reference (self-test sequences, counted)",
			"bounded reuse counts reads served without asking the node between two consecutive successful node fetches of the same segment key (head: per announced pair); the read that performs the fetch is not counted (the reading under which the repo's TestCache_MaxReads and TestLatest_Cached hold); a concurrent cached read is charged to the most favourable window its call interval touches",
			"the head part changes only the head (prefixes of one fixed chain, or of a sibling branch that differs only above block 3); the contents of the blocks Get requests (1..3) never change",
		},
		Budget:        map[string]time.Duration{"quick": 140 * time.Second, "thorough": 1100 * time.Second},
		MinNontrivial: 1000,
		Inst:          true,
		Run:           c08Run,
		Replay:        c08Replay,
	})
}

// ---- job enumeration -------------------------------------------------------------------

// alphabet of one cache family ("h": header segments, "b": block segments)
func alphabet(fam string) map[byte]string {
	a := map[byte]string{
		'a': "G:" + fam + "lA:1:2", // filter A on the hot range
		'b': "G:" + fam + "lB:1:2", // filter B on the hot range (same segment as a)
		'p': "G:" + fam + ":1:2",   // no logs, hot range
		'y': "G:" + fam + "lC:1:2", // filter C (the other address) on the hot range
		'c': "G:" + fam + "lA:2:2", // overlapping blocks, another segment
		'd': "G:" + fam + "lB:3:1", // single block
		'e': "G:" + fam + "lA:3:1", // same segment as d, filter A
	}
	if fam == "b" {
		a['r'] = "G:br:1:2" // blocks + receipts on the hot range
	}
	return a
}

func prog(fam, word string) []string {
	al := alphabet(fam)
	var out []string
	for i := 0; i < len(word); i++ {
		s, ok := al[word[i]]
		if !ok {
			panic("no op " + string(word[i]) + " in family " + fam)
		}
		out = append(out, s)
	}
	return out
}

func words(alpha string, n int) []string {
	if n == 0 {
		return []string{""}
	}
	var out []string
	for _, w := range words(alpha, n-1) {
		for i := 0; i < len(alpha); i++ {
			out = append(out, w+string(alpha[i]))
		}
	}
	return out
}

// multisets of k words (threads are symmetric): non-decreasing index sequences
func multisets(ws []string, k int) [][]string {
	var out [][]string
	var rec func(from int, cur []string)
	rec = func(from int, cur []string) {
		if len(cur) == k {
			out = append(out, append([]string(nil), cur...))
			return
		}
		for i := from; i < len(ws); i++ {
			rec(i, append(cur, ws[i]))
		}
	}
	rec(0, nil)
	return out
}

// collides: at least one segment key is used by two calls of the job
func collides(fam string, ws []string) bool {
	seen := map[string]int{}
	for _, w := range ws {
		for _, s := range prog(fam, w) {
			o, _ := parseOp(s)
			seen[fmt.Sprintf("%d/%d", o.Start, o.Limit)]++
		}
	}
	for _, n := range seen {
		if n > 1 {
			return true
		}
	}
	return false
}

func segJob(fam string, m int, ws []string, faults bool) job {
	j := job{M: m, Faults: faults}
	for _, w := range ws {
		j.Threads = append(j.Threads, prog(fam, w))
	}
	return j
}

// headJob: programs written as space-separated ops ("L:0 H:5 L:3"); H:<n> = the node announces
// head n (prefix of the static chain) and the poller's ticker fires.
func headJob(m, pre int, faults bool, progs ...string) job {
	j := job{M: m, Init: 4, Pre: pre, Faults: faults}
	for _, p := range progs {
		j.Threads = append(j.Threads, strings.Fields(p))
	}
	return j
}

// seg adds jobs "w1|w2[|w3]" for the given max-reads settings.
func segJobs(fam string, spec string, faults bool, pre int, ms ...int) []job {
	var out []job
	for _, m := range ms {
		j := segJob(fam, m, strings.Split(spec, "|"), faults)
		j.Pre = pre
		out = append(out, j)
	}
	return out
}

// announcementJobs: the poller is fed SEQUENCES of announcements — growth, repeats, regressions and
// the sibling branch (same height, other hash) — so that announcements the cache must reject follow
// one it accepted; reads come before, between (second thread) and after them.
// One thread: every ordered pair of announcements (plus a few triples), all poller interleavings
// with <= 2 preemptions; two threads: 1 preemption.
func announcementJobs(thorough bool) []job {
	var out []job
	sigma := []string{"H:3", "H:5", "H:6", "R:4", "R:5"}
	if thorough {
		sigma = []string{"H:3", "H:4", "H:5", "H:6", "R:4", "R:5", "R:6"}
	}
	ms := []int{1, 2}
	if thorough {
		ms = []int{1, 2, 3}
	}
	for _, x := range sigma {
		for _, y := range sigma {
			for _, m := range ms {
				out = append(out, headJob(m, 2, false, "L:0 "+x+" "+y+" L:3 L:3"))
			}
		}
	}
	for i, p := range []string{"L:0 H:5 H:3 R:5 L:3 L:4", "L:0 H:5 R:5 H:5 L:3 L:5", "L:0 R:5 H:5 H:6 L:5 L:3", "L:3 H:6 R:6 H:3 L:3 L:6"} {
		for _, m := range ms {
			if thorough || m == 1+i%2 {
				out = append(out, headJob(m, 2, false, p))
			}
		}
	}
	out = append(out, headJob(1, 1, false, "L:0 H:5 H:3 L:3", "L:3"))
	out = append(out, headJob(2, 1, false, "L:0 H:5 R:5 L:3", "L:3"))
	if thorough {
		out = append(out, headJob(2, 1, false, "L:0 H:5 H:3 L:3", "L:3"), headJob(1, 1, false, "L:0 H:5 R:5 L:3", "L:3"))
		for _, p := range []string{"L:0 H:6 R:4 L:3", "L:0 R:5 H:5 L:3", "L:0 H:5 H:5 L:3", "L:3 H:6 H:3 L:3"} {
			for _, m := range ms {
				out = append(out, headJob(m, 1, false, p, "L:3"))
				out = append(out, headJob(m, 1, false, p, "L:3 L:3"))
			}
		}
		out = append(out, headJob(1, 1, true, "L:0 H:5 H:3 L:3", "L:3"), headJob(2, 1, true, "L:0 H:5 R:5 L:3", "L:3"))
	}
	return out
}

// waiterJobs: a download with callers WAITING on it fails (or not), and the key is read again
// afterwards: 3 threads on one segment, one of them with follow-up reads, every single rpc error
// at every exchange, 1 preemption (to let the waiters queue up behind the in-flight download).
func waiterJobs(thorough bool) []job {
	mk := func(fam, spec string, m, fk int) job {
		j := segJob(fam, m, strings.Split(spec, "|"), true)
		j.Pre, j.FK = 1, fk
		return j
	}
	out := []job{mk("h", "pppp|p|p", 3, 1)}
	if thorough {
		out = append(out, mk("h", "ppp|p|p", 2, 1), mk("h", "pppp|p|p", 3, 2), mk("b", "pppp|p|p", 3, 1), mk("h", "ppp|pp|p", 3, 1), mk("h", "ppp|p|p", 1, 1), mk("b", "ppp|p|p", 2, 1))
	}
	return out
}

// filterSeqJobs: ONE caller thread reads the hot range (1,2) two, three (thorough: four) times in a
// row through one caching client, every word over the data plans {filter A (address X), filter B
// (topic0 S1), filter C (address Y), no logs[, receipts]} — i.e. every order of different filters on
// the same segment (A B, B A, A B A, A C B, receipts then logs, logs then none, …) — for every
// max-reads setting under which at least one of the reads is served from the segment another plan
// downloaded (m=2: fetch, cached, fetch, cached; m=3: fetch, cached, cached, fetch). One schedule
// each; every call is compared with the uncached reference FOR ITS OWN plan. skip = jobs that are
// already in the list (the repository's own sequences).
func filterSeqJobs(thorough bool, skip map[string]bool) []job {
	var out []job
	maxLen := 3
	if thorough {
		maxLen = 4
	}
	for _, fam := range []string{"h", "b"} {
		alpha := "abyp"
		if fam == "b" {
			alpha += "r"
		}
		for n := 2; n <= maxLen; n++ {
			for _, w := range words(alpha, n) {
				for _, m := range []int{2, 3} {
					j := segJob(fam, m, []string{w}, false)
					if !skip[j.String()] {
						out = append(out, j)
					}
				}
			}
		}
	}
	return out
}

func c08Jobs(thorough bool) []job {
	var jobs []job
	add := func(js ...job) { jobs = append(jobs, js...) }
	// the sequences of the repository's own sequential tests (one thread: one schedule each)
	skip := map[string]bool{}
	for _, s := range selfSeqs() {
		add(s.j)
		skip[s.j.String()] = true
	}
	// different filters on the same range, one after the other, in every order
	add(filterSeqJobs(thorough, skip)...)
	fams := []string{"h", "b"}
	if !thorough {
		for _, fam := range fams {
			// two threads x two calls on the hot segment (same and different filters)
			add(segJobs(fam, "ab|ba", false, 0, 1, 2)...)
			add(segJobs(fam, "ap|pb", false, 0, 2, 3)...)
			// three threads x one call: readers that hold the same segment
			add(segJobs(fam, "p|p|p", false, 0, 1)...)
			// every single failure at every exchange
			add(segJobs(fam, "ab|ba", true, 0, 2)...)
			add(segJobs(fam, "ap|pa", true, 0, 1)...)
		}
		// … and concurrently: the other-address filter C against A (disjoint) and B (one shared log)
		add(segJobs("h", "ay|ya", false, 0, 2)...)
		add(segJobs("b", "ay|ya", false, 0, 2)...)
		add(segJobs("b", "yb|ay", false, 0, 3)...)
		add(waiterJobs(false)...)
		add(segJobs("h", "ab|ba", false, 0, 3)...)
		add(segJobs("h", "ab|ab", false, 0, 1)...)
		add(segJobs("b", "pa|bp", false, 0, 3)...)
		// neighbouring segments (pruning walks and locks every segment)
		add(segJobs("b", "ac|ba", false, 0, 1)...)
		add(segJobs("h", "ad|eb", false, 0, 2)...)
		add(segJobs("b", "de|ed", false, 0, 2)...)
		// receipts overwrite the logs of shared cached blocks
		add(segJobs("b", "ar|ba", false, 0, 2)...)
		add(segJobs("b", "rb|ar", false, 0, 3)...)
		add(segJobs("b", "ra|pr", false, 0, 2)...)
		add(segJobs("b", "ar|ba", true, 0, 2)...)
		// head cache: announcements with repeats (H:4 while the head is 4) and regressions (H:3)
		for _, m := range []int{1, 2} {
			add(headJob(m, 1, false, "L:0 H:5 L:3", "L:3"))
			add(headJob(m, 1, false, "L:0 H:3 L:3", "L:3"))
			add(headJob(m, 1, false, "L:3 H:4 L:3", "L:3"))
			add(headJob(m, 1, false, "L:3 H:5 L:5", "L:3"))
			add(headJob(m, 1, false, "L:3 L:3 H:5", "L:5"))
		}
		add(headJob(1, 1, false, "L:0 H:5 L:3", "L:3 L:3"))
		add(headJob(2, 1, false, "L:3 H:3 L:3", "L:0 L:3"))
		add(headJob(1, 2, false, "L:0 H:3 L:3", "L:3"))
		add(headJob(1, 2, false, "L:3 L:3", "L:3 L:3"))
		add(announcementJobs(false)...)
		// failures of Latest's own fetch and of the poller's
		add(headJob(1, 1, true, "L:0 H:5 L:3", "L:3"))
		add(headJob(2, 1, true, "L:3 H:3 L:3", "L:3"))
		// Get and Latest on one client
		add(job{M: 2, Init: 4, Pre: 1, Threads: [][]string{{"G:hlA:1:2", "L:3"}, {"L:3", "G:hlB:1:2"}}})
		add(job{M: 1, Init: 4, Pre: 1, Threads: [][]string{{"L:0", "G:blA:1:2"}, {"G:blB:1:2", "L:3"}}})
		// the same range through both segment caches (header plans and block plans must not share)
		add(job{M: 2, Pre: 1, Threads: [][]string{{"G:b:1:2", "G:hlA:1:2"}, {"G:hlB:1:2", "G:blB:1:2"}}})
		return jobs
	}
	// ---- thorough ----
	// (1) core two-thread jobs at 3 preemptions
	add(segJobs("h", "ab|ba", false, 3, 1, 2)...)
	add(segJobs("h", "ap|pb", false, 3, 2)...)
	add(segJobs("b", "ar|ba", false, 3, 2)...)
	// (2) three threads
	add(segJobs("h", "pp|p|p", false, 2, 1, 2, 3)...)
	add(segJobs("h", "p|p|p", false, 3, 1, 2)...)
	add(segJobs("b", "a|b|p", false, 2, 1)...)
	add(segJobs("b", "ap|b|p", false, 2, 2)...)
	// (3) every multiset of two 2-call programs with two different filters, both caches, 2 preemptions
	for _, fam := range fams {
		for _, pair := range multisets([]string{"ab", "ba", "ap", "pa", "bp", "pb"}, 2) {
			add(segJobs(fam, strings.Join(pair, "|"), false, 2, 1, 2)...)
		}
		for _, sp := range []string{"aa|bb", "aa|aa", "pp|ab", "ab|ba", "pa|bp"} {
			add(segJobs(fam, sp, false, 2, 3)...)
		}
		for _, sp := range []string{"ac|ba", "ad|eb", "de|ed", "ca|ac"} {
			add(segJobs(fam, sp, false, 2, 1, 2)...)
		}
		for _, sp := range []string{"ay|ya", "ay|ay", "yb|by", "yb|ay", "yp|pa"} {
			add(segJobs(fam, sp, false, 2, 2, 3)...)
		}
	}
	for _, sp := range []string{"ar|ba", "rb|ar", "ra|pr", "rr|ab"} {
		add(segJobs("b", sp, false, 2, 1, 2, 3)...)
	}
	// (4) failures
	for _, fam := range fams {
		for _, sp := range []string{"ab|ba", "ab|ab", "ap|pa", "ac|ba"} {
			add(segJobs(fam, sp, true, 2, 1, 2)...)
		}
	}
	add(segJobs("b", "ar|ba", true, 2, 1, 2)...)
	add(segJobs("h", "p|p|p", true, 2, 1)...)
	// (5) head cache
	for _, m := range []int{1, 2} {
		for _, p1 := range []string{"L:0 H:5 L:3", "L:0 H:3 L:3", "L:3 H:4 L:3", "L:3 H:5 L:5", "L:3 L:3 H:5"} {
			add(headJob(m, 2, false, p1, "L:3"))
		}
		for _, p1 := range []string{"L:0 H:5 L:3", "L:3 H:3 L:3", "L:3 H:5 H:5 L:3", "L:3 H:5 H:3 L:3"} {
			add(headJob(m, 1, false, p1, "L:3 L:3"))
			add(headJob(m, 1, false, p1, "L:0 L:3"))
		}
		add(headJob(m, 2, false, "L:3 L:3", "L:3 L:3"))
		add(headJob(m, 2, false, "L:0 L:3", "L:3 L:4"))
		add(headJob(m, 1, true, "L:0 H:5 L:3", "L:3"))
		add(headJob(m, 1, true, "L:3 H:3 L:3", "L:3"))
		add(headJob(m, 1, true, "L:3 H:5 H:5 L:3", "L:3"))
		// (6) Get and Latest on one client
		add(job{M: m, Init: 4, Pre: 2, Threads: [][]string{{"G:hlA:1:2", "L:3"}, {"L:3", "G:hlB:1:2"}}})
		add(job{M: m, Init: 4, Pre: 2, Threads: [][]string{{"L:0", "G:blA:1:2"}, {"G:blB:1:2", "L:3"}}})
	}
	add(headJob(3, 1, false, "L:0 H:5 L:3", "L:3 L:3"))
	add(announcementJobs(true)...)
	add(waiterJobs(true)...)
	for _, m := range []int{2, 3} {
		add(job{M: m, Pre: 2, Threads: [][]string{{"G:b:1:2", "G:hlA:1:2"}, {"G:hlB:1:2", "G:blB:1:2"}}})
	}
	return jobs
}

func c08Bounds(thorough bool, j job) explore.Bounds {
	var b explore.Bounds
	b[0], b[vrt.KPreempt] = 2, 2
	if thorough {
		b[0], b[vrt.KPreempt] = 3, 3
	}
	if j.Pre > 0 {
		b[0], b[vrt.KPreempt] = j.Pre, j.Pre
	}
	if j.Faults {
		b[vrt.KFault] = 1
		if j.Pre > 0 {
			b[0] = j.Pre + 1
		}
	}
	return b
}

// ---- one execution, judged ----------------------------------------------------------------

type judged struct {
	res execResult
	vio *finding
	st  stats
}

func runJudged(j job, ch vrt.Chooser, states *vrt.StateSet, trace bool) judged {
	res := execJob(j, ch, states, trace)
	out := judged{res: res}
	if res.harness != "" || res.h == nil {
		return out
	}
	out.vio, out.st = judge(res.h, res.deadlock, res.panics)
	if out.vio != nil {
		d := out.vio.Detail + "\njob: " + j.String() + "\ncalls:"
		for _, c := range res.h.Calls {
			r := "ok"
			switch {
			case c.Ret < 0:
				r = "never returned"
			case c.Panic != "":
				r = "panic"
			case !c.OK:
				r = "error: " + c.Err
			case c.Op.Get:
				served := "fetched"
				if c.fetchEx() == nil {
					served = "from cache"
				}
				r = fmt.Sprintf("ok %s slice#%x", served, c.Ptr&0xfffff)
			default:
				r = fmt.Sprintf("ok (%d, %.4x…)", c.N, c.H)
			}
			var xs []string
			for _, e := range c.Exs {
				x := fmt.Sprintf("%s@%d", e.Kind, e.At)
				if e.faulted() {
					x += "!" + e.Ex.Fault.Kind
				}
				xs = append(xs, x)
			}
			d += fmt.Sprintf("\n  #%d %s %s inv@%d ret@%d exchanges[%s] → %s", c.ID, c.Thread, c.Op, c.Inv, c.Ret, strings.Join(xs, " "), r)
		}
		for _, e := range res.h.Exs {
			if e.Call < 0 {
				d += fmt.Sprintf("\n  poller(%s) %s@%d head=%d fault=%q", e.Thread, e.Kind, e.At, e.HeadNum, e.Ex.Fault.Kind)
			}
		}
		if len(res.faults) > 0 {
			d += fmt.Sprintf("\ninjected faults: %v", res.faults)
		}
		if trace {
			d += "\ntrace: " + strings.Join(res.trace, " ")
		}
		out.vio.Detail = d
	}
	return out
}

func c08Run(c *fw.Ctx) {
	buildModel()
	if c.Shard == 0 {
		// (a) the oracle itself, on synthetic histories (independent of the tree under test);
		// (b) the sequences of the repository's sequential tests through the real client: the
		// observed "asked the node / served from cache" pattern is compared with what those tests
		// pin. (b) depends on the tree: a mutant that changes the caching discipline shows up as a
		// mismatch counter (and, where it breaks the property, as violations of the job list).
		agree, mismatch, msg := selfTest()
		if msg != "" {
			c.HarnessError("self-test of the counting rule failed: %s", msg)
			return
		}
		c.Count("selftest_sequences_agree_with_repo_tests", int64(agree))
		c.Count("selftest_sequences_differ_from_repo_tests", int64(len(mismatch)))
		for _, m := range mismatch {
			c.Sample(map[string]any{"selftest_mismatch": m})
		}
	}
	jobs := c08Jobs(c.Thorough())
	if n, _ := strconv.Atoi(os.Getenv("C08_MAXJOBS")); n > 0 && n < len(jobs) {
		stride := len(jobs) / n
		var sel []job
		for i := 0; i < len(jobs); i += stride {
			sel = append(sel, jobs[i])
		}
		jobs = sel
	}
	if js := os.Getenv("C08_JOB"); js != "" {
		var one job
		if err := json.Unmarshal([]byte(js), &one); err != nil {
			c.HarnessError("C08_JOB: %v", err)
			return
		}
		jobs = []job{one}
	}
	c.Bound("jobs", len(jobs))
	c.Bound("threads", "2-3 (filter-sequence jobs and the repository's sequences: 1)")
	c.Bound("calls_per_thread", "1-2 (+ head announcements); filter-sequence jobs: 2-3 (thorough 2-4) on one thread")
	c.Bound("maxreads", []int{1, 2, 3})
	c.Bound("preemptions", c08Bounds(c.Thorough(), job{})[vrt.KPreempt])
	c.Bound("deviations_total", c08Bounds(c.Thorough(), job{})[0])
	c.Bound("faults_per_execution_on_fault_jobs", 1)
	dbg := os.Getenv("C08_DEBUG")
	// The unit of sharding is (job, child of the job's root execution): every worker runs the
	// root execution of every job (one default schedule) to learn its children, then explores
	// only the sub-trees it owns. The root execution itself is judged by the owner of unit 0.
	for _, j := range jobs {
		if c.Expired() {
			return
		}
		j := j
		states := vrt.NewStateSet()
		b := c08Bounds(c.Thorough(), j)
		t0 := time.Now()
		record := func(x judged, r *explore.Run) bool {
			if x.res.harness != "" {
				c.HarnessError("job %s choices %v: %s", j, r.Trimmed(), x.res.harness)
				return false
			}
			if r.Diverged != "" {
				c.HarnessError("HARNESS-NONDETERMINISM job %s: %s", j, r.Diverged)
				return false
			}
			s := x.st
			c.Eval(s.CachedReads+s.HeadHits > 0 || len(x.res.faults) > 0)
			c.Res.Transitions += x.res.trans
			c.Res.Traces++
			c.Count("calls", int64(s.Calls))
			c.Count("calls_failed", int64(s.Errs))
			c.Count("segment_fetches", int64(s.Fetches))
			c.Count("segment_fetches_failed", int64(s.FailedFetches))
			c.Count("segment_cache_hits", int64(s.CachedReads))
			c.Count("segment_cache_hits_after_download_by_another_filter", int64(s.CrossFilterHits))
			c.Count("head_asks", int64(s.HeadAsks))
			c.Count("head_asks_by_poller", int64(s.HeadAsksPoller))
			c.Count("head_asks_failed", int64(s.FailedAsks))
			c.Count("head_cache_hits", int64(s.HeadHits))
			c.Count("faults_injected", int64(len(x.res.faults)))
			c.Count("fetch_after_failed_fetch_same_key", int64(s.FetchAfterFailedSameKey))
			if s.OverlapSameKey {
				c.Count("executions_two_threads_in_same_segment", 1)
			}
			if s.SharedSlice {
				c.Count("executions_two_callers_same_slice", 1)
			}
			if s.MaxServedPerFetch >= j.M {
				c.Count("executions_reuse_at_the_bound", 1)
			}
			if x.res.h.Pollers > 1 {
				c.Count("executions_poller_restarted", 1)
			}
			if x.vio != nil {
				c.Outcome("VIOLATION:" + x.vio.Class)
				c.Violation("C08", x.vio.Class, x.vio.Key, x.vio.Detail, c08Case{Job: j, Bounds: b, Choices: r.Choices()})
			} else {
				c.Outcome(s.outcome())
			}
			if c.Res.Evaluations%20011 == 1 {
				c.Sample(map[string]any{"job": j.String(), "schedule": r.Trimmed(), "outcome": s.outcome()})
			}
			return !c.Expired()
		}
		visit := func(r *explore.Run) bool { return record(runJudged(j, r, states, false), r) }
		// split(item): every worker executes item (to learn its children); the owner of the unit
		// "item itself" records it; children that deviate early (big sub-trees) are split again,
		// the others are sub-tree units.
		var execs int64
		ok := true
		var split func(it explore.Item, depth int, cut int)
		split = func(it explore.Item, depth int, cut int) {
			if !ok {
				return
			}
			r := explore.NewRun(it)
			x := runJudged(j, r, nil, false)
			if x.res.harness != "" || r.Diverged != "" {
				c.HarnessError("job %s prefix %v: %s %s", j, it.Prefix, x.res.harness, r.Diverged)
				ok = false
				return
			}
			if cut < 0 {
				cut = len(r.Choices()) / 3
			}
			if c.Mine() {
				execs++
				if !record(x, r) {
					ok = false
					return
				}
			}
			for _, kid := range explore.Expand(b, true, r) {
				if !ok {
					return
				}
				if depth > 0 && len(kid.Prefix) <= cut {
					split(kid, depth-1, cut)
					continue
				}
				if !c.Mine() {
					continue
				}
				st := explore.ExploreFrom(b, true, kid, visit)
				execs += st.Executions
				if !st.Complete {
					c.Cap("time-budget")
					ok = false
					return
				}
				c.Count("subtrees_completed", 1)
			}
		}
		split(explore.Item{}, 1, -1)
		if !ok {
			return
		}
		if c.Shard == 0 {
			c.Count("jobs_explored", 1)
		}
		c.Res.States += int64(states.Len())
		if dbg != "" {
			f, _ := os.OpenFile(dbg, os.O_APPEND|os.O_CREATE|os.O_WRONLY, 0o644)
			fmt.Fprintf(f, "shard %d job %s: executions=%d %.1fs\n", c.Shard, j, execs, time.Since(t0).Seconds())
			f.Close()
		}
		c.Count("lock_contentions", vrt.Contentions)
		vrt.Contentions = 0
	}
}

func c08Replay(c *fw.Ctx, raw json.RawMessage) {
	buildModel()
	var k c08Case
	if err := json.Unmarshal(raw, &k); err != nil {
		c.HarnessError("bad case: %v", err)
		return
	}
	r := explore.Replay(k.Choices)
	x := runJudged(k.Job, r, nil, true)
	c.Eval(true)
	if x.res.harness != "" {
		c.HarnessError("%s", x.res.harness)
		return
	}
	if r.Diverged != "" {
		c.HarnessError("HARNESS-NONDETERMINISM replay diverged: %s", r.Diverged)
		return
	}
	if x.vio != nil {
		c.Violation("C08", x.vio.Class, x.vio.Key, x.vio.Detail, k)
	}
}

// ---- self-test of the counting rule ----------------------------------------------------------
//
// Replays the sequences of the repository's own sequential tests through the real client
// (one thread, default schedule) and checks that the classification "asked the node /
// served from cache" and the verdict agree with what those tests pin; then feeds the judge
// synthetic histories that exceed the bound and must be flagged.
type selfSeq struct {
	j       job
	pattern string // per call: F = asked the node, C = served from cache
}

func selfSeqs() []selfSeq {
	return []selfSeq{
		// TestCache_MaxReads / TestGet_Cached_Pruned: maxreads=2 → fetch, cached, fetch
		{job{M: 2, Threads: [][]string{{"G:h:3:1", "G:h:3:1", "G:h:3:1"}}}, "FCF"},
		{job{M: 2, Threads: [][]string{{"G:blA:1:2", "G:blB:1:2", "G:blA:1:2"}}}, "FCF"},
		{job{M: 1, Threads: [][]string{{"G:h:3:1", "G:h:3:1"}}}, "FF"},
		{job{M: 3, Threads: [][]string{{"G:hlA:1:2", "G:hlB:1:2", "G:h:1:2", "G:hlA:1:2"}}}, "FCCF"},
		// the UNCACHED client ("nocache" url option) on every data plan of the alphabet: every call asks
		// the node, and its answer is exactly the reference compareGet computes from the chain model
		// (this is what makes "differs from the reference" mean "differs from an uncached client")
		{job{M: 2, NoCache: true, Threads: [][]string{{"G:hlA:1:2", "G:hlB:1:2", "G:hlC:1:2", "G:h:1:2", "G:hlA:1:2"}}}, "FFFFF"},
		{job{M: 2, NoCache: true, Threads: [][]string{{"G:blA:1:2", "G:blB:1:2", "G:blC:1:2", "G:b:1:2", "G:br:1:2", "G:blA:1:2"}}}, "FFFFFF"},
		{job{M: 3, NoCache: true, Threads: [][]string{{"G:hlB:3:1", "G:hlA:3:1", "G:blA:2:2", "G:br:1:2", "G:blC:1:2"}}}, "FFFFF"},
		// TestLatest_Cached: maxreads=1 → ask, cached (floor below head), ask (floor == head, cache expired)
		{job{M: 1, Init: 4, Threads: [][]string{{"L:0", "L:3", "L:4"}}}, "FCF"},
		{job{M: 2, Init: 4, Threads: [][]string{{"L:0", "L:3", "L:3", "L:3"}}}, "FCCF"},
	}
}

func selfTest() (agree int, mismatch []string, fatal string) {
	for _, s := range selfSeqs() {
		x := runJudged(s.j, explore.Replay(nil), nil, false)
		if x.res.harness != "" {
			return 0, nil, "harness: " + x.res.harness
		}
		if x.vio != nil {
			// a finding on this tree: reported through the job list (the sequences are jobs too)
			mismatch = append(mismatch, fmt.Sprintf("sequence %s flagged: %s", s.j, x.vio.Key))
			continue
		}
		got := ""
		for _, c := range x.res.h.Calls {
			asked := false
			for _, e := range c.Exs {
				if e.Kind == "fetch" || e.Kind == "latest" {
					asked = true
				}
			}
			switch {
			case !c.OK:
				got += "E"
			case asked:
				got += "F"
			default:
				got += "C"
			}
		}
		if got != s.pattern {
			mismatch = append(mismatch, fmt.Sprintf("sequence %s: classification %s, the repository's tests pin %s", s.j, got, s.pattern))
			continue
		}
		agree++
	}
	// synthetic: one fetch followed by maxreads+1 cached reads of its slice must be flagged
	mk := func(m, cached int) *history {
		h := &history{M: m}
		o, _ := parseOp("G:h:3:1")
		for i := 0; i <= cached; i++ {
			c := &call{ID: i, Thread: "t1", Op: o, Inv: h.tick(), OK: true, Ptr: 0x1000, NBlocks: 1}
			if i == 0 {
				e := &exch{At: h.tick(), Call: 0, Thread: "t1", Kind: "fetch", Ex: newExchange()}
				c.Exs = append(c.Exs, e)
				h.Exs = append(h.Exs, e)
			}
			c.Ret = h.tick()
			h.Calls = append(h.Calls, c)
		}
		return h
	}
	for m := 1; m <= 3; m++ {
		if v, _ := judge(mk(m, m), "", nil); v != nil {
			return agree, mismatch, fmt.Sprintf("synthetic: %d cached reads with maxreads=%d flagged (%s)", m, m, v.Key)
		}
		if v, _ := judge(mk(m, m+1), "", nil); v == nil || !strings.HasPrefix(v.Key, "reuse-exceeds-maxreads") {
			return agree, mismatch, fmt.Sprintf("synthetic: %d cached reads with maxreads=%d not flagged", m+1, m)
		}
	}
	// synthetic head: ask, then maxreads+1 cached reads of the announced pair
	mkH := func(m, cached int) *history {
		h := &history{M: m}
		hd := fullChain.Block(4)
		for i := 0; i <= cached; i++ {
			c := &call{ID: i, Thread: "t1", Op: op{Floor: 3}, Inv: h.tick(), OK: true, N: hd.Num, H: hd.Hash}
			if i == 0 {
				e := &exch{At: h.tick(), Call: 0, Thread: "t1", Kind: "latest", Ex: newExchange(), HeadNum: hd.Num, HeadHsh: hd.Hash}
				c.Exs = append(c.Exs, e)
				h.Exs = append(h.Exs, e)
			}
			c.Ret = h.tick()
			h.Calls = append(h.Calls, c)
		}
		return h
	}
	for m := 1; m <= 3; m++ {
		if v, _ := judge(mkH(m, m), "", nil); v != nil {
			return agree, mismatch, fmt.Sprintf("synthetic head: %d cached reads with maxreads=%d flagged (%s)", m, m, v.Key)
		}
		if v, _ := judge(mkH(m, m+1), "", nil); v == nil || v.Key != "reuse-exceeds-maxreads:head" {
			return agree, mismatch, fmt.Sprintf("synthetic head: %d cached reads with maxreads=%d not flagged", m+1, m)
		}
	}
	return agree, mismatch, ""
}

func newExchange() *simeth.Exchange { return &simeth.Exchange{} }
