//go:build verif

// Package cache holds the world harness of property C08 ("source-side caches are
// transparent: same data, bounded reuse, no cached errors"; see DESIGN.md §4).
//
//	model.go  static chain (6 blocks x 2 txs x 2 logs, two addresses x two signatures), the
//	          filters / data plans, the operation alphabet, and the UNCACHED REFERENCE
//	          comparison of one Get result against the chain model
//	exec.go   one execution: real jrpc2.Client inside a world, 2-3 caller threads, the head
//	          poller, announcements + ticks; records the total order of invocations,
//	          returns and node exchanges
//	judge.go  the oracle over that history (data, errors, provenance of cached reads,
//	          bounded reuse, announced head pairs) and the counting rule
//	c08.go    registration, job lists, sharding by schedule sub-tree, replay, self-test of
//	          the counting rule against the repository's own sequential tests
//
// Shared-package addition: explore/c08_subtree.go (Expand / ExploreFrom / NewRun).
package cache
