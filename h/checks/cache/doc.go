//go:build verif

// Package cache holds world harnesses (see DESIGN.md §4).
package cache
