//go:build verif

package cache

import (
	"context"
	"fmt"
	"strings"
	"unsafe"

	"github.com/indexsupply/shovel/eth"
	"github.com/indexsupply/shovel/jrpc2"
	"github.com/indexsupply/shovel/shovel/glf"

	"verifh/simeth"
	"verifh/vrt"
	"verifh/world"
)

// job is one top-level case: a max-reads setting, one program per harness thread, an
// optional head script for the environment thread, and whether faults are enumerated.
type job struct {
	M       int        `json:"m"`
	Threads [][]string `json:"threads"`
	Init    uint64     `json:"init"`          // head the node starts with (prefix length)
	Env     []uint64   `json:"env,omitempty"` // heads announced by the environment thread, in order (each followed by a tick)
	Faults  bool       `json:"faults,omitempty"`
	Pre     int        `json:"pre,omitempty"` // preemption bound override (0 = tier default)
	FK      int        `json:"fk,omitempty"`  // fault kinds on fault jobs: 0/2 = rpc error object + transport error, 1 = rpc error object only
	NoCache bool       `json:"nocache,omitempty"` // the client is the UNCACHED one (url option "nocache"): ties the reference to "as an uncached client would"
}

func (j job) String() string {
	var ps []string
	for _, t := range j.Threads {
		ps = append(ps, strings.Join(t, " "))
	}
	s := fmt.Sprintf("m=%d [%s] init=%d", j.M, strings.Join(ps, " | "), j.Init)
	if len(j.Env) > 0 {
		s += fmt.Sprintf(" env=%v", j.Env)
	}
	if j.NoCache {
		s += " nocache"
	}
	if j.Faults {
		s += " +faults"
		if j.FK == 1 {
			s += "(rpc-error only)"
		}
	}
	return s
}

// ---- history of one execution ------------------------------------------------------------
//
// Exactly one controlled thread runs at a time, so appending to one slice gives the
// real-time total order of: call invocations, call returns, node exchanges (recorded
// after the exchange's scheduling point, i.e. at the moment the node answers), and
// environment operations.

type exch struct {
	At      int    // position in the total order
	Call    int    // call that issued it; -1 = head poller
	Thread  string // controlled thread (base name)
	Kind    string // "fetch" (block/header batch) | "logs" | "receipts" | "latest" | "other"
	Ex      *simeth.Exchange
	HeadNum uint64 // node head at the moment of the answer
	HeadHsh []byte
}

func (e *exch) faulted() bool { return e.Ex.Fault.Kind != "" }

type call struct {
	ID       int
	Thread   string
	Op       op
	Inv, Ret int // positions in the total order; Ret < 0: never returned
	OK       bool
	Err      string
	Panic    string
	// Get
	Ptr      uintptr // identity of the returned block slice (its backing array); 0 = none
	NBlocks  int
	MisClass string // reference comparison, "" = equal
	MisText  string
	// Latest
	N     uint64
	H     []byte // value at return time
	HLive []byte // the returned slice itself (must never change afterwards)
	// exchanges issued by this call, in order
	Exs []*exch
	key string
}

func (c *call) segKey() string {
	if c.key == "" {
		c.key = fmt.Sprintf("%s/%d/%d", filterSpecs()[c.Op.Filt].Kind, c.Op.Start, c.Op.Limit)
	}
	return c.key
}

func (c *call) fetchEx() *exch {
	for _, e := range c.Exs {
		if e.Kind == "fetch" {
			return e
		}
	}
	return nil
}

func (c *call) anyFault() bool {
	for _, e := range c.Exs {
		if e.faulted() {
			return true
		}
	}
	return false
}

type history struct {
	M       int
	Calls   []*call
	Exs     []*exch
	clock   int
	EnvOps  int
	Ticks   int
	Pollers int
}

func (h *history) tick() int { h.clock++; return h.clock }

func classifyExchange(ex *simeth.Exchange) string {
	has := map[string]int{}
	latest := false
	for _, c := range ex.Calls {
		has[c.Method]++
		if c.Method == "eth_getBlockByNumber" && len(c.Params) > 0 {
			if s, ok := c.Params[0].(string); ok && s == "latest" {
				latest = true
			}
		}
	}
	switch {
	case has["eth_getLogs"] > 0:
		return "logs"
	case has["eth_getBlockReceipts"] > 0:
		return "receipts"
	case latest && len(ex.Calls) == 1:
		return "latest"
	case has["eth_getBlockByNumber"] == len(ex.Calls) && len(ex.Calls) > 0:
		return "fetch"
	}
	return "other"
}

func baseName(n string) string {
	if i := strings.IndexByte(n, '.'); i >= 0 {
		return n[:i]
	}
	return n
}

type execResult struct {
	h        *history
	trans    int64
	harness  string
	panics   []string
	deadlock string
	faults   []string
	trace    []string
}

var threadNames = []string{"t1", "t2", "t3", "t4"}

// execJob runs ONE execution of the job under the given chooser.
func execJob(j job, ch vrt.Chooser, states *vrt.StateSet, trace bool) (res execResult) {
	buildModel()
	fs := filterSpecs()
	progs := make([][]op, len(j.Threads))
	for i, t := range j.Threads {
		for _, s := range t {
			o, err := parseOp(s)
			if err != nil {
				res.harness = err.Error()
				return
			}
			progs[i] = append(progs[i], o)
		}
	}
	init := j.Init
	if init == 0 {
		init = nBlocks
	}
	w := world.New(ch, world.Cfg{Chains: map[string]*simeth.Chain{host: prefixes[init]}})
	w.V.States = states
	w.V.TraceOn = trace
	h := &history{M: j.M}
	res.h = h
	cur := map[string]*call{} // running call per harness thread
	var keep [][]eth.Block    // returned slices stay reachable: their addresses are identities
	w.V.StateKey = func() uint64 {
		return uint64(h.clock)<<24 ^ uint64(len(h.Exs))<<12 ^ uint64(w.Node(host).Version)
	}
	w.OnExchange = func(ex *simeth.Exchange) {
		name := "?"
		if t := w.V.Cur(); t != nil {
			name = baseName(t.Name)
		}
		e := &exch{At: h.tick(), Call: -1, Thread: name, Kind: classifyExchange(ex), Ex: ex}
		if hd := w.Node(host).Chain().Head(); hd != nil {
			e.HeadNum, e.HeadHsh = hd.Num, hd.Hash
		}
		if c := cur[name]; c != nil {
			e.Call = c.ID
			c.Exs = append(c.Exs, e)
		}
		h.Exs = append(h.Exs, e)
	}
	ctx := context.Background()
	w.Run(func() {
		c := jrpc2.New(nodeURL).WithMaxReads(j.M)
		if j.NoCache {
			c = jrpc2.New(nodeURL + "/?nocache").WithMaxReads(j.M)
		}
		if j.Faults {
			w.RPCFaultKinds = 2
			if j.FK > 0 {
				w.RPCFaultKinds = j.FK
			}
		}
		announce := func(hd uint64, alt bool) {
			// the node now announces head hd (a prefix of the static chain, or of its sibling branch) …
			if alt {
				w.Node(host).SetChain(altPrefixes[hd])
			} else {
				w.Node(host).SetChain(prefixes[hd])
			}
			h.EnvOps++
			h.tick()
			// … and the poller's ticker fires (the poller exists after the first Latest call)
			if tk := w.V.Tickers(); len(tk) > 0 {
				if w.V.Tick(tk[0]) {
					h.Ticks++
				}
			}
			w.V.Bump()
		}
		run := func(name string, o op) {
			if o.Head > 0 {
				announce(o.Head, o.Alt)
				return
			}
			k := &call{ID: len(h.Calls), Thread: name, Op: o, Inv: h.tick(), Ret: -1}
			h.Calls = append(h.Calls, k)
			cur[name] = k
			defer func() {
				cur[name] = nil
				if r := recover(); r != nil {
					if w.V.Closing() {
						return
					}
					k.Panic = fmt.Sprint(r)
					k.Ret = h.tick()
				}
			}()
			if o.Get {
				f := fs[o.Filt]
				var g *glf.Filter = f.glf()
				blocks, err := c.Get(ctx, nodeURL, g, o.Start, o.Limit)
				if w.V.Closing() {
					return
				}
				// no scheduling point between the return of Get and this snapshot
				k.Ret = h.tick()
				if err != nil {
					k.Err = err.Error()
					return
				}
				k.OK = true
				k.NBlocks = len(blocks)
				if len(blocks) > 0 {
					k.Ptr = uintptr(unsafe.Pointer(&blocks[0]))
					keep = append(keep, blocks)
				}
				k.MisClass, k.MisText = compareGet(f, g, o.Start, o.Limit, blocks)
				return
			}
			n, hs, err := c.Latest(ctx, nodeURL, o.Floor)
			if w.V.Closing() {
				return
			}
			k.Ret = h.tick()
			if err != nil {
				k.Err = err.Error()
				return
			}
			k.OK, k.N, k.H, k.HLive = true, n, append([]byte(nil), hs...), hs
		}
		var ts []*vrt.Thread
		for i := range progs {
			name, prog := threadNames[i], progs[i]
			ts = append(ts, w.V.GoNamed(name, func() {
				for _, o := range prog {
					vrt.Boundary("op")
					if w.V.Closing() {
						return
					}
					run(name, o)
				}
			}))
		}
		if len(j.Env) > 0 {
			env := w.V.GoNamed("env", func() {
				for _, hd := range j.Env {
					vrt.Boundary("env")
					if w.V.Closing() {
						return
					}
					announce(hd, false)
				}
			})
			env.OnlyAt = func(l string) bool { return strings.HasPrefix(l, "rpc:") || strings.HasPrefix(l, "boundary:") }
			ts = append(ts, env)
		}
		w.V.Join(ts...)
	})
	_ = keep
	res.trans = w.V.Transitions
	res.harness = w.HarnessErr
	res.faults = w.Faults
	if !w.V.Deadlock {
		res.panics = w.V.Panics
	} else {
		res.panics = w.V.Panics
		res.deadlock = w.V.DeadlockMsg
	}
	for _, t := range w.V.Threads() {
		if strings.HasPrefix(t.Name, "g") && !strings.Contains(t.Name, ".") {
			h.Pollers++
		}
	}
	if trace {
		res.trace = w.V.Trace
	}
	return res
}
