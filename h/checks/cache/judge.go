//go:build verif

package cache

import (
	"bytes"
	"fmt"
	"regexp"
	"sort"
	"strings"
)

// finding is the first violated rule of one execution.
type finding struct {
	Class, Key, Detail string
}

// stats are the non-vacuity figures of one execution.
type stats struct {
	Calls, Errs               int
	Fetches, FailedFetches    int // segment fetch exchanges / of which faulted
	CachedReads               int // Get calls served without asking the node for the blocks/headers
	MaxServedPerFetch         int
	HeadAsks, HeadAsksPoller  int // "latest" exchanges (all threads) / by the poller
	HeadHits                  int // Latest calls served without asking the node
	FailedAsks                int
	OverlapSameKey            bool // two calls on the same segment key were in flight at the same time
	SharedSliceTwoFilters     bool // two callers with different filters got the same cached block slice
	FetchAfterFailedSameKey   int  // calls on a key after a failed fetch of that key that reached the node
	DistinctHeadsSeen         int
	LogsAttachedByOtherFilter bool
}

var (
	reHex = regexp.MustCompile(`0x[0-9a-fA-F]+|[0-9a-f]{16,}`)
	reNum = regexp.MustCompile(`[0-9]+`)
)

func errClass(s string) string {
	if len(s) > 140 {
		s = s[:140]
	}
	s = reHex.ReplaceAllString(s, "H")
	return reNum.ReplaceAllString(s, "N")
}

func overlap(a, b *call) bool {
	ar, br := a.Ret, b.Ret
	if ar < 0 {
		ar = 1 << 30
	}
	if br < 0 {
		br = 1 << 30
	}
	return a.Inv < br && b.Inv < ar
}

// judge applies the oracle to the history of one execution.
//
// COUNTING RULE (bounded reuse). A read "asks the node" when the call itself issued the
// exchange that fetches the blocks/headers of its segment (Get) or the "latest" header
// (Latest); such a read is not counted. Every other successful read was served from cache.
//   - segments: every Get returns the cached slice itself, so the identity of the returned
//     slice tells exactly which fetch a cached read was served from. For every fetch, the
//     number of OTHER calls that returned its slice must be <= maxreads.
//   - head: a cached Latest returns a copy, so provenance is by value: for every announced
//     pair P and every moment t, (number of cached reads that returned P up to t) must be
//     <= maxreads x (number of node answers announcing P before t). This is the weakest
//     rule that every assignment of cached reads to the announcements they could have been
//     served from must satisfy; sequentially it is "at most maxreads cached reads between
//     two consecutive asks".
//
// Sequentially both rules say: a fetch followed by more than maxreads reads that do not
// reach the node is a violation (TestCache_MaxReads: maxreads=2 → fetch, cached, fetch;
// TestLatest_Cached: maxreads=1 → ask, cached, ask).
func judge(h *history, deadlock string, panics []string) (*finding, stats) {
	var st stats
	var first *finding
	vio := func(class, key, detail string) {
		if first == nil {
			first = &finding{class, key, detail}
		}
	}
	if deadlock != "" {
		vio("deadlock", "deadlock", deadlock)
	}
	for _, p := range panics {
		line := strings.SplitN(p, "\n", 2)[0]
		vio("panic", "panic-thread:"+errClass(line), p)
	}
	filters := filterSpecs()

	// ---- per call -----------------------------------------------------------------
	byKey := map[string][]*call{}
	var keys []string
	for _, c := range h.Calls {
		if c.Ret < 0 {
			continue
		}
		st.Calls++
		if c.Panic != "" {
			vio("panic", "panic:"+c.Op.String()[:1]+":"+errClass(c.Panic), fmt.Sprintf("call %d (%s %s) panicked: %s", c.ID, c.Thread, c.Op, c.Panic))
			continue
		}
		if !c.OK {
			st.Errs++
		}
		if c.Op.Get {
			k := c.segKey()
			if _, ok := byKey[k]; !ok {
				keys = append(keys, k)
			}
			byKey[k] = append(byKey[k], c)
		}
	}
	sort.Strings(keys)
	failedBefore := func(key string, at int) *exch {
		for _, c := range h.Calls {
			if c.Op.Get && c.segKey() == key {
				if e := c.fetchEx(); e != nil && e.faulted() && e.At < at {
					return e
				}
			}
		}
		return nil
	}
	for _, c := range h.Calls {
		if c.Ret < 0 || c.Panic != "" {
			continue
		}
		served := "fetch"
		if c.Op.Get && c.fetchEx() == nil {
			served = "cache"
		}
		switch {
		case c.OK && c.Op.Get && c.MisClass != "":
			key := fmt.Sprintf("data:%s:%s:served-from-%s", c.MisClass, c.Op.Filt, served)
			if served == "cache" && c.Ptr == 0 && failedBefore(c.segKey(), c.Ret) != nil {
				key = "failed-fetch-served-from-cache:empty-result"
			}
			vio("data", key, fmt.Sprintf("call %d (%s %s, served from %s) differs from the uncached reference: %s", c.ID, c.Thread, c.Op, served, c.MisText))
		case !c.OK && !c.anyFault():
			key := "error-without-fault:" + c.Op.String()[:1] + ":" + errClass(c.Err)
			if c.Op.Get && served == "cache" && failedBefore(c.segKey(), c.Ret) != nil {
				key = "failed-fetch-served-from-cache:error"
			}
			vio("error", key, fmt.Sprintf("call %d (%s %s) failed although none of its own exchanges was faulted: %s", c.ID, c.Thread, c.Op, c.Err))
		}
	}

	// ---- segments: provenance and bounded reuse ------------------------------------
	for _, key := range keys {
		calls := byKey[key]
		for i, a := range calls {
			for _, b := range calls[i+1:] {
				if overlap(a, b) {
					st.OverlapSameKey = true
				}
			}
		}
		// fetches of this key
		var spare []*call // fetched fine, failed later (logs / receipts): their slice is cached but was not returned
		for _, c := range calls {
			if e := c.fetchEx(); e != nil {
				st.Fetches++
				if e.faulted() {
					st.FailedFetches++
				} else if !c.OK {
					spare = append(spare, c)
				}
			}
		}
		// calls after a failed fetch of the key
		for _, c := range calls {
			if e := failedBefore(key, c.Inv); e != nil && c.fetchEx() != nil {
				st.FetchAfterFailedSameKey++
			}
		}
		type group struct {
			ptr    uintptr
			source *call
			cached []*call
		}
		var groups []*group
		idx := map[uintptr]*group{}
		for _, c := range calls {
			if !c.OK || c.Ptr == 0 {
				continue
			}
			g := idx[c.Ptr]
			if g == nil {
				g = &group{ptr: c.Ptr}
				idx[c.Ptr] = g
				groups = append(groups, g)
			}
			if c.fetchEx() != nil {
				if g.source != nil {
					vio("provenance", "two-fetches-returned-one-slice", fmt.Sprintf("key %s: calls %d and %d both fetched from the node and returned the same slice", key, g.source.ID, c.ID))
				}
				g.source = c
			} else {
				g.cached = append(g.cached, c)
			}
		}
		for _, g := range groups {
			fl := map[string]bool{}
			for _, c := range g.cached {
				fl[c.Op.Filt] = true
			}
			if g.source != nil {
				fl[g.source.Op.Filt] = true
			}
			if len(fl) > 1 {
				st.SharedSliceTwoFilters = true
			}
			st.CachedReads += len(g.cached)
			if len(g.cached) > st.MaxServedPerFetch {
				st.MaxServedPerFetch = len(g.cached)
			}
			src := g.source
			if src == nil && len(g.cached) > 0 {
				// served from a fetch whose own caller failed afterwards?
				firstRet := g.cached[0].Ret
				for _, c := range g.cached {
					if c.Ret < firstRet {
						firstRet = c.Ret
					}
				}
				for i, s := range spare {
					if s != nil && s.fetchEx().At < firstRet {
						src, spare[i] = s, nil
						break
					}
				}
				if src == nil {
					k := "served-without-fetch"
					if failedBefore(key, firstRet) != nil {
						k = "failed-fetch-served-from-cache"
					}
					vio("provenance", k, fmt.Sprintf("key %s: call %d returned a block slice that no successful fetch of this key produced", key, g.cached[0].ID))
					continue
				}
			}
			if src != nil && src.fetchEx().faulted() {
				vio("provenance", "failed-fetch-served-from-cache", fmt.Sprintf("key %s: the fetch of call %d was faulted, yet its slice was returned to %d caller(s)", key, src.ID, len(g.cached)+1))
			}
			if len(g.cached) > h.M {
				conc := false
				all := append([]*call{}, g.cached...)
				if src != nil {
					all = append(all, src)
				}
				for i, a := range all {
					for _, b := range all[i+1:] {
						if overlap(a, b) {
							conc = true
						}
					}
				}
				k := "reuse-exceeds-maxreads:sequential-readers"
				if conc {
					k = "reuse-exceeds-maxreads:concurrent-readers-same-segment"
				}
				var ids []string
				for _, c := range g.cached {
					ids = append(ids, fmt.Sprintf("%d(%s %s)", c.ID, c.Thread, c.Op))
				}
				srcS := "?"
				if src != nil {
					srcS = fmt.Sprintf("%d(%s %s)", src.ID, src.Thread, src.Op)
				}
				vio("reuse", k, fmt.Sprintf("key %s maxreads=%d: ONE fetch (call %s) served %d cached reads: %s", key, h.M, srcS, len(g.cached), strings.Join(ids, ", ")))
			}
		}
	}
	_ = filters

	// ---- head: announced pairs and bounded reuse -----------------------------------
	type ann struct {
		at  int
		num uint64
		hsh []byte
	}
	var anns []ann
	seenHead := map[uint64]bool{}
	for _, e := range h.Exs {
		if e.Kind != "latest" {
			continue
		}
		st.HeadAsks++
		if e.Call < 0 {
			st.HeadAsksPoller++
		}
		if e.faulted() {
			st.FailedAsks++
			continue
		}
		anns = append(anns, ann{e.At, e.HeadNum, e.HeadHsh})
		seenHead[e.HeadNum] = true
	}
	st.DistinctHeadsSeen = len(seenHead)
	var lat []*call
	for _, c := range h.Calls {
		if !c.Op.Get && c.Ret >= 0 && c.OK && c.Panic == "" {
			lat = append(lat, c)
		}
	}
	sort.Slice(lat, func(i, j int) bool { return lat[i].Ret < lat[j].Ret })
	hits := map[string]int{}
	for _, c := range lat {
		announced, numKnown := 0, false
		for _, a := range anns {
			if a.at >= c.Ret {
				continue
			}
			if a.num == c.N {
				numKnown = true
				if bytes.Equal(a.hsh, c.H) {
					announced++
				}
			}
		}
		if announced == 0 {
			k := "head-never-announced"
			switch {
			case len(c.H) != 32:
				k = "head-hash-length"
			case numKnown:
				k = "head-pair-mismatch"
			}
			vio("head", k, fmt.Sprintf("call %d (%s %s) returned (%d, %x): the node never answered \"latest\" with this pair before the call returned", c.ID, c.Thread, c.Op, c.N, c.H))
			continue
		}
		asked := false
		for _, e := range c.Exs {
			if e.Kind == "latest" {
				asked = true
			}
		}
		if asked {
			continue
		}
		st.HeadHits++
		pk := fmt.Sprintf("%d/%x", c.N, c.H)
		hits[pk]++
		if hits[pk] > h.M*announced {
			vio("reuse", "reuse-exceeds-maxreads:head", fmt.Sprintf("maxreads=%d: call %d (%s %s) is cached read #%d of head %d, but the node announced that pair only %d time(s) before", h.M, c.ID, c.Thread, c.Op, hits[pk], c.N, announced))
		}
	}
	return first, st
}

func (s stats) outcome() string {
	b := func(x bool, t string) string {
		if x {
			return t
		}
		return ""
	}
	cap3 := func(n int) string {
		if n >= 3 {
			return "3+"
		}
		return fmt.Sprint(n)
	}
	return fmt.Sprintf("seg[fetch=%s cached=%s failed=%d] head[ask=%s hit=%s poll=%s failed=%d] err=%d%s%s",
		cap3(s.Fetches), cap3(s.CachedReads), s.FailedFetches, cap3(s.HeadAsks), cap3(s.HeadHits), cap3(s.HeadAsksPoller), s.FailedAsks, s.Errs,
		b(s.OverlapSameKey, " overlap"), b(s.SharedSliceTwoFilters, " shared2"))
}
