//go:build verif

package cache

import (
	"bytes"
	"fmt"
	"regexp"
	"sort"
	"strings"
)

// finding is the first violated rule of one execution.
type finding struct {
	Class, Key, Detail string
}

// stats are the non-vacuity figures of one execution.
type stats struct {
	Calls, Errs               int
	Fetches, FailedFetches    int // segment fetch exchanges / of which faulted
	CachedReads               int // Get calls served without asking the node for the blocks/headers
	MaxServedPerFetch         int
	HeadAsks, HeadAsksPoller  int // "latest" exchanges (all threads) / by the poller
	HeadHits                  int // Latest calls served without asking the node
	FailedAsks                int
	OverlapSameKey            bool // two calls on the same segment key were in flight at the same time
	SharedSlice               bool // two callers got the same block slice (memory shared through the cache)
	FetchAfterFailedSameKey   int  // calls on a key after a failed fetch of that key that reached the node
	DistinctHeadsSeen         int
	CrossFilterHits           int // cached reads of a segment whose download was made by a call with ANOTHER data plan (filter)
}

var (
	reHex = regexp.MustCompile(`0x[0-9a-fA-F]+|[0-9a-f]{16,}`)
	reNum = regexp.MustCompile(`[0-9]+`)
)

func errClass(s string) string {
	if len(s) > 140 {
		s = s[:140]
	}
	s = reHex.ReplaceAllString(s, "H")
	return reNum.ReplaceAllString(s, "N")
}

func overlap(a, b *call) bool {
	ar, br := a.Ret, b.Ret
	if ar < 0 {
		ar = 1 << 30
	}
	if br < 0 {
		br = 1 << 30
	}
	return a.Inv < br && b.Inv < ar
}

// judge applies the oracle to the history of one execution.
//
// COUNTING RULE (bounded reuse). A read "asks the node" when the call itself issued the
// exchange that fetches the blocks/headers of its segment (Get) or the "latest" header
// (Latest); such a read is not counted. Every other successful read was served from cache.
//   - segments (per key = cache kind, start, limit): the successful fetches of the key cut
//     time into windows; window i lasts from fetch i to fetch i+1. At most maxreads cached
//     reads may fall into one window, none before the first fetch. A cached read is served
//     at some moment of its call interval [invoke, return]; the exact moment is not
//     observable, so a read is charged to ANY window its interval touches, whichever is most
//     favourable (earliest-deadline-first placement decides feasibility exactly). For calls
//     that do not overlap this is precisely "at most maxreads reads served without asking
//     the node between two consecutive node fetches".
//   - head: a cached Latest is served at the moment it returns (no scheduling point in
//     between), but the cache installs an answer some steps after the exchange, so
//     provenance is by value: for every announced pair P and every moment t, (number of
//     cached reads that returned P up to t) must be <= maxreads x (number of node answers
//     announcing P before t) — the weakest rule that every assignment of cached reads to the
//     announcements they could have been served from must satisfy.
//
// Sequentially both rules say: a fetch followed by more than maxreads reads that do not
// reach the node is a violation (TestCache_MaxReads: maxreads=2 → fetch, cached, fetch;
// TestLatest_Cached: maxreads=1 → ask, cached, ask).
func judge(h *history, deadlock string, panics []string) (*finding, stats) {
	var st stats
	var first *finding
	vio := func(class, key, detail string) {
		if first == nil {
			first = &finding{class, key, detail}
		}
	}
	if deadlock != "" {
		vio("deadlock", "deadlock", deadlock)
	}
	for _, p := range panics {
		line := strings.SplitN(p, "\n", 2)[0]
		vio("panic", "panic-thread:"+errClass(line), p)
	}
	filters := filterSpecs()

	// ---- per call -----------------------------------------------------------------
	byKey := map[string][]*call{}
	var keys []string
	for _, c := range h.Calls {
		if c.Ret < 0 {
			continue
		}
		st.Calls++
		if c.Panic != "" {
			vio("panic", "panic:"+c.Op.String()[:1]+":"+errClass(c.Panic), fmt.Sprintf("call %d (%s %s) panicked: %s", c.ID, c.Thread, c.Op, c.Panic))
			continue
		}
		if !c.OK {
			st.Errs++
		}
		if c.Op.Get {
			k := c.segKey()
			if _, ok := byKey[k]; !ok {
				keys = append(keys, k)
			}
			byKey[k] = append(byKey[k], c)
		}
	}
	sort.Strings(keys)
	failedBefore := func(key string, at int) *exch {
		for _, c := range h.Calls {
			if c.Op.Get && c.segKey() == key {
				if e := c.fetchEx(); e != nil && e.faulted() && e.At < at {
					return e
				}
			}
		}
		return nil
	}
	for _, c := range h.Calls {
		if c.Ret < 0 || c.Panic != "" {
			continue
		}
		served := "fetch"
		if c.Op.Get && c.fetchEx() == nil {
			served = "cache"
		}
		switch {
		case c.OK && c.Op.Get && c.MisClass != "":
			key := fmt.Sprintf("data:%s:%s:served-from-%s", c.MisClass, c.Op.Filt, served)
			if served == "cache" && c.Ptr == 0 && failedBefore(c.segKey(), c.Ret) != nil {
				key = "failed-fetch-served-from-cache:empty-result"
			}
			vio("data", key, fmt.Sprintf("call %d (%s %s, served from %s) differs from the uncached reference: %s", c.ID, c.Thread, c.Op, served, c.MisText))
		case !c.OK && !c.anyFault():
			key := "error-without-fault:" + c.Op.String()[:1] + ":" + errClass(c.Err)
			if c.Op.Get && served == "cache" && failedBefore(c.segKey(), c.Ret) != nil {
				key = "failed-fetch-served-from-cache:error"
			}
			vio("error", key, fmt.Sprintf("call %d (%s %s) failed although none of its own exchanges was faulted: %s", c.ID, c.Thread, c.Op, c.Err))
		}
	}

	// ---- segments: provenance and bounded reuse ------------------------------------
	for _, key := range keys {
		calls := byKey[key]
		for i, a := range calls {
			for _, b := range calls[i+1:] {
				if overlap(a, b) {
					st.OverlapSameKey = true
				}
				if a.OK && b.OK && a.Ptr != 0 && a.Ptr == b.Ptr {
					st.SharedSlice = true
				}
			}
		}
		// successful fetches of this key, in time order; calls after a failed fetch that reached the node
		var okFetch []*call
		for _, c := range calls {
			if e := c.fetchEx(); e != nil {
				st.Fetches++
				if e.faulted() {
					st.FailedFetches++
				} else {
					okFetch = append(okFetch, c)
				}
			}
			if e := failedBefore(key, c.Inv); e != nil && c.fetchEx() != nil {
				st.FetchAfterFailedSameKey++
			}
		}
		sort.Slice(okFetch, func(i, j int) bool { return okFetch[i].fetchEx().At < okFetch[j].fetchEx().At })
		// a failed fetch is never served later: the NEXT call for the key (invoked after the failing
		// call returned) must itself reach the node, unless another call fetched successfully meanwhile
		for _, f := range calls {
			fe := f.fetchEx()
			if fe == nil || !fe.faulted() {
				continue
			}
			var next *call
			for _, c := range calls {
				if c.Inv > f.Ret && (next == nil || c.Inv < next.Inv) {
					next = c
				}
			}
			if next == nil || next.fetchEx() != nil || !next.OK {
				continue
			}
			// … or by a call that was still in flight when the failing call started: with overlapping
			// calls the failing call may have been working on a segment that had already been replaced
			// (its download was not the key's latest), and the replacement's download is a legitimate
			// source. A successful fetch whose call had RETURNED before the failing call was invoked
			// cannot be: the failing call would have been served from it instead of fetching.
			refetched := false
			for _, g := range okFetch {
				if a := g.fetchEx().At; a < next.Ret && (a > fe.At || g.Ret > f.Inv) {
					refetched = true
				}
			}
			if !refetched {
				vio("provenance", "failed-fetch-served-from-cache:next-call-did-not-reach-node", fmt.Sprintf("key %s: the fetch of call %d failed (%s); the next call %d (%s %s) returned without asking the node, and no successful fetch of the key happened after (or concurrently with) the failing call", key, f.ID, fe.Ex.Fault.Kind, next.ID, next.Thread, next.Op))
			}
		}
		nWin := len(okFetch) // windows 1..nWin: window i = after successful fetch i, before fetch i+1; window 0 = before any fetch
		winOf := func(t int) int {
			n := 0
			for _, f := range okFetch {
				if f.fetchEx().At < t {
					n++
				}
			}
			return n
		}
		type rd struct {
			c      *call
			lo, hi int
			placed bool
		}
		var reads []*rd
		for _, c := range calls {
			if !c.OK || c.fetchEx() != nil {
				continue
			}
			st.CachedReads++
			r := &rd{c: c, lo: winOf(c.Inv), hi: winOf(c.Ret)}
			if r.hi > 0 && okFetch[r.hi-1].Op.Filt != c.Op.Filt {
				st.CrossFilterHits++
			}
			if r.hi == 0 {
				k := "served-without-fetch"
				if failedBefore(key, c.Ret) != nil {
					k = "failed-fetch-served-from-cache"
				}
				vio("provenance", k, fmt.Sprintf("key %s: call %d (%s %s) returned blocks without asking the node, and no successful fetch of this key had happened before it returned", key, c.ID, c.Thread, c.Op))
				continue
			}
			if r.lo == 0 {
				r.lo = 1
			}
			reads = append(reads, r)
		}
		// Most favourable placement: every cached read is charged to one of the windows its call
		// interval touches; window i can take maxreads of them. Greedy by earliest deadline.
		for i := 1; i <= nWin; i++ {
			var cand []*rd
			for _, r := range reads {
				if !r.placed && r.lo <= i && i <= r.hi {
					cand = append(cand, r)
				}
			}
			sort.SliceStable(cand, func(a, b int) bool { return cand[a].hi < cand[b].hi })
			for n, r := range cand {
				if n < h.M {
					r.placed = true
				}
			}
			if len(cand) > st.MaxServedPerFetch {
				st.MaxServedPerFetch = len(cand)
			}
			var over []*rd
			for _, r := range cand {
				if !r.placed && r.hi == i {
					over = append(over, r)
				}
			}
			if len(over) == 0 {
				continue
			}
			src := okFetch[i-1]
			all := []*call{src}
			var ids []string
			for _, r := range cand {
				all = append(all, r.c)
				ids = append(ids, fmt.Sprintf("%d(%s %s)", r.c.ID, r.c.Thread, r.c.Op))
			}
			conc := false
			for x, a := range all {
				for _, b := range all[x+1:] {
					if overlap(a, b) {
						conc = true
					}
				}
			}
			k := "reuse-exceeds-maxreads:sequential-readers"
			if conc {
				k = "reuse-exceeds-maxreads:concurrent-readers-same-segment"
			}
			next := "the end of the execution"
			if i < nWin {
				next = fmt.Sprintf("the next fetch (call %d)", okFetch[i].ID)
			}
			vio("reuse", k, fmt.Sprintf("key %s maxreads=%d: between the fetch of call %d(%s %s) and %s, %d reads were served without asking the node: %s; even when every read is charged to the most favourable window its call touches, %d of them exceed the bound",
				key, h.M, src.ID, src.Thread, src.Op, next, len(cand), strings.Join(ids, ", "), len(over)))
			break
		}
	}
	_ = filters

	// ---- head: announced pairs and bounded reuse -----------------------------------
	type ann struct {
		at  int
		num uint64
		hsh []byte
	}
	var anns []ann
	seenHead := map[uint64]bool{}
	for _, e := range h.Exs {
		if e.Kind != "latest" {
			continue
		}
		st.HeadAsks++
		if e.Call < 0 {
			st.HeadAsksPoller++
		}
		if e.faulted() {
			st.FailedAsks++
			continue
		}
		anns = append(anns, ann{e.At, e.HeadNum, e.HeadHsh})
		seenHead[e.HeadNum] = true
	}
	st.DistinctHeadsSeen = len(seenHead)
	var lat []*call
	for _, c := range h.Calls {
		if !c.Op.Get && c.Ret >= 0 && c.OK && c.Panic == "" {
			lat = append(lat, c)
		}
	}
	sort.Slice(lat, func(i, j int) bool { return lat[i].Ret < lat[j].Ret })
	hits := map[string]int{}
	for _, c := range lat {
		announced, numKnown := 0, false
		for _, a := range anns {
			if a.at >= c.Ret {
				continue
			}
			if a.num == c.N {
				numKnown = true
				if bytes.Equal(a.hsh, c.H) {
					announced++
				}
			}
		}
		if announced == 0 {
			k := "head-never-announced"
			switch {
			case len(c.H) != 32:
				k = "head-hash-length"
			case numKnown:
				k = "head-pair-mismatch"
			}
			vio("head", k, fmt.Sprintf("call %d (%s %s) returned (%d, %x): the node never answered \"latest\" with this pair before the call returned", c.ID, c.Thread, c.Op, c.N, c.H))
			continue
		}
		if c.HLive != nil && !bytes.Equal(c.HLive, c.H) {
			vio("head", "head-hash-changed-after-return", fmt.Sprintf("call %d (%s %s) returned (%d, %x); the returned hash slice later read %x (it aliases the cache)", c.ID, c.Thread, c.Op, c.N, c.H, c.HLive))
		}
		asked := false
		for _, e := range c.Exs {
			if e.Kind == "latest" {
				asked = true
			}
		}
		if asked {
			continue
		}
		st.HeadHits++
		pk := fmt.Sprintf("%d/%x", c.N, c.H)
		hits[pk]++
		if hits[pk] > h.M*announced {
			vio("reuse", "reuse-exceeds-maxreads:head", fmt.Sprintf("maxreads=%d: call %d (%s %s) is cached read #%d of head %d, but the node announced that pair only %d time(s) before", h.M, c.ID, c.Thread, c.Op, hits[pk], c.N, announced))
		}
	}
	return first, st
}

func (s stats) outcome() string {
	b := func(x bool, t string) string {
		if x {
			return t
		}
		return ""
	}
	cap3 := func(n int) string {
		if n >= 3 {
			return "3+"
		}
		return fmt.Sprint(n)
	}
	return fmt.Sprintf("seg[fetch=%s cached=%s failed=%d] head[ask=%s hit=%s poll=%s failed=%d] err=%d%s%s",
		cap3(s.Fetches), cap3(s.CachedReads), s.FailedFetches, cap3(s.HeadAsks), cap3(s.HeadHits), cap3(s.HeadAsksPoller), s.FailedAsks, s.Errs,
		b(s.OverlapSameKey, " overlap"), b(s.SharedSlice, " shared"))
}
