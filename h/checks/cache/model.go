//go:build verif

package cache

import (
	"bytes"
	"encoding/hex"
	"fmt"
	"math/big"
	"strconv"
	"strings"

	"github.com/holiman/uint256"
	"github.com/indexsupply/shovel/eth"
	"github.com/indexsupply/shovel/shovel/glf"

	"verifh/simeth"
)

// ---- the static chain -----------------------------------------------------------------
//
// genesis + 6 blocks; every block has 2 transactions with 2 logs each, coming from two
// contracts (X, Y) and two event signatures (S1, S2):
//
//	tx0: log0 = X/S1   log1 = Y/S2
//	tx1: log2 = Y/S1   log3 = X/S2
//
// filter A = address X selects logs {0,3}; filter B = topic0 S1 selects logs {0,2}: the
// two filters share log 0, and each selects one log the other does not. Filter C = address Y
// selects logs {1,2}: disjoint from A (another address), sharing log 2 with B.
// The head part of the check only ever switches the node among PREFIXES of this chain,
// so the content of a block number never changes.

const (
	forkAt  = 3
	host    = "node1"
	nodeURL = "http://node1"
	nBlocks = 6
)

var (
	addrX = simeth.Addr("C08.X")
	addrY = simeth.Addr("C08.Y")
	sig1  = simeth.Word("C08.S1")
	sig2  = simeth.Word("C08.S2")

	fullChain *simeth.Chain
	prefixes  map[uint64]*simeth.Chain
	// altPrefixes: a sibling branch that forks above block forkAt — same heights, other hashes for
	// blocks forkAt+1..nBlocks ("same height, different hash" announcements). Blocks 1..forkAt,
	// the only ones Get ever requests, are identical on both branches.
	altPrefixes map[uint64]*simeth.Chain
)

func hx(b []byte) string { return "0x" + hex.EncodeToString(b) }

func buildModel() {
	if fullChain != nil {
		return
	}
	var specs []simeth.BlockSpec
	for b := 1; b <= nBlocks; b++ {
		mk := func(k int, addr, sig []byte) *simeth.Log {
			return &simeth.Log{
				Address: addr,
				Topics:  [][]byte{sig, simeth.Word(fmt.Sprintf("C08.arg/%d/%d", b, k))},
				Data:    simeth.Word(fmt.Sprintf("C08.data/%d/%d", b, k)),
			}
		}
		specs = append(specs, simeth.BlockSpec{Txs: []simeth.TxSpec{
			{Logs: []*simeth.Log{mk(0, addrX, sig1), mk(1, addrY, sig2)}},
			{Logs: []*simeth.Log{mk(2, addrY, sig1), mk(3, addrX, sig2)}},
		}})
	}
	fullChain = simeth.Build(specs, 8)
	prefixes = map[uint64]*simeth.Chain{}
	for k := uint64(1); k <= nBlocks; k++ {
		prefixes[k] = fullChain.Truncate(k)
	}
	alt := fullChain.Reorg(forkAt, specs[forkAt:], 9)
	altPrefixes = map[uint64]*simeth.Chain{}
	for k := uint64(forkAt + 1); k <= nBlocks; k++ {
		altPrefixes[k] = alt.Truncate(k)
		if string(altPrefixes[k].Head().Hash) == string(prefixes[k].Head().Hash) || string(alt.Block(forkAt).Hash) != string(fullChain.Block(forkAt).Hash) {
			panic("C08 model: sibling branch does not differ above the fork / differs below it")
		}
	}
}

// ---- filters (data plans) ----------------------------------------------------------------

type fspec struct {
	Name   string
	Fields []string
	Addrs  [][]byte // pushed-down address restriction
	Topic0 [][]byte // pushed-down topic0 restriction
	Kind   string   // segment cache the plan goes through: "b" blocks, "h" headers
	g      *glf.Filter
}

// glf returns the (immutable, shared) filter handed to the client.
func (f fspec) glf() *glf.Filter { return f.g }

func (f fspec) build() *glf.Filter {
	var as []string
	for _, a := range f.Addrs {
		as = append(as, hx(a))
	}
	var ts [][]string
	if len(f.Topic0) > 0 {
		var t0 []string
		for _, t := range f.Topic0 {
			t0 = append(t0, hx(t))
		}
		ts = [][]string{t0}
	}
	return glf.New(f.Fields, as, ts)
}

// matches is the reference eth_getLogs predicate for the two restriction forms we use.
func (f fspec) matches(l *simeth.Log) bool {
	in := func(set [][]byte, b []byte) bool {
		for _, s := range set {
			if bytes.Equal(s, b) {
				return true
			}
		}
		return false
	}
	if len(f.Addrs) > 0 && !in(f.Addrs, l.Address) {
		return false
	}
	if len(f.Topic0) > 0 && (len(l.Topics) == 0 || !in(f.Topic0, l.Topics[0])) {
		return false
	}
	return true
}

var filterCache map[string]fspec

func filterSpecs() map[string]fspec {
	if filterCache != nil {
		return filterCache
	}
	filterCache = map[string]fspec{
		"hlA": {Name: "hlA", Fields: []string{"block_time", "log_idx"}, Addrs: [][]byte{addrX}},
		"hlB": {Name: "hlB", Fields: []string{"block_time", "log_idx"}, Topic0: [][]byte{sig1}},
		"hlC": {Name: "hlC", Fields: []string{"block_time", "log_idx"}, Addrs: [][]byte{addrY}},
		"h":   {Name: "h", Fields: []string{"block_time"}},
		"blA": {Name: "blA", Fields: []string{"tx_input", "log_idx"}, Addrs: [][]byte{addrX}},
		"blB": {Name: "blB", Fields: []string{"tx_input", "log_idx"}, Topic0: [][]byte{sig1}},
		"blC": {Name: "blC", Fields: []string{"tx_input", "log_idx"}, Addrs: [][]byte{addrY}},
		"b":   {Name: "b", Fields: []string{"tx_input"}},
		"br":  {Name: "br", Fields: []string{"tx_input", "tx_status"}},
	}
	for k, f := range filterCache {
		f.g = f.build()
		switch {
		case f.g.UseBlocks:
			f.Kind = "b"
		case f.g.UseHeaders:
			f.Kind = "h"
		default:
			f.Kind = "none"
		}
		filterCache[k] = f
	}
	return filterCache
}

// ---- operations ---------------------------------------------------------------------------

// op is one call of a harness thread, written "G:<filter>:<start>:<limit>" or "L:<floor>".
type op struct {
	Get          bool
	Head         uint64 // "H:<n>": environment operation — the node announces head n, the poller's ticker fires
	Alt          bool   // "R:<n>": the same, but head n of the sibling branch (same height, other hash)
	Filt         string
	Start, Limit uint64
	Floor        uint64
}

func parseOp(s string) (op, error) {
	p := strings.Split(s, ":")
	switch {
	case len(p) == 4 && p[0] == "G":
		st, e1 := strconv.ParseUint(p[2], 10, 64)
		li, e2 := strconv.ParseUint(p[3], 10, 64)
		if _, ok := filterSpecs()[p[1]]; !ok || e1 != nil || e2 != nil || li == 0 {
			return op{}, fmt.Errorf("bad op %q", s)
		}
		return op{Get: true, Filt: p[1], Start: st, Limit: li}, nil
	case len(p) == 2 && (p[0] == "H" || p[0] == "R"):
		hd, err := strconv.ParseUint(p[1], 10, 64)
		if err != nil || hd < 1 || hd > nBlocks || (p[0] == "R" && hd <= forkAt) {
			return op{}, fmt.Errorf("bad op %q", s)
		}
		return op{Head: hd, Alt: p[0] == "R"}, nil
	case len(p) == 2 && p[0] == "L":
		fl, err := strconv.ParseUint(p[1], 10, 64)
		if err != nil {
			return op{}, fmt.Errorf("bad op %q", s)
		}
		return op{Floor: fl}, nil
	}
	return op{}, fmt.Errorf("bad op %q", s)
}

func (o op) String() string {
	if o.Get {
		return fmt.Sprintf("G:%s:%d:%d", o.Filt, o.Start, o.Limit)
	}
	if o.Head > 0 && o.Alt {
		return fmt.Sprintf("R:%d", o.Head)
	}
	if o.Head > 0 {
		return fmt.Sprintf("H:%d", o.Head)
	}
	return fmt.Sprintf("L:%d", o.Floor)
}

// ---- reference comparison of one Get result ------------------------------------------------
//
// compareGet judges the blocks a caller received against the UNCACHED REFERENCE computed
// straight from the chain model. It returns (class, text) of the first discrepancy, or "".
// What is demanded (and nothing more):
//   - exactly `limit` blocks, numbers start..start+limit-1 in order, hash / parent / time / bloom of the model
//   - plans that fetch transactions: every model tx exactly once, in index order, every fetched field equal
//   - plans that fetch receipts: every receipt field equal, all logs of the tx present
//   - every tx that is present: an index of the model, the model's tx hash, no index twice
//   - every log that is present: a log of THAT tx in the model with the model's address/topics/data,
//     no log index twice within a tx
//   - every model log that matches the CALLER's filter is present
//   - NOTHING ELSE is present ("the same … as an uncached client would"; an uncached client
//     attaches exactly what ITS OWN plan asked the node for):
//     a plan with logs (no receipts): every present log matches the caller's filter;
//     a plan without logs and receipts: no log at all;
//     a header plan: only transactions that carry at least one log of the caller's plan
//     (the uncached client creates a tx only when it attaches a log to it);
//     a plan without receipts: the receipt fields of every tx are zero.
//     What another caller (another filter, receipts) attached to ITS result of the same
//     (start, limit) segment must therefore never show up here.
func compareGet(f fspec, g *glf.Filter, start, limit uint64, blocks []eth.Block) (class, text string) {
	if uint64(len(blocks)) != limit {
		return "blocks", fmt.Sprintf("got %d blocks, want %d", len(blocks), limit)
	}
	for i := range blocks {
		gb := &blocks[i]
		m := fullChain.Block(start + uint64(i))
		if m == nil {
			return "blocks", fmt.Sprintf("block %d beyond the model", start+uint64(i))
		}
		w := fmt.Sprintf("block %d", m.Num)
		if gb.Num() != m.Num {
			return "blocks", fmt.Sprintf("%s: got number %d", w, gb.Num())
		}
		if !bytes.Equal(gb.Header.Hash, m.Hash) {
			return "blocks", fmt.Sprintf("%s: hash %x want %x", w, gb.Header.Hash, m.Hash)
		}
		if !bytes.Equal(gb.Header.Parent, m.Parent) || uint64(gb.Header.Time) != m.Time || !bytes.Equal(gb.Header.LogsBloom, m.Bloom) {
			return "blocks", fmt.Sprintf("%s: header fields differ (parent %x time %d)", w, gb.Header.Parent, gb.Header.Time)
		}
		seenTx := map[uint64]bool{}
		for j := range gb.Txs {
			gt := &gb.Txs[j]
			idx := uint64(gt.Idx)
			if idx >= uint64(len(m.Txs)) {
				return "txs", fmt.Sprintf("%s: tx index %d does not exist", w, idx)
			}
			if seenTx[idx] {
				return "txs", fmt.Sprintf("%s: tx index %d twice", w, idx)
			}
			seenTx[idx] = true
			mt := m.Txs[idx]
			wt := fmt.Sprintf("%s tx %d", w, idx)
			if !bytes.Equal(gt.PrecompHash, mt.Hash) {
				return "txs", fmt.Sprintf("%s: hash %x want %x", wt, gt.PrecompHash, mt.Hash)
			}
			if g.UseBlocks {
				if j != int(idx) {
					return "txs", fmt.Sprintf("%s: at position %d", wt, j)
				}
				if d := cmpTxFields(gt, mt); d != "" {
					return "txs", wt + ": " + d
				}
			}
			if g.UseReceipts {
				if d := cmpReceiptFields(gt, mt); d != "" {
					return "txs", wt + ": " + d
				}
			}
			if !g.UseReceipts {
				if d := cmpNoReceipt(gt); d != "" {
					return "receipt-extra", fmt.Sprintf("%s: receipt field %s is set although the caller's plan fetches no receipts", wt, d)
				}
			}
			if !g.UseBlocks && refLogs(f, g, mt) == 0 {
				return "tx-extra", fmt.Sprintf("%s is present (%d logs) on a header plan although none of its logs belongs to the caller's plan; an uncached client returns no such tx", wt, len(gt.Logs))
			}
			seenLog := map[uint64]bool{}
			for k := range gt.Logs {
				gl := &gt.Logs[k]
				li := uint64(gl.Idx)
				if seenLog[li] {
					return "log-duplicated", fmt.Sprintf("%s: log index %d twice (%d logs on the tx)", wt, li, len(gt.Logs))
				}
				seenLog[li] = true
				var ml *simeth.Log
				for _, x := range mt.Logs {
					if x.Idx == li {
						ml = x
					}
				}
				if ml == nil {
					return "log-wrong", fmt.Sprintf("%s: log index %d is not a log of this tx", wt, li)
				}
				if !g.UseReceipts && !(g.UseLogs && f.matches(ml)) {
					why := "the caller's plan fetches no logs"
					if g.UseLogs {
						why = "it does not match the caller's filter"
					}
					return "log-extra", fmt.Sprintf("%s: log index %d (address %.4x… topic0 %.4x…) is present but %s; an uncached client returns %d log(s) on this tx", wt, li, ml.Address, ml.Topics[0], why, refLogs(f, g, mt))
				}
				if !bytes.Equal(gl.Address, ml.Address) || !bytes.Equal(gl.Data, ml.Data) || len(gl.Topics) != len(ml.Topics) {
					return "log-wrong", fmt.Sprintf("%s log %d: address/data/topic count differ", wt, li)
				}
				for q := range ml.Topics {
					if !bytes.Equal(gl.Topics[q], ml.Topics[q]) {
						return "log-wrong", fmt.Sprintf("%s log %d: topic %d differs", wt, li, q)
					}
				}
			}
		}
		for _, mt := range m.Txs {
			if g.UseBlocks && !seenTx[mt.Idx] {
				return "txs", fmt.Sprintf("%s: tx %d missing", w, mt.Idx)
			}
			for _, ml := range mt.Logs {
				need := g.UseReceipts || (g.UseLogs && f.matches(ml))
				if !need {
					continue
				}
				found := false
				if seenTx[mt.Idx] {
					for j := range gb.Txs {
						if uint64(gb.Txs[j].Idx) != mt.Idx {
							continue
						}
						for k := range gb.Txs[j].Logs {
							if uint64(gb.Txs[j].Logs[k].Idx) == ml.Idx {
								found = true
							}
						}
					}
				}
				if !found {
					return "log-missing", fmt.Sprintf("%s tx %d: log %d matches the caller's filter but is missing", w, mt.Idx, ml.Idx)
				}
			}
		}
	}
	return "", ""
}

// refLogs: the number of logs of model tx mt an uncached client attaches under plan (f, g).
func refLogs(f fspec, g *glf.Filter, mt *simeth.Tx) int {
	n := 0
	for _, ml := range mt.Logs {
		if g.UseReceipts || (g.UseLogs && f.matches(ml)) {
			n++
		}
	}
	return n
}

// cmpNoReceipt: the receipt fields of a tx nobody fetched a receipt for are zero.
func cmpNoReceipt(gt *eth.Tx) string {
	switch {
	case gt.Status != 0:
		return "status"
	case gt.GasUsed != 0:
		return "gasUsed"
	case !gt.EffectiveGasPrice.IsZero():
		return "effectiveGasPrice"
	case len(gt.ContractAddress) != 0:
		return "contractAddress"
	}
	return ""
}

func u256(x *uint256.Int) *big.Int { return x.ToBig() }

func cmpTxFields(gt *eth.Tx, mt *simeth.Tx) string {
	eqI := func(a uint256.Int, b *big.Int) bool { return u256(&a).Cmp(b) == 0 }
	switch {
	case uint64(gt.Type) != uint64(mt.Type):
		return "type"
	case !eqI(gt.ChainID, mt.ChainID):
		return "chainID"
	case uint64(gt.Nonce) != mt.Nonce:
		return "nonce"
	case !eqI(gt.GasPrice, mt.GasPrice):
		return "gasPrice"
	case uint64(gt.GasLimit) != mt.Gas:
		return "gas"
	case !bytes.Equal(gt.From, mt.From):
		return "from"
	case !bytes.Equal(gt.To, mt.To):
		return "to"
	case !eqI(gt.Value, mt.Value):
		return "value"
	case !bytes.Equal(gt.Data, mt.Input):
		return "input"
	case !eqI(gt.V, mt.V), !eqI(gt.R, mt.R), !eqI(gt.S, mt.S):
		return "v/r/s"
	case !eqI(gt.MaxPriorityFeePerGas, mt.MaxPriorityFeePerGas), !eqI(gt.MaxFeePerGas, mt.MaxFeePerGas):
		return "fees"
	}
	return ""
}

func cmpReceiptFields(gt *eth.Tx, mt *simeth.Tx) string {
	switch {
	case uint64(gt.Status) != uint64(mt.Status):
		return "status"
	case uint64(gt.GasUsed) != mt.GasUsed:
		return "gasUsed"
	case u256(&gt.EffectiveGasPrice).Cmp(mt.EffectiveGasPrice) != 0:
		return "effectiveGasPrice"
	case !bytes.Equal(gt.ContractAddress, mt.ContractAddress):
		return "contractAddress"
	case uint64(gt.Type) != uint64(mt.Type), !bytes.Equal(gt.From, mt.From), !bytes.Equal(gt.To, mt.To):
		return "type/from/to"
	}
	return ""
}
