//go:build verif

package conf

import (
	"encoding/json"
	"fmt"
	"sort"
	"strings"
	"time"

	"verifh/checks"
	"verifh/fw"
)

// C15 — no configuration string reaches SQL text unless it passed the identifier check.
//
// Every string leaf of a maximal configuration tree is replaced in turn by hostile markers; the
// variant goes through the real start-up path (file) or the real dashboard handlers; the oracle
// searches every SQL text the fake Postgres received for the marker.

type c15Case struct {
	Mode   string   `json:"mode"` // base-file | base-dash | file | file-linked | dash-ig | dash-linked | dash-src | chain
	IG     int      `json:"ig,omitempty"`
	Path   []string `json:"path,omitempty"`
	Field  string   `json:"field,omitempty"` // dash-src: form field; chain: position
	Marker int      `json:"marker"`
	Form   int      `json:"form"`
	// Disabled: the integration(s) holding the substituted leaf additionally carry enabled:false (validation
	// must not depend on it: Migrate/DDL cover every file integration, the dashboard stores the submission)
	Disabled bool `json:"disabled,omitempty"`
	// Dup 1..8 (mode dash-dup): the member holding the leaf is submitted twice, under the canonical key and
	// under a case variant, hostile value in one of them (see dupVariant)
	Dup int `json:"dup,omitempty"`
}

func init() {
	checks.Register(&checks.Check{
		ID:        "C15",
		Level:     "exploration",
		Technique: "exhaustive single-position substitution of hostile markers into every string leaf of a maximal configuration tree (file start-up path and real dashboard handlers) and into chain data, each variant executed through the real pipeline against the fake Postgres; oracle = marker search over every SQL text received",
		Rule: "maximal configuration (3 sources, 3 integrations: log with user unique/index/notification, log with nested components carrying column/filter/filter_ref under every container kind — inputs of type tuple, tuple[] and tuple[2], and two levels deep tuple>tuple, tuple>tuple[], tuple[]>tuple; the indexed logs carry 1..2 elements in every array so that each component's reference look-up is issued —, trace on a shared table); every string leaf (incl. strings in arrays) x 9 markers (' \" ; ) ( -- $$ \\ .) as the whole value, and with the metacharacter as FIRST character, as LAST character and alone on identifier-like leaves [thorough: on all leaves, plus suffix/prefix of the benign value]; every substitution inside an integration also with that integration enabled:false; dashboard documents that carry the member of an identifier-like leaf TWICE (canonical key and a Capitalised / UPPER case variant, hostile value in either, either order: 8 variants) followed by the reload of the stored row (Restart -> config.Integrations -> tasks); unique/index entries additionally as \"<column> <marker>\" and \"<column> desc <marker>\" (only ASC/DESC may follow the single space); " +
			"FILE: decode -> ValidateFix -> Schema+Migrate -> loadTasks -> 5 rounds of one Converge per task with a reorg of block 2 -> PruneTask; DASHBOARD: every string leaf of each integration as submitted to web.Handler.SaveIntegration (others pre-stored) and every form value of SaveSource -> Manager.Restart -> runner threads to stop=3 with the same reorg; " +
			"HISTORY: a sources-only configuration file (zero integrations) with every source string leaf substituted is the start-up file, the integrations referencing those sources are submitted / already stored, then Restart -> loadTasks -> NewTask; CHAIN: 11 chain-data positions x (9 markers + 3 injection strings such as `x'); delete …; --`) on the benign configuration, whose notifications cover byte, numeric and string-valued columns (ABI string input, trace call type); a marker in the TEXT of any statement sent is the violation, whether or not the fake can execute the statement. Position classes name the container kinds (component. / component[]. / component[2]., nested: component[].component.). The benign executions must fill the column of every component (else harness error). A case is non-trivial when the variant was rejected by validation or accepted and executed; distinct = distinct (mode, position, marker, form).",
		Assumptions: []string{
			"fake Postgres (h/simpg) records every simple-Query and Parse text; values travelling as Bind parameters or COPY data are not SQL text",
			"a space is not a hostile character (documented \"col DESC\" index syntax); '.' is (schema qualification)",
			"dashboard integrations are submitted in the form the validated configuration has (identity columns/fields present, top-level filter_ref.table filled in): shovel applies neither AddRequiredFields nor ValidateFilterRefs to stored integrations, so a working submission must carry them; the tables were created beforehand (the dashboard never migrates)",
			"variants whose source URL does not parse end the real process (jrpc2.MustURL → os.Exit) before any hostile SQL; they are classified exit:url-parse without execution",
			"a bare metacharacter cannot be searched for in SQL (every statement has quotes and parentheses) and a disabled dashboard submission issues no SQL of its own: both are judged by consistency — accepted although the identifier check rejects the same substitution as a whole marker / in an enabled integration = check bypassed",
			"the fake Postgres normalises jsonb like PostgreSQL (duplicate keys: last wins; keys ordered by length, then bytes), so what is read back from shovel.integrations is what a real database would return",
			"sequential executions (one controlled thread at a time, no preemption): the property is about SQL text, not interleavings",
			"panics of the code under test provoked by a variant (e.g. a dashboard submission with a column on a tuple input, or filter_ref.integration on a numeric field without filter_arg) are not SQL text: they are recorded as outcomes observed-panic:<path>:<position> and never judged by this check",
		},
		Budget:        map[string]time.Duration{"quick": 110 * time.Second, "thorough": 850 * time.Second},
		MinNontrivial: 1000,
		Inst:          true,
		Run:           c15Run,
		Replay:        c15Replay,
	})
}

func c15Jobs(thorough bool) ([]c15Case, error) {
	if err := c15PrepareBenign(); err != nil {
		return nil, err
	}
	jobs := []c15Case{{Mode: "base-file"}, {Mode: "base-dash", IG: 0}, {Mode: "base-dash", IG: 1}, {Mode: "base-dash", IG: 2}, {Mode: "base-dash", IG: -1}}
	// formsFor: whole always; suffix/prefix in thorough; the two space forms on unique/index entries; the
	// metacharacter first / last / alone on identifier-like leaves (thorough: on every leaf)
	formsFor := func(path []string, val string) []int {
		fs := []int{0}
		if thorough && val != "" {
			fs = append(fs, 1, 2)
		}
		if path != nil && c15SpaceForm(path) {
			fs = append(fs, 3, 4)
		}
		if thorough || path == nil || c15IdentifierLike(path) {
			fs = append(fs, 5, 6, 7)
		}
		return fs
	}
	var ls []leaf
	stringLeaves(c15Base(), nil, &ls)
	for _, l := range ls {
		inIG := len(l.Path) > 0 && l.Path[0] == "integrations"
		for m := range c15Markers {
			for _, f := range formsFor(l.Path, l.Val) {
				jobs = append(jobs, c15Case{Mode: "file", Path: l.Path, Marker: m, Form: f})
				if inIG && (f == 0 || (thorough && f == 5)) && (thorough || c15IdentifierLike(l.Path)) {
					jobs = append(jobs, c15Case{Mode: "file", Path: l.Path, Marker: m, Form: f, Disabled: true})
				}
			}
		}
	}
	for _, g := range linkGroups(c15Base()) {
		for m := range c15Markers {
			for _, f := range formsFor(nil, g.Value) {
				jobs = append(jobs, c15Case{Mode: "file-linked", Field: g.Value, Marker: m, Form: f})
				if f == 0 && g.Kind != "source.name" {
					jobs = append(jobs, c15Case{Mode: "file-linked", Field: g.Value, Marker: m, Form: f, Disabled: true})
				}
			}
		}
	}
	for k, tree := range c15Benign.igTrees {
		for _, g := range linkGroups(tree) {
			for m := range c15Markers {
				for _, f := range formsFor(nil, g.Value) {
					jobs = append(jobs, c15Case{Mode: "dash-linked", IG: k, Field: g.Value, Marker: m, Form: f})
					if f == 0 {
						jobs = append(jobs, c15Case{Mode: "dash-linked", IG: k, Field: g.Value, Marker: m, Form: f, Disabled: true})
					}
				}
			}
		}
		var ils []leaf
		stringLeaves(tree, nil, &ils)
		for _, l := range ils {
			for m := range c15Markers {
				// duplicate / case-variant keys: identifier-like leaves with two markers (thorough: all
				// markers; every other leaf with one marker)
				idl := c15IdentifierLike(l.Path)
				if (idl && (thorough || m == 0 || m == 8)) || (!idl && thorough && m == 0) {
					for d := 1; d <= 8; d++ {
						if _, _, ok := dupVariant(tree, l.Path, "x", d); ok {
							jobs = append(jobs, c15Case{Mode: "dash-dup", IG: k, Path: l.Path, Marker: m, Dup: d})
						}
					}
				}
				for _, f := range formsFor(l.Path, l.Val) {
					jobs = append(jobs, c15Case{Mode: "dash-ig", IG: k, Path: l.Path, Marker: m, Form: f})
					if (f == 0 || (thorough && f == 5)) && (thorough || c15IdentifierLike(l.Path)) {
						jobs = append(jobs, c15Case{Mode: "dash-ig", IG: k, Path: l.Path, Marker: m, Form: f, Disabled: true})
					}
				}
			}
		}
	}
	// HISTORY: a sources-only configuration FILE (no integrations) with a hostile string at a source position is
	// the start-up configuration; the integrations that reference those sources arrive through the dashboard /
	// are already stored; then Restart -> loadTasks -> NewTask
	{
		so := M{"eth_sources": c15Base()["eth_sources"]}
		var sls []leaf
		stringLeaves(so, nil, &sls)
		for _, l := range sls {
			for m := range c15Markers {
				for _, f := range formsFor(l.Path, l.Val) {
					jobs = append(jobs, c15Case{Mode: "dash-srcfile", Path: l.Path, Marker: m, Form: f})
				}
			}
		}
	}
	for _, field := range []string{"name", "chainID", "ethURL"} {
		for m := range c15Markers {
			for _, f := range formsFor(nil, "x") {
				jobs = append(jobs, c15Case{Mode: "dash-src", Field: field, Marker: m, Form: f})
			}
		}
	}
	for _, pos := range c15ChainPositions {
		for m := 0; m < len(c15Markers)+len(c15ChainExtra); m++ {
			if m >= len(c15Markers) && !(pos == "data.memo" || pos == "data.extra" || pos == "tx.input" || pos == "trace.call_type") {
				continue // the long strings do not fit into a 20-byte address
			}
			jobs = append(jobs, c15Case{Mode: "chain", Field: pos, Marker: m})
		}
	}
	// the bare double hyphen conforms to the stated restriction and cannot be traced in SQL: not enumerated
	kept := jobs[:0]
	for _, j := range jobs {
		if !(j.Form == 7 && c15HyphenOnly(j.Marker)) {
			kept = append(kept, j)
		}
	}
	return kept, nil
}

var c15BenignChains *c15Chains

func benignChains() c15Chains {
	if c15BenignChains == nil {
		c := c15BuildChains(nil)
		c15BenignChains = &c
	}
	return *c15BenignChains
}

var c15SrcForm = map[string]string{"name": "dsrc", "chainID": "10", "ethURL": "http://node2"}

// c15Exec executes one case and returns its result, position class and a description of the variant.
// Two families are additionally judged by CONSISTENCY of the identifier check (the SQL search cannot see a
// bare metacharacter, and a disabled integration submitted through the dashboard issues no SQL by itself):
// when the variant was accepted although the same substitution as a whole marker / in an enabled
// integration is rejected by the identifier check, the check was bypassed.
func c15Exec(k c15Case) (res c15Res, pos string, variant string) {
	res, pos, variant = c15ExecOne(k, false)
	if k.Form == 7 && strings.Contains(res.harness, "unsupported SQL") {
		// an accepted bare metacharacter made a statement the fake cannot parse: it was accepted, which is
		// all the consistency judgement needs
		res.harness, res.outcome = "", "accepted-param:unparseable-sql"
	}
	if (k.Form == 7 || k.Disabled) && strings.HasPrefix(res.outcome, "accepted-param") && !c15HyphenOnly(k.Marker) {
		ck := k
		how := "the bare metacharacter"
		if k.Disabled {
			ck.Disabled, how = false, "enabled:false"
		} else {
			ck.Form = 0
		}
		if r2, _, v2 := c15ExecOne(ck, true); r2.outcome == "rejected:identifier-check" {
			res.outcome = "BYPASS"
			res.detail = fmt.Sprintf("accepted with %s, although the identifier check rejects the counterpart (%s): %s", how, v2, r2.detail)
		}
	}
	return
}

// disableAt sets enabled:false on the integration of a file tree that holds path.
func disableAt(tree any, path []string) {
	if len(path) >= 2 && path[0] == "integrations" {
		if ig, ok := getAt(tree, path[:2]); ok {
			ig.(map[string]any)["enabled"] = false
		}
	}
}

func c15ExecOne(k c15Case, probe bool) (res c15Res, pos string, variant string) {
	var needles []string
	if k.Mode != "chain" {
		needles = c15NeedlesFor(k.Marker, k.Form)
	}
	dis := ""
	if k.Disabled {
		dis = "disabled:"
	}
	switch k.Mode {
	case "base-file":
		return c15FileExec(toJSON(c15Base()), benignChains(), nil, false), "base", "benign configuration"
	case "base-dash":
		if err := c15PrepareBenign(); err != nil {
			return c15Res{harness: err.Error()}, "base", ""
		}
		if k.IG < 0 {
			return c15DashExec(dashReq{Kind: "source", Form: c15SrcForm, SrcRef: "dsrc"}, benignChains(), nil), "base", "benign SaveSource"
		}
		return c15DashExec(dashReq{Kind: "integration", IG: k.IG, Body: toJSON(c15Benign.igTrees[k.IG])}, benignChains(), nil), "base", "benign SaveIntegration"
	case "file":
		tree := cloneTree(c15Base())
		old, ok := getAt(tree, k.Path)
		s, isStr := old.(string)
		if !ok || !isStr {
			return c15Res{harness: fmt.Sprintf("no string leaf at %v", k.Path)}, "", ""
		}
		v := c15Variant(s, k.Marker, k.Form)
		setAt(tree, k.Path, v)
		if k.Disabled {
			disableAt(tree, k.Path)
		}
		pos, variant = dis+c15Pos(c15Base(), k.Path), fmt.Sprintf("file configuration with %s%s = %s (was %q)", strings.Replace(dis, ":", " integration, ", 1), strings.Join(k.Path, "."), toJSON(v), s)
		if strings.HasPrefix(v, "$") && c15EnvPosition(posClass(k.Path)) {
			return c15Res{outcome: "exit:env-placeholder"}, pos, variant
		}
		return c15FileExec(toJSON(tree), benignChains(), needles, probe), pos, variant
	case "file-linked", "dash-linked":
		if err := c15PrepareBenign(); err != nil {
			return c15Res{harness: err.Error()}, "", ""
		}
		var tree any = cloneTree(c15Base())
		if k.Mode == "dash-linked" {
			tree = cloneTree(c15Benign.igTrees[k.IG])
		}
		var grp *linkGroup
		for _, g := range linkGroups(tree) {
			if g.Value == k.Field {
				g := g
				grp = &g
			}
		}
		if grp == nil {
			return c15Res{harness: fmt.Sprintf("no link group for value %q", k.Field)}, "", ""
		}
		v := c15Variant(k.Field, k.Marker, k.Form)
		for _, p := range grp.Paths {
			setAt(tree, p, v)
			if k.Disabled && k.Mode == "file-linked" {
				disableAt(tree, p)
			}
		}
		if k.Disabled && k.Mode == "dash-linked" {
			tree.(map[string]any)["enabled"] = false
		}
		pos = dis + "linked:" + grp.Kind
		if strings.HasPrefix(v, "$") && c15EnvPosition("linked:"+grp.Kind) {
			return c15Res{outcome: "exit:env-placeholder"}, pos, ""
		}
		if k.Mode == "file-linked" {
			return c15FileExec(toJSON(tree), benignChains(), needles, probe), pos,
				fmt.Sprintf("file configuration with %sthe identifier %q renamed to %s at all %d places that hold it (%s)", strings.Replace(dis, ":", " integration(s), ", 1), k.Field, toJSON(v), len(grp.Paths), grp.Kind)
		}
		return c15DashExec(dashReq{Kind: "integration", IG: k.IG, Body: toJSON(tree), Probe: probe}, benignChains(), needles), pos,
			fmt.Sprintf("POST /save-integration of %s%s with the identifier %q renamed to %s at all %d places that hold it (%s)", strings.Replace(dis, ":", " ", 1), c15Benign.conf.Integrations[k.IG].Name, k.Field, toJSON(v), len(grp.Paths), grp.Kind)
	case "dash-ig":
		if err := c15PrepareBenign(); err != nil {
			return c15Res{harness: err.Error()}, "", ""
		}
		tree := cloneTree(c15Benign.igTrees[k.IG]).(map[string]any)
		old, ok := getAt(tree, k.Path)
		s, isStr := old.(string)
		if !ok || !isStr {
			return c15Res{harness: fmt.Sprintf("no string leaf at %v", k.Path)}, "", ""
		}
		v := c15Variant(s, k.Marker, k.Form)
		setAt(tree, k.Path, v)
		if k.Disabled {
			tree["enabled"] = false
		}
		pos, variant = dis+c15Pos(c15Benign.igTrees[k.IG], k.Path), fmt.Sprintf("POST /save-integration of %s%s with %s = %s (was %q)", strings.Replace(dis, ":", " ", 1), c15Benign.conf.Integrations[k.IG].Name, strings.Join(k.Path, "."), toJSON(v), s)
		if strings.HasPrefix(v, "$") && c15EnvPosition(posClass(k.Path)) {
			return c15Res{outcome: "exit:env-placeholder"}, pos, variant
		}
		return c15DashExec(dashReq{Kind: "integration", IG: k.IG, Body: toJSON(tree), Probe: probe}, benignChains(), needles), pos, variant
	case "dash-srcfile":
		if err := c15PrepareBenign(); err != nil {
			return c15Res{harness: err.Error()}, "", ""
		}
		tree := cloneTree(c15Base()).(map[string]any)
		tree["integrations"] = L{}
		old, ok := getAt(tree, k.Path)
		s, isStr := old.(string)
		if !ok || !isStr {
			return c15Res{harness: fmt.Sprintf("no string leaf at %v", k.Path)}, "", ""
		}
		v := c15Variant(s, k.Marker, k.Form)
		setAt(tree, k.Path, v)
		pc := posClass(k.Path)
		pos, variant = "sources-only-file:"+pc, fmt.Sprintf("configuration FILE without integrations and %s = %s (was %q); a_refd (referencing that source) submitted through /save-integration, the other integrations already stored; then Restart", strings.Join(k.Path, "."), toJSON(v), s)
		if strings.HasPrefix(v, "$") {
			return c15Res{outcome: "exit:env-placeholder"}, pos, variant
		}
		rq := dashReq{Kind: "integration", IG: 0, FileConf: toJSON(tree), Probe: probe}
		body := toJSON(c15Benign.igTrees[0])
		if pc == "source.name" {
			rq.RenameSrc = [2]string{s, v}
			bt := cloneTree(c15Benign.igTrees[0]).(map[string]any)
			for _, r := range bt["sources"].([]any) {
				if r.(map[string]any)["name"] == s {
					r.(map[string]any)["name"] = v
				}
			}
			body = toJSON(bt)
		}
		rq.Body = body
		return c15DashExec(rq, benignChains(), needles), pos, variant
	case "dash-dup":
		if err := c15PrepareBenign(); err != nil {
			return c15Res{harness: err.Error()}, "", ""
		}
		v := c15Variant("", k.Marker, 0)
		doc, desc, ok := dupVariant(c15Benign.igTrees[k.IG], k.Path, v, k.Dup)
		if !ok {
			return c15Res{harness: fmt.Sprintf("no duplicate-key variant %d at %v", k.Dup, k.Path)}, "", ""
		}
		return c15DashExec(dashReq{Kind: "integration", IG: k.IG, Body: toJSON(doc), Probe: probe}, benignChains(), needles), "dupkey:" + c15Pos(c15Benign.igTrees[k.IG], k.Path),
			fmt.Sprintf("POST /save-integration of %s with %s = %s — %s", c15Benign.conf.Integrations[k.IG].Name, strings.Join(k.Path, "."), toJSON(v), desc)
	case "dash-src":
		form := map[string]string{}
		for f, v := range c15SrcForm {
			form[f] = v
		}
		form[k.Field] = c15Variant(form[k.Field], k.Marker, k.Form)
		ref := form["name"]
		if strings.HasPrefix(ref, "$") {
			ref = "dsrc" // a stored source reference "$…" would be read as an environment placeholder (wos.EnvString) and end the process
		}
		return c15DashExec(dashReq{Kind: "source", Form: form, SrcRef: ref, Probe: probe}, benignChains(), needles), "saveSource." + k.Field,
			fmt.Sprintf("POST /save-source with %s = %q", k.Field, form[k.Field])
	case "chain":
		h := &chainHostile{Pos: k.Field, Marker: c15ChainString(k.Marker)}
		return c15FileExec(toJSON(c15Base()), c15BuildChains(h), []string{c15ChainString(k.Marker)}, false), k.Field,
			fmt.Sprintf("benign configuration (notifications on byte, numeric and string columns), chain data %s carries %q", k.Field, c15ChainString(k.Marker))
	}
	return c15Res{harness: "unknown mode " + k.Mode}, "", ""
}

func modeTag(mode string) string {
	switch mode {
	case "dash-ig", "dash-src", "dash-linked", "dash-dup", "dash-srcfile":
		return "dashboard"
	case "file-linked":
		return "file"
	}
	return mode
}

// c15BaseOK checks that the benign executions exercise every splice site (non-vacuity of the design).
func c15BaseOK(k c15Case, r c15Res) string {
	if r.outcome != "accepted-param:ran" {
		return fmt.Sprintf("benign %s did not run cleanly: outcome %q detail %q errs %v", k.Mode, r.outcome, r.detail, r.stepErrs)
	}
	want := []string{"src1/a_refd", "src1/b_tuple", "src2/a_refd", "src2/c_trace"}
	if k.Mode == "base-dash" && k.IG < 0 {
		want = append(want, "dsrc/a_refd")
	}
	for _, t := range want {
		if r.cursors[t] != 3 {
			return fmt.Sprintf("benign %s: cursor of %s is %d, want 3 (cursors %v)", k.Mode, t, r.cursors[t], r.cursors)
		}
	}
	// every component bound to a column (under whatever container: tuple, tuple[], tuple[k], two levels deep)
	// was decoded from at least one log element and went through its filter: its column holds a value
	var bl []leaf
	stringLeaves(c15Base(), nil, &bl)
	for _, l := range bl {
		if c15Flat(posClass(l.Path)) == "component.column" && !r.filled["tb."+l.Val] {
			return fmt.Sprintf("benign %s: no row of tb carries a value in %s (%s): the component is never processed", k.Mode, l.Val, c15Pos(c15Base(), l.Path))
		}
	}
	if r.rows["ta"] == 0 || r.rows["tb"] == 0 || r.lookups < 3 || r.notifs < 2 || r.deletes < 2 || r.copies < 2 {
		return fmt.Sprintf("benign %s exercises too little: rows %v lookups %d notify %d deletes %d copies %d", k.Mode, r.rows, r.lookups, r.notifs, r.deletes, r.copies)
	}
	return ""
}

func c15Report(c *fw.Ctx, k c15Case, r c15Res, pos, variant string) {
	mode := modeTag(k.Mode)
	if r.harness != "" && r.outcome != "LEAK" {
		c.HarnessError("case %+v (%s): %s", k, variant, r.harness)
		return
	}
	if strings.HasPrefix(k.Mode, "base") {
		if msg := c15BaseOK(k, r); msg != "" {
			c.HarnessError("%s", msg)
			return
		}
		c.Eval(true)
		c.Outcome("base:" + r.outcome)
		c.Count("base_rows_ta", int64(r.rows["ta"]))
		c.Count("base_rows_tb", int64(r.rows["tb"]))
		c.Count("base_ref_lookup_texts", int64(r.lookups))
		c.Count("base_notify_texts", int64(r.notifs))
		c.Count("base_delete_texts", int64(r.deletes))
		c.Sample(map[string]any{"case": k, "outcome": r.outcome, "rows": r.rows, "cursors": r.cursors, "sql_texts": r.sqlCount})
		return
	}
	if r.outcome == "LEAK" && c15HyphenOnly(k.Marker) && k.Mode != "chain" {
		// conforms to the stated restriction (hyphen allowed): recorded, not judged
		r.outcome = "spliced:hyphens-only-value"
	}
	if k.Mode == "chain" && r.outcome == "accepted-param:ran" && !r.stored {
		c.HarnessError("chain case %+v: the hostile chain value reached no stored row (vacuous)", k)
		return
	}
	c.Eval(!strings.HasPrefix(r.outcome, "exit:"))
	if r.panicked != "" && r.outcome != "LEAK" {
		// C15 is about SQL text only: a crash of the code under test on a hostile or structurally odd
		// submission is recorded as an observation (outcome + counter + sample), never judged here.
		c.Outcome("observed-panic:" + mode + ":" + pos)
		c.Count("observed_panics", 1)
		if c.Res.Counters["observed_panics"] <= 2 {
			c.Sample(map[string]any{"observed": "panic of the code under test (not judged by C15)", "case": k, "variant": variant, "panic": firstLines(r.panicked, 6)})
		}
		return
	}
	c.Outcome(mode + ":" + r.outcome)
	short := r.outcome
	if i := strings.Index(short, ":"); i > 0 && strings.HasPrefix(short, "accepted-param") {
		short = "accepted-param"
	}
	if r.stored && short == "accepted-param" {
		c.Count("values_found_in_rows_as_data", 1)
	}
	c.Count("pos|"+mode+"|"+pos+"|"+short, 1)
	c.Count("sql_texts_scanned", int64(r.sqlCount))
	if k.Mode == "chain" {
		c.Count("chain_rows", int64(r.rows["ta"]+r.rows["tb"]))
	}
	if r.outcome == "BYPASS" {
		how := "disabled"
		if k.Form == 7 {
			how = "bare-metacharacter"
		}
		c.Violation("C15", "check-bypassed", "identifier-check-bypassed:"+how+":"+mode+":"+strings.TrimPrefix(pos, "disabled:"),
			fmt.Sprintf("%s\n%s", variant, r.detail), k)
	}
	if r.outcome == "LEAK" {
		c.Violation("C15", "sql-splice", "sql-splice:"+mode+":"+pos,
			fmt.Sprintf("%s\nwas accepted by validation and the hostile text reached SQL (%s phase):\n  %s", variant, r.where, strings.TrimSpace(r.leak)), k)
	}
	if c.Res.Evaluations%397 == 5 {
		c.Sample(map[string]any{"case": k, "position": pos, "outcome": r.outcome, "detail": r.detail})
	}
}

func firstLines(s string, n int) string {
	l := strings.Split(s, "\n")
	if len(l) > n {
		l = l[:n]
	}
	return strings.Join(l, "\n")
}

func c15Run(c *fw.Ctx) {
	jobs, err := c15Jobs(c.Thorough())
	if err != nil {
		c.HarnessError("prepare: %v", err)
		return
	}
	c.Bound("cases", len(jobs))
	c.Bound("markers", len(c15Markers))
	c.Bound("forms", "whole; metacharacter first/last/alone on identifier-like leaves (thorough: all leaves); unique/index: after-space, after-direction; thorough: suffix, prefix")
	c.Bound("disabled_integration_dimension", "whole marker on identifier-like leaves inside an integration (thorough: all leaves, also metacharacter-first)")
	var ls []leaf
	stringLeaves(c15Base(), nil, &ls)
	c.Bound("file_string_leaves", len(ls))
	nd := 0
	pcs := map[string]bool{}
	for _, l := range ls {
		pcs["file:"+c15Pos(c15Base(), l.Path)] = true
	}
	for _, t := range c15Benign.igTrees {
		var ils []leaf
		stringLeaves(t, nil, &ils)
		nd += len(ils)
		for _, l := range ils {
			pcs["dashboard:"+c15Pos(t, l.Path)] = true
		}
	}
	c.Bound("dashboard_string_leaves", nd)
	c.Bound("position_classes", len(pcs))
	c.Bound("chain_positions", len(c15ChainPositions))
	for _, k := range jobs {
		if !c.Mine() {
			continue
		}
		if c.Expired() {
			return
		}
		r, pos, variant := c15Exec(k)
		c15Report(c, k, r, pos, variant)
		if c.Res.HarnessErr != "" {
			return
		}
	}
}

func c15Replay(c *fw.Ctx, raw json.RawMessage) {
	var k c15Case
	if err := json.Unmarshal(raw, &k); err != nil {
		c.HarnessError("bad case: %v", err)
		return
	}
	r, pos, variant := c15Exec(k)
	c15Report(c, k, r, pos, variant)
}

var _ = sort.Strings
