//go:build verif

package conf

import (
	"bytes"
	"encoding/hex"
	"encoding/json"
	"fmt"
	"math/big"
	"sort"
	"strconv"
	"strings"

	"verifh/ref"
	"verifh/simeth"
	"verifh/world"
)

// ---- the MAXIMAL configuration (C15) ------------------------------------------------------
//
// Two used sources (+ one unused that carries ws_url / urls), three integrations:
//   a_refd  : log event, indexed + non-indexed scalars, block fields with filter_arg, notification
//             columns, user-supplied unique and index lists; referenced by b_tuple
//   b_tuple : log event with a nested tuple input whose components carry column, filter_op/arg and
//             filter_ref; top-level input and block field with filter_ref; notification; shares
//             table tb with c_trace. Components with column + filter_ref sit under every container kind:
//             tuple, tuple[] and tuple[2] inputs at the first level, and at the second level under
//             tuple>tuple, tuple>tuple[] and tuple[]>tuple; the logs carry >= 1 element in every array
//   c_trace : trace integration on the shared table, disable_unique, string filter
// Every optional string member the decoder knows is present, so that the leaf walk visits it.

type M = map[string]any
type L = []any

var (
	c15AddrA = simeth.Addr("c15-contract-A")
	c15AddrB = simeth.Addr("c15-contract-B")
)

func hx(b []byte) string { return "0x" + hex.EncodeToString(b) }

func c15Base() M {
	igA := M{
		"name": "a_refd", "enabled": true,
		"sources": L{M{"name": "src1", "start": "1"}, M{"name": "src2", "start": 1}},
		"table": M{
			"name": "ta",
			"columns": L{
				M{"name": "f", "type": "bytea"}, M{"name": "t", "type": "bytea"}, M{"name": "v", "type": "numeric"},
				M{"name": "log_addr", "type": "bytea"}, M{"name": "block_time", "type": "numeric"}, M{"name": "tx_hash", "type": "bytea"},
				M{"name": "note", "type": "text"}, // referenced by nothing: its name and type reach the DDL without any cross-check
			},
			"unique":         L{L{"ig_name", "src_name", "block_num", "tx_idx", "log_idx", "abi_idx"}},
			"index":          L{L{"f"}, L{"t", "v desc"}},
			"disable_unique": false,
		},
		"filter_agg":   "and",
		"notification": M{"columns": L{"f", "v", "block_time"}},
		"compiled":     M{"name": ""},
		"block": L{
			M{"name": "log_addr", "column": "log_addr", "filter_op": "contains", "filter_arg": L{hx(c15AddrA), hx(c15AddrB)}},
			M{"name": "block_time", "column": "block_time"},
			M{"name": "tx_hash", "column": "tx_hash"},
		},
		"event": M{"name": "Transfer", "type": "event", "anonymous": false, "inputs": L{
			M{"indexed": true, "name": "from", "type": "address", "column": "f"},
			M{"indexed": true, "name": "to", "type": "address", "column": "t"},
			M{"indexed": false, "name": "value", "type": "uint256", "column": "v", "filter_op": "gt", "filter_arg": L{"0"}},
		}},
	}
	igB := M{
		"name": "b_tuple", "enabled": true,
		"sources": L{M{"name": "src1", "start": 1}},
		"table": M{
			"name": "tb",
			"columns": L{
				M{"name": "maker", "type": "bytea"}, M{"name": "token", "type": "bytea"}, M{"name": "amount", "type": "numeric"},
				M{"name": "memo", "type": "text"}, M{"name": "extra", "type": "bytea"}, M{"name": "log_addr", "type": "bytea"}, M{"name": "tx_to", "type": "bytea"},
				// one column per component that sits under an array-of-tuples input or two containers deep
				M{"name": "s_tok", "type": "bytea"}, M{"name": "ss_tok", "type": "bytea"},
				M{"name": "i_tok", "type": "bytea"}, M{"name": "i_who", "type": "bytea"}, M{"name": "p_tok", "type": "bytea"},
			},
		},
		"filter_agg":   "or",
		"notification": M{"columns": L{"memo"}},
		"compiled":     M{"name": ""},
		"Dependencies": L{"a_refd"},
		"block": L{
			M{"name": "log_addr", "column": "log_addr", "filter_op": "contains", "filter_ref": M{"integration": "a_refd", "table": "ta", "column": "log_addr"}},
			M{"name": "tx_to", "column": "tx_to"},
		},
		"event": M{"name": "Order", "type": "event", "anonymous": false, "inputs": L{
			M{"indexed": true, "name": "maker", "type": "address", "column": "maker", "filter_op": "contains",
				"filter_ref": M{"integration": "a_refd", "table": "ta", "column": "t"}},
			M{"indexed": false, "name": "item", "type": "tuple", "components": L{
				M{"name": "token", "type": "address", "column": "token", "filter_op": "contains",
					"filter_ref": M{"integration": "a_refd", "table": "ta", "column": "f"}},
				M{"name": "amount", "type": "uint256", "column": "amount", "filter_op": "gt", "filter_arg": L{"1"}},
				M{"name": "memo", "type": "string", "column": "memo", "filter_op": "!contains", "filter_arg": L{"never"}},
				// second level under a plain tuple: a tuple and an array of tuples
				M{"name": "sub", "type": "tuple", "components": L{c15RefComp("stoken", "s_tok", "f")}},
				M{"name": "subs", "type": "tuple[]", "components": L{c15RefComp("sstoken", "ss_tok", "t")}},
			}},
			// arrays of tuples at the first level: tuple[] (with a plain tuple at the second level) and tuple[k]
			M{"indexed": false, "name": "items", "type": "tuple[]", "components": L{
				c15RefComp("itoken", "i_tok", "f"),
				M{"name": "iin", "type": "tuple", "components": L{c15RefComp("iwho", "i_who", "t")}},
			}},
			M{"indexed": false, "name": "pair", "type": "tuple[2]", "components": L{c15RefComp("ptoken", "p_tok", "log_addr")}},
			M{"indexed": false, "name": "extra", "type": "bytes", "column": "extra"},
		}},
	}
	igC := M{
		"name": "c_trace", "enabled": true,
		"sources": L{M{"name": "src2", "start": 1}},
		"table": M{
			"name": "tb",
			"columns": L{
				M{"name": "tfrom", "type": "bytea"}, M{"name": "tct", "type": "text"}, M{"name": "tx_input", "type": "bytea"}, M{"name": "tval", "type": "numeric"},
			},
			"disable_unique": true,
		},
		"filter_agg":   "or",
		"notification": M{"columns": L{"tct", "tval"}}, // a string-valued chain value (call type) in the payload
		"compiled":     M{"name": ""},
		"block": L{
			M{"name": "trace_action_from", "column": "tfrom"},
			M{"name": "trace_action_call_type", "column": "tct", "filter_op": "ne", "filter_arg": L{"create"}},
			M{"name": "tx_input", "column": "tx_input"},
			M{"name": "trace_action_value", "column": "tval"},
		},
	}
	return M{
		"pg_url":    "postgres:///sim",
		"dashboard": M{"root_password": "pw", "enable_loopback_authn": false, "disable_authn": false},
		"eth_sources": L{
			M{"name": "src1", "chain_id": 7, "url": "http://node1", "batch_size": 1, "concurrency": 1, "poll_duration": "1s"},
			M{"name": "src2", "chain_id": "8", "urls": L{"http://node2"}, "batch_size": "1", "concurrency": 1},
			M{"name": "src3", "chain_id": 9, "url": "http://node3", "ws_url": "ws://node3/ws"},
		},
		"integrations": L{igA, igB, igC},
	}
}

// c15RefComp: an address component bound to a column and filtered by a reference into a_refd's table (the
// component carries table and column itself: ValidateFilterRefs only fills in top-level inputs).
func c15RefComp(name, column, refcol string) M {
	return M{"name": name, "type": "address", "column": column, "filter_op": "contains",
		"filter_ref": M{"integration": "a_refd", "table": "ta", "column": refcol}}
}

// ---- generic JSON tree helpers ----------------------------------------------------------------

func toJSON(v any) string {
	var buf bytes.Buffer
	enc := json.NewEncoder(&buf)
	enc.SetEscapeHTML(false)
	if err := enc.Encode(v); err != nil {
		panic(err)
	}
	return strings.TrimSpace(buf.String())
}

func cloneTree(v any) any {
	switch x := v.(type) {
	case map[string]any:
		m := make(map[string]any, len(x))
		for k, e := range x {
			m[k] = cloneTree(e)
		}
		return m
	case []any:
		l := make([]any, len(x))
		for i, e := range x {
			l[i] = cloneTree(e)
		}
		return l
	}
	return v
}

type leaf struct {
	Path []string // object keys and decimal array indices
	Val  string
}

// stringLeaves lists every string-valued leaf (also inside arrays) in a deterministic order.
func stringLeaves(v any, path []string, out *[]leaf) {
	switch x := v.(type) {
	case map[string]any:
		keys := make([]string, 0, len(x))
		for k := range x {
			keys = append(keys, k)
		}
		sort.Strings(keys)
		for _, k := range keys {
			stringLeaves(x[k], append(append([]string{}, path...), k), out)
		}
	case []any:
		for i, e := range x {
			stringLeaves(e, append(append([]string{}, path...), strconv.Itoa(i)), out)
		}
	case string:
		*out = append(*out, leaf{Path: path, Val: x})
	}
}

func getAt(v any, path []string) (any, bool) {
	for _, p := range path {
		switch x := v.(type) {
		case map[string]any:
			e, ok := x[p]
			if !ok {
				return nil, false
			}
			v = e
		case []any:
			i, err := strconv.Atoi(p)
			if err != nil || i < 0 || i >= len(x) {
				return nil, false
			}
			v = x[i]
		default:
			return nil, false
		}
	}
	return v, true
}

// setAt replaces the leaf at path (tree must be a private copy).
func setAt(v any, path []string, nv any) bool {
	if len(path) == 0 {
		return false
	}
	parent, ok := getAt(v, path[:len(path)-1])
	if !ok {
		return false
	}
	last := path[len(path)-1]
	switch x := parent.(type) {
	case map[string]any:
		x[last] = nv
		return true
	case []any:
		i, err := strconv.Atoi(last)
		if err != nil || i < 0 || i >= len(x) {
			return false
		}
		x[i] = nv
		return true
	}
	return false
}

func isIndex(s string) bool {
	if s == "" {
		return false
	}
	for _, c := range s {
		if c < '0' || c > '9' {
			return false
		}
	}
	return true
}

// posClass maps a JSON path to the configuration POSITION it denotes (array indices erased, the
// enclosing integration dropped): "table.unique[][]", "component.filter_ref.table", "source.name" …
func posClass(path []string) string {
	var sb strings.Builder
	for _, p := range path {
		if isIndex(p) {
			sb.WriteString("[]")
			continue
		}
		if sb.Len() > 0 {
			sb.WriteByte('.')
		}
		sb.WriteString(p)
	}
	s := sb.String()
	s = strings.TrimPrefix(s, "integrations[].")
	s = strings.Replace(s, "event.inputs[].components[].", "component.", 1)
	s = strings.ReplaceAll(s, "components[].", "component.") // deeper levels: component.component.…
	s = strings.Replace(s, "event.inputs[].", "input.", 1)
	s = strings.Replace(s, "block[].", "block.", 1)
	s = strings.Replace(s, "eth_sources[].", "source.", 1)
	s = strings.Replace(s, "sources[].", "srcref.", 1)
	return s
}

// c15Pos is posClass with the KIND of every enclosing container spelled out: a component of a plain tuple is
// "component.", of a tuple[] input "component[].", of a tuple[2] input "component[2]." (two levels:
// "component[].component.column"). tree is the unmodified tree path refers to.
func c15Pos(tree any, path []string) string {
	var kinds []string
	for i, p := range path {
		if p != "components" {
			continue
		}
		kind := "?"
		if parent, ok := getAt(tree, path[:i]); ok {
			if m, ok := parent.(map[string]any); ok {
				if t, ok := m["type"].(string); ok {
					kind = strings.TrimPrefix(t, "tuple")
				}
			}
		}
		kinds = append(kinds, kind)
	}
	rest, out := posClass(path), ""
	for i := 0; strings.HasPrefix(rest, "component.") && i < len(kinds); i++ {
		out += "component" + kinds[i] + "."
		rest = strings.TrimPrefix(rest, "component.")
	}
	return out + rest
}

// c15Flat erases the nesting depth of a component position ("component.component.column" -> "component.column").
func c15Flat(pc string) string {
	for strings.HasPrefix(pc, "component.component.") {
		pc = strings.TrimPrefix(pc, "component.")
	}
	return pc
}

// ---- documents with duplicate / case-variant keys ------------------------------------------------------
//
// Go's decoder matches object keys case-insensitively and lets the LAST duplicate win; a jsonb column keeps
// keys that differ in case side by side and re-orders them (length, then bytes). What validation saw and
// what is read back from shovel.integrations can therefore differ unless the checked value is what is stored.

type ordMember struct {
	K string
	V any
}

// ordObj is a JSON object with explicit member order that may hold duplicate keys.
type ordObj []ordMember

func (o ordObj) MarshalJSON() ([]byte, error) {
	var sb strings.Builder
	sb.WriteByte('{')
	for i, m := range o {
		if i > 0 {
			sb.WriteByte(',')
		}
		sb.WriteString(toJSON(m.K))
		sb.WriteByte(':')
		sb.WriteString(toJSON(m.V))
	}
	sb.WriteByte('}')
	return []byte(sb.String()), nil
}

// dupVariant returns a copy of tree in which the object member that holds the leaf at path (the nearest
// enclosing object key) occurs twice: once under its canonical key and once under a case variant of it,
// one of them carrying the hostile value, the other the original one.
//
//	dup-1 bit 0: case variant (0 Capitalised, 1 UPPER)      bit 1: hostile under (0 canonical key, 1 variant key)
//	      bit 2: order (0 hostile member first, 1 hostile member last)
func dupVariant(tree any, path []string, hostile string, dup int) (any, string, bool) {
	a := len(path) - 1
	for a >= 0 && isIndex(path[a]) {
		a--
	}
	if a < 0 {
		return nil, "", false
	}
	tree = cloneTree(tree)
	parent, ok := getAt(tree, path[:a])
	pm, isMap := parent.(map[string]any)
	if !ok || !isMap {
		return nil, "", false
	}
	key := path[a]
	bits := dup - 1
	vkey := strings.ToUpper(key[:1]) + key[1:]
	if bits&1 == 1 {
		vkey = strings.ToUpper(key)
	}
	if vkey == key {
		vkey = strings.ToLower(key)
	}
	if vkey == key {
		return nil, "", false
	}
	orig := cloneTree(pm[key])
	var bad any = hostile
	if a < len(path)-1 {
		bad = cloneTree(pm[key])
		if !setAt(bad, path[a+1:], hostile) {
			return nil, "", false
		}
	}
	hm, gm := ordMember{key, bad}, ordMember{vkey, orig}
	if bits&2 != 0 {
		hm, gm = ordMember{vkey, bad}, ordMember{key, orig}
	}
	var o ordObj
	keys := make([]string, 0, len(pm))
	for k := range pm {
		if k != key {
			keys = append(keys, k)
		}
	}
	sort.Strings(keys)
	for _, k := range keys {
		o = append(o, ordMember{k, pm[k]})
	}
	if bits&4 == 0 {
		o = append(o, hm, gm)
	} else {
		o = append(o, gm, hm)
	}
	desc := fmt.Sprintf("member %q twice: hostile value under %q, original under %q, hostile %s", key, hm.K, gm.K, map[bool]string{true: "first", false: "last"}[bits&4 == 0])
	if a == 0 {
		return o, desc, true
	}
	if !setAt(tree, path[:a], o) {
		return nil, "", false
	}
	return tree, desc, true
}

// ---- markers ---------------------------------------------------------------------------------------

// The eight markers of the design plus '.', which is equally outside "letters, digits, underscore,
// hyphen" (a table name "shovel.task_updates" would address another schema). A space is NOT a hostile
// marker: "col DESC" is documented index syntax.
var c15Markers = []string{`m1'm`, `m2"m`, `m3;m`, `m4)m`, `m5(m`, `m6--m`, `m7$$m`, `m8\m`, `m9.m`}

// c15ChainExtra: further hostile chain strings (chain-data jobs only; Marker index continues after c15Markers).
var c15ChainExtra = []string{`it's`, `x'); delete from shovel.task_updates; --`, `$1'); select pg_notify('a', 'b`}

func c15ChainString(i int) string {
	if i < len(c15Markers) {
		return c15Markers[i]
	}
	return c15ChainExtra[i-len(c15Markers)]
}

var c15Forms = []string{"whole", "suffix", "prefix", "after-space", "after-direction", "meta-first", "meta-last", "meta-only"}

// c15Meta[i] is the hostile part of c15Markers[i]; forms 5-7 put it FIRST ('m1m), LAST (m1m') and alone (').
var c15Meta = []string{`'`, `"`, `;`, `)`, `(`, `--`, `$$`, `\`, `.`}

// c15IdentifierLike: positions that hold an identifier or a type (quick tier runs the extra forms and the
// disabled-integration dimension on these; thorough on every leaf).
func c15IdentifierLike(path []string) bool {
	return c15Eligible(path) || posClass(path) == "table.columns[].type"
}

// c15EnvPosition: the value is decoded through wos.EnvString, which treats a leading '$' as the name of an
// environment variable and ends the process when it is not set.
func c15EnvPosition(pc string) bool {
	return strings.HasPrefix(pc, "source.") || strings.HasPrefix(pc, "srcref.") || pc == "dashboard.root_password" ||
		strings.HasPrefix(pc, "linked:source.")
}

// c15SpaceForm: positions with the documented "<column> ASC|DESC" syntax (and their neighbour, the unique
// list) additionally get "<column> <marker>": whatever follows the space must be a direction, nothing else.
func c15SpaceForm(path []string) bool {
	pc := posClass(path)
	return pc == "table.index[][]" || pc == "table.unique[][]"
}

func c15Variant(val string, marker, form int) string {
	m := c15Markers[marker]
	switch form {
	case 1:
		return val + m
	case 2:
		return m + val
	case 3:
		col, _, _ := strings.Cut(val, " ")
		return col + " " + m
	case 4:
		col, _, _ := strings.Cut(val, " ")
		return col + " desc " + m
	case 5:
		return fmt.Sprintf("%sm%dm", c15Meta[marker], marker+1)
	case 6:
		return fmt.Sprintf("m%dm%s", marker+1, c15Meta[marker])
	case 7:
		return c15Meta[marker]
	}
	return m
}

// c15HyphenOnly: the marker consists of letters, digits and hyphens only, i.e. it SATISFIES the restriction
// the property states ("letters, digits, underscore and hyphen"). It is enumerated like the others (a
// double hyphen starts an SQL comment) but its arrival in SQL text is recorded, not judged.
func c15HyphenOnly(marker int) bool { return marker < len(c15Markers) && c15Markers[marker] == `m6--m` }

// ---- linked substitution: one identifier renamed consistently everywhere it is referred to ------------

// eligible: the leaf holds an identifier (definition or reference), not a field name, type, operator, …
func c15Eligible(path []string) bool {
	pc := c15Flat(posClass(path))
	switch pc {
	case "source.name", "srcref.name", "name", "table.name", "table.columns[].name", "table.unique[][]", "table.index[][]",
		"notification.columns[]", "Dependencies[]", "input.column", "component.column", "block.column",
		"input.filter_ref.integration", "input.filter_ref.table", "input.filter_ref.column",
		"component.filter_ref.integration", "component.filter_ref.table", "component.filter_ref.column",
		"block.filter_ref.integration", "block.filter_ref.table", "block.filter_ref.column":
		return true
	}
	return false
}

func c15Definition(path []string) bool {
	switch posClass(path) {
	case "source.name", "name", "table.name", "table.columns[].name":
		return true
	}
	return false
}

type linkGroup struct {
	Kind  string // position class of the definition
	Value string
	Paths [][]string
}

// linkGroups: for every distinct value defined at a definition site, all eligible leaves holding it.
func linkGroups(tree any) []linkGroup {
	var ls []leaf
	stringLeaves(tree, nil, &ls)
	var out []linkGroup
	seen := map[string]bool{}
	for _, d := range ls {
		if !c15Definition(d.Path) || d.Val == "" || seen[d.Val] {
			continue
		}
		seen[d.Val] = true
		g := linkGroup{Kind: posClass(d.Path), Value: d.Val}
		for _, l := range ls {
			if l.Val == d.Val && c15Eligible(l.Path) {
				g.Paths = append(g.Paths, l.Path)
			}
		}
		if len(g.Paths) > 1 {
			out = append(out, g)
		}
	}
	return out
}

// needles returns the texts whose occurrence in SQL means the hostile value was spliced: the marker
// itself and its JSON-escaped spelling (wos.EnvString strips the quotes of a JSON string WITHOUT
// unescaping it, so a source name keeps the backslash of \" and \\ — still hostile).
func c15Needles(marker int) []string { return c15NeedlesFor(marker, 0) }

// c15NeedlesFor: forms 5 and 6 are searched as the whole variant; the bare metacharacter (form 7) cannot be
// searched for (every statement contains quotes and parentheses): it is judged by consistency only.
func c15NeedlesFor(marker, form int) []string {
	m := c15Markers[marker]
	switch form {
	case 5, 6:
		m = c15Variant("", marker, form)
	case 7:
		return nil
	}
	out := []string{m}
	if e := strings.Trim(toJSON(m), `"`); e != m {
		out = append(out, e)
	}
	return out
}

func findLeak(sqls []string, needles []string) (string, bool) {
	for _, q := range sqls {
		for _, n := range needles {
			if strings.Contains(q, n) {
				return q, true
			}
		}
	}
	return "", false
}

// ---- chains ------------------------------------------------------------------------------------------

var (
	c15TransferNodes = []*ref.Node{ref.Leaf("address"), ref.Leaf("address"), ref.Leaf("uint256")}
	c15AddrTuple     = func(dims ...int) *ref.Node { return ref.Tuple([]*ref.Node{ref.Leaf("address")}, dims...) }
	c15OrderNodes    = []*ref.Node{ref.Leaf("address"),
		ref.Tuple([]*ref.Node{ref.Leaf("address"), ref.Leaf("uint256"), ref.Leaf("string"), c15AddrTuple(), c15AddrTuple(0)}),
		ref.Tuple([]*ref.Node{ref.Leaf("address"), c15AddrTuple()}, 0),
		c15AddrTuple(2),
		ref.Leaf("bytes")}
)

func c15Transfer(emitter, from, to []byte, value uint64) *simeth.Log {
	return &simeth.Log{
		Address: emitter,
		Topics:  [][]byte{ref.Topic0("Transfer", c15TransferNodes), world.AddrWord(from), world.AddrWord(to)},
		Data:    ref.EncodeInputs(c15TransferNodes[2:], []ref.Value{world.U(value)}),
		Tag:     "a_refd",
	}
}

// c15Order: the array-of-tuples inputs carry nItems (>= 1) elements (items, item.subs) resp. the fixed two
// (pair); element addresses alternate between token and maker, so that some look-ups match rows
// of ta and some do not.
func c15Order(emitter, maker, token []byte, amount uint64, memo string, extra []byte, nItems int) *simeth.Log {
	a := func(i int) ref.Value {
		if i%2 == 0 {
			return world.AddrWord(token)
		}
		return world.AddrWord(maker)
	}
	one := func(i int) ref.Value { return []any{a(i)} }              // (address)
	two := func(i int) ref.Value { return []any{a(i), one(i + 1)} } // (address,(address))
	var subs, items []any
	for i := 0; i < nItems; i++ {
		subs = append(subs, one(i+1))
		items = append(items, two(i))
	}
	return &simeth.Log{
		Address: emitter,
		Topics:  [][]byte{ref.Topic0("Order", c15OrderNodes), world.AddrWord(maker)},
		Data: ref.EncodeInputs(c15OrderNodes[1:], []ref.Value{
			[]any{world.AddrWord(token), world.U(amount), []byte(memo), one(0), subs},
			items, []any{one(0), one(1)}, extra}),
		Tag: "b_tuple",
	}
}

// chainHostile plants one marker into one chain-derived position (chain-data jobs).
type chainHostile struct {
	Pos    string
	Marker string
}

var c15ChainPositions = []string{"log.address", "topic.from", "topic.to", "topic.maker", "data.token", "data.memo", "data.extra",
	"tx.input", "tx.to", "trace.call_type", "trace.from"}

// padAddr embeds text into a 20-byte address (first and last byte non-zero).
func padAddr(text string) []byte {
	b := []byte("Aa" + text + "zzzzzzzzzzzzzzzzzzzz")
	return b[:20]
}

func (h *chainHostile) at(pos string) bool { return h != nil && h.Pos == pos }

// c15Block returns the content of block i (1-based) for the given host.
func c15Block(host string, i int, salt uint64, h *chainHostile) simeth.BlockSpec {
	seed := fmt.Sprintf("c15/%s/%d/%d", host, salt, i)
	x, y := simeth.Addr(seed+"/x"), simeth.Addr(seed+"/y")
	x2, y2 := simeth.Addr(seed+"/x2"), simeth.Addr(seed+"/y2")
	tr := func(s, ct string) *simeth.Trace {
		t := &simeth.Trace{From: simeth.Addr(s + "/tf"), To: simeth.Addr(s + "/tt"), Value: new(big.Int).SetBytes(simeth.Word(s + "/tv")[:9]), CallType: ct}
		if h.at("trace.call_type") {
			t.CallType = h.Marker
		}
		if h.at("trace.from") {
			t.From = padAddr(h.Marker)
		}
		return t
	}
	emitter := c15AddrA
	if i%2 == 0 {
		emitter = c15AddrB
	}
	from, to := x, y
	if h.at("topic.from") {
		from = padAddr(h.Marker)
	}
	if h.at("topic.to") {
		to = padAddr(h.Marker)
	}
	tx0 := simeth.TxSpec{Logs: []*simeth.Log{c15Transfer(emitter, from, to, uint64(100+i))}, Traces: []*simeth.Trace{tr(seed+"/0", "call"), tr(seed+"/1", "delegatecall")}}
	tx1 := simeth.TxSpec{Logs: []*simeth.Log{c15Transfer(c15AddrA, x2, y2, uint64(200+i)), c15Transfer(c15AddrA, y2, x2, uint64(300+i))}, Traces: []*simeth.Trace{tr(seed+"/2", "call")}}
	if host == "node1" {
		maker, token, memo, extra, oemit := to, from, fmt.Sprintf("memo-%d", i), []byte(fmt.Sprintf("extra-%d", i)), emitter
		if h.at("topic.maker") {
			maker = padAddr(h.Marker)
		}
		if h.at("data.token") {
			token = padAddr(h.Marker)
		}
		if h.at("data.memo") {
			memo = h.Marker
		}
		if h.at("data.extra") {
			extra = []byte(h.Marker)
		}
		if h.at("log.address") {
			oemit = padAddr(h.Marker)
		}
		tx0.Logs = append(tx0.Logs, c15Order(oemit, maker, token, uint64(5+i), memo, extra, 1+i%2))
		// a second order that matches nothing in ta (filtered out unless a reference matches)
		tx1.Logs = append(tx1.Logs, c15Order(simeth.Addr(seed+"/other"), simeth.Addr(seed+"/nomaker"), simeth.Addr(seed+"/notoken"), 0, "never", []byte("x"), 1))
	}
	return simeth.BlockSpec{Txs: []simeth.TxSpec{tx0, tx1}}
}

type c15Chains struct {
	init  map[string]*simeth.Chain // two blocks
	reorg map[string]*simeth.Chain // block 2 replaced, block 3 added
}

func c15BuildChains(h *chainHostile) c15Chains {
	cs := c15Chains{init: map[string]*simeth.Chain{}, reorg: map[string]*simeth.Chain{}}
	for _, host := range []string{"node1", "node2"} {
		c := simeth.Build([]simeth.BlockSpec{c15Block(host, 1, 1, h), c15Block(host, 2, 1, h)}, 1)
		r := c.Reorg(1, []simeth.BlockSpec{c15Block(host, 2, 2, h), c15Block(host, 3, 2, h)}, 2)
		if h.at("tx.input") || h.at("tx.to") {
			for _, ch := range []*simeth.Chain{c, r} {
				for _, b := range ch.Blocks {
					for _, t := range b.Txs {
						if h.at("tx.input") {
							t.Input = []byte("in:" + h.Marker + ":put")
						} else {
							t.To = padAddr(h.Marker)
						}
					}
				}
			}
			c.Seal()
			r.Seal() // blocks 0..1 have equal content in both, hence equal hashes: r still forks after block 1
		}
		cs.init[host], cs.reorg[host] = c, r
	}
	return cs
}
