//go:build verif

package conf

import (
	"context"
	"encoding/json"
	"fmt"
	"net/http/httptest"
	"net/url"
	"strings"

	"github.com/indexsupply/shovel/shovel"
	"github.com/indexsupply/shovel/shovel/config"
	"github.com/indexsupply/shovel/shovel/web"

	"verifh/simeth"
	"verifh/simpg"
	"verifh/world"
)

// c15Res is the judged result of one execution.
type c15Res struct {
	outcome  string // rejected:… | accepted-param[:…] | exit:… | LEAK
	leak     string // SQL text that contains the marker
	where    string // "migrate" | "run"
	panicked string
	harness  string
	detail   string
	// non-vacuity observations
	rows     map[string]int
	filled   map[string]bool // "<table>.<column>" holds a non-NULL value in some row
	cursors  map[string]uint64
	notifs   int
	lookups  int
	deletes  int
	copies   int
	sqlCount int
	stored   bool // the marker was found in a stored row or notification (it travelled as data)
	httpCode int
	httpBody string
	stepErrs []string
}

func classifyReject(err error) string {
	s := err.Error()
	switch {
	case strings.Contains(s, "dangerous strings"), strings.Contains(s, "must be 'a-z'"):
		return "rejected:identifier-check"
	case strings.Contains(s, "filter_refs"):
		return "rejected:filter-ref-check"
	case strings.Contains(s, "checking config for references"):
		return "rejected:column-ref-check"
	case strings.Contains(s, "filter_agg"):
		return "rejected:filter-agg"
	}
	return "rejected:other"
}

// migrateOwn is InitDB with the server kept: the migration of main.go on a scratch server.
func migrateOwn(conf config.Root) (pg *simpg.Server, err error) {
	pg = simpg.NewServer()
	ctx := context.Background()
	pool, perr := pg.NewPool(ctx)
	if perr != nil {
		return pg, fmt.Errorf("HARNESS pool: %w", perr)
	}
	defer pool.Close()
	err = world.Migrate(ctx, pool, conf)
	return pg, err
}

func countSQL(sqls []string, res *c15Res) {
	res.sqlCount += len(sqls)
	for _, q := range sqls {
		l := strings.ToLower(strings.TrimSpace(q))
		switch {
		case strings.HasPrefix(l, "select true from"):
			res.lookups++
		case strings.Contains(l, "pg_notify"):
			res.notifs++
		case strings.HasPrefix(l, "delete from") && !strings.Contains(l, "shovel.task_updates"):
			res.deletes++
		case strings.HasPrefix(l, "copy "):
			res.copies++
		}
	}
}

func observe(w *world.W, res *c15Res, needles []string) {
	res.rows = map[string]int{}
	res.filled = map[string]bool{}
	has := func(s string) {
		for _, n := range needles {
			if strings.Contains(s, n) {
				res.stored = true
			}
		}
	}
	for _, t := range []string{"ta", "tb"} {
		rows := w.PG.Dump(t)
		res.rows[t] = len(rows)
		for _, r := range rows {
			for col, v := range r.Vals {
				if v != nil {
					res.filled[t+"."+col] = true
				}
				switch x := v.(type) {
				case string:
					has(x)
				case []byte:
					has(string(x))
				}
			}
		}
	}
	res.cursors = map[string]uint64{}
	for _, c := range w.Cursors() {
		k := c.Src + "/" + c.IG
		if c.Num > res.cursors[k] {
			res.cursors[k] = c.Num
		}
	}
}

// judge scans the SQL texts; a leak overrides every other classification (also harness limits of the
// fake, which are then a consequence of the hostile text).
func judge(res *c15Res, where string, sqls []string, needles []string) bool {
	if q, ok := findLeak(sqls, needles); ok {
		res.outcome, res.leak, res.where = "LEAK", q, where
		res.harness = ""
		return true
	}
	return false
}

// screenURLs: jrpc2.MustURL calls os.Exit(1) on an unparsable URL (the process ends before any hostile
// SQL); such a variant cannot be executed inside the worker.
func screenURLs(conf config.Root) bool {
	for _, s := range conf.Sources {
		for _, u := range s.URLs {
			if _, err := url.Parse(u); err != nil {
				return false
			}
		}
	}
	return true
}

// c15FileExec: FILE PATH. json-decode → ValidateFix → Schema+Migrate → loadTasks → five rounds of one
// Converge per task with a reorg of block 2 after round two → PruneTask.
func c15FileExec(confJSON string, chains c15Chains, needles []string, probe bool) (res c15Res) {
	defer func() {
		if r := recover(); r != nil {
			res.panicked = fmt.Sprint(r)
		}
	}()
	var conf config.Root
	if err := json.NewDecoder(strings.NewReader(confJSON)).Decode(&conf); err != nil {
		res.outcome, res.detail = "rejected:decode", err.Error()
		return
	}
	if err := config.ValidateFix(&conf); err != nil {
		res.outcome, res.detail = classifyReject(err), err.Error()
		return
	}
	if !screenURLs(conf) {
		res.outcome = "exit:url-parse"
		return
	}
	if probe {
		res.outcome = "accepted-param:probe"
		return
	}
	pg, err := migrateOwn(conf)
	log1 := pg.SQLLog()
	countSQL(log1, &res)
	if judge(&res, "migrate", log1, needles) {
		return
	}
	if err != nil {
		if strings.HasPrefix(err.Error(), "HARNESS") {
			res.harness = err.Error()
			return
		}
		if u := pg.Unsupported(); len(u) > 0 {
			res.harness = fmt.Sprintf("HARNESS-LIMIT unsupported SQL in migration without a marker: %v", u)
			return
		}
		res.outcome, res.detail = "accepted-param:migrate-error", err.Error()
		return
	}
	if u := pg.Unsupported(); len(u) > 0 {
		res.harness = fmt.Sprintf("HARNESS-LIMIT unsupported SQL in migration: %v", u)
		return
	}
	snap := pg.Snapshot()

	w := world.New(nil, world.Cfg{Snap: snap, Chains: chains.init})
	loadErr := ""
	w.Run(func() {
		tasks, err := w.LoadTasks(conf)
		if err != nil {
			loadErr = err.Error()
			return
		}
		// rounds 0,1: blocks 1,2; then the reorg; the remaining rounds let every task get over the
		// client's stale header cache (purged after max-reads failures) and reach block 3
		for round := 0; round < 14; round++ {
			if round >= 5 {
				done := true
				for _, t := range tasks {
					if cur, ok := w.Latest(t.Src, t.IG); !ok || cur.Num != 3 {
						done = false
					}
				}
				if done {
					break
				}
			}
			if round == 2 {
				for _, h := range []string{"node1", "node2"} {
					w.SetChain(h, chains.reorg[h], "reorg-"+h)
				}
			}
			for _, t := range tasks {
				out, err := t.Step()
				if out == "panic" {
					res.panicked = fmt.Sprintf("Converge %s: %v", t.Key(), err)
					return
				}
				if out == "error" && !strings.Contains(err.Error(), "rpc response contains invalid data") {
					res.stepErrs = append(res.stepErrs, fmt.Sprintf("%s: %s", t.Key(), errClass(err)))
				}
			}
		}
		if err := shovel.PruneTask(w.Ctx, w.Pool, 1); err != nil {
			res.stepErrs = append(res.stepErrs, "prune: "+err.Error())
		}
	})
	log2 := w.PG.SQLLog()
	countSQL(log2, &res)
	observe(w, &res, needles)
	res.harness = w.HarnessErr
	if judge(&res, "run", log2, needles) {
		return
	}
	if len(w.V.Panics) > 0 {
		res.panicked = strings.Join(w.V.Panics, "\n")
	}
	if w.V.Deadlock && res.harness == "" {
		res.harness = "deadlock in a sequential harness: " + w.V.DeadlockMsg
	}
	switch {
	case loadErr != "":
		res.outcome, res.detail = "accepted-param:loadtasks-error", loadErr
	case len(res.stepErrs) > 0:
		res.outcome, res.detail = "accepted-param:step-errors", strings.Join(res.stepErrs, "; ")
	default:
		res.outcome = "accepted-param:ran"
	}
	return
}

func errClass(err error) string {
	if err == nil {
		return ""
	}
	s := err.Error()
	if len(s) > 200 {
		s = s[:200]
	}
	return s
}

// ---- dashboard path ---------------------------------------------------------------------------------------

var c15Benign struct {
	ready   bool
	conf    config.Root
	snap    *simpg.Snapshot
	srcOnly string // file configuration of the dashboard jobs: sources only
	igTrees []M    // the three integrations as a dashboard client would submit them
	stored  []string
	err     error
}

// c15PrepareBenign validates the benign configuration, migrates it once (the tables a dashboard
// integration writes must exist: the dashboard never migrates) and renders the three integrations as
// dashboard submissions: the validated integration (identity columns and fields present, top-level
// filter_ref.table filled in — without it Filter.Accept does no look-up at all) with stop=3 on every
// source reference.
func c15PrepareBenign() error {
	b := &c15Benign
	if b.ready {
		return b.err
	}
	b.ready = true
	base := c15Base()
	conf, err := world.ParseConf(toJSON(base))
	if err != nil {
		b.err = fmt.Errorf("benign configuration rejected: %w", err)
		return b.err
	}
	b.conf = conf
	pg, err := migrateOwn(conf)
	if err != nil {
		b.err = fmt.Errorf("benign migration: %w", err)
		return b.err
	}
	if u := pg.Unsupported(); len(u) > 0 {
		b.err = fmt.Errorf("HARNESS-LIMIT unsupported SQL: %v", u)
		return b.err
	}
	b.snap = pg.Snapshot()
	so := cloneTree(base).(M)
	so["integrations"] = L{}
	b.srcOnly = toJSON(so)
	for i, ig := range conf.Integrations {
		raw, _ := json.Marshal(ig)
		var tree M
		dec := json.NewDecoder(strings.NewReader(string(raw)))
		dec.UseNumber()
		if err := dec.Decode(&tree); err != nil {
			b.err = err
			return err
		}
		// source references in the documented spelling, every one with stop=3
		var refs L
		for _, s := range ig.Sources {
			refs = append(refs, M{"name": s.Name, "start": 1, "stop": 3})
		}
		tree["sources"] = refs
		// nested components keep what the file said (ValidateFilterRefs never touches them)
		_ = i
		b.igTrees = append(b.igTrees, tree)
		// what SaveIntegration would have stored for it
		var rt config.Integration
		if err := json.Unmarshal([]byte(toJSON(tree)), &rt); err != nil {
			b.err = err
			return err
		}
		st, _ := json.Marshal(rt)
		b.stored = append(b.stored, string(st))
	}
	return nil
}

type dashReq struct {
	Kind  string            // "integration" | "source"
	IG    int               // integration submitted (the others are already stored)
	Body  string            // integration JSON
	Form  map[string]string // source form values
	Probe bool              // only the handler's verdict is wanted
	// FileConf: the configuration FILE of the process (default: the benign sources-only file). It goes through
	// decode + ValidateFix as in main.go; RenameSrc renames a source in every stored / submitted integration so
	// that they reference the (possibly hostile) file source.
	FileConf  string
	RenameSrc [2]string
	SrcRef    string // dash-src: source name the stored integration a_refd additionally references
}

// c15DashExec: DASHBOARD PATH. Database migrated for the benign configuration; file configuration =
// sources only; the other integrations already stored in shovel.integrations; the request goes to the
// REAL handler, whose Manager.Restart spawns the runner threads; they run (controlled, sequentially)
// until every one is done or asleep; then block 2 is replaced and block 3 added; runners end at stop=3.
func c15DashExec(rq dashReq, chains c15Chains, needles []string) (res c15Res) {
	defer func() {
		if r := recover(); r != nil {
			res.panicked = fmt.Sprint(r)
		}
	}()
	if err := c15PrepareBenign(); err != nil {
		res.harness = err.Error()
		return
	}
	b := &c15Benign
	if rq.Kind == "source" {
		if _, err := url.Parse(rq.Form["ethURL"]); err != nil {
			res.outcome = "exit:url-parse"
			return
		}
	}
	fileConf := b.srcOnly
	if rq.FileConf != "" {
		fileConf = rq.FileConf
		// start-up of the process with this file (main.go: decode, ValidateFix; nothing to migrate)
		var fc config.Root
		if err := json.NewDecoder(strings.NewReader(fileConf)).Decode(&fc); err != nil {
			res.outcome, res.detail = "rejected:decode", err.Error()
			return
		}
		if err := config.ValidateFix(&fc); err != nil {
			res.outcome, res.detail = classifyReject(err), err.Error()
			return
		}
		if !screenURLs(fc) {
			res.outcome = "exit:url-parse"
			return
		}
		if rq.Probe {
			res.outcome = "accepted-param:probe"
			return
		}
	}
	rename := func(doc string) string {
		if rq.RenameSrc[0] == "" {
			return doc
		}
		var ig config.Integration
		if json.Unmarshal([]byte(doc), &ig) != nil {
			return doc
		}
		for i := range ig.Sources {
			if ig.Sources[i].Name == rq.RenameSrc[0] {
				ig.Sources[i].Name = rq.RenameSrc[1]
			}
		}
		x, _ := json.Marshal(ig)
		return string(x)
	}
	w := world.New(nil, world.Cfg{Snap: b.snap, Chains: chains.init})
	for i, st := range b.stored {
		st = rename(st)
		if rq.Kind == "integration" && i == rq.IG {
			continue
		}
		if rq.Kind == "source" && i == 0 && rq.SrcRef != "" {
			// a_refd additionally references the source that is about to be added
			var ig config.Integration
			json.Unmarshal([]byte(st), &ig)
			ig.Sources = append(ig.Sources, config.Source{Name: rq.SrcRef, Start: 1, Stop: 3})
			x, _ := json.Marshal(ig)
			st = string(x)
		}
		if err := w.PG.InsertRow("shovel.integrations", map[string]any{"name": b.conf.Integrations[i].Name, "conf": []byte(st)}); err != nil {
			res.harness = "pre-storing integration: " + err.Error()
			return
		}
	}
	before := len(w.PG.Dump("shovel.integrations")) + len(w.PG.Dump("shovel.sources"))
	stored := false
	w.Run(func() {
		conf, err := world.ParseConf(fileConf)
		if err != nil {
			w.HarnessErr = "sources-only configuration: " + err.Error()
			return
		}
		mgr := shovel.NewManager(w.Ctx, w.Pool, conf)
		h := web.New(mgr, &conf, w.Pool)
		rec := httptest.NewRecorder()
		switch rq.Kind {
		case "integration":
			req := httptest.NewRequest("POST", "/save-integration", strings.NewReader(rq.Body))
			h.SaveIntegration(rec, req)
		case "source":
			form := url.Values{}
			for k, v := range rq.Form {
				form.Set(k, v)
			}
			req := httptest.NewRequest("POST", "/save-source", strings.NewReader(form.Encode()))
			req.Header.Set("Content-Type", "application/x-www-form-urlencoded")
			h.SaveSource(rec, req)
		}
		res.httpCode, res.httpBody = rec.Code, strings.TrimSpace(rec.Body.String())
		stored = len(w.PG.Dump("shovel.integrations"))+len(w.PG.Dump("shovel.sources")) > before
		if rq.Probe {
			return
		}
		w.V.WaitIdle()
		for _, hst := range []string{"node1", "node2"} {
			w.SetChain(hst, chains.reorg[hst], "reorg-"+hst)
		}
		w.V.WaitIdle()
		// runners that failed on the client's stale header cache sleep one second and retry
		for i := 0; i < 12 && !c15AllAt3(w); i++ {
			w.V.AdvanceTime()
			w.V.WaitIdle()
		}
		if err := shovel.PruneTask(w.Ctx, w.Pool, 1); err != nil {
			res.stepErrs = append(res.stepErrs, "prune: "+err.Error())
		}
	})
	log := w.PG.SQLLog()
	countSQL(log, &res)
	observe(w, &res, needles)
	res.harness = w.HarnessErr
	if judge(&res, "run", log, needles) {
		return
	}
	if len(w.V.Panics) > 0 {
		res.panicked = strings.Join(w.V.Panics, "\n")
	}
	if w.V.Deadlock && res.harness == "" && res.panicked == "" {
		res.harness = "deadlock: " + w.V.DeadlockMsg
	}
	switch {
	case !stored && res.httpCode >= 400 && strings.Contains(res.httpBody, "must be 'a-z'"):
		res.outcome, res.detail = "rejected:identifier-check", res.httpBody
	case !stored:
		res.outcome, res.detail = "rejected:other", fmt.Sprintf("%d %s", res.httpCode, res.httpBody)
	case res.httpCode >= 400:
		res.outcome, res.detail = "accepted-param:restart-error", fmt.Sprintf("%d %s", res.httpCode, res.httpBody)
	default:
		res.outcome = "accepted-param:ran"
	}
	return
}

// c15AllAt3: every (source, integration) pair that has a cursor reached block 3 and there are at least four.
func c15AllAt3(w *world.W) bool {
	best := map[string]uint64{}
	for _, c := range w.Cursors() {
		k := c.Src + "/" + c.IG
		if c.Num > best[k] {
			best[k] = c.Num
		}
	}
	if len(best) < 4 {
		return false
	}
	for _, n := range best {
		if n != 3 {
			return false
		}
	}
	return true
}

var _ = simeth.Addr
