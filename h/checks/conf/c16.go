//go:build verif

package conf

import (
	"context"
	"encoding/json"
	"errors"
	"fmt"
	"sort"
	"strings"
	"time"

	"github.com/indexsupply/shovel/shovel"
	"github.com/indexsupply/shovel/shovel/config"
	"github.com/jackc/pgx/v5/pgconn"

	"verifh/checks"
	"verifh/fw"
	"verifh/simeth"
	"verifh/simpg"
	"verifh/world"
)

// C16 — generated schema fits the data: required columns, shared-table union, unique key.

type c16Job struct {
	Kind   string   `json:"kind"`   // set | order | ident | preexist | negative | reserved
	Shapes []string `json:"shapes"` // integrations in declaration order
	Tables []int    `json:"tables"` // table number per integration (sharing pattern)
	Route  string   `json:"route"`  // migrate (start-up path) | ddl (print-schema statements applied by hand)
	Order  int      `json:"order"`  // arrangement of the declared columns of integration 1 (0 = as declared)
	Ident  string   `json:"ident"`  // identity-column variant of integration 1: "", all, prefix:k, only:f, renamed:f
	Pre    string   `json:"pre"`    // "", P1 (table with the user columns only), P2 (table migrated for an older, smaller declaration)
	TwoSrc bool     `json:"twosrc"`
	Neg    string   `json:"neg"` // negative case: input:<col> | field:<col> | notify
	// Namesake: a relation with the same name as integration 1's table exists in ANOTHER schema and has every
	// column: "reporting" (reporting.<table>) | "shovel" (the table is named task_updates like shovel's own)
	Namesake string `json:"namesake,omitempty"`
	Word     string `json:"word"`  // reserved word
	Where    string `json:"where"` // column | table | unique | index
}

func init() {
	checks.Register(&checks.Check{
		ID:        "C16",
		Level:     "exploration",
		Technique: "bounded-exhaustive enumeration of integration sets (shape x sharing pattern x declaration order x column order x identity-column supply x pre-existing table x one/two sources) run through the real ValidateFix -> Schema -> Migrate (or the print-schema DDL) -> loadTasks -> Converge against the fake Postgres; oracle = behaviour of the generated schema on the real emitted rows (no collision among different rows, collision on re-insert) plus catalogue inspection",
		Rule: "sets of 1-3 integrations over 5 shapes (log scalar, log array, log all-indexed, tx, trace; singles and pairs also over 2 more: log whose selected un-indexed data are the components of a tuple[] / tuple[2] input): all ordered tuples x all sharing patterns (set partitions) x 2 routes (Migrate / config.DDL); single integrations and shared pairs x every column order (all permutations up to 4 columns, rotations beyond) x identity columns missing / all / every prefix / every single one / every single one renamed; pre-existing tables (user columns only; migrated for a smaller older declaration); two sources; " +
			"negative cases: every selected input / block field / notification column without table column; every PostgreSQL reserved word (both reserved categories) as column name, table name, unique entry and index entry. Chain: 2 blocks x 2 transactions x 2 matching logs per event x arrays of length 3 x 2 trace actions. Non-trivial = the configuration was accepted and at least one row was emitted, or a negative/reserved case was judged; distinct = distinct job tuple.",
		Assumptions: []string{
			"fake Postgres (h/simpg) enforces unique indexes (NULLs never conflict) and column existence as PostgreSQL does; it does not know reserved words, so quoting is judged on the statement text against a list written from the PostgreSQL documentation (appendix C)",
			"two integrations with the same event signature both index the same logs; two sources serve the same chain",
			"quoting of reserved words is outside the property: a configuration whose column/table/unique/index entry is a PostgreSQL key word that the generated DDL leaves unquoted is recorded as observed:reserved-word-unquoted:<category> (outcome + counters + sample), never judged",
			"only sequential executions; blocks always contain at least one transaction with trace actions (pending jrpc2 defect with empty trace lists is avoided)",
		},
		Budget:        map[string]time.Duration{"quick": 110 * time.Second, "thorough": 850 * time.Second},
		MinNontrivial: 1000,
		Inst:          true,
		Run:           c16Run,
		Replay:        c16Replay,
	})
}

// ---- enumeration ---------------------------------------------------------------------------------------

func partitions(n int) [][]int {
	// restricted growth strings
	var out [][]int
	var rec func(p []int, max int)
	rec = func(p []int, max int) {
		if len(p) == n {
			out = append(out, append([]int{}, p...))
			return
		}
		for v := 0; v <= max+1; v++ {
			m := max
			if v > m {
				m = v
			}
			rec(append(p, v), m)
		}
	}
	rec([]int{0}, 0)
	return out
}

func tuples(n int) [][]string { return tuplesOver(n, c16Shapes) }

func tuplesOver(n int, shapes []string) [][]string {
	if n == 0 {
		return [][]string{{}}
	}
	var out [][]string
	for _, t := range tuplesOver(n-1, shapes) {
		for _, s := range shapes {
			out = append(out, append(append([]string{}, t...), s))
		}
	}
	return out
}

func arrangements(n int) [][]int {
	id := make([]int, n)
	for i := range id {
		id[i] = i
	}
	if n > 4 {
		var out [][]int
		for r := 0; r < n; r++ {
			out = append(out, append(append([]int{}, id[r:]...), id[:r]...))
		}
		return out
	}
	var out [][]int
	var rec func(cur []int, used []bool)
	rec = func(cur []int, used []bool) {
		if len(cur) == n {
			out = append(out, append([]int{}, cur...))
			return
		}
		for i := 0; i < n; i++ {
			if !used[i] {
				used[i] = true
				rec(append(cur, i), used)
				used[i] = false
			}
		}
	}
	rec(nil, make([]bool, n))
	return out
}

func identVariants(shape string) []string {
	id := c16Identity(shape)
	vs := []string{"", "all"}
	for k := 1; k < len(id); k++ {
		vs = append(vs, fmt.Sprintf("prefix:%d", k))
	}
	for _, f := range id {
		vs = append(vs, "only:"+f)
	}
	for _, f := range id {
		vs = append(vs, "renamed:"+f)
	}
	return vs
}

func c16Jobs(thorough bool) []c16Job {
	var jobs []c16Job
	routes := []string{"migrate", "ddl"}
	// A. integration sets x sharing patterns x routes
	for n := 1; n <= 3; n++ {
		over := c16AllShapes // singles and pairs: also the tuple-component shapes
		if n == 3 {
			over = c16Shapes
		}
		for _, tp := range tuplesOver(n, over) {
			for _, part := range partitions(n) {
				for _, r := range routes {
					jobs = append(jobs, c16Job{Kind: "set", Shapes: tp, Tables: part, Route: r})
				}
			}
		}
	}
	// B. column orders x identity variants (single integrations; and pairs sharing a table, first integration varied)
	for _, s := range c16AllShapes {
		for _, iv := range identVariants(s) {
			n := len(c16DeclWithIdent(s, "ig1", "t0", nil, iv).Columns())
			for o := range arrangements(n) {
				if o == 0 && iv == "" {
					continue // = set job
				}
				for _, r := range routes {
					jobs = append(jobs, c16Job{Kind: "order", Shapes: []string{s}, Tables: []int{0}, Route: r, Order: o, Ident: iv})
				}
			}
		}
	}
	for _, tp := range tuples(2) {
		for _, iv := range identVariants(tp[0]) {
			if iv == "" {
				continue
			}
			if !thorough && !(iv == "all" || strings.HasPrefix(iv, "renamed:")) {
				continue
			}
			jobs = append(jobs, c16Job{Kind: "order", Shapes: tp, Tables: []int{0, 0}, Route: "migrate", Ident: iv})
			if thorough && !strings.HasPrefix(iv, "renamed:") {
				// (renamed identity columns under a foreign key owner would mix two causes in one failure)
				jobs = append(jobs, c16Job{Kind: "order", Shapes: tp, Tables: []int{0, 0}, Route: "ddl", Ident: iv})
			}
		}
		n := len(c16DeclWithIdent(tp[0], "ig1", "t0", nil, "").Columns())
		for o := range arrangements(n) {
			if o > 0 {
				jobs = append(jobs, c16Job{Kind: "order", Shapes: tp, Tables: []int{0, 0}, Route: "migrate", Order: o})
			}
		}
	}
	// C. pre-existing tables
	for _, s := range c16PreShapes {
		for _, pre := range []string{"P1", "P2"} {
			jobs = append(jobs, c16Job{Kind: "preexist", Shapes: []string{s}, Tables: []int{0}, Route: "migrate", Pre: pre})
		}
	}
	for _, tp := range tuplesOver(2, c16PreShapes) {
		for _, pre := range []string{"P1", "P2"} {
			jobs = append(jobs, c16Job{Kind: "preexist", Shapes: tp, Tables: []int{0, 0}, Route: "migrate", Pre: pre})
		}
	}
	for _, s := range c16PreShapes {
		for _, pre := range []string{"P1", "P2"} {
			for _, ns := range []string{"reporting", "shovel"} {
				jobs = append(jobs, c16Job{Kind: "preexist", Shapes: []string{s}, Tables: []int{0}, Route: "migrate", Pre: pre, Namesake: ns})
			}
		}
	}
	// D. two sources (thorough: also the triples)
	maxTwo := 2
	if thorough {
		maxTwo = 3
	}
	for n := 1; n <= maxTwo; n++ {
		over := c16Shapes
		if n == 1 {
			over = c16AllShapes
		}
		for _, tp := range tuplesOver(n, over) {
			for _, part := range partitions(n) {
				for _, r := range routes {
					jobs = append(jobs, c16Job{Kind: "set", Shapes: tp, Tables: part, Route: r, TwoSrc: true})
				}
			}
		}
	}
	// E. negative cases
	for _, s := range c16AllShapes {
		d := c16Decl(s, "ig1", "t0", nil)
		for _, in := range d.Inputs {
			if in.Column != "" {
				jobs = append(jobs, c16Job{Kind: "negative", Shapes: []string{s}, Tables: []int{0}, Neg: "input:" + in.Column})
			}
		}
		for _, c := range d.ExtraCols { // columns of selected tuple components
			jobs = append(jobs, c16Job{Kind: "negative", Shapes: []string{s}, Tables: []int{0}, Neg: "input:" + c[0]})
		}
		for _, f := range d.Fields {
			jobs = append(jobs, c16Job{Kind: "negative", Shapes: []string{s}, Tables: []int{0}, Neg: "field:" + f.Column})
		}
		// an identity field listed by the user under another column name that table.columns lacks
		for _, f := range c16Identity(s) {
			jobs = append(jobs, c16Job{Kind: "negative", Shapes: []string{s}, Tables: []int{0}, Neg: "idfield:" + f})
		}
		jobs = append(jobs, c16Job{Kind: "negative", Shapes: []string{s}, Tables: []int{0}, Neg: "notify"})
		// notification lists of length 1..4, the entry without table column at every position
		for l := 1; l <= 4; l++ {
			for pos := 0; pos < l; pos++ {
				jobs = append(jobs, c16Job{Kind: "negative", Shapes: []string{s}, Tables: []int{0}, Neg: fmt.Sprintf("notify:%d:%d", l, pos)})
			}
		}
		// two more block fields after the shape's own inputs/fields, each of the two without its column
		for _, f := range []string{"block_time", "block_hash"} {
			jobs = append(jobs, c16Job{Kind: "negative", Shapes: []string{s}, Tables: []int{0}, Neg: "xfield:" + f})
		}
		jobs = append(jobs, c16Job{Kind: "negative", Shapes: []string{s}, Tables: []int{0}, Neg: "notify-ok"})
	}
	// F. reserved words
	for _, w := range append(append([]string{}, c16Reserved...), c16TypeFuncReserved...) {
		for _, where := range []string{"column", "table", "unique", "index", "index-desc"} {
			jobs = append(jobs, c16Job{Kind: "reserved", Shapes: []string{"LS"}, Tables: []int{0}, Route: "migrate", Word: w, Where: where})
		}
	}
	return jobs
}

// ---- configuration of a job ------------------------------------------------------------------------------

func c16DeclWithIdent(shape, name, table string, srcs []world.SrcRef, iv string) *world.Decl {
	d := c16Decl(shape, name, table, srcs)
	id := c16Identity(shape)
	add := func(f, col string) { d.Fields = append(d.Fields, world.Field{Name: f, Column: col}) }
	switch {
	case iv == "":
	case iv == "all":
		for _, f := range id {
			add(f, f)
		}
	case strings.HasPrefix(iv, "prefix:"):
		k := 0
		fmt.Sscanf(iv, "prefix:%d", &k)
		for _, f := range id[:k] {
			add(f, f)
		}
	case strings.HasPrefix(iv, "only:"):
		add(strings.TrimPrefix(iv, "only:"), strings.TrimPrefix(iv, "only:"))
	case strings.HasPrefix(iv, "renamed:"):
		f := strings.TrimPrefix(iv, "renamed:")
		add(f, "my_"+f)
	}
	return d
}

type c16Built struct {
	confJSON string
	decls    []*world.Decl
	srcs     []world.Source
	tree     map[string]any
}

func c16Build(j c16Job) (*c16Built, error) {
	b := &c16Built{}
	b.srcs = []world.Source{{Name: "src1", ChainID: 7, URL: "http://node1", Batch: 1, Conc: 1}}
	refs := []world.SrcRef{{Name: "src1", Start: 1}}
	if j.TwoSrc {
		b.srcs = append(b.srcs, world.Source{Name: "src2", ChainID: 8, URL: "http://node2", Batch: 1, Conc: 1})
		refs = append(refs, world.SrcRef{Name: "src2", Start: 1})
	}
	var igs []any
	for i, s := range j.Shapes {
		iv := ""
		if i == 0 {
			iv = j.Ident
			if strings.HasPrefix(j.Neg, "idfield:") {
				iv = "renamed:" + strings.TrimPrefix(j.Neg, "idfield:")
			}
		}
		tname := fmt.Sprintf("t%d", j.Tables[i])
		if j.Namesake == "shovel" && j.Tables[i] == j.Tables[0] {
			tname = "task_updates"
		}
		d := c16DeclWithIdent(s, fmt.Sprintf("ig%d", i+1), tname, refs, iv)
		if j.Kind == "reserved" && i == 0 {
			switch j.Where {
			case "table":
				d.Table = j.Word
			default:
				d.Inputs[2].Column = j.Word // the non-indexed input "value"
				if j.Where == "unique" {
					d.Unique = [][]string{{"ig_name", "src_name", "block_num", "tx_idx", "log_idx", "abi_idx", j.Word}}
				}
				if j.Where == "index" {
					d.Index = [][]string{{j.Word}}
				}
				if j.Where == "index-desc" {
					d.Index = [][]string{{j.Word + " desc"}}
				}
			}
		}
		if strings.HasPrefix(j.Neg, "xfield:") && i == 0 {
			d.Fields = append(d.Fields, world.Field{Name: "block_time", Column: "block_time"}, world.Field{Name: "block_hash", Column: "block_hash"})
		}
		if strings.HasPrefix(j.Neg, "notify:") && i == 0 {
			var l, pos int
			fmt.Sscanf(j.Neg, "notify:%d:%d", &l, &pos)
			pool := []string{"block_num", "tx_idx"}
			for _, c := range d.Columns() {
				pool = append(pool, c[0])
			}
			for k, n := 0, 0; k < l; k++ {
				if k == pos {
					d.Notify = append(d.Notify, "no_such_column")
				} else {
					d.Notify = append(d.Notify, pool[n%len(pool)])
					n++
				}
			}
		}
		if j.Neg == "notify" && i == 0 {
			d.Notify = []string{"no_such_column"}
		}
		if j.Neg == "notify-ok" && i == 0 {
			d.Notify = []string{d.Columns()[0][0]}
		}
		b.decls = append(b.decls, d)
		ig := d.Integration()
		if _, ok := c16TupleDims(d); ok {
			items := ig["event"].(map[string]any)["inputs"].([]any)[1].(map[string]any)
			items["components"] = []any{
				map[string]any{"name": "token", "type": "address", "column": "token"},
				map[string]any{"name": "amount", "type": "uint256", "column": "amount"},
			}
		}
		tbl := ig["table"].(map[string]any)
		cols := tbl["columns"].([]any)
		if i == 0 && j.Order > 0 {
			arr := arrangements(len(cols))
			if j.Order >= len(arr) {
				return nil, fmt.Errorf("order %d out of range (%d arrangements)", j.Order, len(arr))
			}
			nc := make([]any, len(cols))
			for k, src := range arr[j.Order] {
				nc[k] = cols[src]
			}
			tbl["columns"] = nc
			cols = nc
		}
		drop := ""
		switch {
		case strings.HasPrefix(j.Neg, "input:") && i == 0:
			drop = strings.TrimPrefix(j.Neg, "input:")
		case strings.HasPrefix(j.Neg, "field:") && i == 0:
			drop = strings.TrimPrefix(j.Neg, "field:")
		case strings.HasPrefix(j.Neg, "idfield:") && i == 0:
			drop = "my_" + strings.TrimPrefix(j.Neg, "idfield:")
		case strings.HasPrefix(j.Neg, "xfield:") && i == 0:
			drop = strings.TrimPrefix(j.Neg, "xfield:")
		}
		if drop != "" {
			var nc []any
			for _, c := range cols {
				if c.(map[string]any)["name"] != drop {
					nc = append(nc, c)
				}
			}
			if len(nc) == len(cols) {
				return nil, fmt.Errorf("negative case: no column %q", drop)
			}
			tbl["columns"] = nc
		}
		igs = append(igs, ig)
	}
	var ss []any
	for _, s := range b.srcs {
		ss = append(ss, map[string]any{"name": s.Name, "chain_id": s.ChainID, "url": s.URL, "batch_size": 1, "concurrency": 1})
	}
	b.tree = map[string]any{"pg_url": "postgres:///sim", "eth_sources": ss, "integrations": igs}
	b.confJSON = toJSON(b.tree)
	return b, nil
}

// ---- execution ----------------------------------------------------------------------------------------------

type c16Vio struct{ class, key, detail string }

type c16Res struct {
	outcome string
	vios    []c16Vio
	obs     []c16Vio // observations outside the property (recorded, never judged)
	harness string
	rows    int
	steps   int
	reins   int
}

func (r *c16Res) vio(class, key, format string, a ...any) {
	for _, v := range r.vios {
		if v.key == key {
			return
		}
	}
	r.vios = append(r.vios, c16Vio{class, key, fmt.Sprintf(format, a...)})
}

func sqlState(err error) string {
	var pe *pgconn.PgError
	if errors.As(err, &pe) {
		return pe.Code
	}
	return ""
}

// c16Schema builds the database of a job on a fresh server by the given route.
func c16Schema(j c16Job, b *c16Built, conf config.Root, route string) (pg *simpg.Server, err error, harness string) {
	pg = simpg.NewServer()
	ctx := context.Background()
	pool, perr := pg.NewPool(ctx)
	if perr != nil {
		return pg, nil, "pool: " + perr.Error()
	}
	defer pool.Close()
	if _, err := pool.Exec(ctx, shovel.Schema); err != nil {
		return pg, nil, "schema: " + err.Error()
	}
	if j.Namesake == "reporting" {
		var defs []string
		for _, c := range conf.Integrations[0].Table.Columns {
			defs = append(defs, `"`+c.Name+`" `+c.Type)
		}
		q := fmt.Sprintf("create schema if not exists reporting; create table reporting.%s(%s)", b.decls[0].Table, strings.Join(defs, ", "))
		if _, err := pool.Exec(ctx, q); err != nil {
			return pg, nil, "namesake table: " + err.Error()
		}
	}
	switch j.Pre {
	case "P1": // the user created the table with the columns he declared; nothing else
		d := b.decls[0]
		var defs []string
		for _, c := range d.Columns() {
			defs = append(defs, `"`+c[0]+`" `+c[1])
		}
		if _, err := pool.Exec(ctx, fmt.Sprintf("create table %s(%s)", d.Table, strings.Join(defs, ", "))); err != nil {
			return pg, nil, "pre-existing table: " + err.Error()
		}
	case "P2": // the table was migrated for an older declaration of integration 1 that lacked its last user column
		old := c16Decl(j.Shapes[0], "ig1", b.decls[0].Table, b.decls[0].Sources)
		if len(old.Inputs) > 0 {
			old.Inputs[len(old.Inputs)-1].Column = ""
		} else {
			old.Fields = old.Fields[:len(old.Fields)-1]
		}
		oc, err := world.ParseConf(world.ConfJSON(b.srcs, []*world.Decl{old}))
		if err != nil {
			return pg, nil, "older declaration rejected: " + err.Error()
		}
		if err := world.Migrate(ctx, pool, oc); err != nil {
			return pg, nil, "older migration: " + err.Error()
		}
	}
	switch route {
	case "migrate":
		err = world.Migrate(ctx, pool, conf)
	case "ddl":
		for _, stmt := range config.DDL(conf) {
			if _, e := pool.Exec(ctx, stmt); e != nil {
				err = fmt.Errorf("stmt %q: %w", stmt, e)
				break
			}
		}
	}
	return pg, err, ""
}

// c16KeyCtx names the CLASS of a failure narrowly: which defect family, whose unique key is installed on the
// table (class of identity columns) and whose rows suffer. The route is part of the key only where the two
// routes behave differently by construction (first declaration wins in Migrate, last in print-schema).
func c16KeyCtx(j c16Job, b *c16Built, victim int, route string) string {
	tn := j.Tables[victim]
	var on []int
	for i, t := range j.Tables {
		if t == tn {
			on = append(on, i)
		}
	}
	owner := on[0]
	if route == "ddl" {
		owner = on[len(on)-1]
	}
	vc := c16Class(j.Shapes[victim])
	switch {
	case j.Kind == "reserved":
		return "reserved-" + j.Where + ":" + vc
	case strings.HasPrefix(j.Ident, "renamed:") && victim == 0:
		return "identity-" + j.Ident // the failure does not depend on the shape or on who shares the table
	case j.Ident != "" && victim == 0 && owner == 0:
		v := j.Ident
		if strings.HasPrefix(v, "prefix:") {
			v = "prefix"
		}
		if strings.HasPrefix(v, "renamed:") {
			return "identity-" + v // the failure does not depend on the shape
		}
		return "identity-" + v + ":" + vc
	case j.Ident != "" && len(on) > 1:
		return fmt.Sprintf("shared-table:key-of=%s:victim=%s", c16Class(j.Shapes[owner]), vc)
	case j.Pre == "P1" && victim == 0:
		return "preexisting-P1"
	case j.Pre != "" && victim == 0:
		return "preexisting-" + j.Pre + ":" + j.Shapes[0]
	case j.Pre == "P2":
		return "preexisting-P2:older-key-kept:victim=" + vc
	case len(on) > 1:
		return fmt.Sprintf("shared-table:key-of=%s:victim=%s", c16Class(j.Shapes[owner]), vc)
	}
	return "own-table:" + route + ":" + vc
}

func igNameCol(d *world.Decl, field string) string {
	for _, f := range d.Fields {
		if f.Name == field {
			return f.Column
		}
	}
	return field
}

func c16Exec(j c16Job) (res c16Res) {
	defer func() {
		if r := recover(); r != nil {
			res.vio("panic", "panic:"+j.Kind+":"+strings.Join(j.Shapes, "+"), "panic outside the world: %v", r)
		}
	}()
	b, err := c16Build(j)
	if err != nil {
		res.harness = err.Error()
		return
	}
	conf, err := world.ParseConf(b.confJSON)
	if j.Kind == "negative" {
		switch {
		case j.Neg == "notify-ok":
			if err != nil {
				res.vio("rejected", "negative:notify-ok:rejected", "a notification column that HAS a table column was rejected: %v", err)
			}
			res.outcome = "negative-control:accepted"
		case err == nil:
			res.vio("accepted", "negative:accepted:"+strings.SplitN(j.Neg, ":", 2)[0], "ValidateFix accepted a configuration whose %s has no matching table column:\n%s", j.Neg, b.confJSON)
			res.outcome = "negative:ACCEPTED"
		default:
			res.outcome = "negative:rejected"
		}
		return
	}
	if err != nil {
		res.outcome = "rejected"
		if j.Kind == "set" || j.Kind == "preexist" {
			res.harness = "a plain configuration was rejected: " + err.Error()
		}
		return
	}
	route := j.Route
	pg, merr, h := c16Schema(j, b, conf, route)
	if h != "" {
		res.harness = h
		return
	}
	// reserved words: judged on the statement text
	if j.Kind == "reserved" {
		c16Quoting(j, pg.SQLLog(), &res)
	}
	// reserved words: category "reserved" as a column name / unique entry / plain index entry works on the
	// CREATE and ALTER paths and is judged like everything else; table names, the category "reserved (can be
	// function or type name)" and "<word> desc" index entries are left unquoted by wpg: observed only
	judged := j.Kind != "reserved" || (c16WordClass(j.Word) == "reserved" && (j.Where == "column" || j.Where == "unique" || j.Where == "index"))
	if merr != nil && !judged {
		res.obs = append(res.obs, c16Vio{"reserved-unquoted", fmt.Sprintf("observed:reserved-word-unquoted:%s:%s-migration-fails", c16WordClass(j.Word), j.Where),
			fmt.Sprintf("configuration with %s named %q is accepted and the migration fails: %v", j.Where, j.Word, merr)})
		res.outcome = "accepted:observed-migrate-error"
		return
	}
	if merr != nil {
		if u := pg.Unsupported(); len(u) > 0 && j.Kind != "reserved" {
			res.harness = fmt.Sprintf("HARNESS-LIMIT unsupported SQL: %v (%v)", u, merr)
			return
		}
		res.vio("migrate-error", c16KeyCtx(j, b, 0, route)+":migrate-error", "a DDL/migration statement failed: %v\nconfiguration: %s", merr, b.confJSON)
		res.outcome = "migrate-error"
		return
	}
	if u := pg.Unsupported(); len(u) > 0 {
		if j.Kind == "reserved" {
			res.outcome = "reserved:fake-cannot-parse"
			return
		}
		res.harness = fmt.Sprintf("HARNESS-LIMIT unsupported SQL: %v", u)
		return
	}
	// catalogue: every column any integration writes exists with a compatible type (shared tables: the union)
	for i, d := range b.decls {
		have := map[string]string{}
		for _, c := range pg.Columns(d.Table) {
			have[c.Name] = c16TypeClass(c.Type)
		}
		want := map[string]string{}
		for _, c := range d.Columns() {
			want[c[0]] = c16TypeClass(c[1])
		}
		supplied := map[string]bool{}
		for _, f := range d.Fields {
			supplied[f.Name] = true
		}
		for _, f := range c16Identity(j.Shapes[i]) {
			if !supplied[f] {
				want[f] = c16TypeClass(world.FieldPGType(f))
			}
		}
		var names []string
		for n := range want {
			names = append(names, n)
		}
		sort.Strings(names)
		for _, n := range names {
			switch {
			case have[n] == "":
				res.vio("missing-column", c16KeyCtx(j, b, i, route)+":missing-column", "after %s table %s lacks column %q written by %s (has %v)\nconfiguration: %s", route, d.Table, n, d.Name, have, b.confJSON)
			case have[n] != want[n]:
				res.vio("column-type", c16KeyCtx(j, b, i, route)+":column-type", "table %s column %q has type class %s, %s writes %s", d.Table, n, have[n], d.Name, want[n])
			}
		}
	}
	// the print-schema route must agree with the migration route (judged once per table)
	if route == "ddl" {
		pm, e2, h2 := c16Schema(j, b, conf, "migrate")
		if h2 == "" && e2 == nil {
			done := map[string]bool{}
			for i, d := range b.decls {
				if done[d.Table] || c16Cat(pg, d.Table) == c16Cat(pm, d.Table) {
					continue
				}
				done[d.Table] = true
				first, last := i, i
				for k := range b.decls {
					if j.Tables[k] == j.Tables[i] {
						last = k
					}
				}
				what := "unique-key"
				if c16Cols(pg, d.Table) != c16Cols(pm, d.Table) {
					what = "columns"
				}
				res.vio("print-schema-vs-migrate", fmt.Sprintf("print-schema-vs-migrate:%s:first=%s:last=%s", what, c16Class(j.Shapes[first]), c16Class(j.Shapes[last])),
					"print-schema (config.DDL) and migration (config.Migrate) disagree on table %s:\n  print-schema: %s\n  migration:    %s\nconfiguration: %s", d.Table, c16Cat(pg, d.Table), c16Cat(pm, d.Table), b.confJSON)
			}
		}
	}
	snap := pg.Snapshot()
	chain := c16Chain(b.decls, 2, 1)
	chains := map[string]*simeth.Chain{"node1": chain}
	if j.TwoSrc {
		chains["node2"] = chain
	}
	w := world.New(nil, world.Cfg{Snap: snap, Chains: chains})
	declOf := map[string]int{}
	for i, d := range b.decls {
		declOf[d.Name] = i
	}
	chainID := map[string]uint64{"src1": 7, "src2": 8}
	w.Run(func() {
		tasks, err := w.LoadTasks(conf)
		if err != nil {
			w.HarnessErr = "loadTasks: " + err.Error()
			return
		}
		failed := map[string]bool{}
		for blk := 1; blk <= 2; blk++ {
			for _, t := range tasks {
				if failed[t.Key()] {
					continue
				}
				i := declOf[t.IG]
				out, err := t.Step()
				res.steps++
				switch {
				case out == "ok":
				case out == "panic":
					failed[t.Key()] = true
					res.vio("panic", c16KeyCtx(j, b, i, route)+":panic", "Converge of %s panicked: %v\nconfiguration: %s", t.Key(), err, b.confJSON)
				case sqlState(err) == "23505":
					failed[t.Key()] = true
					res.vio("false-collision", c16KeyCtx(j, b, i, route)+":false-collision", "indexing block %d for %s failed with a unique violation although all rows are different: %v\nunique indexes of %s: %s\nconfiguration: %s",
						blk, t.Key(), err, b.decls[i].Table, c16Cat(w.PG, b.decls[i].Table), b.confJSON)
				default:
					failed[t.Key()] = true
					res.vio("step-error", c16KeyCtx(j, b, i, route)+":step-error", "indexing block %d for %s: outcome %s: %v\nconfiguration: %s", blk, t.Key(), out, err, b.confJSON)
				}
			}
		}
		// rows: count and written columns per (integration, source)
		for _, t := range tasks {
			if failed[t.Key()] {
				continue
			}
			i := declOf[t.IG]
			d := b.decls[i]
			nwant, wcols := c16Expected(d, j.Shapes[i], chain, t.Src, chainID[t.Src])
			if nwant == 0 {
				w.HarnessErr = "declaration " + d.Name + " emits no row on the chain"
				return
			}
			igc, srcc := igNameCol(d, "ig_name"), igNameCol(d, "src_name")
			n := 0
			var nullCols []string
			for _, r := range w.PG.Dump(d.Table) {
				if r.Vals[igc] != d.Name || r.Vals[srcc] != t.Src {
					continue
				}
				n++
				for _, col := range wcols {
					if r.Vals[col] == nil {
						nullCols = append(nullCols, col)
					}
				}
			}
			res.rows += n
			if n != nwant {
				res.vio("row-count", c16KeyCtx(j, b, i, route)+":row-count", "%s: %d rows stored, %d emitted by the declaration\nconfiguration: %s", t.Key(), n, nwant, b.confJSON)
				failed[t.Key()] = true
			} else if len(nullCols) > 0 {
				sort.Strings(nullCols)
				res.vio("unwritten-column", c16KeyCtx(j, b, i, route)+":unwritten-column", "%s: columns stored as NULL although the integration emits them: %v", t.Key(), nullCols[:1])
			}
		}
		// re-insert of an already indexed block must collide and change nothing
		for _, t := range tasks {
			if failed[t.Key()] {
				continue
			}
			i := declOf[t.IG]
			cur, ok := w.Latest(t.Src, t.IG)
			if !ok || cur.Num != 2 {
				res.vio("cursor", c16KeyCtx(j, b, i, route)+":cursor", "%s: cursor %v after two blocks", t.Key(), cur.Num)
				continue
			}
			w.PG.DeleteWhere("shovel.task_updates", func(r simpg.Row) bool { return r.ID == cur.ID })
			before := w.PG.StateHash()
			out, err := t.Step()
			res.reins++
			after := w.PG.StateHash()
			switch {
			case out == "ok":
				res.vio("no-reinsert-collision", c16KeyCtx(j, b, i, route)+":no-reinsert-collision", "%s: block 2 was inserted a second time without a unique violation (rows duplicated)\nunique indexes of %s: %s\nconfiguration: %s",
					t.Key(), b.decls[i].Table, c16Cat(w.PG, b.decls[i].Table), b.confJSON)
				return // the state is no longer the expected one
			case out == "panic":
				res.vio("panic", c16KeyCtx(j, b, i, route)+":panic", "re-insert of %s panicked: %v", t.Key(), err)
				return
			case sqlState(err) != "23505":
				res.vio("reinsert-error", c16KeyCtx(j, b, i, route)+":reinsert-error", "%s: re-insert failed with %v, want SQLSTATE 23505", t.Key(), err)
			case before != after:
				res.vio("reinsert-state", c16KeyCtx(j, b, i, route)+":reinsert-state-changed", "%s: the failed re-insert changed the committed state", t.Key())
			}
			// put the cursor row back for the following tasks (dependencies do not exist here, but keep the state whole)
			w.PG.InsertRow("shovel.task_updates", map[string]any{"src_name": t.Src, "ig_name": t.IG, "num": cur.Num, "hash": cur.Hash, "chain_id": int64(chainID[t.Src])})
		}
	})
	if w.HarnessErr != "" {
		if len(w.V.Panics) > 0 {
			res.vio("panic", c16KeyCtx(j, b, 0, route)+":panic", "controlled thread panicked: %s\nconfiguration: %s", strings.Join(w.V.Panics, "\n"), b.confJSON)
		} else if len(res.vios) == 0 {
			res.harness = w.HarnessErr
		}
	} else if len(w.V.Panics) > 0 {
		res.vio("panic", c16KeyCtx(j, b, 0, route)+":panic", "controlled thread panicked: %s\nconfiguration: %s", strings.Join(w.V.Panics, "\n"), b.confJSON)
	}
	if len(w.V.Panics) > 0 {
		// everything else observed in this execution is a consequence of the crash
		var keep []c16Vio
		for _, v := range res.vios {
			if v.class == "panic" {
				keep = append(keep, v)
			}
		}
		res.vios = keep
	}
	if w.V.Deadlock && len(w.V.Panics) == 0 && res.harness == "" && len(res.vios) == 0 {
		res.harness = "deadlock: " + w.V.DeadlockMsg
	}
	if res.outcome == "" {
		res.outcome = "accepted:ran"
	}
	return
}

func c16Cols(pg *simpg.Server, table string) string {
	c := c16Cat(pg, table)
	return c[:strings.Index(c, " unique{")]
}

// c16Cat renders the catalogue of a table: sorted columns and unique indexes.
func c16Cat(pg *simpg.Server, table string) string {
	var cols []string
	for _, c := range pg.Columns(table) {
		cols = append(cols, c.Name+" "+c16TypeClass(c.Type))
	}
	sort.Strings(cols)
	var ix []string
	for _, x := range pg.Indexes(table) {
		if x.Unique {
			ix = append(ix, x.Name+"("+strings.Join(x.Cols, ",")+")")
		}
	}
	sort.Strings(ix)
	return "columns{" + strings.Join(cols, ", ") + "} unique{" + strings.Join(ix, "; ") + "}"
}

// c16Quoting judges the statement texts of a migration: every column / table name that is a reserved
// word must be double-quoted.
func c16Quoting(j c16Job, sqls []string, res *c16Res) {
	wc := c16WordClass(j.Word)
	bad := func(what, name, stmt string) {
		if strings.HasPrefix(name, `"`) || c16WordClass(name) == "" {
			return
		}
		key := fmt.Sprintf("observed:reserved-word-unquoted:%s:%s-in-%s", wc, j.Where, what)
		for _, o := range res.obs {
			if o.key == key {
				return
			}
		}
		res.obs = append(res.obs, c16Vio{"reserved-unquoted", key, fmt.Sprintf(
			"configuration with %s named %q (PostgreSQL key word, category %q) is accepted and the statement\n  %s\nuses the word unquoted: PostgreSQL rejects it with a syntax error", j.Where, j.Word, wc, stmt)})
	}
	first := func(s string) string {
		s = strings.TrimSpace(s)
		if i := strings.IndexAny(s, " ("); i >= 0 {
			return s[:i]
		}
		return s
	}
	seen := false
	for _, q := range sqls {
		l := strings.TrimSpace(q)
		low := strings.ToLower(l)
		switch {
		case strings.HasPrefix(low, "create table if not exists ") && !strings.Contains(low, "shovel."):
			rest := l[len("create table if not exists "):]
			open := strings.Index(rest, "(")
			if open < 0 {
				continue
			}
			seen = true
			bad("create-table-name", strings.TrimSpace(rest[:open]), l)
			for _, def := range strings.Split(strings.TrimSuffix(rest[open+1:], ")"), ", ") {
				bad("create-table-column", first(def), l)
			}
		case (strings.HasPrefix(low, "create unique index if not exists ") || strings.HasPrefix(low, "create index if not exists ")) && strings.Contains(low, " on ") && !strings.Contains(low, "shovel."):
			on := strings.Index(low, " on ")
			rest := l[on+4:]
			open := strings.Index(rest, "(")
			if open < 0 {
				continue
			}
			bad("index-table-name", strings.TrimSpace(rest[:open]), l)
			for _, e := range strings.Split(strings.TrimSuffix(strings.TrimSpace(rest[open+1:]), ")"), ", ") {
				bad("index-column", first(e), l)
			}
		case strings.HasPrefix(low, "alter table ") && strings.Contains(low, " add column if not exists ") && !strings.Contains(low, "shovel."):
			rest := l[len("alter table "):]
			bad("alter-table-name", first(rest), l)
			k := strings.Index(low, " add column if not exists ")
			bad("alter-column", first(l[k+len(" add column if not exists "):]), l)
		}
	}
	if !seen {
		res.harness = "reserved-word job saw no create table statement"
	}
}

// ---- run / replay -----------------------------------------------------------------------------------------------

func c16Report(c *fw.Ctx, j c16Job, r c16Res) {
	if r.harness != "" {
		c.HarnessError("job %+v: %s", j, r.harness)
		return
	}
	nontrivial := r.rows > 0 || j.Kind == "negative" || j.Kind == "reserved" || len(r.vios) > 0
	c.Eval(nontrivial)
	out := j.Kind + ":" + r.outcome
	if len(r.vios) > 0 {
		out = j.Kind + ":VIOLATION:" + r.vios[0].class
	}
	c.Outcome(out)
	c.Count("rows_emitted", int64(r.rows))
	c.Count("steps", int64(r.steps))
	c.Count("reinserts_judged", int64(r.reins))
	c.Count("jobs:"+j.Kind, 1)
	for _, v := range r.vios {
		c.Violation("C16", v.class, v.key, fmt.Sprintf("job %s\n%s", toJSON(j), v.detail), j)
	}
	for _, o := range r.obs {
		// quoting of reserved words is outside the property (columns present / union / unique key)
		c.Outcome(o.key[:strings.LastIndex(o.key, ":")])
		c.Count(o.key, 1)
		if c.Res.Counters[o.key] == 1 && c.Res.Counters["observation_samples"] < 3 {
			c.Count("observation_samples", 1)
			c.Res.Samples = append(c.Res.Samples, map[string]any{"observed": o.key, "job": j, "detail": o.detail})
		}
	}
	if c.Res.Evaluations%211 == 3 {
		c.Sample(map[string]any{"job": j, "outcome": out, "rows": r.rows})
	}
}

func c16Run(c *fw.Ctx) {
	jobs := c16Jobs(c.Thorough())
	c.Bound("jobs", len(jobs))
	c.Bound("shapes", len(c16AllShapes))
	c.Bound("max_integrations", 3)
	c.Bound("reserved_words", len(c16Reserved)+len(c16TypeFuncReserved))
	for _, j := range jobs {
		if !c.Mine() {
			continue
		}
		if c.Expired() {
			return
		}
		c16Report(c, j, c16Exec(j))
		if c.Res.HarnessErr != "" {
			return
		}
	}
}

func c16Replay(c *fw.Ctx, raw json.RawMessage) {
	var j c16Job
	if err := json.Unmarshal(raw, &j); err != nil {
		c.HarnessError("bad case: %v", err)
		return
	}
	c16Report(c, j, c16Exec(j))
}
