//go:build verif

package conf

import (
	"fmt"
	"math/big"
	"strings"

	"verifh/ref"
	"verifh/simeth"
	"verifh/world"
)

// ---- integration shapes (C16) ----------------------------------------------------------------------
//
//	LS  log event, indexed + non-indexed scalars            identity: …, tx_idx, log_idx, abi_idx
//	LA  log event with a dynamic array input (3 elements)   identity: …, tx_idx, log_idx, abi_idx
//	LI  log event, all inputs indexed (log without data)    identity: …, tx_idx, log_idx
//	TX  transaction fields                                  identity: …, tx_idx
//	TR  trace fields (two trace actions per transaction)    identity: …, tx_idx, trace_action_idx
//
// Every indexed input is selected (a known, separately tracked defect mis-numbers topics otherwise).

var c16Shapes = []string{"LS", "LA", "LI", "TX", "TR"}

// LT / LK: log event whose only un-indexed selected data are the COMPONENTS of a tuple[] (3 elements) /
// tuple[2] input: one row per array element although no top-level un-indexed input is selected
// (identity: …, tx_idx, log_idx, abi_idx). world.Decl has no tuples: the components are added to the
// rendered configuration, the logs are built with package ref and the expectation is computed here.
// LR: LS whose columns are named with reserved words (from, to, order — from/to are the column names of the
// ERC-20 example configuration): the generated DDL must quote them on the CREATE and on the ALTER path.
var c16AllShapes = []string{"LS", "LA", "LI", "TX", "TR", "LT", "LK", "LR"}

// c16PreShapes: shapes of the pre-existing-table jobs.
var c16PreShapes = []string{"LS", "LA", "LI", "TX", "TR", "LR"}

func c16TupleDims(d *world.Decl) (int, bool) {
	switch d.Event {
	case "Fill":
		return 0, true
	case "FillK":
		return 2, true
	}
	return 0, false
}

func c16TupleNodes(k int) []*ref.Node {
	return []*ref.Node{ref.Leaf("address"), ref.Tuple([]*ref.Node{ref.Leaf("address"), ref.Leaf("uint256")}, k)}
}

func c16TupleElems(k int) int {
	if k == 0 {
		return 3
	}
	return k
}

func c16Decl(shape, name, table string, srcs []world.SrcRef) *world.Decl {
	d := &world.Decl{Name: name, Table: table, Sources: srcs}
	switch shape {
	case "LR":
		d.Event = "Transfer"
		d.Inputs = []world.Input{
			{Name: "from", Type: "address", Indexed: true, Column: "from"},
			{Name: "to", Type: "address", Indexed: true, Column: "to"},
			{Name: "value", Type: "uint256", Column: "order"},
		}
	case "LS":
		d.Event = "Transfer"
		d.Inputs = []world.Input{
			{Name: "from", Type: "address", Indexed: true, Column: "f"},
			{Name: "to", Type: "address", Indexed: true, Column: "t"},
			{Name: "value", Type: "uint256", Column: "v"},
		}
	case "LA":
		d.Event = "Batch"
		d.Inputs = []world.Input{
			{Name: "op", Type: "address", Indexed: true, Column: "op"},
			{Name: "ids", Type: "uint256[]", Column: "id"},
		}
	case "LI":
		d.Event = "Ping"
		d.Inputs = []world.Input{
			{Name: "a", Type: "address", Indexed: true, Column: "a"},
			{Name: "n", Type: "uint256", Indexed: true, Column: "n"},
		}
	case "LT", "LK":
		d.Event, d.Inputs = "Fill", []world.Input{
			{Name: "maker", Type: "address", Indexed: true, Column: "maker"},
			{Name: "items", Type: "tuple[]"},
		}
		if shape == "LK" {
			d.Event, d.Inputs[1].Type = "FillK", "tuple[2]"
		}
		d.ExtraCols = [][2]string{{"token", "bytea"}, {"amount", "numeric"}}
	case "TX":
		d.Fields = []world.Field{{Name: "tx_hash", Column: "tx_hash"}, {Name: "tx_value", Column: "tx_value"}, {Name: "tx_input", Column: "tx_input"}}
	case "TR":
		d.Fields = []world.Field{{Name: "trace_action_from", Column: "tfrom"}, {Name: "trace_action_value", Column: "tval"}, {Name: "trace_action_call_type", Column: "tct"}}
	default:
		panic("unknown shape " + shape)
	}
	return d
}

// c16Class names the identity class of a shape (which columns tell its rows apart).
func c16Class(shape string) string {
	switch shape {
	case "LS", "LA", "LT", "LK", "LR":
		return "log+abi"
	case "LI":
		return "log"
	case "TX":
		return "tx"
	case "TR":
		return "trace"
	}
	return "?"
}

// c16Identity is the reference list of identity fields a shape needs (written from the property, in
// the order of the documented default key).
func c16Identity(shape string) []string {
	id := []string{"ig_name", "src_name", "block_num", "tx_idx"}
	switch shape {
	case "LS", "LA", "LT", "LK", "LR":
		id = append(id, "log_idx", "abi_idx")
	case "LI":
		id = append(id, "log_idx")
	case "TR":
		id = append(id, "trace_action_idx")
	}
	return id
}

func c16TypeClass(t string) string {
	switch strings.ToLower(t) {
	case "numeric", "decimal":
		return "numeric"
	case "int", "int2", "int4", "int8", "integer", "smallint", "bigint":
		return "int"
	case "bool", "boolean":
		return "bool"
	case "text", "character varying", "varchar":
		return "text"
	case "bytea":
		return "bytea"
	}
	return t
}

// ---- chain ---------------------------------------------------------------------------------------------

func c16Scalar(typ, seed string) []byte {
	switch {
	case typ == "address":
		return world.AddrWord(simeth.Addr(seed))
	case strings.HasPrefix(typ, "uint"):
		return world.WordBig(new(big.Int).SetBytes(simeth.Word(seed)[:12]))
	}
	return simeth.Word(seed)
}

func c16Log(d *world.Decl, seed string) *simeth.Log {
	if k, ok := c16TupleDims(d); ok {
		nodes := c16TupleNodes(k)
		var els []any
		for e := 0; e < c16TupleElems(k); e++ {
			els = append(els, []any{c16Scalar("address", fmt.Sprintf("%s/tok/%d", seed, e)), c16Scalar("uint256", fmt.Sprintf("%s/amt/%d", seed, e))})
		}
		return &simeth.Log{Address: simeth.Addr("c16-contract"),
			Topics: [][]byte{ref.Topic0(d.Event, nodes), c16Scalar("address", seed+"/maker")},
			Data:   ref.EncodeInputs(nodes[1:], []ref.Value{els}), Tag: d.Name}
	}
	var vals []ref.Value
	for i, in := range d.Inputs {
		s := fmt.Sprintf("%s/%s/%d", seed, in.Name, i)
		if strings.HasSuffix(in.Type, "[]") {
			var els []any
			for k := 0; k < 3; k++ { // arrays of length 3
				els = append(els, c16Scalar(strings.TrimSuffix(in.Type, "[]"), fmt.Sprintf("%s/%d", s, k)))
			}
			vals = append(vals, els)
			continue
		}
		vals = append(vals, c16Scalar(in.Type, s))
	}
	return d.MkLog(simeth.Addr("c16-contract"), vals...)
}

// c16Chain: nBlocks blocks, each with two transactions; every transaction carries two matching logs of
// every distinct log event among decls and two trace actions.
func c16Chain(decls []*world.Decl, nBlocks int, salt uint64) *simeth.Chain {
	var events []*world.Decl
	seen := map[string]bool{}
	for _, d := range decls {
		if d.Event != "" && !seen[d.Signature()] {
			seen[d.Signature()] = true
			events = append(events, d)
		}
	}
	var specs []simeth.BlockSpec
	for b := 1; b <= nBlocks; b++ {
		var bs simeth.BlockSpec
		for t := 0; t < 2; t++ {
			seed := fmt.Sprintf("c16/%d/%d/%d", salt, b, t)
			var tx simeth.TxSpec
			for _, e := range events {
				for l := 0; l < 2; l++ {
					tx.Logs = append(tx.Logs, c16Log(e, fmt.Sprintf("%s/%s/%d", seed, e.Event, l)))
				}
			}
			for a := 0; a < 2; a++ {
				s := fmt.Sprintf("%s/tr%d", seed, a)
				tx.Traces = append(tx.Traces, &simeth.Trace{From: simeth.Addr(s + "/f"), To: simeth.Addr(s + "/t"),
					Value: new(big.Int).SetBytes(simeth.Word(s + "/v")[:9]), CallType: []string{"call", "delegatecall"}[a]})
			}
			bs.Txs = append(bs.Txs, tx)
		}
		specs = append(specs, bs)
	}
	return simeth.Build(specs, salt)
}

// c16Expected: number of rows (d, src) must have emitted for blocks 1..2 of chain and the columns every one of
// them carries.
func c16Expected(d *world.Decl, shape string, chain *simeth.Chain, src string, chainID uint64) (int, []string) {
	if k, ok := c16TupleDims(d); ok {
		t0 := ref.Topic0(d.Event, c16TupleNodes(k))
		n := 0
		for _, b := range chain.Blocks {
			for _, tx := range b.Txs {
				for _, l := range tx.Logs {
					if len(l.Topics) == 2 && string(l.Topics[0]) == string(t0) {
						n += c16TupleElems(k)
					}
				}
			}
		}
		cols := []string{"maker", "token", "amount"}
		supplied := map[string]bool{}
		for _, f := range d.Fields {
			supplied[f.Name] = true
			cols = append(cols, f.Column)
		}
		for _, f := range c16Identity(shape) {
			if !supplied[f] {
				cols = append(cols, f)
			}
		}
		return n, cols
	}
	want := d.Expect(chain, src, chainID, 1, 2, nil)
	if len(want) == 0 {
		return 0, nil
	}
	var cols []string
	for c := range want[0] {
		cols = append(cols, c)
	}
	return len(want), cols
}

// ---- PostgreSQL key words that cannot be used as a column or table name without quoting ----------------
// (PostgreSQL 15 documentation, appendix C: categories "reserved" and "reserved (can be function or
// type name)"; written from the documentation, not from wpg's generated list.)

var c16Reserved = strings.Fields(`all analyse analyze and any array as asc asymmetric both case cast check collate column
constraint create current_catalog current_date current_role current_time current_timestamp current_user default deferrable
desc distinct do else end except false fetch for foreign from grant group having in initially intersect into lateral leading
limit localtime localtimestamp not null offset on only or order placing primary references returning select session_user
some symmetric table then to trailing true union unique user using variadic when where window with`)

var c16TypeFuncReserved = strings.Fields(`authorization binary collation concurrently cross current_schema freeze full ilike
inner is isnull join left like natural notnull outer overlaps right similar tablesample verbose`)

func c16WordClass(w string) string {
	w = strings.ToLower(w)
	for _, x := range c16Reserved {
		if x == w {
			return "reserved"
		}
	}
	for _, x := range c16TypeFuncReserved {
		if x == w {
			return "reserved-type-func-name"
		}
	}
	return ""
}
