//go:build verif

// Package conf holds world harnesses (see DESIGN.md §4).
package conf
