//go:build verif

package deps

import (
	"encoding/json"
	"fmt"
	"math/big"
	"os"
	"sort"
	"strconv"
	"strings"
	"time"

	"verifh/checks"
	"verifh/explore"
	"verifh/fw"
	"verifh/simeth"
	"verifh/simpg"
	"verifh/vrt"
	"verifh/world"
)

// C05 — an integration with filter references never runs ahead of what it references.
//
// Job = (dependency graph, steps per integration thread (0 = the integration never
// starts), batch size, optional head growth). One controlled thread per integration, all on
// one source; the explorer enumerates every step-level order (free) and every I/O-level
// interleaving up to a preemption bound. Oracle at every commit that moves a dependent's
// cursor (attributed to the committing thread) + after every step of a dependent.

type c05Job struct {
	Graph    string         `json:"graph"`
	Steps    map[string]int `json:"steps"` // integration name -> number of Converge calls of its thread (0: never starts)
	Batch    int            `json:"batch"`
	Grow     bool           `json:"grow"`                // an environment thread reveals the last block
	DStart   uint64         `json:"dstart"`              // start block of the dependent "d" (default 1)
	Blocks   int            `json:"blocks,omitempty"`    // chain length (default 3)
	Conc     int            `json:"conc,omitempty"`      // concurrency of the source (default 1)
	R2Start  uint64         `json:"r2start,omitempty"`   // start block of the referenced integration "r2" (default 1)
	Pre      map[string]int `json:"pre,omitempty"`       // steps executed one after the other (config order) BEFORE the concurrent phase, by the same long-lived tasks
	Reorg    int            `json:"reorg,omitempty"`     // > 0: the blocks above this fork block are replaced by a branch that is one block longer (by an environment thread of the concurrent phase, or, when Mid is set, right after the prefix)
	Mid      map[string]int `json:"mid,omitempty"`       // steps executed one after the other right after a sequential reorganisation (a task with a warm header cache needs failing rounds before it can roll back)
	RIndex   string         `json:"rindex,omitempty"`    // the table of a referenced integration declares its own "index" list (c05IndexVariants; c = the referenced column)
	RIndexAt string         `json:"rindex_at,omitempty"` // the only referenced integration whose table declares it ("" = every referenced integration)
}

func (j c05Job) blocks() int {
	if j.Blocks == 0 {
		return 3
	}
	return j.Blocks
}

type c05Case struct {
	Job     c05Job `json:"job"`
	Bounds  [6]int `json:"bounds"`
	FullIO  bool   `json:"full_io"`
	Choices []int  `json:"choices"`
}

func init() {
	checks.Register(&checks.Check{
		ID:        "C05",
		Level:     "model_checking",
		Technique: "stateless model checking of the real pipeline (controlled scheduler over instrumented code, fake Postgres, simulated node): one controlled thread per integration of a filter_ref dependency graph on one source; all step-level orders and all I/O-level interleavings up to a preemption bound, including referenced integrations that never start; oracle evaluated at every commit of a dependent (attributed to the committing thread) and after every step",
		Rule: "jobs = dependency graphs {D->R on a block field (log_addr; tx_to for transaction indexing), D->R on an event input, D->{R1,R2} (two referenced integrations, two tables; and/or), chain D2->D->R1, D->R1 beside an unrelated integration} x every subset of referenced integrations that never start x batch {1,2} x {static chain, one head-growth event} x dependent start {1,2}; plus (a) the table of a referenced integration declares its own index list: {[c], [o], [o],[c], [c],[o], [c,o], [c desc]} (c = the referenced column, o = block_num) x {event input, log_addr, tx_to reference} with the referenced integration never starting and running, on both / either one of two referenced tables, on both tables of the chain and on a shared table, and (b) two dependents D,E on ONE column of ONE referenced integration (both by event input; one by event input and one by tx_to), both listing orders, the reference never starting / ahead of them / running beside them; threads run 1-3 steps each over a 3-block chain whose block m registers the values the dependent's logs of block m look up. " +
			"Per job every schedule with <= 1 preemption at I/O granularity (thorough 2); switches at step boundaries are free. Non-trivial execution: a dependent committed a cursor move and emitted a row.",
		Assumptions: []string{
			"fake Postgres (h/simpg, READ COMMITTED) and simulated node (h/simeth) as in DESIGN.md §7",
			"file configuration (config.ValidateFix fills Dependencies and filter_ref.table); integrations stored through the dashboard are not validated at all and are outside this check (reported separately)",
			"the chain never uses a value in block m that is registered in a block > m, so 'referenced data complete for the block being processed' and 'final referenced table' give the same look-up results",
			"liveness (the dependent eventually catches up) is not part of the property and not judged",
			"the dependency graph of the oracle is read off the declared filter references alone (one edge per reference, whatever index lists the tables declare and however many dependents share a column); whether the look-up index itself exists is not judged",
		},
		Budget:        map[string]time.Duration{"quick": 140 * time.Second, "thorough": 850 * time.Second},
		MinNontrivial: 1000,
		Inst:          true,
		Run:           c05Run,
		Replay:        c05Replay,
	})
}

// ---- declarations and chain ------------------------------------------------------------------------

var (
	c05Registry = simeth.Addr("c05-registry")
	c05X        = simeth.Addr("c05-unregistered-from")
	c05Y        = simeth.Addr("c05-unregistered-emitter")
)

const c05MaxBlocks = 24

// rounds of the just-started reference that fail on a header cached before the reorganisation (three
// integrations share the cache) before the round that rolls back
const c05R2FailingRounds = 1

// values registered in block m: c05V `from` values (R1), c05U emitters (R2), c05W tx_to values (R1)
var c05V, c05U, c05W = c05Vals("v"), c05Vals("u"), c05Vals("w")

func c05Vals(l string) (out [c05MaxBlocks + 2][]byte) {
	for m := 1; m < len(out); m++ {
		out[m] = simeth.Addr(fmt.Sprintf("c05-%s%d", l, m))
	}
	return out
}

// A task is named after its integration; the task of an integration on a source other than src1 is
// "<integration>@<source>".
func c05Split(name string) (ig, src string) {
	if i := strings.IndexByte(name, '@'); i >= 0 {
		return name[:i], name[i+1:]
	}
	return name, "src1"
}

func c05Key(ig, src string) string {
	if src == "src1" || src == "" {
		return ig
	}
	return ig + "@" + src
}

type c05Graph struct {
	decls []*world.Decl       // config order
	deps  map[string][]string // dependent TASK -> referenced integrations (positions are per source)
	two   bool                // a second source "src2" (node2, same chain) is configured
}

func c05Decls(j c05Job) *c05Graph {
	src := func(start uint64) []world.SrcRef { return []world.SrcRef{{Name: "src1", Start: start}} }
	reg := func(name, table, ev string) *world.Decl {
		return &world.Decl{Name: name, Table: table, Event: ev, Sources: src(1), Inputs: []world.Input{{Name: "who", Type: "address", Column: "who"}}}
	}
	r1, r2 := reg("r1", "rt1", "RegOne"), reg("r2", "rt2", "RegTwo")
	if j.R2Start > 0 {
		r2.Sources = src(j.R2Start)
	}
	if j.Reorg > 0 {
		// a task notices a reorganisation only when it loads headers (parent hash): the referenced
		// integrations select block_time (a header-only field) in the reorg jobs
		r1.Fields = []world.Field{{Name: "block_time", Column: "block_time"}}
		r2.Fields = []world.Field{{Name: "block_time", Column: "block_time"}}
	}
	ds := j.DStart
	if ds == 0 {
		ds = 1
	}
	d := &world.Decl{Name: "d", Table: "dt", Event: "Transfer", Sources: src(ds), Inputs: []world.Input{
		{Name: "from", Type: "address", Indexed: true, Column: "c_from"},
		{Name: "to", Type: "address", Indexed: true, Column: "c_to"},
		{Name: "value", Type: "uint256", Column: "c_value"}}}
	g := &c05Graph{deps: map[string][]string{}}
	refR1 := &world.Ref{Integration: "r1", Column: "who"}
	refR2 := &world.Ref{Integration: "r2", Column: "who"}
	switch j.Graph {
	case "input": // D -> R1 on an event input
		d.Inputs[0].Op, d.Inputs[0].Ref = "contains", refR1
		g.decls, g.deps["d"] = []*world.Decl{r1, d}, []string{"r1"}
	case "field": // D -> R2 on the block field log_addr
		d.Fields = []world.Field{{Name: "log_addr", Column: "log_addr", Op: "contains", Ref: refR2}}
		g.decls, g.deps["d"] = []*world.Decl{r2, d}, []string{"r2"}
	case "txfield": // transaction indexing: D -> R1 on tx_to
		d.Event, d.Inputs = "", nil
		d.Fields = []world.Field{{Name: "tx_hash", Column: "tx_hash"}, {Name: "tx_to", Column: "tx_to", Op: "contains", Ref: refR1}}
		g.decls, g.deps["d"] = []*world.Decl{r1, d}, []string{"r1"}
	case "two", "two-or": // D -> {R1 on input, R2 on log_addr}
		d.Inputs[0].Op, d.Inputs[0].Ref = "contains", refR1
		d.Fields = []world.Field{{Name: "log_addr", Column: "log_addr", Op: "contains", Ref: refR2}}
		d.FilterAgg = "and"
		if j.Graph == "two-or" {
			d.FilterAgg = "or"
		}
		g.decls, g.deps["d"] = []*world.Decl{r1, r2, d}, []string{"r1", "r2"}
	case "shared", "shared-or", "shared-rev", "shared-rev-or":
		// D -> {R1, R2} where R1 and R2 write to ONE table: two dependencies although one table is looked up
		r1.Table, r2.Table = "rts", "rts"
		a, b := refR1, refR2
		if strings.HasPrefix(j.Graph, "shared-rev") { // the input references R2, the block field R1
			a, b = refR2, refR1
		}
		d.Inputs[0].Op, d.Inputs[0].Ref = "contains", a
		d.Fields = []world.Field{{Name: "log_addr", Column: "log_addr", Op: "contains", Ref: b}}
		d.FilterAgg = "and"
		if strings.HasSuffix(j.Graph, "-or") {
			d.FilterAgg = "or"
		}
		g.decls, g.deps["d"] = []*world.Decl{r1, r2, d}, []string{"r1", "r2"}
	case "pair", "pair-rev":
		// two dependents on two DIFFERENT references: D -> R1 (event input), E -> R2 (log_addr); both listing orders
		d.Inputs[0].Op, d.Inputs[0].Ref = "contains", refR1
		e := &world.Decl{Name: "e", Table: "et", Event: "Transfer", Sources: src(1), Inputs: []world.Input{
			{Name: "from", Type: "address", Indexed: true, Column: "c_from"},
			{Name: "to", Type: "address", Indexed: true, Column: "c_to"},
			{Name: "value", Type: "uint256", Column: "c_value"}},
			Fields: []world.Field{{Name: "log_addr", Column: "log_addr", Op: "contains", Ref: refR2}}}
		g.decls = []*world.Decl{r1, r2, d, e}
		if j.Graph == "pair-rev" {
			g.decls = []*world.Decl{r2, r1, e, d}
		}
		g.deps["d"], g.deps["e"] = []string{"r1"}, []string{"r2"}
	case "fan", "fan-rev", "fan-tx", "fan-tx-rev":
		// two dependents on ONE column of ONE referenced integration: D -> R1.who (event input) and E -> R1.who
		// (event input; fan-tx: transaction indexing, block field tx_to); both listing orders
		d.Inputs[0].Op, d.Inputs[0].Ref = "contains", refR1
		e := &world.Decl{Name: "e", Table: "et", Event: "Transfer", Sources: src(1), Inputs: []world.Input{
			{Name: "from", Type: "address", Indexed: true, Column: "c_from", Op: "contains", Ref: &world.Ref{Integration: "r1", Column: "who"}},
			{Name: "to", Type: "address", Indexed: true, Column: "c_to"},
			{Name: "value", Type: "uint256", Column: "c_value"}}}
		if strings.HasPrefix(j.Graph, "fan-tx") {
			e.Event, e.Inputs = "", nil
			e.Fields = []world.Field{{Name: "tx_hash", Column: "tx_hash"}, {Name: "tx_to", Column: "tx_to", Op: "contains", Ref: &world.Ref{Integration: "r1", Column: "who"}}}
		}
		g.decls = []*world.Decl{r1, d, e}
		if strings.HasSuffix(j.Graph, "-rev") {
			g.decls = []*world.Decl{r1, e, d}
		}
		g.deps["d"], g.deps["e"] = []string{"r1"}, []string{"r1"}
	case "twosrc": // D on src1 and src2 -> R1, which is configured for src1 only: on src2 D has nothing to follow
		d.Inputs[0].Op, d.Inputs[0].Ref = "contains", refR1
		d.Sources = append(d.Sources, world.SrcRef{Name: "src2", Start: 1})
		g.decls, g.two = []*world.Decl{r1, d}, true
		g.deps["d"], g.deps["d@src2"] = []string{"r1"}, []string{"r1"}
	case "twosrc-two": // D on both sources -> {R1 on src1 only, R2 on both}: on src2 R2 advances, R1 never records anything
		d.Inputs[0].Op, d.Inputs[0].Ref = "contains", refR1
		d.Fields = []world.Field{{Name: "log_addr", Column: "log_addr", Op: "contains", Ref: refR2}}
		d.FilterAgg = "and"
		d.Sources = append(d.Sources, world.SrcRef{Name: "src2", Start: 1})
		r2.Sources = append(r2.Sources, world.SrcRef{Name: "src2", Start: 1})
		g.decls, g.two = []*world.Decl{r1, r2, d}, true
		g.deps["d"], g.deps["d@src2"] = []string{"r1", "r2"}, []string{"r1", "r2"}
	case "chain": // D2 -> D -> R1
		d.Inputs[0].Op, d.Inputs[0].Ref = "contains", refR1
		d2 := &world.Decl{Name: "d2", Table: "d2t", Event: "Act", Sources: src(1), Inputs: []world.Input{
			{Name: "who", Type: "address", Indexed: true, Column: "c_who", Op: "contains", Ref: &world.Ref{Integration: "d", Column: "c_from"}},
			{Name: "x", Type: "uint256", Column: "c_x"}}}
		g.decls = []*world.Decl{r1, d, d2}
		g.deps["d"], g.deps["d2"] = []string{"r1"}, []string{"d"}
	case "unrelated": // D -> R1, and an integration U nobody references
		d.Inputs[0].Op, d.Inputs[0].Ref = "contains", refR1
		u := &world.Decl{Name: "u", Table: "ut", Event: "Other", Sources: src(1), Inputs: []world.Input{{Name: "x", Type: "address", Indexed: true, Column: "x"}, {Name: "y", Type: "uint256", Column: "y"}}}
		g.decls, g.deps["d"] = []*world.Decl{r1, u, d}, []string{"r1"}
	default:
		panic("c05: unknown graph " + j.Graph)
	}
	g.declareIndexes(j.RIndex, j.RIndexAt)
	return g
}

// c05IndexVariants: the "index" lists a referenced integration's table may declare itself, relative to the
// referenced column c and another column of the table (block_num): the referenced column alone, another
// column alone, both as two entries in either order, one composite entry, the referenced column with a direction.
var c05IndexVariants = []string{"col", "other", "other,col", "col,other", "col+other", "col-desc"}

func c05Index(variant, col string) [][]string {
	const other = "block_num"
	switch variant {
	case "col":
		return [][]string{{col}}
	case "other":
		return [][]string{{other}}
	case "other,col":
		return [][]string{{other}, {col}}
	case "col,other":
		return [][]string{{col}, {other}}
	case "col+other":
		return [][]string{{col, other}}
	case "col-desc":
		return [][]string{{col + " desc"}}
	}
	panic("c05: unknown index variant " + variant)
}

// declareIndexes gives the table of every referenced integration (or of the one named by `at`) its own index
// list. What is referenced is read off the declarations (filter references of inputs and block fields).
func (g *c05Graph) declareIndexes(variant, at string) {
	if variant == "" {
		return
	}
	refCol := map[string]string{}
	for _, d := range g.decls {
		for _, in := range d.Inputs {
			if in.Ref != nil {
				refCol[in.Ref.Integration] = in.Ref.Column
			}
		}
		for _, f := range d.Fields {
			if f.Ref != nil {
				refCol[f.Ref.Integration] = f.Ref.Column
			}
		}
	}
	for _, d := range g.decls {
		if col, ok := refCol[d.Name]; ok && (at == "" || at == d.Name) {
			d.Index = c05Index(variant, col)
		}
	}
}

func (g *c05Graph) decl(name string) *world.Decl {
	name, _ = c05Split(name)
	for _, d := range g.decls {
		if d.Name == name {
			return d
		}
	}
	return nil
}

var c05ChainCache = map[string]*simeth.Chain{}

// c05BuildChain: blocks 1..n. Block m, tx0 (registry): RegOne(v_m), RegOne(w_m), RegTwo(u_m), Other;
// tx1 (to = w_m): Transfer logs {u_m,v_m} {u_m,X} {Y,v_m} {u_(m-1),v_(m-1)}, Act(v_m), Act(X), Act(v_(m-1)).
func c05BuildChain(n, fork int) *simeth.Chain {
	key := fmt.Sprintf("%d/%d", n, fork)
	if c, ok := c05ChainCache[key]; ok {
		return c
	}
	src := []world.SrcRef{{Name: "src1", Start: 1}}
	r1 := &world.Decl{Name: "r1", Event: "RegOne", Sources: src, Inputs: []world.Input{{Name: "who", Type: "address", Column: "who"}}}
	r2 := &world.Decl{Name: "r2", Event: "RegTwo", Sources: src, Inputs: []world.Input{{Name: "who", Type: "address", Column: "who"}}}
	tr := &world.Decl{Name: "d", Event: "Transfer", Inputs: []world.Input{{Name: "from", Type: "address", Indexed: true, Column: "c_from"}, {Name: "to", Type: "address", Indexed: true, Column: "c_to"}, {Name: "value", Type: "uint256", Column: "c_value"}}}
	act := &world.Decl{Name: "d2", Event: "Act", Inputs: []world.Input{{Name: "who", Type: "address", Indexed: true, Column: "c_who"}, {Name: "x", Type: "uint256", Column: "c_x"}}}
	oth := &world.Decl{Name: "u", Event: "Other", Inputs: []world.Input{{Name: "x", Type: "address", Indexed: true, Column: "x"}, {Name: "y", Type: "uint256", Column: "y"}}}
	aw := world.AddrWord
	// specs of blocks lo..hi; alt: the blocks of a replacing branch (other registered values, other logs)
	mkSpecs := func(lo, hi int, alt bool) []simeth.BlockSpec {
		V, U, W := c05V, c05U, c05W
		off := uint64(0)
		if alt {
			off = 5000
			for m := 1; m < len(V); m++ {
				V[m], U[m], W[m] = simeth.Addr(fmt.Sprintf("c05-alt-v%d", m)), simeth.Addr(fmt.Sprintf("c05-alt-u%d", m)), simeth.Addr(fmt.Sprintf("c05-alt-w%d", m))
			}
			V[lo-1], U[lo-1] = c05V[lo-1], c05U[lo-1]
		}
		var specs []simeth.BlockSpec
		for m := lo; m <= hi; m++ {
			to := simeth.Addr(fmt.Sprintf("c05-to-%d-%v", m, alt))
			t0 := simeth.TxSpec{Logs: []*simeth.Log{r1.MkLog(c05Registry, aw(V[m])), r1.MkLog(c05Registry, aw(W[m])), r2.MkLog(c05Registry, aw(U[m])),
				oth.MkLog(c05Registry, aw(V[m]), world.U(off+uint64(m)))}}
			t1 := simeth.TxSpec{Logs: []*simeth.Log{
				tr.MkLog(U[m], aw(V[m]), aw(to), world.U(off+uint64(100+m))),
				tr.MkLog(U[m], aw(c05X), aw(to), world.U(off+uint64(200+m))),
				tr.MkLog(c05Y, aw(V[m]), aw(to), world.U(off+uint64(300+m))),
				act.MkLog(c05Registry, aw(V[m]), world.U(off+uint64(400+m))),
				act.MkLog(c05Registry, aw(c05X), world.U(off+uint64(500+m))),
			}}
			if m > 1 {
				t1.Logs = append(t1.Logs, tr.MkLog(U[m-1], aw(V[m-1]), aw(to), world.U(off+uint64(600+m))), act.MkLog(c05Registry, aw(V[m-1]), world.U(off+uint64(700+m))))
			}
			specs = append(specs, simeth.BlockSpec{Txs: []simeth.TxSpec{t0, t1}})
		}
		return specs
	}
	if fork > 0 {
		base := c05BuildChain(n, 0)
		c := base.Reorg(uint64(fork), mkSpecs(fork+1, n+1, true), 6)
		for m := fork + 1; m <= n+1; m++ {
			c.Blocks[m].Txs[1].To = simeth.Addr(fmt.Sprintf("c05-alt-w%d", m))
		}
		c.Seal()
		c05ChainCache[key] = c
		return c
	}
	specs := mkSpecs(1, n, false)
	c := simeth.Build(specs, 5)
	for m := 1; m <= n; m++ {
		c.Blocks[m].Txs[1].To = append([]byte{}, c05W[m]...)
	}
	c.Seal()
	c05ChainCache[key] = c
	return c
}

// ---- jobs --------------------------------------------------------------------------------------------

func c05Jobs(thorough bool) []c05Job {
	var jobs []c05Job
	st := func(kv ...any) map[string]int {
		m := map[string]int{}
		for i := 0; i < len(kv); i += 2 {
			m[kv[i].(string)] = kv[i+1].(int)
		}
		return m
	}
	add := func(graph string, steps map[string]int, batch int, grow bool, dstart uint64) {
		jobs = append(jobs, c05Job{Graph: graph, Steps: steps, Batch: batch, Grow: grow, DStart: dstart})
	}
	one := func(graph, r string) {
		add(graph, st(r, 2, "d", 3), 1, false, 1)
		add(graph, st(r, 2, "d", 2), 2, false, 1)
		add(graph, st(r, 3, "d", 2), 1, false, 2)
		if graph == "input" || thorough { // the other two-thread graphs differ in the fetch plan only
			add(graph, st(r, 3, "d", 3), 1, false, 1)
		}
		if graph == "input" || thorough {
			add(graph, st(r, 2, "d", 2), 1, true, 1)
		}
		add(graph, st(r, 0, "d", 2), 1, false, 1) // referenced integration never starts
		add(graph, st(r, 0, "d", 2), 2, false, 2)
		add(graph, st(r, 0, "d", 2), 1, true, 1)
		if thorough {
			add(graph, st(r, 2, "d", 3), 2, true, 2)
		}
	}
	one("input", "r1")
	one("field", "r2")
	one("txfield", "r1")
	for _, g := range []string{"two", "two-or"} {
		if g == "two" || thorough {
			add(g, st("r1", 2, "r2", 1, "d", 2), 2, false, 1)
		}
		add(g, st("r1", 2, "r2", 0, "d", 2), 1, false, 1) // R2 never starts
		add(g, st("r1", 0, "r2", 2, "d", 2), 1, false, 1) // R1 never starts
		add(g, st("r1", 0, "r2", 0, "d", 2), 1, false, 1) // neither starts
		add(g, st("r1", 2, "r2", 0, "d", 2), 2, false, 2)
		add(g, st("r1", 1, "r2", 0, "d", 1), 1, true, 1)
		if thorough {
			add(g, st("r1", 1, "r2", 1, "d", 1), 1, true, 1)
			add(g, st("r1", 1, "r2", 2, "d", 2), 1, false, 1)
		}
		if thorough && g == "two" {
			add(g, st("r1", 2, "r2", 2, "d", 2), 1, false, 1)
		}
	}
	// two referenced integrations on ONE table (two dependencies, one looked-up table), both reference orders
	for _, g := range []string{"shared", "shared-rev", "shared-or", "shared-rev-or"} {
		add(g, st("r1", 2, "r2", 0, "d", 2), 1, false, 1) // R2 never starts
		add(g, st("r1", 0, "r2", 2, "d", 2), 1, false, 1) // R1 never starts
		if g == "shared" || thorough {
			add(g, st("r1", 2, "r2", 1, "d", 2), 2, false, 1)
		}
		if thorough {
			add(g, st("r1", 1, "r2", 2, "d", 2), 1, false, 1)
		}
	}
	// dependency position p below the head with  p - local < batch < head - local : the dependent must stop at p
	long := func(graph string, steps map[string]int, batch int, grow bool, dstart uint64, blocks int) {
		jobs = append(jobs, c05Job{Graph: graph, Steps: steps, Batch: batch, Grow: grow, DStart: dstart, Blocks: blocks})
	}
	long("input", st("r1", 1, "d", 2), 2, false, 2, 4) // p=2, local=1, head=4
	long("input", st("r1", 2, "d", 2), 2, true, 1, 4)  // head 3 -> 4: p=2 then 3, local 2
	long("input", st("r1", 1, "d", 2), 3, false, 2, 5) // p=3, local=1, head=5
	long("input", st("r1", 2, "d", 2), 3, false, 3, 5) // p=3 then 5, local=2
	long("field", st("r2", 1, "d", 1), 2, false, 2, 4)
	long("txfield", st("r1", 1, "d", 2), 3, false, 2, 5)
	long("two", st("r1", 1, "r2", 2, "d", 1), 2, false, 2, 5)   // p = min(2, 4) = 2, local 1
	long("chain", st("r1", 2, "d", 1, "d2", 1), 2, false, 2, 5) // D stops at 2..4, D2 (start 1) at D's position
	if thorough {
		add("chain", st("r1", 2, "d", 2, "d2", 1), 1, false, 1)
	}
	add("chain", st("r1", 1, "d", 1, "d2", 2), 1, false, 1)
	add("chain", st("r1", 1, "d", 2, "d2", 2), 2, false, 1)
	if thorough {
		add("chain", st("r1", 1, "d", 1, "d2", 1), 1, true, 1)
		add("chain", st("r1", 2, "d", 0, "d2", 2), 2, true, 1)
	}
	add("chain", st("r1", 0, "d", 2, "d2", 2), 1, false, 1) // R1 never starts: neither D nor D2 may move
	add("chain", st("r1", 2, "d", 0, "d2", 2), 1, false, 1) // D never starts: D2 may not move
	add("unrelated", st("r1", 2, "u", 1, "d", 2), 1, false, 1)
	add("unrelated", st("r1", 0, "u", 2, "d", 2), 1, false, 1) // R1 never starts, the unrelated integration runs
	add("unrelated", st("r1", 0, "u", 2, "d", 2), 2, false, 2)
	add("unrelated", st("r1", 1, "u", 1, "d", 1), 1, true, 1)
	if thorough {
		add("chain", st("r1", 2, "d", 2, "d2", 2), 1, false, 1)
		add("unrelated", st("r1", 2, "u", 2, "d", 2), 1, false, 1)
	}
	// reorganisation below the referenced integration's position while the dependent is >= 2 blocks behind it:
	// sequential prefix (R to the head, D one step), then {reorg event, R re-indexing, D} in all orders
	reorg := func(graph string, pre, mid, steps map[string]int, batch, blocks, fork int) {
		jobs = append(jobs, c05Job{Graph: graph, Steps: steps, Batch: batch, DStart: 1, Blocks: blocks, Pre: pre, Mid: mid, Reorg: fork})
	}
	// the reorg event is part of the concurrent alphabet; the referenced task needs up to three rounds to roll back
	reorg("input", st("r1", 3, "d", 1), nil, st("r1", 2, "d", 2), 2, 5, 2)
	// the reorg and the referenced task's failing rounds happen right after the prefix; its roll-back round races with the dependent
	reorg("input", st("r1", 3, "d", 1), st("r1", 2), st("r1", 2, "d", 2), 1, 3, 1)
	reorg("field", st("r2", 3, "d", 1), st("r2", 2), st("r2", 1, "d", 2), 1, 3, 1)
	reorg("txfield", st("r1", 3, "d", 1), st("r1", 2), st("r1", 1, "d", 2), 1, 3, 1)
	reorg("input", st("r1", 3, "d", 1), st("r1", 1), st("r1", 1, "d", 2), 2, 5, 2)
	reorg("two", st("r1", 3, "r2", 3, "d", 1), st("r1", 5), st("r1", 1, "r2", 0, "d", 2), 1, 3, 1) // three integrations: a cached header survives three reads, the roll-back comes in the sixth round
	reorg("input", st("r1", 3, "d", 1), nil, st("r1", 2, "d", 1), 1, 3, 2)                         // shallow reorg: only the referenced integration's newest block is replaced
	if thorough {
		reorg("two", st("r1", 3, "r2", 3, "d", 1), st("r1", 5), st("r1", 1, "r2", 1, "d", 2), 1, 3, 1)
		reorg("input", st("r1", 4, "d", 1), st("r1", 2), st("r1", 2, "d", 3), 1, 4, 1)
	}
	// batch_size not a multiple of concurrency: the referenced integration at every distance 1..batch ahead of the
	// dependent, the head at least one batch beyond it (a partition that asks for too much finds the blocks)
	for _, bc := range [][2]int{{3, 2}, {5, 2}, {5, 3}, {7, 3}} {
		b, cc := bc[0], bc[1]
		e := cc * (b / cc) // blocks per round
		for k := 1; k <= b; k++ {
			rounds := (k + e - 1) / e
			pos := rounds * e
			j := c05Job{Graph: "input", Steps: st("d", 1), Batch: b, Conc: cc, DStart: uint64(pos - k + 1), Blocks: pos + b + 1, Pre: st("r1", rounds)}
			if k == b-1 { // the referenced integration keeps running
				j.Steps = st("r1", 1, "d", 2)
			}
			if k == 2 {
				j.Graph, j.Pre = "two", st("r1", rounds+1, "r2", rounds) // the slowest reference decides
			}
			jobs = append(jobs, j)
		}
	}
	// a just-started second reference (one recorded position, start 3) whose only block is replaced: its round
	// commits the roll-back (no position left) and then the re-indexed block; the dependent, which has seen both
	// references started, runs at every point of that round
	for _, g := range []string{"two", "two-or"} {
		jobs = append(jobs, c05Job{Graph: g, Steps: st("r2", 1, "d", 1), Batch: 1, DStart: 1, R2Start: 3, Blocks: 3, Reorg: 2,
			Pre: st("r1", 3, "r2", 1, "d", 1), Mid: st("r2", c05R2FailingRounds)})
	}
	// two dependents on two different references, both listing orders: each waits for ITS reference only
	pre := func(graph string, pre, steps map[string]int, batch int) {
		jobs = append(jobs, c05Job{Graph: graph, Steps: steps, Batch: batch, DStart: 1, Pre: pre})
	}
	add("pair", st("r1", 0, "r2", 2, "d", 2), 1, false, 1)       // D's reference never starts, the other one runs
	add("pair-rev", st("r2", 0, "r1", 2, "e", 2), 1, false, 1)   // same for E, listed before D
	pre("pair", st("r1", 1, "r2", 3), st("d", 2, "e", 1), 1)     // the other reference is ahead of D's
	pre("pair-rev", st("r2", 1, "r1", 3), st("e", 2, "d", 1), 1) // ... of E's
	pre("pair", st("r2", 2), st("r1", 1, "d", 2), 1)
	pre("pair-rev", st("r1", 2), st("r2", 1, "e", 2), 1)
	// two sources; a reference that is not configured for one of the dependent's sources never records a
	// position there: on that source the dependent does nothing, on the shared source it follows the reference
	add("twosrc", st("r1", 0, "d@src2", 2), 2, false, 1)
	add("twosrc", st("r1", 1, "d", 1, "d@src2", 1), 1, false, 1)
	pre("twosrc", st("r1", 2), st("d", 1, "d@src2", 1), 2)
	add("twosrc-two", st("r1", 0, "r2@src2", 2, "d@src2", 2), 2, false, 1) // on src2 R2 advances, R1 has nothing
	pre("twosrc-two", st("r1", 2, "r2", 1, "r2@src2", 2), st("d", 1, "d@src2", 1), 1)
	// the referenced integration's table declares its own index list (on the referenced column, on another column,
	// both, composite, with a direction): the dependency must be derived all the same
	idx := func(graph, variant, at string, steps map[string]int, batch int) {
		jobs = append(jobs, c05Job{Graph: graph, Steps: steps, Batch: batch, DStart: 1, RIndex: variant, RIndexAt: at})
	}
	for _, v := range c05IndexVariants {
		for _, gr := range [][2]string{{"input", "r1"}, {"field", "r2"}, {"txfield", "r1"}} {
			idx(gr[0], v, "", st(gr[1], 0, "d", 2), 1) // the referenced integration never starts
			if gr[0] == "input" || v == "col" || thorough {
				idx(gr[0], v, "", st(gr[1], 2, "d", 2), 2)
			}
		}
		idx("two", v, "", st("r1", 0, "r2", 0, "d", 2), 1)
		for _, at := range []string{"r1", "r2"} { // only one of two referenced tables declares it
			if v == "col" {
				idx("two", v, at, st("r1", 2, "r2", 0, "d", 2), 1)
				idx("two", v, at, st("r1", 0, "r2", 2, "d", 2), 1)
			}
		}
	}
	idx("chain", "col", "", st("r1", 0, "d", 2, "d2", 2), 1) // rt1.who and dt.c_from
	idx("chain", "col", "", st("r1", 2, "d", 0, "d2", 2), 1)
	idx("shared", "col", "", st("r1", 2, "r2", 0, "d", 2), 1)
	idx("shared", "col", "", st("r1", 0, "r2", 2, "d", 2), 1)
	// two dependents on one column of one referenced integration, both listing orders: BOTH wait for it
	for _, g := range []string{"fan", "fan-rev", "fan-tx", "fan-tx-rev"} {
		add(g, st("r1", 0, "d", 2, "e", 2), 1, false, 1) // the reference never starts: neither may move
		pre(g, st("r1", 2), st("d", 2, "e", 1), 1)
		pre(g, st("r1", 2), st("d", 1, "e", 2), 2)
	}
	add("fan", st("r1", 1, "d", 1, "e", 1), 1, false, 1)
	add("fan-tx-rev", st("r1", 1, "d", 1, "e", 1), 1, false, 1)
	idx("fan", "col", "", st("r1", 0, "d", 2, "e", 2), 1)
	idx("fan-tx-rev", "col", "", st("r1", 0, "d", 2, "e", 2), 1)
	// largest jobs first: round-robin sharding then spreads them over the workers
	sort.SliceStable(jobs, func(a, b int) bool { return c05Weight(jobs[a]) > c05Weight(jobs[b]) })
	return jobs
}

// c05Weight is a rough size estimate of a job's schedule space (ordering heuristic only).
func c05Weight(j c05Job) int {
	w, n := 1, 0
	for _, s := range j.Steps {
		if s > 0 {
			w *= s + 1
			n++
		}
	}
	if j.Grow || (j.Reorg > 0 && len(j.Mid) == 0) {
		w *= 3
	}
	for i := 1; i < n; i++ {
		w *= 3
	}
	return w
}

// ---- preparation -------------------------------------------------------------------------------------

type c05Prep struct {
	g       *c05Graph
	conf    string
	snap    *simpg.Snapshot
	full    *simeth.Chain
	reorged *simeth.Chain // the chain after the reorganisation (jobs with Reorg > 0)
	init    *simeth.Chain
	final   map[string][]world.Row // model: the complete table of every integration (look-ups resolved recursively)
}

var c05PrepCache = map[string]*c05Prep{}

func c05Prepare(j c05Job) (*c05Prep, error) {
	key := fmt.Sprintf("%s/%d/%d/%d/%d/%d/%d/%s/%s", j.Graph, j.Batch, j.DStart, j.blocks(), j.Reorg, j.Conc, j.R2Start, j.RIndex, j.RIndexAt)
	p, ok := c05PrepCache[key]
	if !ok {
		p = &c05Prep{g: c05Decls(j)}
		srcs := []world.Source{{Name: "src1", ChainID: 7, URL: "http://node1", Batch: j.Batch, Conc: max(1, j.Conc)}}
		if p.g.two {
			srcs = append(srcs, world.Source{Name: "src2", ChainID: 8, URL: "http://node2", Batch: j.Batch, Conc: max(1, j.Conc)})
		}
		p.conf = world.ConfJSON(srcs, p.g.decls)
		conf, err := world.ParseConf(p.conf)
		if err != nil {
			return nil, err
		}
		if p.snap, err = world.InitDB(conf); err != nil {
			return nil, err
		}
		p.full = c05BuildChain(j.blocks(), 0)
		if j.Reorg > 0 {
			p.reorged = c05BuildChain(j.blocks(), j.Reorg)
		}
		p.final = map[string][]world.Row{}
		for _, d := range p.g.decls { // config order is a topological order of the graph
			p.final[d.Name] = d.Expect(p.full, "src1", 7, d.Sources[0].Start, uint64(j.blocks()), p.lookup())
		}
		c05PrepCache[key] = p
	}
	q := *p
	q.init = p.full
	if j.Grow {
		q.init = p.full.Truncate(uint64(j.blocks() - 1))
	}
	return &q, nil
}

// lookup answers a reference filter against the model's final tables.
func (p *c05Prep) lookup() world.RefLookup {
	return func(ig, col string, v []byte) bool {
		// the look-up reads the referenced integration's TABLE: every integration writing to it contributes
		ref := p.g.decl(ig)
		for _, d := range p.g.decls {
			if ref == nil || d.Table != ref.Table {
				continue
			}
			for _, r := range p.final[d.Name] {
				if b, ok := r[col].([]byte); ok && string(b) == string(v) {
					return true
				}
			}
		}
		return false
	}
}

// ---- one execution -----------------------------------------------------------------------------------

type c05Result struct {
	vio       *fw.Violation
	outcome   string
	harness   string
	trans     int64
	rows      int
	moves     int // cursor moves committed by dependents
	noops     int // steps of a dependent that did nothing because a referenced integration had no position
	errs      int // failed rounds in reorg jobs (allowed: nothing is recorded)
	lookups   int
	outsideTx int // reference look-ups issued outside an open transaction (not judged: equivalent under READ COMMITTED)
	diverged  string
}

func c05Names(j c05Job) []string {
	var ns []string
	for n := range j.Steps {
		ns = append(ns, n)
	}
	sort.Strings(ns)
	return ns
}

func c05Exec(j c05Job, p *c05Prep, ch vrt.Chooser, states *vrt.StateSet, trace, fullIO bool) (res c05Result) {
	chains := map[string]*simeth.Chain{"node1": p.init}
	if p.g.two {
		chains["node2"] = p.full
	}
	w := world.New(ch, world.Cfg{Snap: p.snap, Chains: chains})
	w.V.States = states
	w.V.TraceOn = trace
	w.V.StateKey = func() uint64 { return w.CommitHash ^ uint64(w.Node("node1").Version)<<48 }
	vio := func(class, key, detail string) {
		if res.vio == nil {
			res.vio = &fw.Violation{Property: "C05", Class: class, Key: key, Detail: detail}
		}
	}
	tag := j.Graph
	if j.RIndex != "" {
		tag += ":ridx=" + j.RIndex
	}
	cols := map[string][]string{}
	// Scheduling granularity. Threads interact through the database (and the node, when the head
	// grows) only, as far as this property is concerned. A thread is preempted only while it is
	// parked BEFORE one of its operations that does not commute with the other threads:
	//   * a purely referenced integration (no filter_ref of its own) writes its table and cursor in
	//     ONE commit and reads nothing another thread writes, so its step is atomic: it is left only
	//     at step boundaries (and for the environment thread, at its RPC calls) — except in reorg jobs,
	//     where a round commits the roll-back and then the re-indexed blocks: there it is also left
	//     before each of its commits;
	//   * a dependent is left before its dependency query, before every look-up and before the COPY
	//     that follows the last look-up (quick tier), or before every SQL batch / RPC exchange
	//     (thorough tier, "I/O granularity");
	//   * switches at step boundaries are free and always enumerated.
	ioOnly := func(l string) bool {
		return strings.HasPrefix(l, "sql:") || strings.HasPrefix(l, "rpc:") || strings.HasPrefix(l, "env:")
	}
	lookupNo := map[string]int{} // integration -> look-ups issued since its last dependency query
	away := func(l string) bool {
		if strings.HasPrefix(l, "boundary:") {
			return true
		}
		cur := w.V.Cur()
		if cur == nil {
			return true
		}
		base := cur.Name
		if i := strings.IndexByte(base, '.'); i >= 0 {
			base = base[:i]
		}
		if _, isIG := j.Steps[base]; !isIG {
			return ioOnly(l)
		}
		if _, dep := p.g.deps[base]; !dep {
			// a purely referenced integration: atomic step — except under a reorganisation, where its round
			// commits twice (the roll-back, then the re-indexed blocks) and both commits are visible
			return j.Reorg > 0 && strings.HasPrefix(l, "sql:query:commit")
		}
		if fullIO {
			return ioOnly(l)
		}
		if strings.HasPrefix(l, "sql:extended:select true") {
			return lookupNo[base] == 1 // quick tier: only before the FIRST look-up of a step
		}
		return strings.HasPrefix(l, "sql:extended:with latest") || strings.HasPrefix(l, "sql:query:copy")
	}
	restrict := func() {
		for _, t := range w.V.Threads() {
			if t.ID != 0 && t.OnlyAt == nil {
				t.OnlyAt = away
			}
		}
	}
	// what the dependency query of a dependent could see: referenced integrations without / with a committed position
	type seen struct{ missing, present []string }
	depSeen := map[string]seen{}
	pgGate, netGate := w.PG.Gate, w.Net.Gate
	w.PG.Gate = func(b simpg.Batch) simpg.Fault {
		restrict()
		if cur := w.V.Cur(); cur != nil && len(b.SQL) > 0 && !b.PrepareOnly {
			base := cur.Name
			if i := strings.IndexByte(base, '.'); i >= 0 {
				base = base[:i]
			}
			switch {
			case strings.Contains(b.SQL[0], "with latest as"):
				lookupNo[base] = 0
			case strings.HasPrefix(strings.TrimSpace(b.SQL[0]), "select true from"):
				lookupNo[base]++
				res.lookups++
				if !b.InTx {
					res.outsideTx++
				}
			}
		}
		f := pgGate(b)
		if f == simpg.FaultNone && len(b.SQL) > 0 && strings.Contains(b.SQL[0], "with latest as") {
			if cur := w.V.Cur(); cur != nil {
				var sn seen
				_, csrc := c05Split(cur.Name)
				for _, r := range p.g.deps[cur.Name] {
					if _, ok := w.Latest(csrc, r); ok {
						sn.present = append(sn.present, r)
					} else {
						sn.missing = append(sn.missing, r)
					}
				}
				depSeen[cur.Name] = sn
			}
		}
		return f
	}
	w.Net.Gate = func(ex *simeth.Exchange) { restrict(); netGate(ex) }
	// oracle at every commit: a cursor row of a dependent inserted by the dependent's own thread
	seenMax := map[string]map[string]uint64{} // dependent -> referenced -> highest position held since the dependent's current step began
	w.OnCommit = func(c world.Commit) {
		if c.Ev.Kind != "commit" && c.Ev.Kind != "autocommit" {
			return
		}
		for _, chg := range c.Ev.Changes {
			if chg.Op != "insert" || !strings.HasSuffix(chg.Table, "task_updates") {
				continue
			}
			igName, _ := chg.Row.Vals["ig_name"].(string)
			rowSrc, _ := chg.Row.Vals["src_name"].(string)
			ig := c05Key(igName, rowSrc) // the task that recorded this position
			if bn, _ := chg.Row.Vals["num"].(*big.Int); bn != nil {
				for dep, refs := range p.g.deps {
					if _, dsrc := c05Split(dep); dsrc != rowSrc {
						continue
					}
					for _, r := range refs {
						if m, ok := seenMax[dep][r]; r == igName && seenMax[dep] != nil && (!ok || bn.Uint64() > m) {
							seenMax[dep][r] = bn.Uint64()
						}
					}
				}
			}
			refs, dependent := p.g.deps[ig]
			if !dependent {
				continue
			}
			bn, _ := chg.Row.Vals["num"].(*big.Int)
			if bn == nil {
				continue
			}
			n := bn.Uint64()
			res.moves++
			var missing, behind, present []string
			for _, r := range refs {
				cur, ok := w.Latest(rowSrc, r)
				// a position the referenced integration HELD at some moment of the dependent's current step counts:
				// positions are not monotonic (a reorg rolls the referenced integration back), and the dependent
				// decides on what it could read during its step
				if m, held := seenMax[ig][r]; held && (!ok || m > cur.Num) {
					cur.Num, ok = m, true
				}
				switch {
				case !ok:
					missing = append(missing, r)
				case cur.Num < n:
					behind = append(behind, fmt.Sprintf("%s@%d", r, cur.Num))
					present = append(present, r)
				default:
					present = append(present, r)
				}
			}
			switch {
			case len(missing) > 0 && len(present) > 0:
				vio("ran-ahead", "dep-ignored:referenced-not-started", fmt.Sprintf("thread %s committed cursor %s=%d while referenced integration(s) %v have NO recorded position (others present: %v)", c.Thread, ig, n, missing, present))
			case len(missing) > 0:
				vio("ran-ahead", "ran-without-any-dependency-position:"+tag, fmt.Sprintf("thread %s committed cursor %s=%d while referenced integration(s) %v have no recorded position", c.Thread, ig, n, missing))
			case len(behind) > 0:
				vio("ran-ahead", "ran-ahead-of-referenced:"+tag, fmt.Sprintf("thread %s committed cursor %s=%d but referenced cursors are %v", c.Thread, ig, n, behind))
			}
			if res.vio != nil || j.Reorg > 0 {
				// with a reorg the rows of a block depend on the branch that was loaded and on the branch the
				// referenced table held at that moment: only the positions are judged
				return
			}
			d := p.g.decl(ig)
			tcols := cols[igName]
			var mine []simpg.Row
			for _, r := range w.PG.Dump(d.Table) {
				if sn, _ := r.Vals["src_name"].(string); sn == rowSrc {
					mine = append(mine, r)
				}
			}
			got := world.RenderDump(mine, tcols)
			var wantRows []world.Row
			for _, r := range p.final[ig] {
				if r["block_num"].(*big.Int).Uint64() <= n {
					wantRows = append(wantRows, r)
				}
			}
			want := world.RenderRows(wantRows, tcols)
			res.rows = len(got)
			if strings.Join(got, "\n") != strings.Join(want, "\n") {
				key := "rows:" + tag + ":" + ig
				extra := ""
				if sn := depSeen[ig]; len(sn.missing) > 0 && len(sn.present) > 0 {
					key = "dep-ignored:referenced-not-started"
					extra = fmt.Sprintf("\n(the dependency query of this step ran while %v had no recorded position and %v had one)", sn.missing, sn.present)
				}
				vio("rows", key, fmt.Sprintf("after %s's commit to cursor %d: table %s != projection with look-ups against the complete referenced data%s\n%s", ig, n, d.Table, extra, world.DiffSorted(got, want)))
			}
		}
	}
	w.Run(func() {
		conf, err := world.ParseConf(p.conf)
		if err != nil {
			w.HarnessErr = err.Error()
			return
		}
		tasks, err := w.LoadTasks(conf)
		if err != nil {
			w.HarnessErr = "loadTasks: " + err.Error()
			return
		}
		byName := map[string]*world.Task{}
		for _, t := range tasks {
			byName[c05Key(t.IG, t.Src)] = t
		}
		for _, d := range p.g.decls {
			cols[d.Name] = w.TableCols(d.Table)
		}
		ownRows := func(table, src string) []simpg.Row { // the rows a task of this source wrote (an integration's tasks share its table)
			var out []simpg.Row
			for _, r := range w.PG.Dump(table) {
				if sn, _ := r.Vals["src_name"].(string); sn == src {
					out = append(out, r)
				}
			}
			return out
		}
		// oneStep runs one Converge of an integration's long-lived task and judges it; false = stop
		oneStep := func(name string, s int) bool {
			task := byName[name]
			refs, dependent := p.g.deps[name]
			d := p.g.decl(name)
			igName, tsrc := c05Split(name)
			var before []string
			var curBefore world.Cursor
			var hadBefore bool
			if dependent {
				before = world.RenderDump(ownRows(d.Table, tsrc), cols[igName])
				curBefore, hadBefore = w.Latest(tsrc, igName)
				seenMax[name] = map[string]uint64{}
				for _, r := range refs {
					if c, ok := w.Latest(tsrc, r); ok {
						seenMax[name][r] = c.Num
					}
				}
			}
			out, err := task.Step()
			if w.V.Closing() {
				return false
			}
			switch {
			case out == "ok" || out == "nothing":
			case out == "ahead" && dependent && j.Reorg > 0: // a referenced integration was rolled back below the dependent's position
			case out == "error" && j.Reorg > 0: // e.g. a header cached before the reorganisation contradicts the logs of the new branch: the round fails, nothing is recorded, the next round retries
				res.errs++
			case out == "panic":
				vio("panic", "panic:"+tag+":"+name, fmt.Sprintf("Converge of %s panicked: %v", name, err))
				return false
			default:
				vio("outcome", "outcome:"+out+":"+tag+":"+name, fmt.Sprintf("step %d of %s: unexpected outcome %q: %v", s, name, out, err))
				return false
			}
			if !dependent {
				return true
			}
			// a referenced integration that has still no recorded position now had none during the whole step
			var missing []string
			for _, r := range refs {
				if _, ok := w.Latest(tsrc, r); !ok {
					if _, held := seenMax[name][r]; !held {
						missing = append(missing, r)
					}
				}
			}
			if len(missing) > 0 {
				after := world.RenderDump(ownRows(d.Table, tsrc), cols[igName])
				curAfter, hadAfter := w.Latest(tsrc, igName)
				if out != "nothing" || strings.Join(before, "\n") != strings.Join(after, "\n") || hadAfter != hadBefore || curAfter.Num != curBefore.Num {
					key := "not-noop-without-dependency-position:" + tag
					if len(missing) < len(refs) {
						key = "dep-ignored:referenced-not-started"
					}
					vio("not-noop", key, fmt.Sprintf("step %d of %s: referenced integration(s) %v have no recorded position, yet outcome=%q cursor %v->%v(%v)", s, name, missing, out, curBefore.Num, curAfter.Num, hadAfter))
					return false
				}
				res.noops++
			}
			return true
		}
		for name := range j.Steps {
			if byName[name] == nil {
				w.HarnessErr = "no task " + name
				return
			}
		}
		// sequential prefix (same task objects as the concurrent phase)
		var order []string // tasks in configuration order
		for _, d := range p.g.decls {
			for _, sr := range d.Sources {
				order = append(order, c05Key(d.Name, sr.Name))
			}
		}
		for _, k := range order {
			for s := 0; s < j.Pre[k]; s++ {
				if byName[k] == nil {
					w.HarnessErr = "no task " + k
					return
				}
				if !oneStep(k, -1-s) || res.vio != nil {
					return
				}
			}
		}
		if j.Reorg > 0 && len(j.Mid) > 0 {
			w.SetChain("node1", p.reorged, "reorg")
			for _, k := range order {
				for s := 0; s < j.Mid[k]; s++ {
					if !oneStep(k, -100-s) || res.vio != nil {
						return
					}
				}
			}
		}
		var ths []*vrt.Thread
		for _, name := range c05Names(j) {
			name, n := name, j.Steps[name]
			if n == 0 {
				continue // never starts (in the concurrent phase)
			}
			ths = append(ths, w.V.GoNamed(name, func() {
				for s := 0; s < n; s++ {
					if s > 0 { // who runs first is already a free choice (join / exit / another thread's boundary)
						vrt.Boundary("step")
					}
					if w.V.Closing() || res.vio != nil {
						return
					}
					if !oneStep(name, s) {
						return
					}
				}
			}))
		}
		restrict()
		if j.Grow {
			env := w.V.GoNamed("env", func() { w.SetChain("node1", p.full, "grow") })
			env.OnlyAt = func(l string) bool { return strings.HasPrefix(l, "rpc:") || strings.HasPrefix(l, "boundary:") }
			restrict()
			ths = append(ths, env)
		}
		if j.Reorg > 0 && len(j.Mid) == 0 {
			env := w.V.GoNamed("env", func() { w.SetChain("node1", p.reorged, "reorg") })
			env.OnlyAt = func(l string) bool { return strings.HasPrefix(l, "rpc:") || strings.HasPrefix(l, "boundary:") }
			restrict()
			ths = append(ths, env)
		}
		w.V.Join(ths...)
	})
	res.trans = w.V.Transitions
	if trace && os.Getenv("C05_TRACE") != "" {
		fmt.Fprintln(os.Stderr, strings.Join(w.V.Trace, "\n"))
	}
	if w.HarnessErr != "" {
		res.harness = w.HarnessErr
	}
	if len(w.V.Panics) > 0 && res.vio == nil {
		vio("panic", "panic-thread:"+tag, strings.Join(w.V.Panics, "\n"))
	}
	if w.V.Deadlock && res.vio == nil && res.harness == "" {
		vio("deadlock", "deadlock:"+tag, w.V.DeadlockMsg)
	}
	if res.vio != nil {
		res.outcome = "VIOLATION:" + res.vio.Class
		if trace {
			res.vio.Detail += "\ntrace: " + strings.Join(w.V.Trace, " ")
		}
		return
	}
	// outcome class: final cursors of all integrations
	var parts []string
	for _, d := range p.g.decls {
		for _, sr := range d.Sources {
			k := c05Key(d.Name, sr.Name)
			if c, ok := w.Latest(sr.Name, d.Name); ok {
				parts = append(parts, fmt.Sprintf("%s=%d", k, c.Num))
			} else {
				parts = append(parts, k+"=-")
			}
		}
	}
	res.outcome = "held:" + strings.Join(parts, ",")
	return res
}

type c05Mode struct {
	b      explore.Bounds
	fullIO bool // dependents are preemptible before EVERY SQL batch / RPC exchange
}

// quick: <= 1 preemption at the non-commuting operations of the dependents.
// thorough: <= 1 preemption at EVERY I/O operation of the dependents for every job, and
// <= 2 preemptions at the non-commuting operations for the jobs whose schedule space stays small
// (two-thread jobs without head growth; three-thread jobs of the graphs two / chain without head
// growth and with at most 5 steps in total).
func c05Modes(j c05Job, thorough bool) []c05Mode {
	var b1, b2 explore.Bounds
	b1[0], b1[vrt.KPreempt] = 1, 1
	b2[0], b2[vrt.KPreempt] = 2, 2
	if !thorough {
		return []c05Mode{{b1, false}}
	}
	ms := []c05Mode{{b1, true}}
	w := c05Weight(j)
	if len(j.Pre) == 0 && (w <= 60 || (w <= 170 && !j.Grow && (j.Graph == "two" || j.Graph == "chain"))) {
		ms = append(ms, c05Mode{b2, false})
	}
	return ms
}

func c05Run(c *fw.Ctx) {
	jobs := c05Jobs(c.Thorough())
	if n, _ := strconv.Atoi(os.Getenv("C05_MAXJOBS")); n > 0 && n < len(jobs) {
		jobs = jobs[:n]
	}
	if js := os.Getenv("C05_JOBS"); js != "" { // experiments only
		jobs = nil
		if err := json.Unmarshal([]byte(js), &jobs); err != nil {
			c.HarnessError("C05_JOBS: %v", err)
			return
		}
	}
	c.Bound("jobs", len(jobs))
	c.Bound("preemptions", map[bool]int{false: 1, true: 2}[c.Thorough()])
	c.Bound("io_granularity_every_sql_and_rpc", c.Thorough())
	c.Bound("chain_blocks", "3 (4 and 5 on the batch-overshoot jobs)")
	for _, j := range jobs {
		if !c.Mine() {
			continue
		}
		if c.Expired() {
			return
		}
		p, err := c05Prepare(j)
		if err != nil {
			c.HarnessError("prepare %+v: %v", j, err)
			return
		}
		for _, mode := range c05Modes(j, c.Thorough()) {
			b := mode.b
			states := vrt.NewStateSet()
			k := c05Case{Job: j, Bounds: b, FullIO: mode.fullIO}
			var dbgOut map[string]int
			if os.Getenv("C05_DEBUG") != "" {
				dbgOut = map[string]int{}
			}
			st := explore.Explore(b, true, func(r *explore.Run) bool {
				res := c05Exec(j, p, r, states, false, k.FullIO)
				if res.harness != "" {
					c.HarnessError("job %+v choices %v: %s", j, r.Trimmed(), res.harness)
					return false
				}
				if r.Diverged != "" {
					c.HarnessError("HARNESS-NONDETERMINISM job %+v: %s", j, r.Diverged)
					return false
				}
				c.Eval(res.moves > 0 && res.rows > 0)
				c.Outcome(res.outcome)
				if dbgOut != nil {
					dbgOut[res.outcome]++
				}
				c.Res.Transitions += res.trans
				c.Res.Traces++
				c.Count("dependent_cursor_moves", int64(res.moves))
				c.Count("dependent_noop_steps_without_dependency_position", int64(res.noops))
				c.Count("reference_lookups", int64(res.lookups))
				c.Count("failed_rounds_in_reorg_jobs", int64(res.errs))
				c.Count("reference_lookups_outside_a_transaction", int64(res.outsideTx))
				if res.vio != nil {
					jb, _ := json.Marshal(j)
					c.Violation("C05", res.vio.Class, res.vio.Key, fmt.Sprintf("job %s schedule %v\n%s", jb, r.Trimmed(), res.vio.Detail), c05Case{Job: j, Bounds: b, FullIO: k.FullIO, Choices: r.Choices()})
				}
				if c.Res.Evaluations%20011 == 1 {
					c.Sample(map[string]any{"job": j, "schedule": r.Trimmed(), "outcome": res.outcome})
				}
				return !c.Expired()
			})
			c.Res.States += int64(states.Len())
			if dbg := os.Getenv("C05_DEBUG"); dbg != "" {
				f, _ := os.OpenFile(dbg, os.O_APPEND|os.O_CREATE|os.O_WRONLY, 0o644)
				fmt.Fprintf(f, "job %+v mode %+v: executions=%d points=%d maxdepth=%d complete=%v\n", j, mode, st.Executions, st.Points, st.MaxDepth, st.Complete)

				fmt.Fprintf(f, "  outcomes %v\n", dbgOut)
				f.Close()
			}
			if !st.Complete {
				c.Cap("time-budget")
				return
			}
			c.Count("job_modes_completed", 1)
			c.Count("lock_contentions", vrt.Contentions)
			vrt.Contentions = 0
		}
	}
}

func c05Replay(c *fw.Ctx, raw json.RawMessage) {
	var k c05Case
	if err := json.Unmarshal(raw, &k); err != nil {
		c.HarnessError("bad case: %v", err)
		return
	}
	p, err := c05Prepare(k.Job)
	if err != nil {
		c.HarnessError("prepare: %v", err)
		return
	}
	r := explore.Replay(k.Choices)
	res := c05Exec(k.Job, p, r, nil, true, k.FullIO)
	c.Eval(true)
	if res.harness != "" {
		c.HarnessError("%s", res.harness)
		return
	}
	if r.Diverged != "" {
		c.HarnessError("HARNESS-NONDETERMINISM replay diverged: %s", r.Diverged)
		return
	}
	if res.vio != nil {
		c.Violation("C05", res.vio.Class, res.vio.Key, res.vio.Detail, k)
	}
}
