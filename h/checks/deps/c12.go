//go:build verif

package deps

import (
	"encoding/hex"
	"encoding/json"
	"fmt"
	"math/big"
	"os"
	"regexp"
	"sort"
	"strconv"
	"strings"
	"time"

	"verifh/checks"
	"verifh/fw"
	"verifh/ref"
	"verifh/simeth"
	"verifh/simpg"
	"verifh/world"
)

// C12 — filters keep exactly the rows they select; server-side pre-filtering loses none.
//
// Job = one integration declaration (shape x filters x aggregation [x referenced table
// content]) run by the REAL pipeline against a fixed chain whose logs / transactions /
// traces cover, for every pair of filterable dimensions, all combinations of
// {argument-1 hit, argument-2 hit, miss} plus the special values (extremes, near misses,
// prefixes, super-strings, empty). Sequential: the referenced integration (if any) runs to
// the head, then the integration under test; no concurrency, no faults.

type c12Job struct {
	Shape   string      `json:"shape"`
	Filters []c12Filter `json:"filters"`
	Agg     string      `json:"agg"`
	Extra   []string    `json:"extra,omitempty"` // unfiltered block fields added to the declaration (they select the fetch plan)
	Judged  bool        `json:"judged"`
	Family  string      `json:"family"`
	History string      `json:"history,omitempty"` // "" | "removed" | "added": the referenced table changes BETWEEN two steps of the integration under test
	Batch   int         `json:"batch"`
	Conc    int         `json:"conc"`
}

func init() {
	checks.Register(&checks.Check{
		ID:        "C12",
		Level:     "exploration",
		Technique: "bounded-exhaustive enumeration of filter configurations (operator x value kind x argument count/form x aggregation x filtered-field pairs x reference-table content) executed by the real pipeline (config.ValidateFix -> loadTasks -> Converge -> jrpc2 -> dig.Insert -> COPY) against a simulated node that applies eth_getLogs address/topics faithfully; oracle = independent documented-semantics predicate over ALL logs/txs/traces of the chain + implication check of the recorded eth_getLogs parameters",
		Rule: "jobs = 5 declaration shapes (event with indexed addresses + uint256 data; event with indexed bytes32 + string + bytes + uint256; all-indexed event; transaction indexing; trace indexing) x every filterable target (event inputs, tx_to, log_addr, tx_input, tx_value, tx_nonce, block_num, tx_gas_used, trace_action_*) x every documented operator of the target's kind x argument sets (1 value, 2 values, unknown+hit, un-prefixed mixed-case hex, fragment; pivot/0/max for integers) x aggregation {unset, and, or}; " +
			"all 16 operator pairs x 3 aggregations on 23 target pairs (input+field, input+input, field+log_addr, field+field); 3-filter folds; reference filters (filter_ref) on 9 byte-valued targets x referenced table content {no, some, all matching} x {contains, !contains} x {alone, and/or with an argument filter}. " +
			"The chain is a strength-2 orthogonal design over Z3 (every pair of dimensions takes all 9 class combinations) + one block of special values (0, 1, 2^64-1, 2^64, 2^256-2, 2^256-1, pivot+-1; one-bit near misses; prefix, super-string, rotated, empty). A job is non-trivial when the filters accept at least one and reject at least one candidate row.",
		Assumptions: []string{
			"documented filter semantics (the docs tree indexsupply.com/shovel/docs is not in the pinned /repo; reading used): contains/!contains on binary data = byte sub-string of one of the arguments (docs example: tx_input contains a selector), with filter_ref = equality with one value of the referenced column; on strings = membership; eq/ne on binary data and strings = equals one/none of the arguments; eq/ne/gt/lt on unsigned integers take ONE decimal argument; results folded with filter_agg, unset = or",
			"not judged (outside the property's list / the documented table; executed and recorded as 'observed' outcomes only): gt/lt on bytes and strings, several arguments on integer filters, an integer argument >= 2^64 on a 64-bit field, a log_addr argument shorter than an address, a filter on an event input without column, booleans, signed integers, byte-typed fields (tx_type/tx_status), reference filters (filter_ref) on string or integer fields (the look-up is implemented and documented for byte-string fields only: a filter_ref on a string field rejects everything, on an integer field it is ignored)",
			"fake Postgres (h/simpg) and simulated node (h/simeth) as in DESIGN.md §7; the node applies eth_getLogs address/topics parameters exactly (geth semantics)",
			"sequential execution (bounds 0): the referenced integration runs to the head before the integration under test starts",
		},
		Budget:        map[string]time.Duration{"quick": 140 * time.Second, "thorough": 800 * time.Second},
		MinNontrivial: 500,
		Inst:          true,
		Run:           c12Run,
		Replay:        c12Replay,
	})
}

// ---- job enumeration -----------------------------------------------------------------------------

var c12Targets = map[string][]string{
	"EV1": {"in:from", "in:to", "in:value", "f:log_addr", "f:tx_to", "f:tx_value", "f:tx_nonce", "f:tx_input", "f:block_num", "f:tx_gas_used"},
	"EV2": {"in:tag", "in:memo", "in:blob", "in:amt", "f:log_addr", "f:tx_input"},
	"EV3": {"in:a", "in:n", "f:log_addr", "f:block_num"},
	"TX":  {"f:tx_to", "f:tx_value", "f:tx_nonce", "f:tx_input", "f:block_num", "f:tx_gas_used"},
	"TR":  {"f:trace_action_call_type", "f:trace_action_value", "f:trace_action_from", "f:trace_action_to"},
}

var c12Pairs = map[string][][2]string{
	"EV1": {{"in:from", "f:tx_nonce"}, {"in:value", "f:tx_to"}, {"in:from", "in:value"}, {"in:from", "in:to"}, {"f:log_addr", "in:from"}, {"f:log_addr", "in:value"},
		{"f:log_addr", "f:tx_to"}, {"f:log_addr", "f:block_num"}, {"f:tx_to", "f:tx_value"}},
	"EV2": {{"in:memo", "in:amt"}, {"in:tag", "in:blob"}, {"in:memo", "f:log_addr"}, {"in:blob", "f:tx_input"}, {"in:memo", "in:blob"}},
	"EV3": {{"in:a", "in:n"}, {"f:log_addr", "in:n"}},
	"TX":  {{"f:tx_to", "f:tx_nonce"}, {"f:tx_value", "f:tx_input"}, {"f:tx_nonce", "f:tx_gas_used"}, {"f:tx_to", "f:block_num"}},
	"TR":  {{"f:trace_action_call_type", "f:trace_action_value"}, {"f:trace_action_from", "f:trace_action_call_type"}, {"f:trace_action_value", "f:trace_action_to"}},
}

func c12Ops(kind string) []string {
	if kind == "u64" || kind == "u256" {
		return []string{"eq", "ne", "gt", "lt"}
	}
	return []string{"contains", "!contains", "eq", "ne"}
}

func mixedCase(h string) string { // un-prefixed, alternating-case hex (the form of cmd/shovel/demo.json)
	s := []byte(strings.TrimPrefix(h, "0x"))
	for i := range s {
		if i%3 == 0 && s[i] >= 'a' && s[i] <= 'f' {
			s[i] -= 32
		}
	}
	return string(s)
}

type c12ArgSet struct {
	name string
	arg  []string
	ops  []string // nil = all documented ops of the kind
}

// documented (judged) argument sets of a target.
func c12ArgSets(shape, target string) []c12ArgSet {
	kind := c12Kind(shape, target)
	cl := c12Classes(target)
	switch kind {
	case "bytes", "dyn":
		unknown := "0x" + hex.EncodeToString(simeth.Addr("c12-unknown"))
		raw := c12Unhex(cl[0])
		frag := "0x" + hex.EncodeToString(raw[1:len(raw)-1])
		sets := []c12ArgSet{{"one", []string{cl[0]}, nil}, {"two", []string{cl[0], cl[1]}, nil}, {"unknown+hit", []string{unknown, cl[1]}, nil},
			{"mixedcase", []string{mixedCase(cl[0])}, []string{"contains", "ne"}}}
		if target != "f:log_addr" { // an address fragment sent as eth_getLogs address is outside the documented use (observed family)
			sets = append(sets, c12ArgSet{"fragment", []string{frag}, []string{"contains", "!contains", "eq"}})
		}
		return sets
	case "string":
		return []c12ArgSet{{"one", []string{cl[0]}, nil}, {"two", []string{cl[0], cl[1]}, nil}, {"two-rev", []string{cl[2], cl[0]}, []string{"eq", "ne", "contains"}}}
	case "u256":
		return []c12ArgSet{{"pivot", []string{cl[1]}, nil}, {"zero", []string{"0"}, nil}, {"max", []string{c12Max.String()}, nil}, {"2^64", []string{bigPow(64).String()}, []string{"gt", "lt"}}}
	case "u64":
		if target == "f:block_num" {
			return []c12ArgSet{{"pivot", []string{"2"}, nil}, {"zero", []string{"0"}, nil}, {"head", []string{"4"}, nil}}
		}
		return []c12ArgSet{{"pivot", []string{cl[1]}, nil}, {"zero", []string{"0"}, nil}, {"max", []string{fmt.Sprint(c12Max64)}, nil}}
	}
	panic("argsets")
}

func has(ss []string, s string) bool {
	for _, x := range ss {
		if x == s {
			return true
		}
	}
	return false
}

func c12Jobs(thorough bool) []c12Job {
	var jobs []c12Job
	add := func(j c12Job) {
		if j.Batch == 0 {
			j.Batch, j.Conc = 2, 1
		}
		jobs = append(jobs, j)
	}
	// F0: no filters at all accepts everything (one job per shape)
	for _, sh := range c12Shapes {
		add(c12Job{Shape: sh, Judged: true, Family: "nofilter"})
		add(c12Job{Shape: sh, Agg: "and", Judged: true, Family: "nofilter"})
	}
	// F1: one filter
	for _, sh := range c12Shapes {
		for _, tg := range c12Targets[sh] {
			kind := c12Kind(sh, tg)
			for _, as := range c12ArgSets(sh, tg) {
				for _, op := range c12Ops(kind) {
					if as.ops != nil && !has(as.ops, op) {
						continue
					}
					aggs := []string{""}
					if as.name == "one" || as.name == "pivot" {
						aggs = []string{"", "and", "or"}
					}
					for _, agg := range aggs {
						add(c12Job{Shape: sh, Filters: []c12Filter{{Target: tg, Op: op, Arg: as.arg}}, Agg: agg, Judged: true, Family: "single"})
					}
				}
			}
		}
	}
	// F1b: log_addr filters under the three fetch plans (logs only / blocks+logs / receipts)
	for _, extra := range [][]string{{"tx_to"}, {"tx_gas_used"}, {"block_time"}} {
		for _, op := range c12Ops("bytes") {
			for _, as := range c12ArgSets("EV1", "f:log_addr")[:2] {
				add(c12Job{Shape: "EV1", Filters: []c12Filter{{Target: "f:log_addr", Op: op, Arg: as.arg}}, Extra: extra, Judged: true, Family: "plan"})
			}
		}
	}
	// F2: two filters, every operator pair, three aggregations
	for _, sh := range c12Shapes {
		for _, pr := range c12Pairs[sh] {
			a1, a2 := c12ArgSets(sh, pr[0]), c12ArgSets(sh, pr[1])
			sets := [][2][]string{{a1[0].arg, a2[0].arg}}
			if thorough {
				sets = append(sets, [2][]string{a1[1].arg, a2[0].arg}, [2][]string{a1[0].arg, a2[1].arg})
			}
			for _, st := range sets {
				for _, o1 := range c12Ops(c12Kind(sh, pr[0])) {
					for _, o2 := range c12Ops(c12Kind(sh, pr[1])) {
						multiStr := func(tg, op string, arg []string) bool {
							return c12Kind(sh, tg) == "string" && len(arg) > 1 && (op == "eq" || op == "ne")
						}
						if multiStr(pr[0], o1, st[0]) || multiStr(pr[1], o2, st[1]) {
							continue // judged in the single-filter family only (keeps one deviation per job)
						}
						for _, agg := range []string{"", "and", "or"} {
							add(c12Job{Shape: sh, Filters: []c12Filter{{Target: pr[0], Op: o1, Arg: st[0]}, {Target: pr[1], Op: o2, Arg: st[1]}}, Agg: agg, Judged: true, Family: "pair"})
						}
					}
				}
			}
		}
	}
	// F3: three filters (the fold is applied twice)
	for _, o1 := range []string{"contains", "ne"} {
		for _, o2 := range []string{"gt", "eq"} {
			for _, o3 := range []string{"lt", "ne"} {
				for _, agg := range []string{"", "and", "or"} {
					add(c12Job{Shape: "EV1", Filters: []c12Filter{{Target: "in:from", Op: o1, Arg: []string{c12Classes("in:from")[0]}},
						{Target: "in:value", Op: o2, Arg: []string{c12Classes("in:value")[1]}}, {Target: "f:tx_nonce", Op: o3, Arg: []string{c12Classes("f:tx_nonce")[1]}}}, Agg: agg, Judged: true, Family: "triple"})
					add(c12Job{Shape: "TX", Filters: []c12Filter{{Target: "f:tx_to", Op: o1, Arg: []string{c12Classes("f:tx_to")[0]}},
						{Target: "f:tx_value", Op: o2, Arg: []string{c12Classes("f:tx_value")[1]}}, {Target: "f:tx_nonce", Op: o3, Arg: []string{c12Classes("f:tx_nonce")[1]}}}, Agg: agg, Judged: true, Family: "triple"})
				}
			}
		}
	}
	// F4: reference filters on byte-valued targets
	refTargets := [][2]string{{"EV1", "in:from"}, {"EV1", "f:tx_to"}, {"EV1", "f:log_addr"}, {"EV2", "in:tag"}, {"EV2", "in:blob"}, {"EV2", "f:tx_input"},
		{"TX", "f:tx_to"}, {"TX", "f:tx_input"}, {"TR", "f:trace_action_from"}}
	second := map[string]c12Filter{
		"EV1": {Target: "in:value", Op: "gt", Arg: []string{c12Classes("in:value")[1]}},
		"EV2": {Target: "in:amt", Op: "lt", Arg: []string{c12Classes("in:amt")[1]}},
		"TX":  {Target: "f:tx_nonce", Op: "gt", Arg: []string{c12Classes("f:tx_nonce")[1]}},
		"TR":  {Target: "f:trace_action_call_type", Op: "eq", Arg: []string{"call"}},
	}
	for _, rt := range refTargets {
		for _, content := range []string{"none", "some", "all"} {
			for _, op := range []string{"contains", "!contains"} {
				rf := c12Filter{Target: rt[1], Op: op, Ref: content}
				add(c12Job{Shape: rt[0], Filters: []c12Filter{rf}, Judged: true, Family: "ref"})
				for _, agg := range []string{"and", "or"} {
					add(c12Job{Shape: rt[0], Filters: []c12Filter{rf, second[rt[0]]}, Agg: agg, Judged: true, Family: "ref"})
				}
			}
		}
	}
	// F4h: the referenced table CHANGES between two steps of the integration under test (batch 2 over 4
	// blocks): a referenced value is removed after it was looked up (what a reorg of the referenced
	// integration does), or appears only after earlier blocks were judged without it. Every block is
	// judged against the referenced table as it was when the block was processed.
	for _, rt := range [][2]string{{"EV1", "in:from"}, {"EV1", "f:tx_to"}, {"EV1", "f:log_addr"}, {"EV2", "in:tag"}, {"TX", "f:tx_to"}, {"TR", "f:trace_action_from"}} {
		for _, hist := range []string{"removed", "added"} {
			for _, op := range []string{"contains", "!contains"} {
				rf := c12Filter{Target: rt[1], Op: op, Ref: "all"}
				add(c12Job{Shape: rt[0], Filters: []c12Filter{rf}, Judged: true, Family: "ref-history", History: hist})
				for _, agg := range []string{"and", "or"} {
					add(c12Job{Shape: rt[0], Filters: []c12Filter{rf, second[rt[0]]}, Agg: agg, Judged: true, Family: "ref-history", History: hist})
				}
			}
		}
	}
	// F4b: a log_addr filter with full addresses (the push-down candidate) next to a REFERENCE-ONLY filter
	// (filter_ref, no filter_arg) on an event input or on a block field: logs from contracts that are not
	// listed carry referenced values, so under or / unset the address restriction must not be sent
	la := c12Classes("f:log_addr")
	for _, op := range []string{"eq", "contains"} {
		for _, arg := range [][]string{{la[0]}, {la[0], la[1]}} {
			for _, tg := range []string{"in:from", "f:tx_to"} {
				for _, rop := range []string{"contains", "!contains"} {
					for _, content := range []string{"none", "some", "all"} {
						for _, agg := range []string{"or", "and", ""} {
							fs := []c12Filter{{Target: "f:log_addr", Op: op, Arg: arg}, {Target: tg, Op: rop, Ref: content}}
							if op == "contains" { // declaration order must not matter
								fs[0], fs[1] = fs[1], fs[0]
							}
							add(c12Job{Shape: "EV1", Filters: fs, Agg: agg, Judged: true, Family: "pushdown-ref"})
						}
					}
				}
			}
		}
	}
	// F4c: a filter on a selected ARRAY input: one row per element, each row judged on its own element
	arrTarget := map[string]string{"EVA": "in:ids", "EVB": "in:who", "EVC": "in:tags"}
	for _, sh := range c12ArrayShapes {
		tg := arrTarget[sh]
		kind := c12Kind(sh, tg)
		sets := c12ArgSets(sh, tg)[:2]
		seconds := []c12Filter{{Target: "f:log_addr", Op: "contains", Arg: []string{la[0]}}, {Target: "in:op", Op: "eq", Arg: []string{c12Classes("in:op")[0]}},
			{Target: "in:op", Op: "ne", Arg: []string{c12Classes("in:op")[1]}}}
		for _, op := range c12Ops(kind) {
			for _, as := range sets {
				for _, agg := range []string{"", "or", "and"} {
					add(c12Job{Shape: sh, Filters: []c12Filter{{Target: tg, Op: op, Arg: as.arg}}, Agg: agg, Judged: true, Family: "array"})
				}
			}
			for _, sec := range seconds {
				for _, agg := range []string{"or", "and"} {
					add(c12Job{Shape: sh, Filters: []c12Filter{{Target: tg, Op: op, Arg: sets[0].arg}, sec}, Agg: agg, Judged: true, Family: "array"})
					add(c12Job{Shape: sh, Filters: []c12Filter{sec, {Target: tg, Op: op, Arg: sets[0].arg}}, Agg: agg, Judged: true, Family: "array"})
				}
			}
		}
	}
	for _, sh := range c12ArrayShapes {
		add(c12Job{Shape: sh, Judged: true, Family: "nofilter"})
	}
	// F5: reference filters on string / integer targets: observed only (see Assumptions)
	for _, rt := range [][2]string{{"EV2", "in:memo"}, {"EV1", "in:value"}, {"TX", "f:tx_nonce"}, {"TR", "f:trace_action_call_type"}} {
		for _, op := range []string{"contains", "!contains"} {
			add(c12Job{Shape: rt[0], Filters: []c12Filter{{Target: rt[1], Op: op, Ref: "some"}}, Judged: false, Family: "ref-kind"})
		}
	}
	// F6: observed, not judged
	obs := func(sh string, agg string, fs ...c12Filter) {
		add(c12Job{Shape: sh, Filters: fs, Agg: agg, Judged: false, Family: "observed"})
	}
	for _, op := range []string{"gt", "lt"} {
		obs("EV1", "", c12Filter{Target: "in:from", Op: op, Arg: []string{c12Classes("in:from")[1]}})
		obs("EV2", "", c12Filter{Target: "in:memo", Op: op, Arg: []string{"bar"}})
		obs("EV1", "or", c12Filter{Target: "in:from", Op: op, Arg: []string{c12Classes("in:from")[1]}}, c12Filter{Target: "in:value", Op: "eq", Arg: []string{c12Classes("in:value")[1]}})
	}
	for _, op := range []string{"eq", "ne", "gt", "lt"} {
		obs("EV1", "", c12Filter{Target: "in:value", Op: op, Arg: []string{c12Classes("in:value")[0], c12Classes("in:value")[2]}})
		obs("TX", "", c12Filter{Target: "f:tx_nonce", Op: op, Arg: []string{bigPow(64).String()}})
	}
	for _, op := range []string{"contains", "!contains"} {
		obs("EV1", "", c12Filter{Target: "f:log_addr", Op: op, Arg: []string{"0x" + hex.EncodeToString(c12Emit[0][2:9])}})
		obs("EV1", "", c12Filter{Target: "in:value", Op: op, Arg: []string{c12Classes("in:value")[1]}})
	}
	if thorough {
		// batch / concurrency variants of the single-filter family
		n := len(jobs)
		for i := 0; i < n; i++ {
			if jobs[i].Family == "single" || jobs[i].Family == "ref" {
				for _, bc := range [][2]int{{1, 1}, {4, 2}} {
					j := jobs[i]
					j.Batch, j.Conc = bc[0], bc[1]
					jobs = append(jobs, j)
				}
			}
		}
	}
	return jobs
}

// ---- preparation ------------------------------------------------------------------------------------

type c12Prep struct {
	d, strip, rd *world.Decl
	conf         string
	snap         *simpg.Snapshot
	chain        *simeth.Chain
	refKind      string
	removeVal    string // rendered value deleted from the referenced table in a "removed" history
}

func c12ClassVal(kind, s string) ref.Value {
	switch kind {
	case "string":
		return []byte(s)
	case "u64", "u256":
		x, _ := new(big.Int).SetString(s, 10)
		return world.WordBig(x)
	}
	return c12Unhex(s)
}

func c12Prepare(j c12Job) (*c12Prep, error) {
	p := &c12Prep{}
	p.d = c12BaseDecl(j.Shape, "ig1", "t1")
	p.strip = c12BaseDecl(j.Shape, "ig1", "t1")
	p.d.FilterAgg = j.Agg
	hasField := func(d *world.Decl, n string) bool {
		for _, f := range d.Fields {
			if f.Name == n {
				return true
			}
		}
		return false
	}
	var regs []ref.Value
	for _, f := range j.Filters {
		var r *world.Ref
		if f.Ref != "" {
			kind := c12Kind(j.Shape, f.Target)
			if p.rd != nil {
				return nil, fmt.Errorf("c12: at most one reference filter per job")
			}
			jb, _ := json.Marshal(j)
			p.rd, p.refKind = c12RefDecl(kind, fmt.Sprintf("rt_%016x", fw.Hash64(string(jb)))), kind
			p.removeVal = world.Render(c12ClassVal(kind, c12Classes(f.Target)[0]))
			r = &world.Ref{Integration: "r1", Column: "who"}
			cl := c12Classes(f.Target)
			switch kind {
			case "string":
				regs = append(regs, []byte("unrelated"))
			case "u64", "u256":
				regs = append(regs, world.U(77))
			default:
				regs = append(regs, simeth.Word("c12-unrelated")[:11])
			}
			switch f.Ref {
			case "some":
				regs = append(regs, c12ClassVal(kind, cl[0]))
			case "all":
				regs = append(regs, c12ClassVal(kind, cl[0]), c12ClassVal(kind, cl[1]), c12ClassVal(kind, cl[2]), c12ClassVal(kind, cl[0])) // one value registered twice
			}
		}
		if f.isInput() {
			found := false
			for i := range p.d.Inputs {
				if p.d.Inputs[i].Name == f.name() {
					p.d.Inputs[i].Op, p.d.Inputs[i].Arg, p.d.Inputs[i].Ref = f.Op, f.Arg, r
					found = true
				}
			}
			if !found {
				return nil, fmt.Errorf("c12: no input %s in %s", f.name(), j.Shape)
			}
			continue
		}
		if hasField(p.d, f.name()) {
			for i := range p.d.Fields {
				if p.d.Fields[i].Name == f.name() {
					p.d.Fields[i].Op, p.d.Fields[i].Arg, p.d.Fields[i].Ref = f.Op, f.Arg, r
				}
			}
			continue
		}
		p.d.Fields = append(p.d.Fields, world.Field{Name: f.name(), Column: f.name(), Op: f.Op, Arg: f.Arg, Ref: r})
		p.strip.Fields = append(p.strip.Fields, world.Field{Name: f.name(), Column: f.name()})
	}
	for _, e := range j.Extra {
		if !hasField(p.d, e) {
			p.d.Fields = append(p.d.Fields, world.Field{Name: e, Column: e})
			p.strip.Fields = append(p.strip.Fields, world.Field{Name: e, Column: e})
		}
	}
	decls := []*world.Decl{p.d}
	if p.rd != nil {
		decls = []*world.Decl{p.rd, p.d}
	}
	p.conf = world.ConfJSON([]world.Source{{Name: "src1", ChainID: 7, URL: "http://node1", Batch: j.Batch, Conc: j.Conc}}, decls)
	conf, err := world.ParseConf(p.conf)
	if err != nil {
		return nil, err
	}
	if p.snap, err = world.InitDB(conf); err != nil {
		return nil, err
	}
	p.chain = c12BuildChain(j.Shape, p.rd, regs)
	return p, nil
}

// ---- expected rows -------------------------------------------------------------------------------------

type c12Expect struct {
	rows     []world.Row
	cand     int
	accepted map[[2]uint64]bool // (block, log index) of logs with at least one accepted row
	judged   bool
	combos   map[string]int // truth combinations of the per-filter results over the candidate rows
}

// first: evaluate string eq/ne with the first argument only (the suspected implementation reading; used to classify a mismatch, never as oracle).
func c12Expected(j c12Job, p *c12Prep, inRefAt func(v any, block uint64) bool, first bool) c12Expect {
	e := c12Expect{accepted: map[[2]uint64]bool{}, judged: true, combos: map[string]int{}}
	head := p.chain.Head().Num
	cand := p.strip.Expect(p.chain, "src1", 7, 1, head, nil)
	e.cand = len(cand)
	for _, r := range cand {
		blk := r["block_num"].(*big.Int).Uint64()
		inRef := func(v any) bool { return inRefAt(v, blk) } // the referenced table as it was when this block was processed
		set, val := false, false
		combo := ""
		for _, f := range j.Filters {
			col := f.name()
			if f.isInput() {
				for _, in := range p.d.Inputs {
					if in.Name == f.name() {
						col = in.Column
					}
				}
			}
			v := r[col]
			arg := f.Arg
			if first && len(arg) > 1 {
				if _, isStr := v.(string); isStr && (f.Op == "eq" || f.Op == "ne") {
					arg = arg[:1]
				}
			}
			ok, res := c12Accept(f.Op, arg, f.Ref != "", v, inRef)
			if !ok {
				e.judged = false
				continue
			}
			if res {
				combo += "T"
			} else {
				combo += "F"
			}
			switch {
			case !set:
				set, val = true, res
			case j.Agg == "and":
				val = val && res
			default: // "or" and unset
				val = val || res
			}
		}
		e.combos[combo]++
		if !set || val {
			e.rows = append(e.rows, r)
			if li, ok := r["log_idx"].(int64); ok {
				e.accepted[[2]uint64{r["block_num"].(*big.Int).Uint64(), uint64(li)}] = true
			}
		}
	}
	return e
}

// ---- eth_getLogs parameters ----------------------------------------------------------------------------

type c12GetLogs struct {
	from, to uint64
	addrs    []string   // nil = wildcard
	topics   [][]string // nil entry = wildcard
	raw      string
}

func c12ParseGetLogs(ex *simeth.Exchange) []c12GetLogs {
	var out []c12GetLogs
	set := func(v any) []string {
		switch x := v.(type) {
		case string:
			return []string{strings.ToLower(x)}
		case []any:
			if len(x) == 0 {
				return nil
			}
			var s []string
			for _, e := range x {
				if e == nil {
					return nil
				}
				s = append(s, strings.ToLower(fmt.Sprint(e)))
			}
			return s
		}
		return nil
	}
	for _, c := range ex.Calls {
		if c.Method != "eth_getLogs" || len(c.Params) != 1 {
			continue
		}
		m, _ := c.Params[0].(map[string]any)
		g := c12GetLogs{}
		fs, _ := m["fromBlock"].(string)
		ts, _ := m["toBlock"].(string)
		g.from, _ = strconv.ParseUint(strings.TrimPrefix(fs, "0x"), 16, 64)
		g.to, _ = strconv.ParseUint(strings.TrimPrefix(ts, "0x"), 16, 64)
		g.addrs = set(m["address"])
		if tl, ok := m["topics"].([]any); ok {
			for _, t := range tl {
				g.topics = append(g.topics, set(t))
			}
		}
		b, _ := json.Marshal(m)
		g.raw = string(b)
		out = append(out, g)
	}
	return out
}

func (g c12GetLogs) passes(l *simeth.Log) bool {
	in := func(set []string, b []byte) bool {
		h := "0x" + hex.EncodeToString(b)
		for _, s := range set {
			if s == h {
				return true
			}
		}
		return false
	}
	if g.addrs != nil && !in(g.addrs, l.Address) {
		return false
	}
	for i, t := range g.topics {
		if t == nil {
			continue
		}
		if i >= len(l.Topics) || !in(t, l.Topics[i]) {
			return false
		}
	}
	return true
}

// ---- one execution -------------------------------------------------------------------------------------

type c12Result struct {
	vio      *fw.Violation
	outcome  string
	harness  string
	nontriv  bool
	rows     int
	cand     int
	getlogs  int
	restrict int // candidate logs an eth_getLogs restriction excluded
	combos   int
	refRows  int
}

var c12NumRe = regexp.MustCompile(`[0-9]+`)

func c12ErrClass(err error) string {
	if err == nil {
		return ""
	}
	s := err.Error()
	s = regexp.MustCompile(`0x[0-9a-fA-F]+|"[^"]*"`).ReplaceAllString(s, "X")
	if len(s) > 100 {
		s = s[:100]
	}
	return c12NumRe.ReplaceAllString(s, "N")
}

// signature of what a job exercises (violation key component).
func c12Sig(j c12Job) string {
	kind := map[string]string{"EV1": "log", "EV2": "log", "EV3": "log-nodata", "EVA": "log-array", "EVB": "log-array", "EVC": "log-array", "TX": "tx", "TR": "trace"}[j.Shape]
	agg := j.Agg
	if agg == "" {
		agg = "default"
	}
	var parts []string
	for _, f := range j.Filters {
		s := c12Kind(j.Shape, f.Target) + "." + f.Op
		if f.Ref != "" {
			s += ".ref"
		}
		if len(f.Arg) > 1 {
			s += ".multi"
		}
		if f.Target == "f:log_addr" {
			s = "log_addr." + f.Op
		}
		parts = append(parts, s)
	}
	if len(parts) == 0 {
		parts = []string{"nofilter"}
	}
	if j.History != "" {
		return kind + ":" + agg + ":" + strings.Join(parts, "+") + ":referenced-value-" + j.History
	}
	return kind + ":" + agg + ":" + strings.Join(parts, "+")
}

// c12PushdownKey names the class of a pushed-down restriction that excludes acceptable logs.
// pushed is the address list actually sent; the three known classes apply only when it is
// exactly the argument list of the log_addr filter.
func c12PushdownKey(j c12Job, pushed []string) string {
	norm := func(ss []string) string {
		var o []string
		for _, s := range ss {
			o = append(o, hex.EncodeToString(c12Unhex(s)))
		}
		sort.Strings(o)
		return strings.Join(o, ",")
	}
	for _, f := range j.Filters {
		if f.Target != "f:log_addr" || len(f.Arg) == 0 {
			continue
		}
		if norm(f.Arg) != norm(pushed) {
			return "pushdown-excludes:address-list-differs-from-log_addr-arguments"
		}
		switch {
		case f.Op == "!contains" || f.Op == "ne":
			return "pushdown-excludes:log_addr:" + f.Op
		case len(j.Filters) > 1 && j.Agg != "and":
			return "pushdown-excludes:log_addr:or-with-other-filter"
		}
		return "pushdown-excludes:log_addr:" + f.Op + ":unexpected"
	}
	if pushed == nil {
		return "pushdown-excludes:topics"
	}
	return "pushdown-excludes:address-list-without-log_addr-filter"
}

// c12Snap: the referenced table (rendered values of its column) while blocks lo..hi were processed.
type c12Snap struct {
	lo, hi uint64
	set    map[string]bool
}

func c12Exec(j c12Job, p *c12Prep) (res c12Result) {
	w := world.New(nil, world.Cfg{Snap: p.snap, Chains: map[string]*simeth.Chain{"node1": p.chain}})
	head := p.chain.Head().Num
	var (
		stepErr   error
		stepOut   string
		dEx       []*simeth.Exchange // RPC exchanges issued by steps of the integration under test
		snaps     []c12Snap
		dump      []string
		cols      []string
		cursorNum uint64
		hasCursor bool
	)
	w.Run(func() {
		conf, err := world.ParseConf(p.conf)
		if err != nil {
			w.HarnessErr = err.Error()
			return
		}
		tasks, err := w.LoadTasks(conf)
		if err != nil {
			w.HarnessErr = "loadTasks: " + err.Error()
			return
		}
		byName := map[string]*world.Task{}
		for _, t := range tasks {
			byName[t.IG] = t
		}
		run := func(t *world.Task) (string, error) {
			for s := 0; s < 16; s++ {
				out, err := t.Step()
				switch out {
				case "ok":
					continue
				case "nothing":
					return "converged", nil
				default:
					return out, err
				}
			}
			return "noconverge", nil
		}
		checkRef := func() bool {
			rcols := w.TableCols(p.rd.Table)
			got := world.RenderDump(w.PG.Dump(p.rd.Table), rcols)
			c, _ := w.Latest("src1", "r1")
			want := world.RenderRows(p.rd.Expect(p.chain, "src1", 7, 1, c.Num, nil), rcols)
			if strings.Join(got, "\n") != strings.Join(want, "\n") {
				w.HarnessErr = "referenced table differs from its projection:\n" + world.DiffSorted(got, want)
				return false
			}
			return true
		}
		// one step of the integration under test; the blocks it covers are judged against the
		// referenced table as it is during that step (sequential run: it cannot change meanwhile)
		stepD := func() string {
			snap := map[string]bool{}
			if p.rd != nil {
				for _, r := range w.PG.Dump(p.rd.Table) {
					snap[world.Render(r.Vals["who"])] = true
				}
				res.refRows = len(snap)
			}
			before, _ := w.Latest("src1", "ig1")
			ex0 := len(w.Net.Exchanges())
			out, err := byName["ig1"].Step()
			dEx = append(dEx, w.Net.Exchanges()[ex0:]...)
			after, has := w.Latest("src1", "ig1")
			if out == "ok" && has {
				snaps = append(snaps, c12Snap{lo: before.Num + 1, hi: after.Num, set: snap})
			}
			stepOut, stepErr = out, err
			return out
		}
		runD := func() {
			for s := 0; s < 16; s++ {
				switch stepD() {
				case "ok":
					continue
				case "nothing":
					stepOut = "converged"
				}
				return
			}
			stepOut = "noconverge"
		}
		refDone := func() bool {
			out, err := run(byName["r1"])
			if out != "converged" {
				w.HarnessErr = fmt.Sprintf("referenced integration did not converge: %s %v", out, err)
				return false
			}
			return checkRef()
		}
		switch {
		case p.rd == nil:
			runD()
		case j.History == "removed": // R complete; D's first step; a referenced value disappears (as after a reorg of R); D's remaining steps
			if !refDone() {
				return
			}
			if stepD() == "ok" {
				n := w.PG.DeleteWhere(p.rd.Table, func(r simpg.Row) bool { return world.Render(r.Vals["who"]) == p.removeVal })
				if n == 0 {
					w.HarnessErr = "history: nothing to remove from the referenced table"
					return
				}
				runD()
			}
		case j.History == "added": // R's first step; D as far as it may go; R completes (new referenced values appear); D's remaining steps
			if out, err := byName["r1"].Step(); out != "ok" {
				w.HarnessErr = fmt.Sprintf("referenced integration: first step %s %v", out, err)
				return
			}
			if !checkRef() {
				return
			}
			runD()
			if stepOut == "converged" {
				if !refDone() {
					return
				}
				runD()
			}
		default:
			if !refDone() {
				return
			}
			runD()
		}
		cols = w.TableCols("t1")
		dump = world.RenderDump(w.PG.Dump("t1"), cols)
		c, ok := w.Latest("src1", "ig1")
		cursorNum, hasCursor = c.Num, ok
	})
	if w.HarnessErr != "" {
		res.harness = w.HarnessErr
		return
	}
	if len(w.V.Panics) > 0 {
		stepOut, stepErr = "panic", fmt.Errorf("%s", strings.Join(w.V.Panics, "\n"))
	}
	if w.V.Deadlock {
		res.harness = "deadlock in a sequential run: " + w.V.DeadlockMsg
		return
	}
	// reference lookup: membership in the referenced table as it was when the block was processed;
	// blocks that were never processed do not matter (the cursor check fails first)
	inRef := func(v any, block uint64) bool {
		for _, sn := range snaps {
			if block >= sn.lo && block <= sn.hi {
				return sn.set[world.Render(v)]
			}
		}
		return false
	}
	exp := c12Expected(j, p, inRef, false)
	res.cand, res.combos = exp.cand, len(exp.combos)
	want := world.RenderRows(exp.rows, cols)
	res.rows = len(dump)
	res.nontriv = len(exp.rows) > 0 && len(exp.rows) < exp.cand
	sig := c12Sig(j)
	refKindOdd := p.rd != nil && p.refKind != "bytes" && p.refKind != "dyn"

	// eth_getLogs parameters sent for the integration under test
	var gls []c12GetLogs
	for _, ex := range dEx {
		gls = append(gls, c12ParseGetLogs(ex)...)
	}
	res.getlogs = len(gls)
	passes := func(n uint64, l *simeth.Log) (bool, string) {
		for _, g := range gls {
			if n >= g.from && n <= g.to && !g.passes(l) {
				return false, g.raw
			}
		}
		return true, ""
	}
	excluded := map[[2]uint64]bool{}
	var firstExcl string
	if len(gls) > 0 {
		for n := uint64(1); n <= head; n++ {
			for _, t := range p.chain.Blocks[n].Txs {
				for _, l := range t.Logs {
					ok, raw := passes(n, l)
					if ok {
						continue
					}
					if l.Tag == "x" {
						res.restrict++
					}
					if exp.accepted[[2]uint64{n, l.Idx}] {
						excluded[[2]uint64{n, l.Idx}] = true
						if firstExcl == "" {
							firstExcl = fmt.Sprintf("block %d log %d (address %x) is accepted by the declared filters but excluded by eth_getLogs parameters %s", n, l.Idx, l.Address, raw)
						}
					}
				}
			}
		}
	}

	if !j.Judged || !exp.judged {
		cls := "match"
		switch {
		case stepOut == "panic":
			cls = "panic"
		case stepOut != "converged":
			cls = "error:" + c12ErrClass(stepErr)
		case strings.Join(dump, "\n") != strings.Join(want, "\n"):
			cls = "differs-from-natural-reading"
		}
		if !exp.judged {
			cls = "kind-op-undocumented:" + cls
		}
		res.outcome = "observed:" + sig + ":" + cls
		return
	}
	vio := func(class, key, detail string) {
		if res.vio == nil {
			res.vio = &fw.Violation{Property: "C12", Class: class, Key: key, Detail: detail}
		}
	}
	switch {
	case stepOut == "panic":
		key := "panic:" + sig
		if refKindOdd {
			key = "ref-on-" + p.refKind + ":panic"
		}
		vio("panic", key, fmt.Sprintf("Converge panicked: %v", stepErr))
	case stepOut != "converged":
		key := "step-" + stepOut + ":" + sig + ":" + c12ErrClass(stepErr)
		if refKindOdd {
			key = "ref-on-" + p.refKind + ":" + stepOut
		}
		vio("error", key, fmt.Sprintf("integration never reaches the head: outcome %q: %v", stepOut, stepErr))
	case !hasCursor || cursorNum != head:
		vio("cursor", "cursor:"+sig, fmt.Sprintf("converged with cursor %d (exists=%v), head %d", cursorNum, hasCursor, head))
	}
	if res.vio == nil && len(excluded) > 0 {
		// the rows that would be emitted if the only deviation were the pushed-down restriction
		var restricted []world.Row
		for _, r := range exp.rows {
			li, _ := r["log_idx"].(int64)
			if !excluded[[2]uint64{r["block_num"].(*big.Int).Uint64(), uint64(li)}] {
				restricted = append(restricted, r)
			}
		}
		if strings.Join(dump, "\n") == strings.Join(world.RenderRows(restricted, cols), "\n") {
			vio("pushdown", c12PushdownKey(j, gls[0].addrs), fmt.Sprintf("%d accepted logs never fetched (%d of %d expected rows missing, everything else correct): %s", len(excluded), len(exp.rows)-len(restricted), len(exp.rows), firstExcl))
		} else {
			vio("pushdown+rows", "pushdown-and-rows:"+sig, fmt.Sprintf("%s; and the emitted rows differ from the expectation beyond that:\n%s", firstExcl, world.DiffSorted(dump, want)))
		}
	}
	if res.vio == nil && strings.Join(dump, "\n") != strings.Join(want, "\n") {
		key := "rows:" + sig
		detail := fmt.Sprintf("emitted rows != rows the declared filters accept (%d emitted, %d expected of %d candidates)\n%s", len(dump), len(exp.rows), exp.cand, world.DiffSorted(dump, want))
		if refKindOdd {
			key = "ref-on-" + p.refKind + ":referenced-table-ignored"
		} else {
			alt := c12Expected(j, p, inRef, true)
			if strings.Join(dump, "\n") == strings.Join(world.RenderRows(alt.rows, cols), "\n") {
				for _, f := range j.Filters {
					if c12Kind(j.Shape, f.Target) == "string" && len(f.Arg) > 1 && (f.Op == "eq" || f.Op == "ne") {
						key = "multiarg-ignored:string:" + f.Op
						detail = "string " + f.Op + " with several arguments compares with the FIRST argument only\n" + detail
					}
				}
			}
		}
		vio("rows", key, detail)
	}
	// cross-check with the shared reference predicate (world.Decl.Expect) where both are meant to agree
	if res.vio == nil && !refKindOdd {
		multiStr := false
		for _, f := range j.Filters {
			if c12Kind(j.Shape, f.Target) == "string" && len(f.Arg) > 1 && (f.Op == "eq" || f.Op == "ne") {
				multiStr = true
			}
		}
		if !multiStr && j.History == "" {
			look := func(ig, col string, v []byte) bool { return inRef(v, 1) }
			shared := world.RenderRows(p.d.Expect(p.chain, "src1", 7, 1, head, look), cols)
			if strings.Join(shared, "\n") != strings.Join(want, "\n") {
				res.harness = "C12 predicate and world.Decl.Expect disagree on a job where they must agree:\n" + world.DiffSorted(want, shared)
				return
			}
		}
	}
	if res.vio != nil {
		res.outcome = "VIOLATION:" + res.vio.Class
		return
	}
	switch {
	case len(exp.rows) == 0:
		res.outcome = "held:accepts-none"
	case len(exp.rows) == exp.cand:
		res.outcome = "held:accepts-all"
	default:
		res.outcome = "held:accepts-some"
	}
	if len(gls) > 0 && gls[0].addrs != nil {
		res.outcome += ":address-pushdown"
	}
	return
}

func c12Run(c *fw.Ctx) {
	jobs := c12Jobs(c.Thorough())
	if n, _ := strconv.Atoi(os.Getenv("C12_MAXJOBS")); n > 0 && n < len(jobs) {
		jobs = jobs[:n]
	}
	fam := map[string]int{}
	for _, j := range jobs {
		fam[j.Family]++
	}
	c.Bound("jobs", len(jobs))
	c.Bound("jobs_per_family", fam)
	c.Bound("preemptions", 0)
	c.Bound("chain_blocks", 4)
	for _, j := range jobs {
		if !c.Mine() {
			continue
		}
		if c.Expired() {
			return
		}
		p, err := c12Prepare(j)
		if err != nil {
			c.HarnessError("prepare %+v: %v", j, err)
			return
		}
		res := c12Exec(j, p)
		if res.harness != "" {
			c.HarnessError("job %+v: %s", j, res.harness)
			return
		}
		c.Eval(res.nontriv)
		c.Outcome(res.outcome)
		c.Count("family:"+j.Family, 1)
		c.Count("rows_emitted", int64(res.rows))
		c.Count("candidate_rows", int64(res.cand))
		c.Count("eth_getLogs_calls", int64(res.getlogs))
		c.Count("logs_of_event_excluded_by_pushdown", int64(res.restrict))
		c.Count("referenced_rows", int64(res.refRows))
		if len(j.Filters) >= 2 && res.combos >= 4 {
			c.Count("multi_filter_jobs_with_all_truth_combinations", 1)
		}
		if res.vio != nil {
			b, _ := json.Marshal(j)
			c.Violation("C12", res.vio.Class, res.vio.Key, fmt.Sprintf("job %s\n%s", b, res.vio.Detail), j)
		}
		if c.Res.Evaluations%97 == 1 {
			c.Sample(map[string]any{"job": j, "outcome": res.outcome, "rows": res.rows, "candidates": res.cand})
		}
	}
}

func c12Replay(c *fw.Ctx, raw json.RawMessage) {
	var j c12Job
	if err := json.Unmarshal(raw, &j); err != nil {
		c.HarnessError("bad case: %v", err)
		return
	}
	p, err := c12Prepare(j)
	if err != nil {
		c.HarnessError("prepare: %v", err)
		return
	}
	res := c12Exec(j, p)
	c.Eval(true)
	if res.harness != "" {
		c.HarnessError("%s", res.harness)
		return
	}
	if res.vio != nil {
		c.Violation("C12", res.vio.Class, res.vio.Key, res.vio.Detail, j)
	}
}
