//go:build verif

package deps

import (
	"encoding/hex"
	"fmt"
	"math/big"
	"strings"

	"verifh/ref"
	"verifh/simeth"
	"verifh/world"
)

// ---- C12 reference side -----------------------------------------------------------------
//
// Everything in this file is written from the DOCUMENTED filter semantics
// (indexsupply.com/shovel/docs "Filter Operations"; the docs tree is not part of the pinned
// /repo, so the table below is the reading used and is repeated in the check's Assumptions):
//
//	contains / !contains   binary data: the value contains one of the arguments as a byte
//	                       sub-string (docs example: tx_input contains a 4-byte selector);
//	                       with filter_ref: the value equals one value of the referenced column
//	                       string: the value is one of the arguments (dig_test.go TestFilter)
//	eq / ne                binary data, string: the value equals one / none of the arguments
//	                       int/uint: ONE decimal argument
//	gt / lt                int/uint: ONE decimal argument
//	results of several filters are folded with filter_agg ("and" | "or"; unset = "or");
//	an integration without filters accepts everything.
//
// Anything else (gt/lt on bytes or strings, contains on integers, several arguments on an
// integer filter, booleans, signed integers, byte-typed fields, eq/ne with filter_ref) is
// outside the documented table: such jobs are never generated as judged jobs.

type c12Filter struct {
	Target string   `json:"target"` // "in:<input name>" | "f:<field name>"
	Op     string   `json:"op"`
	Arg    []string `json:"arg,omitempty"`
	Ref    string   `json:"ref,omitempty"` // "" | "none" | "some" | "all": reference filter; content of the referenced table w.r.t. the target's main classes
}

func (f c12Filter) isInput() bool { return strings.HasPrefix(f.Target, "in:") }
func (f c12Filter) name() string  { return f.Target[strings.IndexByte(f.Target, ':')+1:] }

// verdict of one filter on one value: judged=false when the (kind, op, args) combination is
// outside the documented table.
func c12Accept(op string, arg []string, hasRef bool, v any, inRef func(v any) bool) (judged, res bool) {
	switch x := v.(type) {
	case []byte:
		switch op {
		case "contains", "!contains":
			hit := false
			if hasRef {
				hit = inRef(x)
			} else {
				for _, a := range arg {
					if strings.Contains(string(x), string(c12Unhex(a))) {
						hit = true
					}
				}
			}
			return true, hit == (op == "contains")
		case "eq", "ne":
			if hasRef {
				return false, true
			}
			hit := false
			for _, a := range arg {
				if string(x) == string(c12Unhex(a)) {
					hit = true
				}
			}
			return true, hit == (op == "eq")
		}
	case string:
		hit := false
		if hasRef {
			if op != "contains" && op != "!contains" {
				return false, true
			}
			hit = inRef(x)
		} else {
			for _, a := range arg {
				if a == x {
					hit = true
				}
			}
		}
		switch op {
		case "contains", "eq":
			return true, hit
		case "!contains", "ne":
			return true, !hit
		}
	case *big.Int:
		if hasRef {
			if op != "contains" && op != "!contains" {
				return false, true
			}
			return true, inRef(x) == (op == "contains")
		}
		if len(arg) != 1 || x.Sign() < 0 {
			return false, true
		}
		a, ok := new(big.Int).SetString(arg[0], 10)
		if !ok {
			return false, true
		}
		c := x.Cmp(a)
		switch op {
		case "eq":
			return true, c == 0
		case "ne":
			return true, c != 0
		case "gt":
			return true, c > 0
		case "lt":
			return true, c < 0
		}
	}
	return false, true
}

func c12Unhex(s string) []byte {
	if len(s) >= 2 && s[0] == '0' && (s[1] == 'x' || s[1] == 'X') {
		s = s[2:]
	}
	if len(s)%2 == 1 {
		s = "0" + s
	}
	b, _ := hex.DecodeString(s)
	return b
}

// ---- constants of the chains ---------------------------------------------------------------

func bigPow(n uint) *big.Int { return new(big.Int).Lsh(big.NewInt(1), n) }
func bigAdd(x *big.Int, d int64) *big.Int {
	return new(big.Int).Add(x, big.NewInt(d))
}

var (
	c12Emit   = [3][]byte{simeth.Addr("c12-contract-A"), simeth.Addr("c12-contract-B"), simeth.Addr("c12-contract-C")}
	c12From   = [3][]byte{simeth.Addr("c12-from-P"), simeth.Addr("c12-from-Q"), simeth.Addr("c12-from-S")}
	c12ToIn   = [3][]byte{simeth.Addr("c12-to-P"), simeth.Addr("c12-to-Q"), simeth.Addr("c12-to-S")}
	c12TxTo   = [3][]byte{simeth.Addr("c12-txto-0"), simeth.Addr("c12-txto-1"), simeth.Addr("c12-txto-2")}
	c12Tag    = [3][]byte{simeth.Word("c12-tag-0"), simeth.Word("c12-tag-1"), simeth.Word("c12-tag-2")}
	c12TrFrom = [3][]byte{simeth.Addr("c12-trfrom-0"), simeth.Addr("c12-trfrom-1"), simeth.Addr("c12-trfrom-2")}
	c12TrTo   = [3][]byte{simeth.Addr("c12-trto-0"), simeth.Addr("c12-trto-1"), simeth.Addr("c12-trto-2")}
	c12Memo   = [3]string{"foo", "bar", "baz"}
	c12CT     = [3]string{"call", "delegatecall", "staticcall"}
	c12Blob   = [3][]byte{simeth.Word("c12-blob-0")[:6], simeth.Word("c12-blob-1")[:9], simeth.Word("c12-blob-2")[:5]}
	c12Input  = [3][]byte{simeth.Word("c12-input-0")[:8], simeth.Word("c12-input-1")[:12], simeth.Word("c12-input-2")[:10]}

	c12K     = bigAdd(bigPow(200), 12345) // uint256 pivot (above 2^192: all four limbs matter)
	c12V     = bigAdd(bigPow(130), 99)    // tx_value pivot
	c12N     = uint64(1)<<40 + 7          // tx_nonce pivot
	c12G     = uint64(1)<<33 + 21         // tx_gas_used pivot
	c12Max   = bigAdd(bigPow(256), -1)
	c12Max64 = ^uint64(0)
)

func u256Cls(p *big.Int) [3]*big.Int { return [3]*big.Int{bigAdd(p, -1), p, bigAdd(p, 1)} }
func flip(b []byte, i int) []byte {
	o := append([]byte{}, b...)
	o[i] ^= 0x01
	return o
}
func cat(bs ...[]byte) []byte {
	var o []byte
	for _, b := range bs {
		o = append(o, b...)
	}
	return o
}

// ---- declaration shapes -------------------------------------------------------------------------

// c12Shapes: EV1 Transfer (indexed addresses + uint256 data), EV2 Note (indexed bytes32, string,
// dynamic bytes, uint256), EV3 Ping (all inputs indexed: log without data), TX (transaction
// indexing), TR (trace indexing).
var c12Shapes = []string{"EV1", "EV2", "EV3", "TX", "TR"}

// array shapes: one selected ARRAY input (one row per element) next to an indexed scalar input.
var c12ArrayShapes = []string{"EVA", "EVB", "EVC"}

func c12IsArrayShape(s string) bool { return s == "EVA" || s == "EVB" || s == "EVC" }

func c12BaseDecl(shape, name, table string) *world.Decl {
	d := &world.Decl{Name: name, Table: table, Sources: []world.SrcRef{{Name: "src1", Start: 1}}}
	switch shape {
	case "EV1":
		d.Event = "Transfer"
		d.Inputs = []world.Input{
			{Name: "from", Type: "address", Indexed: true, Column: "c_from"},
			{Name: "to", Type: "address", Indexed: true, Column: "c_to"},
			{Name: "value", Type: "uint256", Column: "c_value"},
		}
	case "EV2":
		d.Event = "Note"
		d.Inputs = []world.Input{
			{Name: "tag", Type: "bytes32", Indexed: true, Column: "c_tag"},
			{Name: "memo", Type: "string", Column: "c_memo"},
			{Name: "blob", Type: "bytes", Column: "c_blob"},
			{Name: "amt", Type: "uint256", Column: "c_amt"},
		}
	case "EV3":
		d.Event = "Ping"
		d.Inputs = []world.Input{
			{Name: "a", Type: "address", Indexed: true, Column: "c_a"},
			{Name: "n", Type: "uint256", Indexed: true, Column: "c_n"},
		}
	case "EVA":
		d.Event = "Batch"
		d.Inputs = []world.Input{
			{Name: "op", Type: "address", Indexed: true, Column: "c_op"},
			{Name: "ids", Type: "uint256[]", Column: "c_id"},
		}
	case "EVB":
		d.Event = "Marks"
		d.Inputs = []world.Input{
			{Name: "op", Type: "address", Indexed: true, Column: "c_op"},
			{Name: "who", Type: "address[]", Column: "c_who"},
		}
	case "EVC":
		d.Event = "Tags"
		d.Inputs = []world.Input{
			{Name: "op", Type: "address", Indexed: true, Column: "c_op"},
			{Name: "tags", Type: "bytes32[]", Column: "c_tag"},
		}
	case "TX":
		d.Fields = []world.Field{{Name: "tx_hash", Column: "tx_hash"}}
	case "TR":
		d.Fields = []world.Field{{Name: "trace_action_to", Column: "trace_action_to"}}
	default:
		panic("c12: unknown shape " + shape)
	}
	return d
}

// kind of a filter target: "bytes", "dyn" (variable-length bytes), "string", "u64", "u256".
func c12Kind(shape, target string) string {
	switch target {
	case "in:from", "in:to", "in:tag", "in:a", "in:op", "in:who", "in:tags", "f:tx_to", "f:log_addr", "f:trace_action_from", "f:trace_action_to":
		return "bytes"
	case "in:blob", "f:tx_input":
		return "dyn"
	case "in:memo", "f:trace_action_call_type":
		return "string"
	case "f:block_num", "f:tx_nonce", "f:tx_gas_used":
		return "u64"
	case "in:value", "in:amt", "in:n", "in:ids", "f:tx_value", "f:trace_action_value":
		return "u256"
	}
	panic("c12: unknown target " + target)
}

// main classes of a target, rendered as argument strings (class 0 and 1 are the "hit"
// classes used as arguments, class 2 is the miss class).
func c12Classes(target string) [3]string {
	hx := func(b [3][]byte) [3]string {
		return [3]string{"0x" + hex.EncodeToString(b[0]), "0x" + hex.EncodeToString(b[1]), "0x" + hex.EncodeToString(b[2])}
	}
	bi := func(b [3]*big.Int) [3]string { return [3]string{b[0].String(), b[1].String(), b[2].String()} }
	switch target {
	case "in:from", "in:a", "in:op", "in:who":
		return hx(c12From)
	case "in:to":
		return hx(c12ToIn)
	case "in:tag", "in:tags":
		return hx(c12Tag)
	case "f:tx_to":
		return hx(c12TxTo)
	case "f:log_addr":
		return hx(c12Emit)
	case "f:trace_action_from":
		return hx(c12TrFrom)
	case "f:trace_action_to":
		return hx(c12TrTo)
	case "in:blob":
		return hx(c12Blob)
	case "f:tx_input":
		return hx(c12Input)
	case "in:memo":
		return c12Memo
	case "f:trace_action_call_type":
		return c12CT
	case "in:value", "in:amt", "in:n", "in:ids", "f:trace_action_value":
		return bi(u256Cls(c12K))
	case "f:tx_value":
		return bi(u256Cls(c12V))
	case "f:tx_nonce":
		return [3]string{fmt.Sprint(c12N - 1), fmt.Sprint(c12N), fmt.Sprint(c12N + 1)}
	case "f:tx_gas_used":
		return [3]string{fmt.Sprint(c12G - 1), fmt.Sprint(c12G), fmt.Sprint(c12G + 1)}
	case "f:block_num":
		return [3]string{"1", "2", "3"}
	}
	panic("c12: classes of " + target)
}

// refType is the ABI type of the single input of the referenced integration's event for a target kind.
func c12RefType(kind string) string {
	switch kind {
	case "string":
		return "string"
	case "u64", "u256":
		return "uint256"
	}
	return "bytes"
}

// c12RefDecl is the referenced integration: event Reg(<type> who) → table <table>(who). The table name is
// distinct per job, so that nothing a process remembers about one job's referenced table (statement
// caches, memoised look-ups) can answer for another job: a job replayed alone sees what the worker saw.
func c12RefDecl(kind, table string) *world.Decl {
	return &world.Decl{Name: "r1", Table: table, Event: "Reg", Sources: []world.SrcRef{{Name: "src1", Start: 1}},
		Inputs: []world.Input{{Name: "who", Type: c12RefType(kind), Column: "who"}}}
}

// ---- chains -------------------------------------------------------------------------------------
//
// Blocks 1..3 carry a strength-2 orthogonal design: block b (0..2) has three transactions
// t (0..2); every transaction carries nine logs (x, y in 0..2). Every dimension is a linear
// form over Z3 of (b, t, x, y) and no two forms are proportional, so for every PAIR of
// dimensions all nine class combinations occur (equally often). Block 4 carries the special
// values (extremes, near misses, prefixes / super-strings / empty), one at a time.

var c12ChainCache = map[string]*simeth.Chain{}

// regs: values to register through Reg logs of the referenced declaration (nil = no referenced integration).
func c12BuildChain(shape string, rd *world.Decl, regs []ref.Value) *simeth.Chain {
	key := shape
	if rd != nil {
		key += "/" + rd.Inputs[0].Type + fmt.Sprintf("/%x", regs)
	}
	if c, ok := c12ChainCache[key]; ok {
		return c
	}
	evShape := shape
	if shape == "TX" || shape == "TR" {
		evShape = "EV1"
	}
	d := c12BaseDecl(evShape, "x", "x")
	decoy := &world.Decl{Name: "decoy", Event: "Other", Inputs: []world.Input{{Name: "x", Type: "address", Indexed: true, Column: "x"}, {Name: "y", Type: "uint256", Column: "y"}}}
	kc := u256Cls(c12K)
	mk := func(e int, cls ...int) *simeth.Log {
		switch evShape {
		case "EV1":
			return d.MkLog(c12Emit[e], world.AddrWord(c12From[cls[0]]), world.AddrWord(c12ToIn[cls[1]]), world.WordBig(kc[cls[2]]))
		case "EV2":
			return d.MkLog(c12Emit[e], c12Tag[cls[0]], []byte(c12Memo[cls[1]]), c12Blob[cls[2]], world.WordBig(kc[cls[3]]))
		default:
			return d.MkLog(c12Emit[e], world.AddrWord(c12From[cls[0]]), world.WordBig(kc[cls[1]]))
		}
	}
	// array shapes: every sequence of length 1..3 over the three classes of the element kind (39
	// arrays: accepted and rejected elements in every order), each emitted twice (two contracts,
	// two classes of the scalar input), spread over the nine transactions of blocks 1..3
	var arrLogs []*simeth.Log
	if c12IsArrayShape(evShape) {
		var seqs [][]int
		for n := 1; n <= 3; n++ {
			cnt := 1
			for i := 0; i < n; i++ {
				cnt *= 3
			}
			for c := 0; c < cnt; c++ {
				q, x := make([]int, n), c
				for i := n - 1; i >= 0; i-- {
					q[i], x = x%3, x/3
				}
				seqs = append(seqs, q)
			}
		}
		for i, q := range seqs {
			var els []any
			for _, cl := range q {
				switch evShape {
				case "EVA":
					els = append(els, world.WordBig(kc[cl]))
				case "EVB":
					els = append(els, world.AddrWord(c12From[cl]))
				default:
					els = append(els, append([]byte{}, c12Tag[cl]...))
				}
			}
			for k := 0; k < 2; k++ {
				arrLogs = append(arrLogs, d.MkLog(c12Emit[(i+k)%3], world.AddrWord(c12From[(i/3+2*k)%3]), els))
			}
		}
	}
	var specs []simeth.BlockSpec
	for b := 0; b < 3; b++ {
		var bs simeth.BlockSpec
		for t := 0; t < 3; t++ {
			var ts simeth.TxSpec
			for i := b*3 + t; i < len(arrLogs); i += 9 {
				ts.Logs = append(ts.Logs, arrLogs[i])
			}
			for x := 0; x < 3; x++ {
				for y := 0; y < 3; y++ {
					switch evShape {
					case "EV1": // from=y, to=x+2y+b, value=x+y+b+t
						ts.Logs = append(ts.Logs, mk(x, y, (x+2*y+b)%3, (x+y+b+t)%3))
					case "EV2": // tag=y, memo=x+y+b, blob=x+2y+t, amt=2x+y+b+t
						ts.Logs = append(ts.Logs, mk(x, y, (x+y+b)%3, (x+2*y+t)%3, (2*x+y+b+t)%3))
					case "EV3": // a=y, n=x+y+b+t
						ts.Logs = append(ts.Logs, mk(x, y, (x+y+b+t)%3))
					}
				}
			}
			for z := 0; z < 3; z++ { // ct=z, value=z+t, from=z+b, to=z+t+b
				ts.Traces = append(ts.Traces, &simeth.Trace{CallType: c12CT[z], Value: kc[(z+t)%3], From: c12TrFrom[(z+b)%3], To: c12TrTo[(z+t+b)%3]})
			}
			if b == 0 && t == 0 {
				// decoys: another event from a filtered address; the declared signature with one topic too many
				ts.Logs = append(ts.Logs, decoy.MkLog(c12Emit[0], world.AddrWord(c12From[0]), world.WordBig(c12K)))
				if !c12IsArrayShape(evShape) {
					w := mk(0, 0, 0, 0, 0)
					w.Topics = append(w.Topics, simeth.Word("c12-extra-topic"))
					w.Note = nil
					ts.Logs = append(ts.Logs, w)
				}
			}
			bs.Txs = append(bs.Txs, ts)
		}
		specs = append(specs, bs)
	}
	// block 4: special values
	var sp simeth.BlockSpec
	u := func(x *big.Int) []byte { return world.WordBig(x) }
	specials := []*big.Int{big.NewInt(0), big.NewInt(1), c12Max, bigAdd(c12Max, -1), bigPow(64), bigAdd(bigPow(64), -1), bigAdd(bigPow(200), 0), bigAdd(bigPow(192), 12345)}
	var sl []*simeth.Log
	switch evShape {
	case "EV1":
		for i, s := range specials {
			sl = append(sl, d.MkLog(c12Emit[i%3], world.AddrWord(c12From[2]), world.AddrWord(c12ToIn[2]), u(s)))
		}
		sl = append(sl,
			d.MkLog(c12Emit[0], world.AddrWord(flip(c12From[0], 19)), world.AddrWord(c12ToIn[2]), u(kc[2])),
			d.MkLog(c12Emit[1], world.AddrWord(flip(c12From[0], 0)), world.AddrWord(flip(c12ToIn[0], 10)), u(kc[2])),
			d.MkLog(flip(c12Emit[0], 19), world.AddrWord(c12From[2]), world.AddrWord(c12ToIn[2]), u(kc[2])),
			d.MkLog(flip(c12Emit[0], 0), world.AddrWord(c12From[0]), world.AddrWord(c12ToIn[0]), u(kc[1])))
	case "EV2":
		for i, s := range specials {
			sl = append(sl, d.MkLog(c12Emit[i%3], c12Tag[2], []byte(c12Memo[2]), c12Blob[2], u(s)))
		}
		for i, m := range []string{"foobar", "fo", "", "Foo", "foo ", "barfoo"} {
			sl = append(sl, d.MkLog(c12Emit[i%3], c12Tag[2], []byte(m), c12Blob[2], u(kc[2])))
		}
		x0 := c12Blob[0]
		for i, bl := range [][]byte{cat(x0, []byte{0x77, 0x01}), cat([]byte{0x09}, x0, []byte{0x33}), x0[:len(x0)-1], {}, flip(x0, len(x0)-1), cat(x0[1:], x0[:1]), cat(c12Blob[1], x0)} {
			sl = append(sl, d.MkLog(c12Emit[i%3], c12Tag[2], []byte(c12Memo[2]), bl, u(kc[2])))
		}
		sl = append(sl,
			d.MkLog(c12Emit[0], flip(c12Tag[0], 31), []byte(c12Memo[2]), c12Blob[2], u(kc[2])),
			d.MkLog(c12Emit[1], flip(c12Tag[0], 0), []byte(c12Memo[2]), c12Blob[2], u(kc[2])))
	case "EV3":
		for i, s := range specials {
			sl = append(sl, d.MkLog(c12Emit[i%3], world.AddrWord(c12From[2]), u(s)))
		}
		sl = append(sl,
			d.MkLog(c12Emit[0], world.AddrWord(flip(c12From[0], 19)), u(kc[2])),
			d.MkLog(flip(c12Emit[0], 19), world.AddrWord(c12From[2]), u(kc[2])))
	}
	const nsp = 6
	for t := 0; t < nsp; t++ {
		var ts simeth.TxSpec
		for i := t; i < len(sl); i += nsp {
			ts.Logs = append(ts.Logs, sl[i])
		}
		trv := []*big.Int{big.NewInt(0), c12Max, big.NewInt(1), bigAdd(c12Max, -1), bigPow(64), kc[1]}[t]
		trc := []string{"create", "Call", "callcode", "call ", "calls", "cal"}[t]
		ts.Traces = append(ts.Traces, &simeth.Trace{CallType: trc, Value: trv, From: flip(c12TrFrom[0], t), To: c12TrTo[2]},
			&simeth.Trace{CallType: c12CT[2], Value: kc[2], From: c12TrFrom[2], To: flip(c12TrTo[0], 19-t)})
		sp.Txs = append(sp.Txs, ts)
	}
	specs = append(specs, sp)
	// Reg logs of the referenced integration: appended to the first transaction of blocks 1..3 round robin
	for i, v := range regs {
		l := rd.MkLog(simeth.Addr("c12-registry"), v)
		bi := i % 3
		specs[bi].Txs[0].Logs = append(specs[bi].Txs[0].Logs, l)
	}
	c := simeth.Build(specs, 12)
	// transaction-level classes: nonce=t, to=t+b, value=t+2b, input=b, gas_used=2t+b
	vc := u256Cls(c12V)
	for b := 0; b < 3; b++ {
		for t := 0; t < 3; t++ {
			tx := c.Blocks[b+1].Txs[t]
			tx.Nonce = c12N - 1 + uint64(t)
			tx.To = append([]byte{}, c12TxTo[(t+b)%3]...)
			tx.Value = vc[(t+2*b)%3]
			tx.Input = append([]byte{}, c12Input[b]...)
			tx.GasUsed = c12G - 1 + uint64((2*t+b)%3)
		}
	}
	i0 := c12Input[0]
	spN := []uint64{0, c12Max64, 1, c12Max64 - 1, 1 << 32, c12N}
	spV := []*big.Int{big.NewInt(0), c12Max, big.NewInt(1), bigAdd(c12Max, -1), bigPow(64), bigAdd(bigPow(64), -1)}
	spI := [][]byte{cat(i0, []byte{0xaa, 0xbb, 0xcc}), cat([]byte{0x01, 0x02}, i0, []byte{0x03}), i0[:len(i0)-1], flip(i0, len(i0)-1), cat(i0[4:], i0[:4]), cat(c12Input[1], i0)}
	spT := [][]byte{flip(c12TxTo[0], 19), flip(c12TxTo[0], 0), c12TxTo[2], c12TxTo[2], flip(c12TxTo[1], 7), c12TxTo[2]}
	spG := []uint64{1, c12G + 2, c12G - 2, 1 << 34, c12G, 2}
	for t := 0; t < nsp; t++ {
		tx := c.Blocks[4].Txs[t]
		tx.Nonce, tx.Value, tx.Input, tx.To, tx.GasUsed = spN[t], spV[t], spI[t], spT[t], spG[t]
	}
	c.Seal()
	if len(c12ChainCache) > 64 {
		c12ChainCache = map[string]*simeth.Chain{}
	}
	c12ChainCache[key] = c
	return c
}
