//go:build verif

// Package deps holds world harnesses (see DESIGN.md §4).
package deps
