//go:build verif

package mgr

import (
	"encoding/json"
	"fmt"
	"os"
	"regexp"
	"strings"
	"time"

	"verifh/checks"
	"verifh/fw"
	"verifh/vrt"
)

// C20 — the manager runs exactly the configured tasks, one runner each, across restarts.

func init() {
	checks.Register(&checks.Check{
		ID:    "C20",
		Level: "model_checking",
		Technique: "part E: bounded-exhaustive enumeration of file/database configuration mixes through the real loadTasks against a reference merge function; " +
			"part G: the same over sequences of generations of one long-lived config.Root with rows stored in between; " +
			"part S: stateless model checking of the real Manager.Run/Restart/runTask + web.Handler.SaveIntegration under the controlled scheduler " +
			"(instrumented code, fake Postgres, simulated node): all interleavings of start-up, generations and restart requests up to a preemption bound, " +
			"with runner/generation attribution of every controlled thread",
		Rule: "E: integration slot A in {absent, file, database, both-with-different-content} x enabled flags x source-reference lists over {s1, s2, s1+s2, unknown, s1+unknown} " +
			"x slot B (4 shapes; thorough 8) x source placements (s1 in file/database/both, s2 absent/file/database/both) x batch/concurrency set or unset x database rows in documented or dashboard-stored form; distinct = distinct mix; non-trivial = at least one task or a start-up error expected; " +
			"plus 5 name families with '-' inside source and integration names (4 of them with DISTINCT pairs whose joined \"<source>-<integration>\" or \"<integration>-<source>\" strings coincide) x every file/database placement of every integration and source. " +
			"plus integrations that name the SAME source more than once (5 reference lists: same range, different ranges, next to a second source, three times) x {file, database, disabled, clash with a plain row of the same name in either direction} x second plain integration x source placements x stored form: " +
			"expected = one task per distinct pair (start/stop of either reference) or a start-up error, never two tasks for one pair. " +
			"plus the same integration NAME more than once (two/three rows of one name in shovel.integrations, twice in the file, under a plain file integration of that name; second entry identical / other range / other source / disabled / unknown source / two sources): entries of one name are one integration, any one of them may count, exactly one task per pair. " +
			"G: ONE config.Root decoded once as main.go does (json decode + ValidateFix, slice capacity as the decoder leaves it) handed by value to the real loadTasks generation after generation: file sets of 3, 4, 5 integrations (thorough 2..7) x clashing file integration enabled/disabled " +
			"x nothing or one row stored before start-up x every ordered selection of up to 3 (thorough 4) stored integrations whose names sort before / between / after the file's or clash with one, each store followed by two restarts, optionally the first stored name stored AGAIN with another range; after EVERY generation task set == configured set at that time. " +
			"S: jobs = topology {1d: one ending task; 1l: one never-ending task; 1c: name clash + disabled database row; thorough also 2d/2l: two sources, one only in the database} x scenario " +
			"{early: save request racing with start-up; after: save after start-up; b2b: save then restart from one thread; two: save and restart from two threads; late: save when the first generation is quiescent; " +
			"fail: save of an integration with an unknown source, row removed, restart; gens (topologies 3f/5f: three/five file integrations): save, restart, save another, restart through one Manager; boot (topologies 1u/1v: a file / a stored integration names its source twice): start-up only; dupsave: the dashboard is asked to store such an integration; boot on 1w: one integration stored twice (two rows of one name); resave: the dashboard stores the same integration twice}; in S every generation's loaded task set is compared with the configuration present when it read shovel.integrations; per job every schedule within the job's preemption bound (quick: 2, early/two 1; thorough: 3, early/two 2 or 1), all free choices, " +
			"inside the window from the creation of the first restarter until the last request returned. Reductions: a generation (Run thread, its runners, their goroutines) is one thread group, switches inside it are not enumerated; " +
			"helper goroutines (head poller, update notifier) are never switched to preemptively; while a runner runs, switches to restarter/Run threads are offered at its SQL batches and its select only. " +
			"An S execution is non-trivial when a restart request ran and at least two generations loaded; distinct = distinct (job, choice sequence).",
		Assumptions: []string{
			"fake Postgres (h/simpg) and simulated node (h/simeth) as in C01; static chain of two blocks, stop=2 on ending tasks, poll_duration 1ms",
			"the table of a database-stored integration exists (shovel never creates it); database rows are valid integrations",
			"plain field accesses are not scheduling points: a thread runs atomically from one visible operation (lock, channel op, spawn, sleep, SQL batch, RPC) to the next; " +
				"in particular the window between Run's close(ec) and `tm.restart = make(...)` cannot be entered by another thread in this model (the data race on tm.restart itself is C18's subject)",
			"after a restart that FAILED (start-up error) the set of running tasks is not judged; only that a later restart neither panics nor hangs",
			"Manager.Updates has no consumer (the dashboard's PushUpdates loop is not part of the model): update notifiers always take their default branch",
			"interleavings of runners of the SAME generation (different pairs, shared RPC client cache) are C08/C18 territory and not enumerated here",
		},
		Budget:        map[string]time.Duration{"quick": 100 * time.Second, "thorough": 800 * time.Second},
		MinNontrivial: 1000,
		Inst:          true,
		Run:           run,
		Replay:        replay,
	})
}

func run(c *fw.Ctx) {
	eRun(c) // cheap and complete; first, so that a time cap in part S cannot skip it
	if c.Res.HarnessErr != "" || !c.Res.Exhaustive {
		return
	}
	gRun(c)
	if c.Res.HarnessErr != "" || !c.Res.Exhaustive {
		return
	}
	sRun(c)
}

var grepHits int

func sRun(c *fw.Ctx) {
	jobs := sJobs(c.Thorough())
	if only := os.Getenv("C20_JOB"); only != "" {
		var sel []sJob
		for _, j := range jobs {
			if j.Topo+"/"+j.Scen == only || fmt.Sprintf("%s/%s/%d", j.Topo, j.Scen, j.Part) == only {
				sel = append(sel, j)
			}
		}
		jobs = sel
	}
	c.Bound("S_jobs", len(jobs))
	maxB := 0
	for _, j := range jobs {
		if j.Bound > maxB {
			maxB = j.Bound
		}
	}
	c.Bound("S_preemptions_max", maxB)
	for _, j := range jobs {
		if !c.Mine() {
			continue
		}
		if c.Expired() {
			return
		}
		p, err := sPrepare(j.Topo)
		if err != nil {
			c.HarnessError("prepare %+v: %v", j, err)
			return
		}
		states := vrt.NewStateSet()
		b := j.bounds()
		vrt.Contentions = 0
		var overlap, early int64
		st := dfsExplore(b, j.Part, j.Parts, func(r *dfsRun) bool {
			ss := states
			if !r.Mine(j.Part) {
				ss = nil // shallow executions are counted (states included) by slice 0 only
			}
			res := sExec(j, p, r, ss)
			if res.harness != "" {
				c.HarnessError("job %+v choices %v: %s", j, r.Trimmed(), res.harness)
				return false
			}
			if r.Diverged != "" {
				c.HarnessError("HARNESS-NONDETERMINISM job %+v: %s", j, r.Diverged)
				return false
			}
			if os.Getenv("C20_SELFCHECK") != "" {
				// determinism self-check: the same choices must give the same trace
				r2 := replayRun(r.Choices())
				res2 := sExec(j, p, r2, nil)
				if strings.Join(res.trace, " ") != strings.Join(res2.trace, " ") {
					n := 0
					for n < len(res.trace) && n < len(res2.trace) && res.trace[n] == res2.trace[n] {
						n++
					}
					lo := n - 12
					if lo < 0 {
						lo = 0
					}
					c.HarnessError("HARNESS-NONDETERMINISM self-check job %+v choices %v: traces differ at %d:\n A: %v\n B: %v", j, r.Trimmed(), n, res.trace[lo:min(n+6, len(res.trace))], res2.trace[lo:min(n+6, len(res2.trace))])
					return false
				}
			}
			if g := os.Getenv("C20_GREP"); g != "" && grepHits < 3 {
				if ok, _ := regexp.MatchString(g, res.outcome+" | "+strings.Join(res.trace, " ")); ok {
					grepHits++
					fmt.Fprintf(os.Stderr, "GREP job %+v outcome %s\n deviations %v\n requests %s\n trace %s\n\n", j, res.outcome, r.Deviations(), opsString(res.ops), strings.Join(res.trace, " "))
				}
			}
			if os.Getenv("C20_POINTS") != "" && c.Res.Evaluations == 0 {
				for _, pt := range r.points {
					fmt.Fprintf(os.Stderr, "POINT %-50s %v\n", pt.label, pt.kinds)
				}
			}
			if !r.Mine(j.Part) {
				return !c.Expired() // shallow executions are run by every slice but counted by slice 0 only
			}
			c.Eval(res.nontriv)
			c.Outcome("S:" + res.outcome)
			c.Res.Transitions += res.trans
			c.Res.Traces++
			c.Count("S_executions", 1)
			c.Count("S_restarts_issued", int64(len(res.ops)))
			c.Count("S_generations_loaded", int64(res.gens))
			c.Count("S_runner_threads", int64(res.runners))
			ov, ea := false, false
			for _, o := range res.ops {
				ov = ov || o.Overlap
				ea = ea || o.Early
			}
			if ov {
				overlap++
			}
			if ea {
				early++
			}
			if res.vio != nil {
				c.Violation("C20", res.vio.Class, res.vio.Key,
					fmt.Sprintf("job %+v bounds %v\n%s\nschedule (non-default choices): %v\ntrace tail: %s", j, b, res.vio.Detail, r.Deviations(), strings.Join(tail(res.trace, 40), " ")),
					sCase{Part: "S", Job: j, Bounds: b, Choices: r.Choices()})
			}
			if c.Res.Evaluations%5003 == 1 {
				c.Sample(map[string]any{"part": "S", "job": j, "schedule": r.Deviations(), "outcome": res.outcome, "requests": opsString(res.ops)})
			}
			return !c.Expired()
		})
		c.Res.States += int64(states.Len())
		c.Count("S_exec_restart_overlapped_running_step", overlap)
		c.Count("S_exec_restart_before_startup_signalled", early)
		c.Count("S_lock_contentions", vrt.Contentions)
		if dbg := os.Getenv("C20_DEBUG"); dbg != "" {
			f, _ := os.OpenFile(dbg, os.O_APPEND|os.O_CREATE|os.O_WRONLY, 0o644)
			fmt.Fprintf(f, "job %+v: executions=%d points=%d maxdepth=%d complete=%v states=%d\n", j, st.Executions, st.Points, st.MaxDepth, st.Complete, states.Len())
			f.Close()
		}
		if !st.Complete {
			if c.Res.HarnessErr == "" {
				c.Cap("time-budget")
			}
			return
		}
		c.Count("S_jobs_completed", 1)
	}
}

type anyCase struct {
	Part string `json:"part"`
}

func replay(c *fw.Ctx, raw json.RawMessage) {
	var a anyCase
	if err := json.Unmarshal(raw, &a); err != nil {
		c.HarnessError("bad case: %v", err)
		return
	}
	c.Eval(true)
	switch a.Part {
	case "E":
		var k eCase
		if err := json.Unmarshal(raw, &k); err != nil {
			c.HarnessError("bad case: %v", err)
			return
		}
		res := eExec(k.Mix)
		if res.harness != "" {
			c.HarnessError("%s", res.harness)
			return
		}
		if res.vio != nil {
			c.Violation("C20", res.vio.Class, res.vio.Key, res.vio.Detail, k)
		}
	case "G":
		var k gCase
		if err := json.Unmarshal(raw, &k); err != nil {
			c.HarnessError("bad case: %v", err)
			return
		}
		res := gExec(k)
		if res.harness != "" {
			c.HarnessError("%s", res.harness)
			return
		}
		if res.vio != nil {
			c.Violation("C20", res.vio.Class, res.vio.Key, res.vio.Detail, k)
		}
	case "S":
		var k sCase
		if err := json.Unmarshal(raw, &k); err != nil {
			c.HarnessError("bad case: %v", err)
			return
		}
		p, err := sPrepare(k.Job.Topo)
		if err != nil {
			c.HarnessError("prepare: %v", err)
			return
		}
		r := replayRun(k.Choices)
		res := sExec(k.Job, p, r, nil)
		if res.harness != "" {
			c.HarnessError("%s", res.harness)
			return
		}
		if r.Diverged != "" {
			c.HarnessError("HARNESS-NONDETERMINISM replay diverged: %s", r.Diverged)
			return
		}
		if res.vio != nil {
			c.Violation("C20", res.vio.Class, res.vio.Key, res.vio.Detail+"\nfull trace: "+strings.Join(res.trace, " "), k)
		}
	default:
		c.HarnessError("unknown case part %q", a.Part)
	}
}
