//go:build verif

package mgr

import (
	"encoding/json"
	"fmt"
	"sort"
	"strings"

	"github.com/indexsupply/shovel/shovel/config"

	"verifh/ref"
	"verifh/simeth"
	"verifh/simpg"
	"verifh/world"
)

// ---- configuration mixes (reference side) ------------------------------------------------
//
// A mix is the harness's own description of what the operator configured: sources and
// integrations in the config FILE and rows in the DATABASE (shovel.sources /
// shovel.integrations). Everything the oracle needs is computed from this description; the
// code under test only ever sees the rendered JSON file and the inserted rows.

type refSpec struct {
	Name  string `json:"n"`
	Start uint64 `json:"a,omitempty"`
	Stop  uint64 `json:"z,omitempty"`
}

type igSpec struct {
	Name    string    `json:"name"`
	Enabled bool      `json:"en"`
	Refs    []refSpec `json:"refs"`
}

type srcSpec struct {
	Name    string `json:"name"`
	ChainID uint64 `json:"chain"`
	Host    string `json:"host"`
	Batch   int    `json:"batch,omitempty"`
	Conc    int    `json:"conc,omitempty"`
}

type mix struct {
	FileSrcs []srcSpec `json:"fs,omitempty"`
	DBSrcs   []srcSpec `json:"ds,omitempty"`
	FileIGs  []igSpec  `json:"fi,omitempty"`
	DBIGs    []igSpec  `json:"di,omitempty"`
	// Stored: database integrations are stored in the form the dashboard handler writes
	// (decode → json.Marshal of the decoded value) instead of the documented JSON form.
	Stored bool `json:"stored,omitempty"`
}

// dupNames reports whether an integration name occurs more than once among the database rows or among the
// file's integrations.
func (m mix) dupNames() bool {
	for _, l := range [][]igSpec{m.FileIGs, m.DBIGs} {
		seen := map[string]bool{}
		for _, ig := range l {
			if seen[ig.Name] {
				return true
			}
			seen[ig.Name] = true
		}
	}
	return false
}

// resolve lists the acceptable readings of a mix in which an integration NAME occurs more than once among
// the database rows (shovel.integrations has no unique index and the dashboard's save is a plain insert) or
// among the file's integrations: entries of one name are ONE integration, so exactly one of them counts -
// the property does not say which, every choice is acceptable. Database entries of a name the file defines
// never count. A mix with unique names resolves to itself.
func resolve(m mix) []mix {
	out := []mix{{FileSrcs: m.FileSrcs, DBSrcs: m.DBSrcs, Stored: m.Stored}}
	inFile := map[string]bool{}
	pick := func(l []igSpec, db bool) {
		var names []string
		by := map[string][]igSpec{}
		for _, ig := range l {
			if db && inFile[ig.Name] {
				continue
			}
			if _, ok := by[ig.Name]; !ok {
				names = append(names, ig.Name)
			}
			by[ig.Name] = append(by[ig.Name], ig)
		}
		for _, n := range names {
			var next []mix
			for _, o := range out {
				for _, cand := range by[n] {
					c := o
					if db {
						c.DBIGs = append(append([]igSpec{}, o.DBIGs...), cand)
					} else {
						c.FileIGs = append(append([]igSpec{}, o.FileIGs...), cand)
					}
					next = append(next, c)
				}
			}
			out = next
		}
	}
	pick(m.FileIGs, false)
	for _, ig := range m.FileIGs {
		inFile[ig.Name] = true
	}
	pick(m.DBIGs, true)
	return out
}

// dupRefs reports whether the integration names one source more than once.
func dupRefs(ig igSpec) bool {
	seen := map[string]bool{}
	for _, r := range ig.Refs {
		if seen[r.Name] {
			return true
		}
		seen[r.Name] = true
	}
	return false
}

// hyphenNames reports whether a source or integration name of the mix contains '-'.
func (m mix) hyphenNames() bool {
	for _, l := range [][]srcSpec{m.FileSrcs, m.DBSrcs} {
		for _, s := range l {
			if strings.Contains(s.Name, "-") {
				return true
			}
		}
	}
	for _, l := range [][]igSpec{m.FileIGs, m.DBIGs} {
		for _, ig := range l {
			if strings.Contains(ig.Name, "-") {
				return true
			}
		}
	}
	return false
}

// refTask is one expected task, rendered canonically.
func refTask(src, ig string, start, stop uint64, batch, conc int) string {
	return fmt.Sprintf("%s/%s start=%d stop=%d batch=%d conc=%d", src, ig, start, stop, batch, conc)
}

// refResult is the verdict of the reference function on a mix.
type refResult struct {
	Tasks   []string // sorted multiset of expected tasks (valid when !Err)
	Err     bool     // an enabled integration references an unknown source: start-up must fail
	Lenient bool     // only DISABLED integrations reference unknown sources: an error is tolerated too
	// Dup: an ENABLED integration (after the merge) names one source more than once. That is still ONE
	// referenced source: exactly one task for the pair (with the start/stop of either reference, Alts), or a
	// start-up error; never two tasks. Tasks then holds one task per distinct pair (the first reference).
	Dup     bool
	DupOff  bool                // a disabled or file integration names a source twice: a start-up error is tolerated
	DupSame bool                // every repeated reference repeats the same start/stop
	Alts    map[string][]string // pair -> acceptable task renderings
	Pairs   map[string]refSpec
}

// reference is the property text as a function: integrations and sources are merged by name
// with the file winning; disabled integrations yield nothing; every (enabled integration,
// source reference) yields exactly one task with the reference's start/stop and the source's
// batch/concurrency (1 when unset); a reference to a source that is configured nowhere is an
// error.
func reference(m mix) refResult {
	igs := map[string]igSpec{}
	for _, ig := range m.DBIGs {
		igs[ig.Name] = ig
	}
	for _, ig := range m.FileIGs {
		igs[ig.Name] = ig
	}
	srcs := map[string]srcSpec{}
	for _, s := range m.DBSrcs {
		s.Batch, s.Conc = 0, 0 // the sources table has no such columns
		srcs[s.Name] = s
	}
	for _, s := range m.FileSrcs {
		srcs[s.Name] = s
	}
	var names []string
	for n := range igs {
		names = append(names, n)
	}
	sort.Strings(names)
	res := refResult{Pairs: map[string]refSpec{}, Alts: map[string][]string{}, DupSame: true}
	for _, ig := range m.FileIGs {
		if dupRefs(ig) {
			res.DupOff = true // the file is validated as a whole, whatever is enabled
		}
	}
	for _, n := range names {
		ig := igs[n]
		if dupRefs(ig) && !ig.Enabled {
			res.DupOff = true
		}
		for _, r := range ig.Refs {
			s, ok := srcs[r.Name]
			if !ok {
				if ig.Enabled {
					res.Err = true
				} else {
					res.Lenient = true
				}
				continue
			}
			if !ig.Enabled {
				continue
			}
			b, c := s.Batch, s.Conc
			if b <= 0 {
				b = 1
			}
			if c <= 0 {
				c = 1
			}
			pair := s.Name + "/" + ig.Name
			t := refTask(s.Name, ig.Name, r.Start, r.Stop, b, c)
			if prev, seen := res.Pairs[pair]; seen {
				res.Dup = true
				if prev.Start != r.Start || prev.Stop != r.Stop {
					res.DupSame = false
				}
				res.Alts[pair] = append(res.Alts[pair], t)
				continue
			}
			res.Alts[pair] = append(res.Alts[pair], t)
			res.Tasks = append(res.Tasks, t)
			res.Pairs[pair] = r
		}
	}
	sort.Strings(res.Tasks)
	return res
}

// ---- rendering -------------------------------------------------------------------------------

var addrA = simeth.Addr("contract-A")

// decl is the declaration every integration of this check uses: one event with two indexed
// and one plain input, with every identity column declared explicitly, so that the documented
// JSON form is complete without config.ValidateFix (database rows never pass through it).
func decl(ig igSpec) *world.Decl {
	en := ig.Enabled
	d := &world.Decl{Name: ig.Name, Table: "t_" + strings.ReplaceAll(ig.Name, "-", "_"), Event: "Transfer", FilterAgg: "or", Enabled: &en}
	d.Inputs = []world.Input{
		{Name: "from", Type: "address", Indexed: true, Column: "f"},
		{Name: "to", Type: "address", Indexed: true, Column: "t"},
		{Name: "value", Type: "uint256", Column: "v"},
	}
	for _, f := range []string{"ig_name", "src_name", "block_num", "tx_idx", "log_idx", "abi_idx"} {
		d.Fields = append(d.Fields, world.Field{Name: f, Column: f})
	}
	d.Unique = [][]string{{"ig_name", "src_name", "block_num", "tx_idx", "log_idx", "abi_idx"}}
	for _, r := range ig.Refs {
		d.Sources = append(d.Sources, world.SrcRef{Name: r.Name, Start: r.Start, Stop: r.Stop})
	}
	return d
}

// igJSON is the documented JSON form of one integration.
func igJSON(ig igSpec) []byte {
	b, _ := json.Marshal(decl(ig).Integration())
	return b
}

// storedJSON is the form the dashboard's save handler writes: the decoded value, re-encoded.
func storedJSON(ig igSpec) ([]byte, error) {
	var x config.Integration
	if err := json.Unmarshal(igJSON(ig), &x); err != nil {
		return nil, err
	}
	return json.Marshal(x)
}

func fileConf(m mix, poll string) string {
	var ss []world.Source
	for _, s := range m.FileSrcs {
		ss = append(ss, world.Source{Name: s.Name, ChainID: s.ChainID, URL: "http://" + s.Host, Batch: s.Batch, Conc: s.Conc, Poll: poll})
	}
	var ds []*world.Decl
	for _, ig := range m.FileIGs {
		ds = append(ds, decl(ig))
	}
	return world.ConfJSON(ss, ds)
}

// snapshotFor migrates a database that has the table of every named integration (file AND
// database ones: shovel never creates the table of a database-stored integration, the
// operator does) and snapshots it.
func snapshotFor(names []string) (*simpg.Snapshot, error) {
	var ds []*world.Decl
	for _, n := range names {
		ds = append(ds, decl(igSpec{Name: n, Enabled: true, Refs: []refSpec{{Name: "s1"}}}))
	}
	conf, err := world.ParseConf(world.ConfJSON([]world.Source{{Name: "s1", ChainID: 1, URL: "http://node1"}}, ds))
	if err != nil {
		return nil, err
	}
	return world.InitDB(conf)
}

// seedDB inserts the database part of a mix (harness surgery, before anything runs).
func seedDB(w *world.W, m mix) error {
	for _, s := range m.DBSrcs {
		if err := w.PG.InsertRow("shovel.sources", map[string]any{"name": s.Name, "chain_id": int(s.ChainID), "url": "http://" + s.Host}); err != nil {
			return fmt.Errorf("insert source %s: %w", s.Name, err)
		}
	}
	for _, ig := range m.DBIGs {
		js := igJSON(ig)
		if m.Stored {
			var err error
			if js, err = storedJSON(ig); err != nil {
				return fmt.Errorf("stored form of %s: %w", ig.Name, err)
			}
		}
		if err := w.PG.InsertRow("shovel.integrations", map[string]any{"name": ig.Name, "conf": js}); err != nil {
			return fmt.Errorf("insert integration %s: %w", ig.Name, err)
		}
	}
	return nil
}

// ---- chain -----------------------------------------------------------------------------------

// chain2 builds genesis + two blocks, each with one transaction emitting one Transfer log.
func chain2(salt uint64) *simeth.Chain {
	d := decl(igSpec{Name: "any", Enabled: true})
	var specs []simeth.BlockSpec
	for b := 1; b <= 2; b++ {
		seed := fmt.Sprintf("c20/s%d/b%d", salt, b)
		vals := []ref.Value{
			world.AddrWord(simeth.Addr(seed + "/from")),
			world.AddrWord(simeth.Addr(seed + "/to")),
			world.U(uint64(1000*int(salt) + b)),
		}
		specs = append(specs, simeth.BlockSpec{Txs: []simeth.TxSpec{{Logs: []*simeth.Log{d.MkLog(addrA, vals...)}}}})
	}
	return simeth.Build(specs, salt)
}

func renderTasks(ts []*world.Task) []string {
	var out []string
	for _, t := range ts {
		out = append(out, refTask(t.Src, t.IG, t.Start, t.Stop, t.Batch, t.Conc))
	}
	sort.Strings(out)
	return out
}

func sameStrings(a, b []string) bool { return strings.Join(a, "\n") == strings.Join(b, "\n") }
