//go:build verif

package mgr

import (
	"fmt"

	"verifh/explore"
	"verifh/vrt"
)

// A copy of the stateless depth-first explorer of package explore with two additions this
// check needs: (1) the space of one job can be split into K disjoint slices (the children of
// the root execution are dealt round robin), so that one job is explored by several worker
// processes; (2) a window: choice points outside the window are invisible (default taken).

type dfsPoint struct {
	kinds  []uint8
	chosen int
	label  string
}

// dfsRun is the chooser of one execution.
type dfsRun struct {
	depth    int
	prefix   []int
	labels   []string
	points   []dfsPoint
	open     bool // the window; see windowChooser semantics in parts.go
	Diverged string
}

func (r *dfsRun) Choose(kinds []uint8, label string) int {
	if !r.open {
		return 0
	}
	i := len(r.points)
	c := 0
	if i < len(r.prefix) {
		c = r.prefix[i]
		if c >= len(kinds) {
			if r.Diverged == "" {
				r.Diverged = fmt.Sprintf("point %d (%s): recorded choice %d but only %d alternatives", i, label, c, len(kinds))
			}
			c = 0
		}
		if r.labels != nil && i < len(r.labels) && r.labels[i] != label && r.Diverged == "" {
			r.Diverged = fmt.Sprintf("point %d: label %q, recorded %q", i, label, r.labels[i])
		}
	}
	r.points = append(r.points, dfsPoint{kinds: kinds, chosen: c, label: label})
	return c
}

func (r *dfsRun) Choices() []int {
	out := make([]int, len(r.points))
	for i, p := range r.points {
		out[i] = p.chosen
	}
	return out
}

func (r *dfsRun) Trimmed() []int {
	c := r.Choices()
	n := len(c)
	for n > 0 && c[n-1] == 0 {
		n--
	}
	return c[:n]
}

// Deviations lists the non-default choices as "label→alternative(kind)".
func (r *dfsRun) Deviations() []string {
	var out []string
	names := []string{"free", "preempt", "intra", "fault", "env", "order"}
	for i, p := range r.points {
		if p.chosen != 0 {
			out = append(out, fmt.Sprintf("#%d %s→alt%d(%s)", i, p.label, p.chosen, names[p.kinds[p.chosen]]))
		}
	}
	return out
}

func replayRun(choices []int) *dfsRun { return &dfsRun{prefix: choices} }

type dfsStats struct {
	Executions int64
	Points     int64
	MaxDepth   int
	Complete   bool
}

type dfsItem struct {
	prefix []int
	labels []string
	depth  int // number of deviations from the root execution
}

// splitDepth: executions with fewer deviations than this are run by EVERY slice (they are needed to
// generate the children) but belong to slice 0; the executions with exactly splitDepth deviations are
// dealt round robin, each with its whole subtree.
const splitDepth = 2

// Mine reports whether the execution belongs to the slice (for counting).
func (r *dfsRun) Mine(part int) bool { return r.depth >= splitDepth || part == 0 }

// dfsExplore enumerates slice `part` of `parts` of all executions within bounds.
func dfsExplore(b explore.Bounds, part, parts int, exec func(r *dfsRun) bool) dfsStats {
	var st dfsStats
	stack := []dfsItem{{}}
	ord := 0
	for len(stack) > 0 {
		it := stack[len(stack)-1]
		stack = stack[:len(stack)-1]
		r := &dfsRun{prefix: it.prefix, labels: it.labels, depth: it.depth}
		cont := exec(r)
		st.Executions++
		st.Points += int64(len(r.points))
		if len(r.points) > st.MaxDepth {
			st.MaxDepth = len(r.points)
		}
		if !cont {
			return st
		}
		var used explore.Bounds
		total := 0
		for i, p := range r.points {
			if i >= len(it.prefix) {
				for alt := len(p.kinds) - 1; alt >= 1; alt-- {
					k := p.kinds[alt]
					if k != vrt.KFree && (used[k]+1 > b[k] || (b[0] > 0 && total+1 > b[0])) {
						continue
					}
					if it.depth+1 == splitDepth {
						ord++
						if ord%parts != part {
							continue
						}
					}
					np := make([]int, i+1)
					nl := make([]string, i+1)
					for j := 0; j < i; j++ {
						np[j] = r.points[j].chosen
					}
					for j := 0; j <= i; j++ {
						nl[j] = r.points[j].label
					}
					np[i] = alt
					stack = append(stack, dfsItem{prefix: np, labels: nl, depth: it.depth + 1})
				}
			}
			if k := p.kinds[p.chosen]; k != vrt.KFree {
				used[k]++
				total++
			}
		}
	}
	st.Complete = true
	return st
}
