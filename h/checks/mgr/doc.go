//go:build verif

// Package mgr holds the world harness of C20 ("the manager runs exactly the configured tasks,
// one runner each, across restarts").
//
//	conf.go   configuration mixes (file + database), the reference merge function, rendering
//	parte.go  part E: every mix through the real loadTasks, compared with the reference
//	partg.go  part G: one long-lived config.Root through several generations (store, restart, restart, ...)
//	parts.go  part S: real Manager.Run / Restart / runTask / web.Handler.SaveIntegration under the
//	          controlled scheduler; thread attribution (generation, runner, pair), the oracle
//	dfs.go    the depth-first explorer (copy of package explore + slicing of one job over workers
//	          + exploration window)
//	c20.go    registration, run, replay
//
// Environment knobs (debugging only): C20_JOB=<topo>/<scen>[/<slice>], C20_BOUND=<n>,
// C20_PARTS=<n>, C20_DEBUG=<file> (per-job exploration statistics), C20_POINTS=1 (choice points
// of the first execution), C20_SELFCHECK=1 (every execution is replayed and the traces compared).
package mgr
