//go:build verif

// Package mgr holds world harnesses (see DESIGN.md §4).
package mgr
