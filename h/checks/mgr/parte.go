//go:build verif

package mgr

import (
	"encoding/json"
	"fmt"
	"sort"
	"strings"

	"verifh/fw"
	"verifh/simpg"
	"verifh/world"
)

// ---- PART E: sequential, exhaustive over configuration mixes -----------------------------
//
// Every mix is loaded by the REAL loadTasks (through the real AllIntegrations /
// AllSourcesByName against the fake Postgres) and the multiset of tasks is compared with the
// reference function.

type eCase struct {
	Part string `json:"part"` // "E"
	Mix  mix    `json:"mix"`
}

// slot variants of one integration name.
type slotVar struct {
	File, DB *igSpec
}

// refLists is the alphabet of source-reference lists; sx is configured nowhere.
var refLists = [][]string{{"s1"}, {"s2"}, {"s1", "s2"}, {"sx"}, {"s1", "sx"}}

func mkIG(name string, en bool, srcs []string, base uint64) *igSpec {
	ig := &igSpec{Name: name, Enabled: en}
	for i, s := range srcs {
		ig.Refs = append(ig.Refs, refSpec{Name: s, Start: base + uint64(i), Stop: base + 10 + uint64(i)})
	}
	return ig
}

// fullSlot enumerates: absent; file only; database only; both (same name, different content).
func fullSlot(name string, base uint64, dbLists [][]string) []slotVar {
	out := []slotVar{{}}
	bools := []bool{true, false}
	for _, en := range bools {
		for _, rl := range refLists {
			out = append(out, slotVar{File: mkIG(name, en, rl, base)})
			out = append(out, slotVar{DB: mkIG(name, en, rl, base+20)})
		}
	}
	for _, fe := range bools {
		for _, de := range bools {
			for _, frl := range refLists {
				for _, drl := range dbLists {
					out = append(out, slotVar{File: mkIG(name, fe, frl, base), DB: mkIG(name, de, drl, base+20)})
				}
			}
		}
	}
	return out
}

func smallSlot(name string, base uint64, thorough bool) []slotVar {
	out := []slotVar{
		{},
		{File: mkIG(name, true, []string{"s1"}, base)},
		{DB: mkIG(name, true, []string{"s2"}, base+20)},
		{File: mkIG(name, false, []string{"s1"}, base), DB: mkIG(name, true, []string{"s1"}, base+20)},
	}
	if thorough {
		out = append(out,
			slotVar{File: mkIG(name, true, []string{"s2", "s1"}, base), DB: mkIG(name, false, []string{"sx"}, base+20)},
			slotVar{DB: mkIG(name, false, []string{"sx"}, base+20)},
			slotVar{File: mkIG(name, true, []string{"s1", "s2"}, 0)}, // start/stop unset
			slotVar{DB: mkIG(name, true, []string{"s1", "s2"}, base+20)},
		)
		out[6].File.Refs[0].Start, out[6].File.Refs[0].Stop = 0, 0
		out[6].File.Refs[1].Start, out[6].File.Refs[1].Stop = 0, 7
	}
	return out
}

// source placements: 0 absent, 1 file, 2 database, 3 both (file wins)
func srcMix(p1, p2 int, bc bool) (file, db []srcSpec) {
	add := func(name string, p int, chain uint64, b, c int) {
		if p == 1 || p == 3 {
			s := srcSpec{Name: name, ChainID: chain, Host: "node-" + name}
			if bc {
				s.Batch, s.Conc = b, c
			}
			file = append(file, s)
		}
		if p == 2 || p == 3 {
			db = append(db, srcSpec{Name: name, ChainID: chain + 100, Host: "dbnode-" + name})
		}
	}
	add("s1", p1, 1, 3, 2)
	add("s2", p2, 2, 5, 4)
	return
}

var eSnap *simpg.Snapshot

func eSnapshot() (*simpg.Snapshot, error) {
	if eSnap != nil {
		return eSnap, nil
	}
	s, err := snapshotFor([]string{"iga", "igb"})
	eSnap = s
	return s, err
}

type eResult struct {
	vio     *fw.Violation
	outcome string
	harness string
	nontriv bool
}

// eObs is what one run of the real loadTasks on a mix showed.
type eObs struct {
	got      []string
	loadErr  error
	panicked string
}

func eExec(m mix) (res eResult) {
	snap, err := eSnapshot()
	if err != nil {
		res.harness = "snapshot: " + err.Error()
		return
	}
	alts := resolve(m)
	var wants []refResult
	rejectable := false // a start-up error is one of the acceptable behaviours
	for _, a := range alts {
		r := reference(a)
		wants = append(wants, r)
		rejectable = rejectable || r.Dup || r.DupOff
		res.nontriv = res.nontriv || r.Err || len(r.Tasks) > 0
	}
	w := world.New(nil, world.Cfg{Snap: snap})
	var o eObs
	w.Run(func() {
		if err := seedDB(w, m); err != nil {
			w.HarnessErr = err.Error()
			return
		}
		conf, err := world.ParseConf(fileConf(m, ""))
		if err != nil {
			if rejectable {
				o.loadErr = fmt.Errorf("config file rejected at start-up: %w", err)
				return
			}
			w.HarnessErr = "config: " + err.Error()
			return
		}
		func() {
			defer func() {
				if r := recover(); r != nil {
					o.panicked = fmt.Sprint(r)
				}
			}()
			ts, err := w.LoadTasks(conf)
			o.loadErr = err
			if ts != nil {
				o.got = renderTasks(ts)
			}
		}()
	})
	if w.HarnessErr != "" {
		res.harness = w.HarnessErr
		return
	}
	// acceptable when ANY reading of the mix accepts the observation
	var first eResult
	for i, want := range wants {
		r := eJudge(alts[i], want, o)
		if r.vio == nil {
			res.outcome = r.outcome
			if len(alts) > 1 {
				res.outcome += ":duplicate-name"
			}
			return
		}
		if i == 0 {
			first = r
		}
	}
	res.vio, res.outcome = first.vio, first.outcome
	if m.dupNames() {
		perPair := map[string]int{}
		twice := ""
		for _, g := range o.got {
			pair := strings.SplitN(g, " ", 2)[0]
			if perPair[pair]++; perPair[pair] > 1 && (twice == "" || pair < twice) {
				twice = pair
			}
		}
		if twice != "" && o.loadErr == nil {
			res.vio.Class, res.vio.Key = "duplicate-pair", "E:task-set:duplicate-name:two-tasks-for-one-pair"
			res.vio.Detail = fmt.Sprintf("an integration name occurs twice in the configuration (entries of one name are ONE integration) and loadTasks returned %d tasks for the ONE pair %s\n%s", perPair[twice], twice, res.vio.Detail)
			res.outcome = "VIOLATION:duplicate-pair"
		} else {
			res.vio.Key += ":duplicate-name"
			res.vio.Detail = fmt.Sprintf("(none of the %d acceptable readings of the repeated name matches; shown: the first)\n%s", len(alts), res.vio.Detail)
		}
	}
	return
}

// eJudge judges one observation against the reference of one reading of the mix.
func eJudge(m mix, want refResult, o eObs) (res eResult) {
	got, loadErr, panicked := o.got, o.loadErr, o.panicked
	vio := func(class, key, detail string) {
		res.vio = &fw.Violation{Property: "C20", Class: class, Key: key, Detail: detail}
		res.outcome = "VIOLATION:" + class
	}
	describe := func() string {
		return fmt.Sprintf("expected tasks (reference):\n  %s\nloadTasks returned (err=%v):\n  %s", strings.Join(want.Tasks, "\n  "), loadErr, strings.Join(got, "\n  "))
	}
	switch {
	case panicked != "":
		vio("panic", "E:panic:loadTasks", "loadTasks panicked: "+panicked)
	case want.Err:
		if loadErr == nil {
			vio("missing-error", "E:unknown-source:no-error", "an enabled integration references a source that is configured nowhere, but loadTasks returned no error\n"+describe())
		} else if len(got) > 0 {
			vio("missing-error", "E:unknown-source:tasks-with-error", "loadTasks returned an error AND a task list\n"+describe())
		} else {
			res.outcome = "error:unknown-source"
		}
	case loadErr != nil && (want.Dup || want.DupOff):
		res.outcome = "error:duplicate-source-ref" // a start-up error satisfies the property
	case want.Dup:
		// no error: exactly one task per distinct pair, carrying the start/stop of one of the references
		perPair := map[string]int{}
		canon := make([]string, 0, len(got))
		for _, g := range got {
			pair := strings.SplitN(g, " ", 2)[0]
			perPair[pair]++
			for _, a := range want.Alts[pair] {
				if a == g {
					g = want.Alts[pair][0]
				}
			}
			canon = append(canon, g)
		}
		sort.Strings(canon)
		twice := ""
		for pair, n := range perPair {
			if n > 1 && (twice == "" || pair < twice) {
				twice = pair
			}
		}
		rng := "different-ranges"
		if want.DupSame {
			rng = "same-range"
		}
		switch {
		case twice != "":
			vio("duplicate-pair", "E:task-set:duplicate-pair:"+rng, fmt.Sprintf("an integration names a source twice and loadTasks silently returned %d tasks for the ONE pair %s (neither one task nor a start-up error)\n%s", perPair[twice], twice, describe()))
		case !sameStrings(canon, want.Tasks):
			vio("task-set", "E:task-set:"+eClass(m, canon, want.Tasks)+":duplicate-source-ref", describe())
		default:
			res.outcome = fmt.Sprintf("ok:%d-tasks:one-per-pair", len(got))
		}
	case loadErr != nil:
		if want.Lenient && strings.Contains(loadErr.Error(), "finding source") {
			res.outcome = "error:unknown-source-of-disabled"
		} else {
			vio("unexpected-error", "E:unexpected-error", "loadTasks failed on a configuration the property accepts: "+loadErr.Error()+"\n"+describe())
		}
	case !sameStrings(got, want.Tasks):
		key := "E:task-set:" + eClass(m, got, want.Tasks)
		if m.hyphenNames() {
			key += ":hyphen-names"
		}
		vio("task-set", key, describe())
	default:
		res.outcome = fmt.Sprintf("ok:%d-tasks", len(got))
	}
	return
}

// eClass names what kind of difference a wrong task set shows (narrow violation key).
func eClass(m mix, got, want []string) string {
	strip := func(l []string) []string {
		var o []string
		for _, s := range l {
			o = append(o, strings.SplitN(s, " ", 2)[0])
		}
		return o
	}
	if sameStrings(strip(got), strip(want)) {
		for i := range got {
			if got[i] != want[i] {
				gf, wf := strings.Fields(got[i]), strings.Fields(want[i])
				for k := 1; k < len(gf) && k < len(wf); k++ {
					if gf[k] != wf[k] {
						return "settings:" + strings.SplitN(wf[k], "=", 2)[0]
					}
				}
			}
		}
		return "settings"
	}
	if len(got) > len(want) {
		return "extra-task"
	}
	if len(got) < len(want) {
		return "missing-task"
	}
	return "other-pairs"
}

// eJobs returns the top-level jobs of part E: one per (slot A variant, slot B variant); each
// job enumerates the source placements x batch/concurrency x stored form.
type eJob struct {
	A, B  slotVar
	Mixes []mix // name-family jobs: the mixes are listed explicitly
}

func eJobs(thorough bool) []eJob {
	dbLists := [][]string{{"s1"}, {"s2"}, {"sx"}}
	if thorough {
		dbLists = refLists
	}
	var jobs []eJob
	for _, a := range fullSlot("iga", 10, dbLists) {
		for _, b := range smallSlot("igb", 110, thorough) {
			jobs = append(jobs, eJob{A: a, B: b})
		}
	}
	jobs = append(jobs, familyJobs()...)
	jobs = append(jobs, dupJobs()...)
	jobs = append(jobs, dupNameJobs()...)
	return jobs
}

// ---- name families: '-' inside source and integration names ------------------------------------
//
// Names may contain '-' (wstrings.Safe allows it). A pair is identified by (source, integration), never by
// a joined string: the families below contain DISTINCT pairs whose "<source>-<integration>" strings (and
// "<integration>-<source>") coincide, plus a control family with hyphens but no coincidence.

type family struct {
	srcs []string
	igs  []struct {
		name string
		refs []string
	}
}

func fam(srcs []string, igs ...[]string) family {
	f := family{srcs: srcs}
	for _, ig := range igs {
		f.igs = append(f.igs, struct {
			name string
			refs []string
		}{ig[0], ig[1:]})
	}
	return f
}

var families = []family{
	// eth/main-transfers and eth-main/transfers both join to "eth-main-transfers"
	fam([]string{"eth", "eth-main"}, []string{"main-transfers", "eth"}, []string{"transfers", "eth-main"}),
	// s/1-ig and s-1/ig join to "s-1-ig"; ig also runs on s
	fam([]string{"s", "s-1"}, []string{"1-ig", "s"}, []string{"ig", "s", "s-1"}),
	// the join in the other order, "<integration>-<source>": x-b on a and x on b-a both give "x-b-a"
	fam([]string{"a", "b-a"}, []string{"x-b", "a"}, []string{"x", "b-a"}),
	// three pairs, two of them coinciding, the integrations listed in the other order by name
	fam([]string{"op", "op-main", "base"}, []string{"a-logs", "base"}, []string{"logs", "op-main"}, []string{"main-logs", "op"}),
	// control: hyphens, no coincidence
	fam([]string{"a-b", "c"}, []string{"x-y", "a-b"}, []string{"y", "c", "a-b"}),
}

// familyJobs: one job per (family, placement of the integrations in file/database); the job enumerates the
// placement of every source (file / database / both), batch/concurrency set or unset, and the stored form.
func familyJobs() []eJob {
	var jobs []eJob
	for _, f := range families {
		for igPlace := 0; igPlace < 1<<len(f.igs); igPlace++ {
			var base mix
			for i, ig := range f.igs {
				spec := mkIG(ig.name, true, ig.refs, uint64(100*(i+1)))
				if igPlace>>i&1 == 0 {
					base.FileIGs = append(base.FileIGs, *spec)
				} else {
					base.DBIGs = append(base.DBIGs, *spec)
				}
			}
			var j eJob
			n := 1
			for range f.srcs {
				n *= 3
			}
			for sp := 0; sp < n; sp++ {
				for _, bc := range []bool{false, true} {
					for _, stored := range []bool{false, true} {
						if stored && len(base.DBIGs) == 0 {
							continue
						}
						m := base
						x := sp
						for k, name := range f.srcs {
							place := x%3 + 1 // 1 file, 2 database, 3 both
							x /= 3
							if place == 1 || place == 3 {
								s := srcSpec{Name: name, ChainID: uint64(k + 1), Host: "node-" + name}
								if bc {
									s.Batch, s.Conc = 3+2*k, 2+k
								}
								m.FileSrcs = append(m.FileSrcs, s)
							}
							if place == 2 || place == 3 {
								m.DBSrcs = append(m.DBSrcs, srcSpec{Name: name, ChainID: uint64(k + 101), Host: "dbnode-" + name})
							}
						}
						m.Stored = stored
						j.Mixes = append(j.Mixes, m)
					}
				}
			}
			jobs = append(jobs, j)
		}
	}
	return jobs
}

// ---- an integration that names the SAME source more than once ------------------------------------------
//
// A source listed twice is still one referenced source. dupJobs: reference lists {s1 s1 (same range), s1 s1
// (different ranges), s1 s2 s1, s2 s1 s1, s1 s1 s1} x where the integration lives {file, database, file
// disabled, database disabled, file with a plain database row of the same name, plain file with the
// repeating database row shadowed} x a second plain integration {absent, file, database} x source placements
// x batch/concurrency x stored form.
func dupJobs() []eJob {
	rr := func(n string, a, z uint64) refSpec { return refSpec{Name: n, Start: a, Stop: z} }
	lists := [][]refSpec{
		{rr("s1", 10, 20), rr("s1", 10, 20)},
		{rr("s1", 10, 20), rr("s1", 30, 40)},
		{rr("s1", 10, 20), rr("s2", 11, 21), rr("s1", 30, 0)},
		{rr("s2", 11, 21), rr("s1", 10, 20), rr("s1", 10, 20)},
		{rr("s1", 0, 0), rr("s1", 0, 0), rr("s1", 5, 0)},
	}
	plain := []refSpec{rr("s1", 70, 80)}
	var jobs []eJob
	for _, l := range lists {
		for place := 0; place < 6; place++ {
			for second := 0; second < 3; second++ {
				var base mix
				dup := func(en bool) igSpec { return igSpec{Name: "iga", Enabled: en, Refs: l} }
				switch place {
				case 0:
					base.FileIGs = append(base.FileIGs, dup(true))
				case 1:
					base.DBIGs = append(base.DBIGs, dup(true))
				case 2:
					base.FileIGs = append(base.FileIGs, dup(false))
				case 3:
					base.DBIGs = append(base.DBIGs, dup(false))
				case 4:
					base.FileIGs = append(base.FileIGs, dup(true))
					base.DBIGs = append(base.DBIGs, igSpec{Name: "iga", Enabled: true, Refs: plain})
				case 5:
					base.FileIGs = append(base.FileIGs, igSpec{Name: "iga", Enabled: true, Refs: plain})
					base.DBIGs = append(base.DBIGs, dup(true))
				}
				switch second {
				case 1:
					base.FileIGs = append(base.FileIGs, *mkIG("igb", true, []string{"s1"}, 110))
				case 2:
					base.DBIGs = append(base.DBIGs, *mkIG("igb", true, []string{"s2"}, 130))
				}
				var j eJob
				for p1 := 1; p1 <= 3; p1++ {
					for p2 := 1; p2 <= 2; p2++ {
						for _, bc := range []bool{false, true} {
							for _, stored := range []bool{false, true} {
								if stored && len(base.DBIGs) == 0 {
									continue
								}
								m := base
								m.FileSrcs, m.DBSrcs = srcMix(p1, p2, bc)
								m.Stored = stored
								j.Mixes = append(j.Mixes, m)
							}
						}
					}
				}
				jobs = append(jobs, j)
			}
		}
	}
	return jobs
}

// ---- the same integration NAME more than once --------------------------------------------------------
//
// shovel.integrations has no unique index on name and the dashboard's save is a plain insert: saving an
// integration again leaves two rows of one name. Entries of one name are one integration (see resolve).
// dupNameJobs: second entry {identical, other range, other source, disabled, unknown source, two sources}
// x {two rows, the rows in the other order, three rows, twice in the file (both orders), a plain file
// integration of that name over the two rows} x second plain integration {absent, database} x s1 in
// file/database x batch/concurrency x stored form.
func dupNameJobs() []eJob {
	rr := func(n string, a, z uint64) refSpec { return refSpec{Name: n, Start: a, Stop: z} }
	row1 := igSpec{Name: "iga", Enabled: true, Refs: []refSpec{rr("s1", 10, 20)}}
	seconds := []igSpec{
		{Name: "iga", Enabled: true, Refs: []refSpec{rr("s1", 10, 20)}},
		{Name: "iga", Enabled: true, Refs: []refSpec{rr("s1", 30, 40)}},
		{Name: "iga", Enabled: true, Refs: []refSpec{rr("s2", 11, 21)}},
		{Name: "iga", Enabled: false, Refs: []refSpec{rr("s1", 10, 20)}},
		{Name: "iga", Enabled: true, Refs: []refSpec{rr("sx", 12, 22)}},
		{Name: "iga", Enabled: true, Refs: []refSpec{rr("s1", 50, 60), rr("s2", 51, 61)}},
	}
	var jobs []eJob
	for _, row2 := range seconds {
		for place := 0; place < 6; place++ {
			for second := 0; second < 2; second++ {
				var base mix
				switch place {
				case 0:
					base.DBIGs = []igSpec{row1, row2}
				case 1:
					base.DBIGs = []igSpec{row2, row1}
				case 2:
					base.DBIGs = []igSpec{row1, row2, row1}
				case 3:
					base.FileIGs = []igSpec{row1, row2}
				case 4:
					base.FileIGs = []igSpec{row2, row1}
				case 5:
					base.FileIGs = []igSpec{{Name: "iga", Enabled: true, Refs: []refSpec{rr("s1", 70, 80)}}}
					base.DBIGs = []igSpec{row1, row2}
				}
				if second == 1 {
					base.DBIGs = append(base.DBIGs, *mkIG("igb", true, []string{"s1"}, 130))
				}
				var j eJob
				for p1 := 1; p1 <= 2; p1++ {
					for _, bc := range []bool{false, true} {
						for _, stored := range []bool{false, true} {
							if stored && len(base.DBIGs) == 0 {
								continue
							}
							m := base
							m.FileSrcs, m.DBSrcs = srcMix(p1, 1, bc)
							m.Stored = stored
							j.Mixes = append(j.Mixes, m)
						}
					}
				}
				jobs = append(jobs, j)
			}
		}
	}
	return jobs
}

func (j eJob) mixes() []mix {
	if j.Mixes != nil {
		return j.Mixes
	}
	var out []mix
	var base mix
	for _, sv := range []slotVar{j.A, j.B} {
		if sv.File != nil {
			base.FileIGs = append(base.FileIGs, *sv.File)
		}
		if sv.DB != nil {
			base.DBIGs = append(base.DBIGs, *sv.DB)
		}
	}
	for p1 := 1; p1 <= 3; p1++ {
		for p2 := 0; p2 <= 3; p2++ {
			for _, bc := range []bool{false, true} {
				for _, stored := range []bool{false, true} {
					if stored && len(base.DBIGs) == 0 {
						continue
					}
					m := base
					m.FileSrcs, m.DBSrcs = srcMix(p1, p2, bc)
					m.Stored = stored
					out = append(out, m)
				}
			}
		}
	}
	return out
}

func eRun(c *fw.Ctx) {
	jobs := eJobs(c.Thorough())
	c.Bound("E_jobs", len(jobs))
	for _, j := range jobs {
		if !c.Mine() {
			continue
		}
		if c.Expired() {
			return
		}
		for _, m := range j.mixes() {
			res := eExec(m)
			if res.harness != "" {
				c.HarnessError("part E mix %+v: %s", m, res.harness)
				return
			}
			c.Eval(res.nontriv)
			c.Outcome("E:" + res.outcome)
			c.Count("E_mixes", 1)
			if res.vio != nil {
				mj, _ := json.Marshal(m)
				c.Violation("C20", res.vio.Class, res.vio.Key, "mix "+string(mj)+"\n"+res.vio.Detail, eCase{Part: "E", Mix: m})
			}
			if c.Res.Counters["E_mixes"]%4001 == 1 {
				c.Sample(map[string]any{"part": "E", "mix": m, "outcome": res.outcome})
			}
		}
	}
}
