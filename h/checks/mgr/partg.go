//go:build verif

package mgr

import (
	"encoding/json"
	"fmt"
	"sort"
	"strings"

	"verifh/fw"
	"verifh/simpg"
	"verifh/world"
)

// ---- PART G: the task set over several generations of ONE long-lived configuration -------------
//
// cmd/shovel/main.go decodes the config file once; the Manager keeps a copy of that config.Root for
// its whole life and hands it (by value) to loadTasks at start-up and at every restart. Part G does
// exactly that: the file is decoded once by world.ParseConf (json decode + ValidateFix; the slices are
// left as the decoder made them, in particular their capacity), and the SAME Root value is passed to
// the real loadTasks once per generation while integrations are stored in shovel.integrations in
// between. After EVERY generation the task set must equal the configured set at that time.

type gCase struct {
	Part   string   `json:"part"` // "G"
	Files  int      `json:"files"`
	DisE   bool     `json:"file_ige_disabled"`
	Preset []string `json:"preset"` // stored before start-up
	Order  []string `json:"order"`  // stored one by one, each followed by two restarts
	Stored bool     `json:"stored"` // dashboard-stored form of the rows
	Resave bool     `json:"resave"` // finally the first stored integration is stored AGAIN (same name, other range): two rows of one name
}

// file integration names (sorted); the stored candidates sort before, between and after them, one clashes.
var gFileNames = []string{"igc", "ige", "igg", "igi", "igk", "igm", "igo"}
var gStoreNames = []string{"iga", "igd", "ige", "igf", "igz"}

func gFileIG(i int, disE bool) igSpec {
	name := gFileNames[i]
	return igSpec{Name: name, Enabled: !(disE && name == "ige"), Refs: []refSpec{{Name: "s1", Start: uint64(10 + i), Stop: uint64(50 + i)}}}
}

func gStoreIG(name string) igSpec {
	k := uint64(0)
	for i, n := range gStoreNames {
		if n == name {
			k = uint64(i)
		}
	}
	return igSpec{Name: name, Enabled: true, Refs: []refSpec{{Name: "s1", Start: 200 + k, Stop: 300 + k}}}
}

var gSnap *simpg.Snapshot

type gResult struct {
	vio      *fw.Violation
	outcome  string
	harness  string
	gens     int
	spare    bool // the decoded file slice had spare capacity
	nontriv  bool
	firstBad int
}

func gExec(k gCase) (res gResult) {
	if gSnap == nil {
		s, err := snapshotFor([]string{"iga"})
		if err != nil {
			res.harness = "snapshot: " + err.Error()
			return
		}
		gSnap = s
	}
	m := mix{FileSrcs: []srcSpec{{Name: "s1", ChainID: 1, Host: "node1", Batch: 2}}, Stored: k.Stored}
	for i := 0; i < k.Files; i++ {
		m.FileIGs = append(m.FileIGs, gFileIG(i, k.DisE))
	}
	for _, n := range k.Preset {
		m.DBIGs = append(m.DBIGs, gStoreIG(n))
	}
	w := world.New(nil, world.Cfg{Snap: gSnap})
	type genRec struct {
		after string
		got   []string
		wants [][]string // acceptable task sets (several when a name occurs twice: either row may count)
		err   error
	}
	var gens []genRec
	fileAfter := ""
	w.Run(func() {
		if err := seedDB(w, m); err != nil {
			w.HarnessErr = err.Error()
			return
		}
		// decoded ONCE, exactly as main.go does; this value lives as long as the Manager would
		conf, err := world.ParseConf(fileConf(m, ""))
		if err != nil {
			w.HarnessErr = "config: " + err.Error()
			return
		}
		res.spare = cap(conf.Integrations) > len(conf.Integrations)
		load := func(after string) bool {
			g := genRec{after: after}
			for _, a := range resolve(m) {
				g.wants = append(g.wants, reference(a).Tasks)
			}
			func() {
				defer func() {
					if r := recover(); r != nil {
						g.err = fmt.Errorf("panic: %v", r)
					}
				}()
				ts, err := w.LoadTasks(conf) // by value, like loadTasks(tm.ctx, tm.pgp, tm.conf)
				g.err = err
				if err == nil {
					g.got = renderTasks(ts)
				}
			}()
			gens = append(gens, g)
			return g.err == nil && anySame(g.got, g.wants)
		}
		defer func() {
			var ns []string
			for _, ig := range conf.Integrations {
				ns = append(ns, ig.Name)
			}
			fileAfter = strings.Join(ns, " ")
		}()
		if !load("start-up") || !load("restart") {
			return
		}
		for _, n := range k.Order {
			ig := gStoreIG(n)
			one := mix{DBIGs: []igSpec{ig}, Stored: k.Stored}
			if err := seedDB(w, one); err != nil {
				w.HarnessErr = err.Error()
				return
			}
			m.DBIGs = append(append([]igSpec{}, m.DBIGs...), ig)
			if !load("store "+n+"; restart") || !load("restart") {
				return
			}
		}
		if k.Resave && len(k.Order) > 0 {
			ig := gStoreIG(k.Order[0])
			ig.Refs = []refSpec{{Name: "s1", Start: ig.Refs[0].Start + 1000, Stop: ig.Refs[0].Stop + 1000}}
			if err := seedDB(w, mix{DBIGs: []igSpec{ig}, Stored: k.Stored}); err != nil {
				w.HarnessErr = err.Error()
				return
			}
			m.DBIGs = append(append([]igSpec{}, m.DBIGs...), ig)
			if !load("store "+ig.Name+" AGAIN; restart") || !load("restart") {
				return
			}
		}
	})
	if w.HarnessErr != "" {
		res.harness = w.HarnessErr
		return
	}
	res.gens = len(gens)
	res.nontriv = len(k.Order)+len(k.Preset) > 0
	res.outcome = fmt.Sprintf("ok:%d-generations", len(gens))
	for i, g := range gens {
		if g.err == nil && anySame(g.got, g.wants) {
			continue
		}
		want := g.wants[0]
		res.firstBad = i + 1
		when := "later-generation"
		if i == 0 {
			when = "first-generation"
		}
		var fileWant []string
		for _, ig := range m.FileIGs {
			fileWant = append(fileWant, ig.Name)
		}
		detail := fmt.Sprintf("generation %d (%s) of one long-lived config.Root: task set != configured set\nexpected (reference):\n  %s\nloadTasks returned (err=%v):\n  %s\nfile integrations as the Root lists them afterwards: %q (the file says %q)\nearlier generations were correct: %d",
			i+1, g.after, strings.Join(want, "\n  "), g.err, strings.Join(g.got, "\n  "), fileAfter, strings.Join(fileWant, " "), i)
		class, key := "task-set", "G:task-set:"+when+":"+eClass(m, g.got, want)
		if g.err != nil {
			class, key = "unexpected-error", "G:unexpected-error:"+when
		} else if m.dupNames() {
			key += ":duplicate-name"
		}
		res.vio = &fw.Violation{Property: "C20", Class: class, Key: key, Detail: detail}
		res.outcome = "VIOLATION:" + class
		break
	}
	return
}

// gCases enumerates: file sets of 3, 4, 5 (thorough also 2, 6, 7) integrations x the clashing file
// integration enabled/disabled x nothing or one row stored before start-up x every ordered selection of
// up to 3 (thorough 4) of the remaining stored candidates x documented / dashboard-stored rows.
func gCases(thorough bool) []gCase {
	files := []int{3, 4, 5}
	maxOrder := 3
	if thorough {
		files = []int{2, 3, 4, 5, 6, 7}
		maxOrder = 4
	}
	var out []gCase
	var perms func(rest []string, cur []string, f func([]string))
	perms = func(rest []string, cur []string, f func([]string)) {
		f(cur)
		if len(cur) == maxOrder {
			return
		}
		for i, n := range rest {
			r2 := append(append([]string{}, rest[:i]...), rest[i+1:]...)
			perms(r2, append(append([]string{}, cur...), n), f)
		}
	}
	for _, nf := range files {
		for _, disE := range []bool{false, true} {
			for _, preset := range [][]string{nil, {"iga"}, {"igz"}} {
				var rest []string
				for _, n := range gStoreNames {
					if len(preset) == 0 || n != preset[0] {
						rest = append(rest, n)
					}
				}
				perms(rest, nil, func(order []string) {
					for _, stored := range []bool{false, true} {
						if stored && len(order)+len(preset) == 0 {
							continue
						}
						out = append(out, gCase{Part: "G", Files: nf, DisE: disE, Preset: preset, Order: append([]string{}, order...), Stored: stored})
						if len(order) >= 1 && len(order) <= 2 {
							out = append(out, gCase{Part: "G", Files: nf, DisE: disE, Preset: preset, Order: append([]string{}, order...), Stored: stored, Resave: true})
						}
					}
				})
			}
		}
	}
	sort.SliceStable(out, func(i, j int) bool { return len(out[i].Order) > len(out[j].Order) })
	return out
}

func anySame(got []string, wants [][]string) bool {
	for _, w := range wants {
		if sameStrings(got, w) {
			return true
		}
	}
	return false
}

func gRun(c *fw.Ctx) {
	cases := gCases(c.Thorough())
	c.Bound("G_sequences", len(cases))
	for lo := 0; lo < len(cases); lo += 8 { // top-level job = 8 consecutive sequences
		if !c.Mine() {
			continue
		}
		if c.Expired() {
			return
		}
		for _, k := range cases[lo:min(lo+8, len(cases))] {
			gOne(c, k)
			if c.Res.HarnessErr != "" {
				return
			}
		}
	}
}

func gOne(c *fw.Ctx, k gCase) {
	{
		res := gExec(k)
		if res.harness != "" {
			c.HarnessError("part G case %+v: %s", k, res.harness)
			return
		}
		c.Eval(res.nontriv)
		c.Outcome("G:" + res.outcome)
		c.Count("G_sequences", 1)
		c.Count("G_generations", int64(res.gens))
		if res.spare {
			c.Count("G_sequences_file_slice_with_spare_capacity", 1)
		}
		if res.vio != nil {
			kj, _ := json.Marshal(k)
			c.Violation("C20", res.vio.Class, res.vio.Key, "sequence "+string(kj)+"\n"+res.vio.Detail, k)
		}
		if c.Res.Counters["G_sequences"]%701 == 1 {
			c.Sample(map[string]any{"part": "G", "sequence": k, "outcome": res.outcome})
		}
	}
}
