//go:build verif

package mgr

import (
	"bytes"
	"fmt"
	"net/http/httptest"
	"os"
	"regexp"
	"sort"
	"strconv"
	"strings"

	"github.com/indexsupply/shovel/shovel"
	"github.com/indexsupply/shovel/shovel/web"

	"verifh/explore"
	"verifh/fw"
	"verifh/simeth"
	"verifh/simpg"
	"verifh/vrt"
	"verifh/world"
)

// ---- PART S: the manager under the controlled scheduler ------------------------------------
//
// Threads of one execution: `boot` (does what cmd/shovel/main.go does: `go mgr.Run(ec); <-ec`),
// the Run threads (one per generation), the runner threads each Run spawns (real runTask →
// real Converge against the fake Postgres and the simulated node), the small goroutines the
// runners spawn (head poller, update notifier) and one or two restarter threads that call the
// REAL web.Handler.SaveIntegration / Manager.Restart.

type sJob struct {
	Topo  string `json:"topo"`
	Scen  string `json:"scen"`
	Bound int    `json:"bound"` // preemption bound (= bound on all costed deviations) of this job
	Part  int    `json:"part"`  // slice of the job's schedule space explored by this top-level job
	Parts int    `json:"parts"` //
}

type sCase struct {
	Part    string `json:"part"` // "S"
	Job     sJob   `json:"job"`
	Bounds  [6]int `json:"bounds"`
	Choices []int  `json:"choices"`
}

// topology: what is configured before anything runs, and what the restarter stores.
type topo struct {
	base  mix
	newIG igSpec // stored through the real save handler
	newI2 igSpec // stored second (scenario "gens")
	dupIG igSpec // names its source twice (scenario "dupsave")
	badIG igSpec // references a source configured nowhere (scenario "fail")
	hosts []string
	live  bool // has a task that never ends by itself
}

func r12(src string) refSpec { return refSpec{Name: src, Start: 1, Stop: 2} }

func topoOf(name string) topo {
	s1 := srcSpec{Name: "s1", ChainID: 1, Host: "node1", Batch: 2}
	s2 := srcSpec{Name: "s2", ChainID: 2, Host: "node2", Batch: 2}
	t := topo{hosts: []string{"node1"}}
	t.newIG = igSpec{Name: "igb", Enabled: true, Refs: []refSpec{r12("s1")}}
	t.badIG = igSpec{Name: "igx", Enabled: true, Refs: []refSpec{r12("s1"), r12("sx")}}
	t.newI2 = igSpec{Name: "igz", Enabled: true, Refs: []refSpec{r12("s1")}}
	t.dupIG = igSpec{Name: "igb", Enabled: true, Refs: []refSpec{r12("s1"), r12("s1")}}
	f3 := func(names ...string) (out []igSpec) {
		for _, n := range names {
			out = append(out, igSpec{Name: n, Enabled: true, Refs: []refSpec{r12("s1")}})
		}
		return
	}
	switch name {
	case "1u": // the file integration names its source twice: still ONE pair
		t.base = mix{FileSrcs: []srcSpec{s1}, FileIGs: []igSpec{{Name: "iga", Enabled: true, Refs: []refSpec{r12("s1"), r12("s1")}}}}
	case "1v": // a stored integration names its source twice (dashboard-stored form), next to a plain file integration
		t.base = mix{FileSrcs: []srcSpec{s1}, FileIGs: []igSpec{{Name: "iga", Enabled: true, Refs: []refSpec{r12("s1")}}},
			DBIGs: []igSpec{{Name: "igc", Enabled: true, Refs: []refSpec{r12("s1"), {Name: "s1", Start: 2, Stop: 2}}}}, Stored: true}
	case "1w": // the SAME integration stored twice (two rows of one name, dashboard-stored form), next to a plain file integration
		t.base = mix{FileSrcs: []srcSpec{s1}, FileIGs: []igSpec{{Name: "iga", Enabled: true, Refs: []refSpec{r12("s1")}}},
			DBIGs: []igSpec{{Name: "igc", Enabled: true, Refs: []refSpec{r12("s1")}}, {Name: "igc", Enabled: true, Refs: []refSpec{r12("s1")}}}, Stored: true}
	case "3f": // three file integrations (the decoded slice has spare capacity); stored names sort before and after them
		t.base = mix{FileSrcs: []srcSpec{s1}, FileIGs: f3("igc", "ige", "igg")}
		t.newIG = igSpec{Name: "iga", Enabled: true, Refs: []refSpec{r12("s1")}}
	case "5f": // five file integrations, one row stored before start-up, stored names between and after
		t.base = mix{FileSrcs: []srcSpec{s1}, FileIGs: f3("igc", "ige", "igg", "igi", "igk"), DBIGs: f3("igd")}
		t.newIG = igSpec{Name: "igf", Enabled: true, Refs: []refSpec{r12("s1")}}
	case "1d": // one source, one file integration that ends at block 2
		t.base = mix{FileSrcs: []srcSpec{s1}, FileIGs: []igSpec{{Name: "iga", Enabled: true, Refs: []refSpec{r12("s1")}}}}
	case "1l": // the file integration has no stop: its runner polls for ever
		t.base = mix{FileSrcs: []srcSpec{s1}, FileIGs: []igSpec{{Name: "iga", Enabled: true, Refs: []refSpec{{Name: "s1", Start: 1}}}}}
		t.live = true
	case "1c": // name clash (database row says stop=1, the file wins) and a disabled database integration
		t.base = mix{FileSrcs: []srcSpec{s1},
			FileIGs: []igSpec{{Name: "iga", Enabled: true, Refs: []refSpec{r12("s1")}}},
			DBIGs: []igSpec{{Name: "iga", Enabled: true, Refs: []refSpec{{Name: "s1", Start: 1, Stop: 1}}},
				{Name: "igc", Enabled: false, Refs: []refSpec{r12("s1")}}}}
	case "2d": // two sources (one only in the database), an integration on both, a database integration
		t.hosts = []string{"node1", "node2"}
		t.base = mix{FileSrcs: []srcSpec{s1}, DBSrcs: []srcSpec{s2},
			FileIGs: []igSpec{{Name: "iga", Enabled: true, Refs: []refSpec{r12("s1"), r12("s2")}}},
			DBIGs:   []igSpec{{Name: "igc", Enabled: true, Refs: []refSpec{r12("s2")}}}, Stored: true}
		t.newIG = igSpec{Name: "igb", Enabled: true, Refs: []refSpec{r12("s2")}}
	case "2l": // two sources, live integration on the first, ending one on the second
		t.hosts = []string{"node1", "node2"}
		t.base = mix{FileSrcs: []srcSpec{s1, s2},
			FileIGs: []igSpec{{Name: "iga", Enabled: true, Refs: []refSpec{{Name: "s1", Start: 1}, r12("s2")}}}}
		t.live = true
	default:
		panic("topology " + name)
	}
	return t
}

type sPrep struct {
	t      topo
	snap   *simpg.Snapshot
	conf   string
	chains map[string]*simeth.Chain
}

var sPrepCache = map[string]*sPrep{}

func sPrepare(name string) (*sPrep, error) {
	if p, ok := sPrepCache[name]; ok {
		return p, nil
	}
	p := &sPrep{t: topoOf(name)}
	var err error
	if p.snap, err = snapshotFor([]string{"iga", "igb", "igc", "igd", "ige", "igf", "igg", "igi", "igk", "igx", "igz"}); err != nil {
		return nil, err
	}
	p.conf = fileConf(p.t.base, "1ms")
	p.chains = map[string]*simeth.Chain{}
	for i, h := range p.t.hosts {
		p.chains[h] = chain2(uint64(i + 1))
	}
	sPrepCache[name] = p
	return p, nil
}

// ---- observation ---------------------------------------------------------------------------

const (
	kHarness = iota
	kRun
	kRunner
	kPart  // errgroup partition goroutine of a runner's Converge (already in the runner's group)
	kOther // helper goroutine: head poller, update notifier
)

type thrInfo struct {
	t        *vrt.Thread
	kind     int
	parent   *thrInfo
	ord      int      // ordinal among the parent's children
	children int      //
	tasks    []string // Run thread: pairs it announced while loading (set application_name), in order
	loaded   bool     // Run thread: read the integrations table
	dbAtLoad []string // Run thread: names stored in shovel.integrations when it read the table
	pair     string   // runner thread
	inTx     bool
	steps    int
}

type observer struct {
	topo    *topo
	w       *world.W
	harness map[string]bool
	infos   []*thrInfo // by thread id
	nTrace  int
	gens    []*thrInfo // Run threads in the order they loaded
	vio     *fw.Violation
	herr    string
}

var appNameRe = regexp.MustCompile(`shovel-task-([a-z0-9]+)-([a-z0-9]+)-`)

func (ob *observer) violate(class, key, detail string) {
	if ob.vio == nil {
		ob.vio = &fw.Violation{Property: "C20", Class: class, Key: key, Detail: detail}
	}
}

// sync attributes every new thread to its creator. Threads are listed in creation order; a
// thread created by the code under test is created by vrt.Go/GoInGroup, which records a
// "<creator>:spawn" point immediately after creating it; harness threads (GoNamed) are known
// by name.
func (ob *observer) sync() {
	threads := ob.w.V.Threads()
	trace := ob.w.V.Trace
	for len(ob.infos) < len(threads) {
		t := threads[len(ob.infos)]
		if ob.harness[t.Name] {
			ob.infos = append(ob.infos, &thrInfo{t: t, kind: kHarness})
			continue
		}
		creator := ""
		for ob.nTrace < len(trace) {
			e := trace[ob.nTrace]
			ob.nTrace++
			if i := strings.IndexByte(e, ':'); i > 0 && e[i+1:] == "spawn" {
				creator = e[:i]
				break
			}
		}
		if creator == "" {
			return // spawn point not recorded yet (we are between creation and the point)
		}
		var p *thrInfo
		for _, x := range ob.infos {
			if x.t.Name == creator {
				p = x
			}
		}
		if p == nil {
			ob.herr = "observer: creator " + creator + " of thread " + t.Name + " unknown"
			return
		}
		ti := &thrInfo{t: t, parent: p, ord: p.children}
		p.children++
		switch p.kind {
		case kHarness:
			ti.kind = kRun
			t.OnlyAt = ob.onlyAtManagerOp
		case kRun:
			ti.kind = kRunner
			// a generation (its Run thread, its runners and all their goroutines) is ONE thread group: the
			// interleavings of runners of the same generation (always different pairs) are not enumerated;
			// what is enumerated is how restarters and other generations interleave with the generation
			t.Group = p.t.Group
			if ti.ord < len(p.tasks) {
				ti.pair = p.tasks[ti.ord]
			} else {
				ob.herr = fmt.Sprintf("observer: runner %s is child #%d of %s which announced only %d tasks", t.Name, ti.ord, p.t.Name, len(p.tasks))
			}
		default:
			if strings.Contains(t.Name, ".") { // vrt.GoInGroup names its threads "<parent>.<n>"
				ti.kind = kPart
				break
			}
			ti.kind = kOther
			// head poller (parks on its ticker for ever) and update notifier (non-blocking send on a channel
			// nobody else touches): their operations commute with every operation of every other thread, so
			// they are never switched to preemptively, and they are accounted to their creator's group, so
			// that they run (by default, at no cost) as soon as the creator blocks or ends instead of lingering
			// as an alternative of every later free choice
			t.OnlyAt = func(string) bool { return false }
			t.Group = p.t.Group
		}
		ob.infos = append(ob.infos, ti)
	}
}

// onlyAtManagerOp is the reduction for restarter and Run threads: while a RUNNER (or one of its
// goroutines) is running, a preemptive switch to a restarter/Run thread is offered only at the runner's
// SQL batches and at its `select` on the restart channel. The runner's other visible operations (JSON-RPC
// reads of a static chain, the RPC client's cache locks and sync.Once, spawning its own helper goroutines,
// waiting for its own partition goroutines) touch state no restarter or Run thread touches, so they commute
// with every pending operation of those threads.
func (ob *observer) onlyAtManagerOp(label string) bool {
	c := ob.w.V.Cur()
	if c == nil || c.ID >= len(ob.infos) {
		return true
	}
	x := ob.infos[c.ID]
	for x != nil && (x.kind == kOther || x.kind == kPart) {
		x = x.parent
	}
	if x == nil || x.kind != kRunner {
		return true
	}
	return strings.HasPrefix(label, "sql:") || strings.HasPrefix(label, "select")
}

func (ob *observer) cur() *thrInfo {
	ob.sync()
	c := ob.w.V.Cur()
	if c == nil || c.ID >= len(ob.infos) {
		return nil
	}
	return ob.infos[c.ID]
}

func (ob *observer) onSQL(b simpg.Batch) {
	ti := ob.cur()
	if ti == nil || len(b.SQL) == 0 {
		return
	}
	for _, q := range b.SQL {
		s := strings.ToLower(strings.Join(strings.Fields(q), " "))
		switch {
		case strings.HasPrefix(s, "set application_name"):
			if m := appNameRe.FindStringSubmatch(s); m != nil {
				ti.tasks = append(ti.tasks, m[1]+"/"+m[2])
			}
		case strings.HasPrefix(s, "select conf from shovel.integrations"):
			if !ti.loaded {
				ti.loaded = true
				for _, r := range ob.w.PG.Dump("shovel.integrations") {
					n, _ := r.Vals["name"].(string)
					ti.dbAtLoad = append(ti.dbAtLoad, n)
				}
				ob.gens = append(ob.gens, ti)
			}
		case strings.HasPrefix(s, "begin"):
			ti.inTx = true
		case strings.HasPrefix(s, "commit"), strings.HasPrefix(s, "rollback"):
			ti.inTx = false
		case strings.HasPrefix(s, "select num, hash from shovel.task_updates"):
			ti.steps++
		}
	}
	ob.checkMutex()
}

// liveRunners returns pair → names of unfinished runner threads.
func (ob *observer) liveRunners() map[string][]string {
	live := map[string][]string{}
	for _, x := range ob.infos {
		if x.kind == kRunner && !x.t.Done() {
			live[x.pair] = append(live[x.pair], x.t.Name)
		}
	}
	return live
}

// checkMutex: at every moment at most one live runner per (source, integration).
func (ob *observer) checkMutex() {
	if ob.w.V.Closing() {
		return
	}
	for pair, l := range ob.liveRunners() {
		if len(l) > 1 {
			var gens []string
			for _, x := range ob.infos {
				if x.kind == kRunner && !x.t.Done() && x.pair == pair {
					gens = append(gens, fmt.Sprintf("%s (started by %s, %d steps)", x.t.Name, x.parent.t.Name, x.steps))
				}
			}
			key := "S:mutex:two-live-runners"
			sameGen := true
			var first *thrInfo
			for _, x := range ob.infos {
				if x.kind == kRunner && !x.t.Done() && x.pair == pair {
					if first == nil {
						first = x
					} else if x.parent != first.parent {
						sameGen = false
					}
				}
			}
			if sameGen { // ONE generation started two runners for one pair
				name, n := pair[strings.IndexByte(pair, '/')+1:], 0
				for _, r := range ob.w.PG.Dump("shovel.integrations") {
					if x, _ := r.Vals["name"].(string); x == name {
						n++
					}
				}
				inFile := 0
				for _, ig := range ob.topo.base.FileIGs {
					if ig.Name == name {
						inFile++
					}
				}
				if inFile > 1 || (inFile == 0 && n > 1) {
					key += ":duplicate-name" // the integration's name occurs twice in the configuration
				} else {
					key += ":duplicate-source-ref"
				}
			}
			ob.violate("mutex", key, fmt.Sprintf("pair %s is driven by %d live runner threads at once: %s", pair, len(l), strings.Join(gens, ", ")))
		}
	}
}

// ---- one execution -------------------------------------------------------------------------

type opRec struct {
	Thread   string
	Kind     string // "save:<ig>" | "restart"
	N0       int    // number of threads that existed when the call was made
	Returned bool
	Err      string
	Panic    string
	Overlap  bool // a runner was inside a Converge transaction when the call was made
	Early    bool // start-up had not been signalled yet when the call was made
}

type sResult struct {
	vio      *fw.Violation
	outcome  string
	harness  string
	trans    int64
	ops      []*opRec
	gens     int
	runners  int
	nontriv  bool
	trace    []string
	contends int64
}

func panicClass(msg string) string {
	switch {
	case strings.Contains(msg, "close of closed channel"):
		return "double-close"
	case strings.Contains(msg, "send on closed channel"):
		return "send-on-closed"
	case strings.Contains(msg, "close of nil channel"):
		return "close-nil"
	}
	return "other"
}

func sExec(j sJob, p *sPrep, win *dfsRun, states *vrt.StateSet) (res sResult) {
	chains := map[string]*simeth.Chain{}
	for h, c := range p.chains {
		chains[h] = c
	}
	w := world.New(win, world.Cfg{Snap: p.snap, Chains: chains})
	if states == nil {
		states = vrt.NewStateSet()
	}
	w.V.States = states
	w.V.TraceOn = true
	ob := &observer{topo: &p.t, w: w, harness: map[string]bool{"main": true, "boot": true, "rA": true, "rB": true}}
	w.OnSQL = func(label string, b simpg.Batch) simpg.Fault {
		if !w.V.Closing() && w.V.Cur() != nil {
			ob.onSQL(b)
		}
		return simpg.FaultNone
	}
	var ops []*opRec
	nReturned := 0
	w.V.StateKey = func() uint64 {
		// called at every scheduling point BEFORE the candidates are computed: new threads are classified
		// (and the commuting helper goroutines get their reduction) before they can be chosen
		ob.sync()
		return w.CommitHash ^ uint64(nReturned)<<56 ^ uint64(len(ops))<<52
	}
	topoKind := "ending"
	if p.t.live {
		topoKind = "live"
	}
	final := p.t.base // what is configured at the end
	var (
		booted   bool
		bootErr  error
		rThreads []*vrt.Thread
	)
	w.Run(func() {
		if err := seedDB(w, p.t.base); err != nil {
			w.HarnessErr = err.Error()
			return
		}
		conf, err := world.ParseConf(p.conf)
		if err != nil {
			if r := reference(p.t.base); r.Dup || r.DupOff {
				res.outcome = "startup-error:config-rejected:duplicate-source-ref" // a start-up error satisfies the property
				return
			}
			w.HarnessErr = "config: " + err.Error()
			return
		}
		mgr := shovel.NewManager(w.Ctx, w.Pool, conf)
		h := web.New(mgr, &conf, w.Pool)

		// call performs one restart request from the calling harness thread and judges its return.
		call := func(kind string, ig *igSpec) *opRec {
			ob.sync()
			rec := &opRec{Thread: w.V.Cur().Name, Kind: kind, N0: len(w.V.Threads()), Early: !booted}
			for _, x := range ob.infos {
				if x.kind == kRunner && !x.t.Done() && x.inTx {
					rec.Overlap = true
				}
			}
			ops = append(ops, rec)
			func() {
				defer func() {
					if r := recover(); r != nil {
						if w.V.Closing() {
							panic(r)
						}
						rec.Panic = fmt.Sprint(r)
					}
				}()
				if ig != nil {
					req := httptest.NewRequest("POST", "/save-integration", bytes.NewReader(igJSON(*ig)))
					rr := httptest.NewRecorder()
					h.SaveIntegration(rr, req)
					if rr.Code != 200 {
						rec.Err = fmt.Sprintf("http %d: %s", rr.Code, strings.TrimSpace(rr.Body.String()))
					}
				} else if err := mgr.Restart(); err != nil {
					rec.Err = err.Error()
				}
				if w.V.Closing() {
					rec.Err = "" // released by the teardown, not a return of the request
					return
				}
				rec.Returned = true
			}()
			if w.V.Closing() {
				return rec
			}
			nReturned++
			if rec.Returned && rec.Err == "" {
				// (2) every runner that existed when the request was made has terminated
				ob.sync()
				for _, x := range ob.infos {
					if x.kind == kRunner && x.t.ID < rec.N0 && !x.t.Done() {
						ob.violate("old-generation-alive", "S:restart-returned:old-runner-alive",
							fmt.Sprintf("%s by %s returned nil, but runner thread %s of pair %s (started by %s before the request) is still running", kind, rec.Thread, x.t.Name, x.pair, x.parent.t.Name))
					}
				}
				ob.checkMutex()
			}
			return rec
		}
		save := func(ig igSpec) *opRec {
			rec := call("save:"+ig.Name, &ig)
			if rec.Returned && rec.Err == "" {
				final.DBIGs = append(append([]igSpec{}, final.DBIGs...), ig)
			}
			return rec
		}
		startBoot := func() *vrt.Thread {
			return w.V.GoNamed("boot", func() {
				ec := make(chan error)
				vrt.Go(func() { mgr.Run(ec) })
				e, _ := vrt.Recv2(ec)
				if w.V.Closing() {
					return
				}
				bootErr, booted = e, true
			})
		}
		pending := 0
		restarter := func(name string, body func()) *vrt.Thread {
			win.open = true
			pending++
			t := w.V.GoNamed(name, func() {
				body()
				if pending--; pending == 0 {
					win.open = false
				}
			})
			t.OnlyAt = ob.onlyAtManagerOp
			rThreads = append(rThreads, t)
			return t
		}

		switch j.Scen {
		case "early": // the dashboard is served before Run starts (main.go): a save request races with start-up
			startBoot()
			restarter("rA", func() { save(p.t.newIG) })
		case "after": // start-up was signalled; then one save request
			w.V.Join(startBoot())
			restarter("rA", func() { save(p.t.newIG) })
		case "b2b": // a save request and a plain restart back to back from one thread
			w.V.Join(startBoot())
			restarter("rA", func() {
				if r := save(p.t.newIG); r.Panic == "" && !w.V.Closing() {
					call("restart", nil)
				}
			})
		case "two": // two concurrent requests
			w.V.Join(startBoot())
			restarter("rA", func() { save(p.t.newIG) })
			restarter("rB", func() { call("restart", nil) })
		case "resave": // the dashboard stores the same integration twice (the only way to "edit" one): two rows of one name
			w.V.Join(startBoot())
			restarter("rA", func() {
				if r := save(p.t.newIG); r.Panic == "" && r.Err == "" && !w.V.Closing() {
					save(p.t.newIG)
				}
			})
		case "dupsave": // the dashboard is asked to store an integration that names its source twice
			w.V.Join(startBoot())
			restarter("rA", func() {
				if r := call("save:"+p.t.dupIG.Name+"(source twice)", &p.t.dupIG); r.Returned && r.Err == "" {
					final.DBIGs = append(append([]igSpec{}, final.DBIGs...), p.t.dupIG)
				}
			})
		case "boot": // start-up only
			w.V.Join(startBoot())
		case "gens": // one long-lived Manager: save, restart, save another, restart - every generation is judged
			w.V.Join(startBoot())
			restarter("rA", func() {
				for i, step := range []*igSpec{&p.t.newIG, nil, &p.t.newI2, nil} {
					var r *opRec
					if step != nil {
						r = save(*step)
					} else {
						r = call("restart", nil)
					}
					if r.Panic != "" || r.Err != "" || w.V.Closing() {
						return
					}
					_ = i
				}
			})
		case "late": // the request arrives when the first generation is quiescent
			w.V.Join(startBoot())
			w.V.WaitIdle()
			restarter("rA", func() { save(p.t.newIG) })
		case "fail": // a stored integration references an unknown source; the operator removes it and restarts
			w.V.Join(startBoot())
			restarter("rA", func() {
				r := call("save:"+p.t.badIG.Name, &p.t.badIG)
				if r.Panic != "" || w.V.Closing() {
					return
				}
				if r.Err == "" {
					ob.violate("missing-error", "S:unknown-source:restart-ok", "an integration referencing a source configured nowhere was stored and Restart returned nil")
					return
				}
				vrt.Yield("env:delete-bad-row")
				w.PG.DeleteWhere("shovel.integrations", func(r simpg.Row) bool { n, _ := r.Vals["name"].(string); return n == p.t.badIG.Name })
				w.V.Bump()
				call("restart", nil)
			})
		default:
			w.HarnessErr = "scenario " + j.Scen
			return
		}
		// quiescence: nothing but sleeping pollers can run. Time then advances (every sleeper polls once more)
		// until a whole round changes nothing: no thread ended, nothing was committed, no request returned.
		progress := func() string {
			done := 0
			for _, t := range w.V.Threads() {
				if t.Done() {
					done++
				}
			}
			return fmt.Sprintf("%d/%d/%d/%x", done, len(w.V.Threads()), nReturned, w.CommitHash)
		}
		w.V.WaitIdle()
		for round := 0; round < 8 && !w.V.Closing() && ob.vio == nil; round++ {
			before := progress()
			w.V.AdvanceTime()
			w.V.WaitIdle()
			if progress() == before {
				break
			}
		}
		if w.V.Closing() {
			return
		}
		ob.sync()
		ob.checkMutex()
		res.outcome = judgeFinal(w, ob, j, topoKind, ops, rThreads, final, booted, bootErr)
	})
	res.trans = w.V.Transitions
	res.ops = ops
	res.gens = len(ob.gens)
	for _, x := range ob.infos {
		if x.kind == kRunner {
			res.runners++
		}
	}
	res.nontriv = len(ops) > 0 && res.gens >= 2
	res.harness = w.HarnessErr
	if res.harness == "" {
		res.harness = ob.herr
	}
	if w.V.Deadlock && ob.vio == nil && res.harness == "" {
		ob.violate("deadlock", "S:deadlock:"+j.Scen+":"+topoKind, w.V.DeadlockMsg)
	}
	if len(w.V.Panics) > 0 && ob.vio == nil && res.harness == "" {
		ob.violate("panic", "S:panic:thread:"+panicClass(w.V.Panics[0])+":"+j.Scen, strings.Join(w.V.Panics, "\n"))
	}
	res.vio = ob.vio
	res.trace = w.V.Trace
	if res.vio != nil {
		res.outcome = "VIOLATION:" + res.vio.Class
	}
	if res.outcome == "" {
		res.outcome = "ended"
	}
	return res
}

func cursorMax(w *world.W) map[string]uint64 {
	out := map[string]uint64{}
	for _, c := range w.Cursors() {
		k := c.Src + "/" + c.IG
		if v, ok := out[k]; !ok || c.Num > v {
			out[k] = c.Num
		}
	}
	return out
}

// judgeFinal applies the end-of-execution part of the oracle; returns the outcome class.
func judgeFinal(w *world.W, ob *observer, j sJob, topoKind string, ops []*opRec, rThreads []*vrt.Thread, final mix, booted bool, bootErr error) string {
	// (4) no panic in a restart request
	for _, o := range ops {
		if o.Panic != "" {
			when := j.Scen
			ob.violate("panic", "S:panic:restart:"+panicClass(o.Panic)+":"+when,
				fmt.Sprintf("%s called by %s panicked: %s\nrequests so far: %s", o.Kind, o.Thread, o.Panic, opsString(ops)))
			return ""
		}
	}
	if len(w.V.Panics) > 0 {
		return "" // reported by the caller
	}
	// (4) every restart request returns
	for _, t := range rThreads {
		if !t.Done() {
			blocked := w.V.Blocked()
			reason := "blocked"
			for _, b := range blocked {
				if strings.HasSuffix(b, "@lock") {
					reason = "new-run-waits-for-lock-while-old-generation-was-never-told-to-stop"
				}
			}
			ob.violate("restart-never-returns", "S:restart-never-returns:"+j.Scen+":"+topoKind,
				fmt.Sprintf("restart request of thread %s never returns (%s): nothing can run any more except sleeping pollers; blocked threads: %s; live runners: %v\nrequests: %s",
					t.Name, reason, strings.Join(blocked, ", "), ob.liveRunners(), opsString(ops)))
			return ""
		}
	}
	if r := reference(ob.topo.base); booted && bootErr != nil && r.Dup && !r.Err {
		return "startup-error:duplicate-source-ref" // one task for the pair or a start-up error: both satisfy the property
	}
	if booted && bootErr != nil {
		ob.violate("startup-error", "S:startup-error", "Run reported a start-up error on a valid configuration: "+bootErr.Error())
		return ""
	}
	for i, o := range ops {
		bad := (j.Scen == "fail" || j.Scen == "dupsave") && i == 0 // rejecting these requests is right
		if o.Err != "" && !bad {
			ob.violate("restart-error", "S:restart-error:"+j.Scen, fmt.Sprintf("%s by %s failed on a valid configuration: %s", o.Kind, o.Thread, o.Err))
			return ""
		}
	}
	// (3) the set being driven == the configured set, including what was stored
	if j.Scen == "dupsave" && len(ops) > 0 && ops[0].Err != "" {
		for _, r := range w.PG.Dump("shovel.integrations") {
			if n, _ := r.Vals["name"].(string); n == ob.topo.dupIG.Name {
				// rejected only after the row was stored (the restart failed): like scenario "fail", the set running
				// after a FAILED restart is not judged
				return "dupsave:rejected-after-store"
			}
		}
	}
	// (3') EVERY generation was loaded with exactly what was configured when it read the configuration
	known := map[string]igSpec{}
	// what a row of a given name contains: the topology's rows and whatever THIS scenario stores (newIG and
	// dupIG share a name; only "dupsave" stores dupIG)
	stored := []igSpec{ob.topo.newIG, ob.topo.newI2, ob.topo.badIG}
	if j.Scen == "dupsave" {
		stored = []igSpec{ob.topo.dupIG}
	}
	for _, ig := range append(append([]igSpec{}, ob.topo.base.DBIGs...), stored...) {
		known[ig.Name] = ig
	}
	for gi, g := range ob.gens {
		m := ob.topo.base
		m.DBIGs = nil
		for _, n := range g.dbAtLoad {
			m.DBIGs = append(m.DBIGs, known[n])
		}
		wg := reference(m)
		if wg.Err {
			continue // this generation's load must fail; judged through the request's result
		}
		if wg.Dup && g.children == 0 {
			continue // a source named twice: failing to load is one of the two acceptable behaviours
		}
		var wp []string
		for p := range wg.Pairs {
			wp = append(wp, p)
		}
		sort.Strings(wp)
		gp := append([]string{}, g.tasks...)
		sort.Strings(gp)
		if !sameStrings(gp, wp) {
			when := "later"
			if gi == 0 {
				when = "first"
			}
			ob.violate("task-set", "S:task-set:generation:"+when+":"+j.Scen, fmt.Sprintf("generation %d of %d (%s) read the configuration when shovel.integrations held %v: configured pairs %v, but it was loaded with %v\nrequests: %s",
				gi+1, len(ob.gens), g.t.Name, g.dbAtLoad, wp, gp, opsString(ops)))
			return ""
		}
	}
	want := reference(final)
	if want.Err {
		ob.herr = "final configuration has an unknown source"
		return ""
	}
	var wantPairs []string
	for p := range want.Pairs {
		wantPairs = append(wantPairs, p)
	}
	sort.Strings(wantPairs)
	if len(ob.gens) == 0 {
		ob.violate("task-set", "S:task-set:no-generation", "no generation ever loaded")
		return ""
	}
	last := ob.gens[len(ob.gens)-1]
	got := append([]string{}, last.tasks...)
	sort.Strings(got)
	if !sameStrings(got, wantPairs) {
		ob.violate("task-set", "S:task-set:last-generation:"+j.Scen, fmt.Sprintf("configured pairs %v, but the last generation (%s) was loaded with %v\nrequests: %s", wantPairs, last.t.Name, got, opsString(ops)))
		return ""
	}
	cur := cursorMax(w)
	live := ob.liveRunners()
	for _, p := range wantPairs {
		if cur[p] != 2 {
			ob.violate("task-set", "S:task-set:pair-not-driven:"+j.Scen, fmt.Sprintf("configured pair %s: cursor %d at quiescence, want 2 (live runners %v)\nrequests: %s", p, cur[p], live, opsString(ops)))
			return ""
		}
		wantLive := 0
		if want.Pairs[p].Stop == 0 {
			wantLive = 1
		}
		if len(live[p]) != wantLive {
			ob.violate("task-set", "S:task-set:runner-count:"+j.Scen, fmt.Sprintf("configured pair %s: %d live runners at quiescence, want %d\nrequests: %s", p, len(live[p]), wantLive, opsString(ops)))
			return ""
		}
	}
	for p := range cur {
		if _, ok := want.Pairs[p]; !ok {
			ob.violate("task-set", "S:task-set:extra-pair:"+j.Scen, fmt.Sprintf("pair %s was indexed (cursor %d) but is not configured (%v)", p, cur[p], wantPairs))
			return ""
		}
	}
	for p, l := range live {
		if _, ok := want.Pairs[p]; !ok {
			ob.violate("task-set", "S:task-set:extra-runner:"+j.Scen, fmt.Sprintf("pair %s has live runners %v but is not configured", p, l))
			return ""
		}
	}
	out := fmt.Sprintf("ok:gens=%d", len(ob.gens))
	if !booted {
		out += ":startup-signal-pending"
	}
	return out
}

func opsString(ops []*opRec) string {
	var s []string
	for _, o := range ops {
		st := "pending"
		switch {
		case o.Panic != "":
			st = "PANIC " + o.Panic
		case o.Returned && o.Err == "":
			st = "ok"
		case o.Returned:
			st = "error " + o.Err
		}
		s = append(s, fmt.Sprintf("%s:%s(threads-before=%d)=%s", o.Thread, o.Kind, o.N0, st))
	}
	return strings.Join(s, "; ")
}

// ---- jobs, exploration, replay ---------------------------------------------------------------

func sJobs(thorough bool) []sJob {
	var jobs []sJob
	parts := 16
	if n, _ := strconv.Atoi(os.Getenv("C20_PARTS")); n > 0 {
		parts = n
	}
	add := func(bound int, topos []string, scens []string) {
		if v, err := strconv.Atoi(os.Getenv("C20_BOUND")); err == nil {
			bound = v
		}
		for _, t := range topos {
			for _, s := range scens {
				for k := 0; k < parts; k++ {
					jobs = append(jobs, sJob{Topo: t, Scen: s, Bound: bound, Part: k, Parts: parts})
				}
			}
		}
	}
	if thorough {
		// ordered by value per execution: if the time budget is hit, the last (largest) jobs are the ones cut
		add(3, []string{"1d", "1l", "1c"}, []string{"fail", "after", "late"})
		add(2, []string{"1d"}, []string{"two"})
		add(1, []string{"1l", "1c"}, []string{"two"})
		add(2, []string{"1l"}, []string{"early"})
		add(1, []string{"1c"}, []string{"early"})
		add(2, []string{"2d", "2l"}, []string{"after", "late"})
		add(1, []string{"2d", "2l"}, []string{"early"})
		add(1, []string{"3f", "5f"}, []string{"gens"})
		add(0, []string{"1u", "1v"}, []string{"boot"})
		add(2, []string{"1d", "1l"}, []string{"dupsave"})
		add(0, []string{"1w"}, []string{"boot"})
		add(2, []string{"1d", "1l"}, []string{"resave"})
		add(3, []string{"1d", "1c", "1l"}, []string{"b2b"})
		add(2, []string{"1d"}, []string{"early"})
		return jobs
	}
	add(2, []string{"1d", "1l"}, []string{"b2b", "after", "late", "fail"})
	add(1, []string{"1d", "1l"}, []string{"early"})
	add(2, []string{"1c"}, []string{"after", "late"})
	add(1, []string{"1d", "1l"}, []string{"two"})
	add(0, []string{"3f", "5f"}, []string{"gens"}) // bound 0: the free choices only
	add(0, []string{"1u", "1v"}, []string{"boot"})
	add(1, []string{"1d"}, []string{"dupsave"})
	add(0, []string{"1w"}, []string{"boot"})
	add(1, []string{"1d"}, []string{"resave"})
	return jobs
}

func (j sJob) bounds() explore.Bounds {
	var b explore.Bounds
	b[0], b[vrt.KPreempt] = j.Bound, j.Bound
	return b
}

func tail(l []string, n int) []string {
	if len(l) > n {
		return l[len(l)-n:]
	}
	return l
}
