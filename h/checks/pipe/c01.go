//go:build verif

package pipe

import (
	"encoding/json"
	"fmt"
	"os"
	"regexp"
	"strconv"
	"strings"
	"time"

	"verifh/checks"
	"verifh/explore"
	"verifh/fw"
	"verifh/simeth"
	"verifh/simpg"
	"verifh/vrt"
	"verifh/world"
)

// C01 — every block in range is indexed exactly once: table == declared projection; each
// successful step advances the cursor by exactly the contiguous blocks whose rows it wrote.
//
// Job = (shape, chain word, start, batch, conc). For each job the explorer enumerates the
// interleavings of the task thread (steps until it reaches the final head) with an
// environment thread that reveals the chain in two growth operations, preemption-bounded,
// plus (on a subset of jobs) every single transient fault at every I/O operation.

type c01Job struct {
	Shape  string `json:"shape"`
	Word   string `json:"word"`
	Start  uint64 `json:"start"`
	Batch  int    `json:"batch"`
	Conc   int    `json:"conc"`
	Faults bool   `json:"faults"`
	Free   bool   `json:"free"` // step boundaries are free switches (every step-granular interleaving at bound 0)
	Lag    bool   `json:"lag,omitempty"` // one exchange may be answered by a backend that is 1 or 2 blocks behind the announced head
}

type c01Case struct {
	Job     c01Job `json:"job"`
	Bounds  [6]int `json:"bounds"`
	Choices []int  `json:"choices"`
}

func init() {
	checks.Register(&checks.Check{
		ID:        "C01",
		Level:     "model_checking",
		Technique: "stateless model checking of the real pipeline (controlled scheduler over instrumented code, fake Postgres, simulated node): all interleavings of task steps with head growth up to a preemption bound, all single transient faults, over a bounded-exhaustive family of chains x declaration shapes x batch x concurrency; oracle = independent projection of the chain",
		Rule: "jobs = 7 declaration shapes (log / array-log / all-indexed log / log with string + bytes[] incl. empty values / tx / receipt / trace; on a reduced product also: log restricted to two addresses by a multi-argument eq filter, trace with receipt fields) x chain words over block kinds {e empty, a 1 tx 1 log, b decoys (other signature, wrong topic count, other address), c 2 tx 2 logs, d tx without logs} x start in {1, 3, head} x (batch,conc): " +
			"quick = all 27 words of length 3 over {e,a,b} with (1,1),(3,2) and two 5-letter words with all 20 pairs in 1..5 x 1..4; thorough = all words of length 2..4 over 5 kinds with 5 pairs and seven 5-letter words with all 20 pairs. " +
			"Per job every schedule of {task thread stepping until the final head, environment thread revealing the last two blocks in two growth operations} with <= 1 deviation (a preemption at any JSON-RPC exchange or step boundary, or a reordering of load partitions; thorough: <= 2 deviations and every step-granular interleaving for free), " +
			"and on fault jobs every single injected RPC/SQL fault (rpc error, transport error, SQL error, connection drop) at every I/O point; on lag jobs (batch >= 2) any one JSON-RPC exchange answered by a backend 1 or 2 blocks behind the announced head. An execution is non-trivial when at least one row was emitted; distinct = distinct (job, choice sequence).",
		Assumptions: []string{
			"fake Postgres (h/simpg) interprets the SQL shovel sends; simulated node (h/simeth) answers like a well-behaved geth; see DESIGN.md §7",
			"trace and receipt plans: a block without transactions answers [] (as real nodes do)",
			"start=0 (begin at head): the first indexed block must be a head the node announced between task creation and the first commit",
		},
		Budget:        map[string]time.Duration{"quick": 170 * time.Second, "thorough": 1100 * time.Second},
		MinNontrivial: 1000,
		Inst:          true,
		Run:           c01Run,
		Replay:        c01Replay,
	})
}

func c01Jobs(thorough bool) []c01Job {
	var jobs []c01Job
	add := func(ws []string, starts []uint64, pairs [][2]int, faultWords map[string]bool) {
		for _, sh := range Shapes {
			for _, w := range ws {
				for _, st := range starts {
					if st > uint64(len(w)) {
						continue
					}
					for _, bc := range pairs {
						jobs = append(jobs, c01Job{Shape: sh, Word: w, Start: st, Batch: bc[0], Conc: bc[1], Free: thorough,
							Faults: faultWords[w] && ((bc[0] == 1 && bc[1] == 1) || (bc[0] == 3 && bc[1] == 2))})
					}
				}
			}
		}
	}
	var all [][2]int
	for b := 1; b <= 5; b++ {
		for cc := 1; cc <= 4; cc++ {
			all = append(all, [2]int{b, cc})
		}
	}
	if thorough {
		var ws []string
		for n := 2; n <= 4; n++ {
			ws = append(ws, words("eabcd", n)...)
		}
		add(ws, []uint64{1, 3, 0}, [][2]int{{1, 1}, {2, 1}, {3, 2}, {2, 3}, {5, 2}}, map[string]bool{"eab": true, "bae": true, "cdc": true, "aeca": true})
		add([]string{"abcde", "ceeac", "eeeee", "cbadc", "dcbae", "ccccc", "aeaea"}, []uint64{1, 3, 0}, all, map[string]bool{"abcde": true, "ceeac": true})
		addLag(&jobs, []string{"abcde", "ccccc", "cbadc", "aeaea"}, all)
		for _, sh := range ExtraShapes {
			for _, w := range []string{"abcde", "cbadc", "ccccc", "aeaea"} {
				for _, bc := range all {
					jobs = append(jobs, c01Job{Shape: sh, Word: w, Start: 1, Batch: bc[0], Conc: bc[1], Free: true})
				}
			}
		}
		return jobs
	}
	// quick: every 3-letter word over {empty, 1 log, decoys} with two (batch,conc) pairs; all 20 pairs on two longer words;
	// single faults at every I/O point on a few jobs
	addLag(&jobs, []string{"abcde", "ccccc"}, [][2]int{{2, 1}, {3, 1}, {5, 2}})
	for _, sh := range ExtraShapes {
		for _, w := range []string{"abcde", "cbadc"} {
			for _, bc := range [][2]int{{1, 1}, {3, 2}, {5, 2}} {
				jobs = append(jobs, c01Job{Shape: sh, Word: w, Start: 1, Batch: bc[0], Conc: bc[1]})
			}
		}
	}
	add(words("eab", 3), []uint64{1, 0}, [][2]int{{1, 1}, {3, 2}}, nil)
	add([]string{"abcde", "ceeac"}, []uint64{1, 3, 0}, all, nil)
	add([]string{"bae", "eab"}, []uint64{1}, [][2]int{{1, 1}, {3, 2}}, map[string]bool{"bae": true, "eab": true})
	return jobs
}

// addLag: jobs in which one JSON-RPC exchange may be answered by a lagging backend (a load-balanced source whose
// serving node is 1 or 2 blocks behind the head the task was told): every request is answered faithfully for that
// shorter chain (null for blocks it does not have, logs/receipts/traces only up to its head).
func addLag(jobs *[]c01Job, ws []string, pairs [][2]int) {
	for _, sh := range Shapes {
		for _, w := range ws {
			for _, bc := range pairs {
				if bc[0] < 2 {
					continue
				}
				*jobs = append(*jobs, c01Job{Shape: sh, Word: w, Start: 1, Batch: bc[0], Conc: bc[1], Lag: true})
			}
		}
	}
}

type c01Prep struct {
	decl  *world.Decl
	conf  string
	snap  *simpg.Snapshot
	full  *simeth.Chain
	steps []*simeth.Chain // chains revealed by the environment thread, in order
	init  *simeth.Chain
}

var c01PrepCache = map[string]*c01Prep{}

func c01Prepare(j c01Job) (*c01Prep, error) {
	key := fmt.Sprintf("%s/%s/%d/%d/%d", j.Shape, j.Word, j.Start, j.Batch, j.Conc)
	if p, ok := c01PrepCache[key]; ok {
		return p, nil
	}
	d := Shape(j.Shape, "ig1", "t1", world.SrcRef{Name: "src1", Start: j.Start})
	p := &c01Prep{decl: d}
	p.conf = world.ConfJSON([]world.Source{{Name: "src1", ChainID: 7, URL: "http://node1", Batch: j.Batch, Conc: j.Conc}}, []*world.Decl{d})
	conf, err := world.ParseConf(p.conf)
	if err != nil {
		return nil, err
	}
	p.snap, err = world.InitDB(conf)
	if err != nil {
		return nil, err
	}
	p.full = buildChain(j.Word, d, 1)
	n := uint64(len(j.Word))
	// reveal: initial = all but the last two blocks (at least one block), then +1, +1
	i0 := n
	if n >= 3 {
		i0 = n - 2
	} else if n == 2 {
		i0 = 1
	}
	if j.Start > 0 && i0 < j.Start-0 && j.Start-1 <= n {
		// the block before start must exist for the start hash; keep at least start-1 blocks
		if j.Start-1 > i0 {
			i0 = j.Start - 1
		}
	}
	if i0 < 1 {
		i0 = 1
	}
	p.init = p.full.Truncate(i0)
	for k := i0 + 1; k <= n; k++ {
		p.steps = append(p.steps, p.full.Truncate(k))
	}
	if len(c01PrepCache) > 64 {
		c01PrepCache = map[string]*c01Prep{}
	}
	c01PrepCache[key] = p
	return p, nil
}

type c01Result struct {
	vio      *fw.Violation
	rows     int
	outcome  string
	harness  string
	trans    int64
	diverged string
}

var numRe = regexp.MustCompile(`[0-9]+`)

func errClass(err error) string {
	if err == nil {
		return ""
	}
	s := err.Error()
	if len(s) > 160 {
		s = s[:160]
	}
	return numRe.ReplaceAllString(s, "N")
}

func c01Exec(j c01Job, p *c01Prep, ch vrt.Chooser, states *vrt.StateSet, trace bool) (res c01Result) {
	w := world.New(ch, world.Cfg{Snap: p.snap, Chains: map[string]*simeth.Chain{"node1": p.init}})
	w.V.States = states
	w.V.TraceOn = trace
	d := p.decl
	finalHead := uint64(len(j.Word))
	vio := func(class, key, detail string) {
		if res.vio == nil {
			res.vio = &fw.Violation{Property: "C01", Class: class, Key: key, Detail: detail}
		}
	}
	tag := j.Shape
	if j.Batch < j.Conc {
		tag += ":batch<conc"
	}
	w.V.StateKey = func() uint64 { return w.CommitHash ^ uint64(w.Node("node1").Version)<<48 }
	w.Run(func() {
		conf, err := world.ParseConf(p.conf)
		if err != nil {
			w.HarnessErr = err.Error()
			return
		}
		tasks, err := w.LoadTasks(conf)
		if err != nil || len(tasks) != 1 {
			w.HarnessErr = fmt.Sprintf("loadTasks: %v (%d tasks)", err, len(tasks))
			return
		}
		task := tasks[0]
		if j.Faults {
			w.SQLFaultKinds, w.RPCFaultKinds = 2, 2
		}
		if j.Lag {
			lagLeft := 1
			w.OnExchange = func(ex *simeth.Exchange) {
				head := w.Node("node1").Chain().Head().Num
				if lagLeft == 0 || head < 2 || maxBlockAsked(ex) <= head-2 {
					return // nothing in this exchange that a backend two blocks behind would answer differently
				}
				k := w.V.ChooseEnv(3, vrt.KEnv, "node-lag")
				if k == 0 {
					return
				}
				lagLeft--
				behind := w.Node("node1").Chain().Truncate(head - uint64(k))
				calls, batch := ex.Calls, ex.Batch
				ex.Mutate = func(resp any) any {
					var out []any
					for _, cl := range calls {
						a, err := simeth.Answer(behind, cl)
						if err != nil {
							return resp
						}
						out = append(out, map[string]any(a))
					}
					if !batch && len(out) == 1 {
						return out[0]
					}
					return out
				}
			}
		}
		envDone := len(p.steps) == 0
		cols := w.TableCols("t1")
		headAtCreate := w.Node("node1").Chain().Head().Num
		var first uint64 // first block indexed (0 = not yet known)
		// per-step oracle
		check := func(out string, before world.Cursor, hadBefore bool, dumpBefore []string) bool {
			cur, has := w.Latest("src1", "ig1")
			head := w.Node("node1").Chain().Head().Num
			dump := world.RenderDump(w.PG.Dump("t1"), cols)
			if out != "ok" {
				// nothing written
				if has != hadBefore || (has && cur.Num != before.Num) || strings.Join(dump, "\n") != strings.Join(dumpBefore, "\n") {
					vio("state-changed-by-failed-step", "failed-step-changed-state:"+tag, fmt.Sprintf("step outcome %q but committed state changed (cursor %v→%v)", out, before.Num, cur.Num))
					return false
				}
				return true
			}
			if !has {
				vio("cursor", "ok-without-cursor:"+tag, "step returned nil but no cursor row exists")
				return false
			}
			lo := before.Num + 1
			if !hadBefore {
				// first successful step: the first indexed block is `start`, or — start at head — some head
				// the node announced between task creation and now (the nblocks statistic is not used: it
				// records the planned delta, not what was loaded)
				if j.Start > 0 {
					first = j.Start
				} else {
					first = 0
					for f := headAtCreate; f <= head && f <= cur.Num; f++ {
						want := world.RenderRows(d.Expect(p.full, "src1", 7, f, cur.Num, nil), cols)
						if strings.Join(dump, "\n") == strings.Join(want, "\n") && int(cur.Num-f+1) <= j.Batch {
							first = f
							break
						}
					}
					if first == 0 {
						vio("range", "first-block-head:"+tag, fmt.Sprintf("start at head: cursor %d; table matches the projection of [f..%d] (at most batch blocks) for no announced head f in [%d,%d]\n%s", cur.Num, cur.Num, headAtCreate, head,
							world.DiffSorted(dump, world.RenderRows(d.Expect(p.full, "src1", 7, headAtCreate, cur.Num, nil), cols))))
						return false
					}
				}
				lo = first
			}
			if cur.Num < lo || cur.Num > head || int(cur.Num-lo+1) > j.Batch {
				vio("cursor", "cursor-advance:"+tag, fmt.Sprintf("cursor moved %d→%d with head=%d batch=%d", lo-1, cur.Num, head, j.Batch))
				return false
			}
			want := world.RenderRows(d.Expect(p.full, "src1", 7, first, cur.Num, nil), cols)
			if strings.Join(dump, "\n") != strings.Join(want, "\n") {
				vio("rows", "rows:"+tag, fmt.Sprintf("after step to cursor %d (first=%d): table != projection\n%s", cur.Num, first, world.DiffSorted(dump, want)))
				return false
			}
			if hb := p.full.Blocks[cur.Num].Hash; len(cur.Hash) == 32 && string(cur.Hash) != string(hb) {
				vio("cursor", "cursor-hash:"+tag, fmt.Sprintf("cursor %d has hash %x, block hash is %x", cur.Num, cur.Hash, hb))
				return false
			}
			res.rows = len(dump)
			return true
		}
		var lastErr error
		tt := w.V.GoNamed("task", func() {
			maxSteps := 4*int(finalHead) + 10
			for s := 0; s < maxSteps; s++ {
				if j.Free {
					vrt.Boundary("step")
				} else {
					vrt.Yield("boundary:step")
				}
				if w.V.Closing() {
					return
				}
				before, had := w.Latest("src1", "ig1")
				dumpBefore := world.RenderDump(w.PG.Dump("t1"), cols)
				out, err := task.Step()
				if w.V.Closing() {
					return
				}
				if out == "panic" {
					vio("panic", "panic:"+tag, fmt.Sprintf("Converge panicked: %v", err))
					return
				}
				if !check(out, before, had, dumpBefore) {
					return
				}
				switch out {
				case "ok":
				case "nothing":
					cur, has := w.Latest("src1", "ig1")
					if envDone && has && cur.Num == finalHead {
						res.outcome = "converged"
						return
					}
					if !envDone {
						vrt.Sleep(time.Second)
					}
				case "error":
					if !injected(err) || lastErr == nil {
						lastErr = err
					}
				default:
					vio("outcome", "outcome:"+out+":"+tag, fmt.Sprintf("unexpected step outcome %q: %v", out, err))
					return
				}
			}
			cur, _ := w.Latest("src1", "ig1")
			vio("noconverge", "noconverge:"+tag+":"+errClass(lastErr), fmt.Sprintf("after %d steps cursor=%d, final head=%d; last error: %v", maxSteps, cur.Num, finalHead, lastErr))
		})
		env := w.V.GoNamed("env", func() {
			for i, c := range p.steps {
				w.SetChain("node1", c, fmt.Sprintf("grow%d", i))
			}
			envDone = true
			w.V.Bump()
		})
		env.OnlyAt = func(l string) bool { return strings.HasPrefix(l, "rpc:") || strings.HasPrefix(l, "boundary:") }
		w.V.Join(tt, env)
	})
	res.trans = w.V.Transitions
	if w.HarnessErr != "" {
		res.harness = w.HarnessErr
	}
	if len(w.V.Panics) > 0 && res.vio == nil {
		vio("panic", "panic-thread:"+tag, strings.Join(w.V.Panics, "\n"))
	}
	if w.V.Deadlock && res.vio == nil && res.harness == "" {
		vio("deadlock", "deadlock:"+tag, w.V.DeadlockMsg)
	}
	if res.vio != nil {
		res.outcome = "VIOLATION:" + res.vio.Class
		if trace {
			res.vio.Detail += "\ntrace: " + strings.Join(w.V.Trace, " ")
		}
		if len(w.Faults) > 0 {
			res.vio.Detail += fmt.Sprintf("\ninjected faults: %v", w.Faults)
		}
	}
	if res.outcome == "" {
		res.outcome = "ended"
	}
	return res
}

// injected reports whether err is the direct signature of an injected fault.
func injected(err error) bool {
	s := err.Error()
	for _, sig := range []string{"injected fault", "unexpected EOF", "simulated rpc error", "connection reset by peer", "conn closed", "rpc http error: 500"} {
		if strings.Contains(s, sig) {
			return true
		}
	}
	return false
}

// maxBlockAsked is the greatest block number an exchange asks about (0 for requests by tag).
func maxBlockAsked(ex *simeth.Exchange) uint64 {
	var m uint64
	num := func(v any) {
		if s, ok := v.(string); ok && strings.HasPrefix(s, "0x") {
			if n, err := strconv.ParseUint(s[2:], 16, 64); err == nil && n > m {
				m = n
			}
		}
	}
	for _, cl := range ex.Calls {
		if len(cl.Params) == 0 {
			continue
		}
		if f, ok := cl.Params[0].(map[string]any); ok {
			num(f["fromBlock"])
			num(f["toBlock"])
			continue
		}
		num(cl.Params[0])
	}
	return m
}

func c01Bounds(thorough bool, faults bool) explore.Bounds {
	var b explore.Bounds
	b[0], b[vrt.KPreempt], b[vrt.KOrder] = 1, 1, 1
	if thorough {
		b[0], b[vrt.KPreempt], b[vrt.KOrder] = 2, 2, 2
	}
	if faults {
		b[vrt.KFault] = 1
	}
	return b
}

func c01Run(c *fw.Ctx) {
	jobs := c01Jobs(c.Thorough())
	if n, _ := strconv.Atoi(os.Getenv("C01_MAXJOBS")); n > 0 && n < len(jobs) {
		stride := len(jobs) / n
		var sel []c01Job
		for i := 0; i < len(jobs); i += stride {
			sel = append(sel, jobs[i])
		}
		jobs = sel
	}
	c.Bound("jobs", len(jobs))
	c.Bound("preemptions", c01Bounds(c.Thorough(), false)[vrt.KPreempt])
	c.Bound("faults_per_execution_on_fault_jobs", 1)
	for _, j := range jobs {
		if !c.Mine() {
			continue
		}
		if c.Expired() {
			return
		}
		p, err := c01Prepare(j)
		if err != nil {
			c.HarnessError("prepare %+v: %v", j, err)
			return
		}
		states := vrt.NewStateSet()
		b := c01Bounds(c.Thorough(), j.Faults)
		if j.Lag {
			b[vrt.KEnv] = 1
		}
		st := explore.Explore(b, true, func(r *explore.Run) bool {
			res := c01Exec(j, p, r, states, false)
			if res.harness != "" {
				c.HarnessError("job %+v choices %v: %s", j, r.Trimmed(), res.harness)
				return false
			}
			if r.Diverged != "" {
				c.HarnessError("HARNESS-NONDETERMINISM job %+v: %s", j, r.Diverged)
				return false
			}
			c.Eval(res.rows > 0)
			c.Outcome(res.outcome)
			c.Res.Transitions += res.trans
			c.Res.Traces++
			if res.vio != nil {
				c.Violation("C01", res.vio.Class, res.vio.Key, fmt.Sprintf("job %+v\n%s", j, res.vio.Detail), c01Case{Job: j, Bounds: b, Choices: r.Choices()})
			}
			if c.Res.Evaluations%20011 == 1 {
				c.Sample(map[string]any{"job": j, "schedule": r.Trimmed(), "labels_tail": tailLabels(r.Labels(), 6), "outcome": res.outcome})
			}
			return !c.Expired()
		})
		c.Res.States += int64(states.Len())
		if dbg := os.Getenv("C01_DEBUG"); dbg != "" {
			f, _ := os.OpenFile(dbg, os.O_APPEND|os.O_CREATE|os.O_WRONLY, 0o644)
			fmt.Fprintf(f, "job %+v: executions=%d points=%d maxdepth=%d complete=%v\n", j, st.Executions, st.Points, st.MaxDepth, st.Complete)
			f.Close()
		}
		if !st.Complete {
			c.Cap("time-budget")
			return
		}
		c.Count("jobs_completed", 1)
		c.Count("lock_contentions", vrt.Contentions)
		vrt.Contentions = 0
	}
}

func tailLabels(l []string, n int) []string {
	if len(l) > n {
		return l[len(l)-n:]
	}
	return l
}

func c01Replay(c *fw.Ctx, raw json.RawMessage) {
	var k c01Case
	if err := json.Unmarshal(raw, &k); err != nil {
		c.HarnessError("bad case: %v", err)
		return
	}
	p, err := c01Prepare(k.Job)
	if err != nil {
		c.HarnessError("prepare: %v", err)
		return
	}
	r := explore.Replay(k.Choices)
	res := c01Exec(k.Job, p, r, nil, true)
	c.Eval(true)
	if res.harness != "" {
		c.HarnessError("%s", res.harness)
		return
	}
	if r.Diverged != "" {
		c.HarnessError("HARNESS-NONDETERMINISM replay diverged: %s", r.Diverged)
		return
	}
	if res.vio != nil {
		c.Violation("C01", res.vio.Class, res.vio.Key, res.vio.Detail, k)
	}
}
