//go:build verif

package pipe

import (
	"fmt"
	"math/big"
	"strings"

	"verifh/ref"
	"verifh/simeth"
	"verifh/world"
)

// ---- declaration shapes -------------------------------------------------------------------

var (
	addrA = simeth.Addr("contract-A")
	addrB = simeth.Addr("contract-B")
)

// Shape returns a fresh declaration of the named shape for integration name ig / table tbl.
func Shape(shape, ig, tbl string, srcs ...world.SrcRef) *world.Decl {
	d := &world.Decl{Name: ig, Table: tbl, Sources: srcs}
	switch shape {
	case "L1": // log event, indexed + non-indexed scalars + block fields; plan headers+logs
		d.Event = "Transfer"
		d.Inputs = []world.Input{
			{Name: "from", Type: "address", Indexed: true, Column: "f"},
			{Name: "to", Type: "address", Indexed: true, Column: "t"},
			{Name: "value", Type: "uint256", Column: "v"},
		}
		d.Fields = []world.Field{{Name: "block_time", Column: "block_time"}, {Name: "tx_hash", Column: "tx_hash"}, {Name: "log_addr", Column: "log_addr"}, {Name: "block_hash", Column: "block_hash"}}
	case "L2": // dynamic array input: several rows per log; plan logs only (no block hashes)
		d.Event = "Batch"
		d.Inputs = []world.Input{
			{Name: "op", Type: "address", Indexed: true, Column: "op"},
			{Name: "ids", Type: "uint256[]", Column: "id"},
		}
	case "L3": // all inputs indexed: log without data; plan headers+logs
		d.Event = "Ping"
		d.Inputs = []world.Input{
			{Name: "a", Type: "address", Indexed: true, Column: "a"},
			{Name: "n", Type: "uint256", Indexed: true, Column: "n"},
		}
		d.Fields = []world.Field{{Name: "block_time", Column: "block_time"}}
	case "L4": // dynamic values: a string scalar next to an array of byte strings, both sometimes empty (decoder row reuse)
		d.Event = "Posted"
		d.Inputs = []world.Input{
			{Name: "title", Type: "string", Column: "title"},
			{Name: "blobs", Type: "bytes[]", Column: "blob"},
		}
	case "T1": // transaction indexing with a filter; plan blocks
		d.Fields = []world.Field{{Name: "tx_hash", Column: "tx_hash"}, {Name: "tx_to", Column: "tx_to"}, {Name: "tx_value", Column: "tx_value"},
			{Name: "tx_input", Column: "tx_input"}, {Name: "tx_nonce", Column: "tx_nonce", Op: "gt", Arg: []string{"1"}}, {Name: "block_hash", Column: "block_hash"}}
	case "R1": // transaction + receipt fields; plan blocks+receipts
		d.Fields = []world.Field{{Name: "tx_hash", Column: "tx_hash"}, {Name: "tx_input", Column: "tx_input"}, {Name: "tx_status", Column: "tx_status"},
			{Name: "tx_gas_used", Column: "tx_gas_used"}, {Name: "block_hash", Column: "block_hash"}}
	case "L5": // log event restricted to two contracts by a multi-argument eq filter on the log address (pushed down to eth_getLogs)
		d.Event = "Transfer"
		d.Inputs = []world.Input{
			{Name: "from", Type: "address", Indexed: true, Column: "f"},
			{Name: "to", Type: "address", Indexed: true, Column: "t"},
			{Name: "value", Type: "uint256", Column: "v"},
		}
		d.Fields = []world.Field{{Name: "log_addr", Column: "log_addr", Op: "eq", Arg: []string{fmt.Sprintf("0x%x", addrA), fmt.Sprintf("0x%x", addrB)}}}
	case "TR2": // trace indexing that also stores receipt fields; plan receipts+traces
		d.Fields = []world.Field{{Name: "trace_action_from", Column: "tfrom"}, {Name: "trace_action_to", Column: "tto"},
			{Name: "trace_action_value", Column: "tval"}, {Name: "tx_status", Column: "tx_status"}, {Name: "tx_gas_used", Column: "tx_gas_used"}, {Name: "tx_hash", Column: "tx_hash"}}
	case "TR1": // trace indexing; plan blocks+traces
		d.Fields = []world.Field{{Name: "trace_action_from", Column: "tfrom"}, {Name: "trace_action_to", Column: "tto"},
			{Name: "trace_action_value", Column: "tval"}, {Name: "trace_action_call_type", Column: "tct"}, {Name: "tx_hash", Column: "tx_hash"}}
	default:
		panic("unknown shape " + shape)
	}
	return d
}

var Shapes = []string{"L1", "L2", "L3", "L4", "T1", "R1", "TR1"}

// ExtraShapes run on a reduced job product (see c01Jobs)
var ExtraShapes = []string{"L5", "TR2"}

// decoys: declarations whose logs must NOT produce rows for the shapes above
var (
	decoyOther = &world.Decl{Name: "decoy", Event: "Other", Inputs: []world.Input{{Name: "x", Type: "address", Indexed: true, Column: "x"}, {Name: "y", Type: "uint256", Column: "y"}}}
)

// mkLog builds the i-th matching log of decl d (values derived from a seed string).
func mkLog(d *world.Decl, addr []byte, seed string) *simeth.Log {
	var vals []ref.Value
	for i, in := range d.Inputs {
		s := fmt.Sprintf("%s/%s/%d", seed, in.Name, i)
		switch {
		case strings.HasSuffix(in.Type, "[]"):
			n := int(simeth.Word(s + "/len")[0])%3 + 1 // 1..3 elements
			var els []any
			for k := 0; k < n; k++ {
				els = append(els, scalarVal(strings.TrimSuffix(in.Type, "[]"), fmt.Sprintf("%s/%d", s, k)))
			}
			vals = append(vals, els)
		default:
			vals = append(vals, scalarVal(in.Type, s))
		}
	}
	return d.MkLog(addr, vals...)
}

func scalarVal(typ, seed string) []byte {
	switch {
	case typ == "address":
		return world.AddrWord(simeth.Addr(seed))
	case typ == "bool":
		return world.U(uint64(simeth.Word(seed)[0] & 1))
	case strings.HasPrefix(typ, "uint"), strings.HasPrefix(typ, "int"):
		x := new(big.Int).SetBytes(simeth.Word(seed)[:12])
		return world.WordBig(x)
	case typ == "string", typ == "bytes":
		// every third value is empty: a decoder that reuses rows must not leak the previous log's value
		w := simeth.Word(seed)
		v := w[:int(w[31]%3)*int(1+w[30]%9)]
		if typ == "string" {
			return []byte(fmt.Sprintf("%x", v)) // valid UTF-8
		}
		return v
	}
	return simeth.Word(seed)
}

// blockOfKind builds the content of one block of the given kind for decl d.
//
//	e: empty block
//	a: one tx, one matching log, one trace
//	b: one tx: matching + other-signature decoy + wrong-topic-count decoy + matching from another address; two traces
//	c: two txs with two matching logs each, one trace each
//	d: one tx without logs, one trace
func blockOfKind(kind byte, d *world.Decl, seed string) simeth.BlockSpec {
	tr := func(s string) *simeth.Trace {
		return &simeth.Trace{From: simeth.Addr(s + "/tf"), To: simeth.Addr(s + "/tt"), Value: new(big.Int).SetBytes(simeth.Word(s + "/tv")[:9]), CallType: "call"}
	}
	lg := func(s string, addr []byte) *simeth.Log {
		if d.Event == "" {
			return mkLog(decoyOther, addr, s)
		}
		return mkLog(d, addr, s)
	}
	switch kind {
	case 'e':
		return simeth.BlockSpec{}
	case 'a':
		return simeth.BlockSpec{Txs: []simeth.TxSpec{{Logs: []*simeth.Log{lg(seed+"/0", addrA)}, Traces: []*simeth.Trace{tr(seed + "/0")}}}}
	case 'b':
		wrong := lg(seed+"/w", addrA)
		wrong.Topics = append(wrong.Topics, simeth.Word(seed+"/extra")) // same first topic, other topic count
		wrong.Note = nil
		return simeth.BlockSpec{Txs: []simeth.TxSpec{{
			Logs:   []*simeth.Log{mkLog(decoyOther, addrA, seed+"/d"), lg(seed+"/0", addrA), wrong, lg(seed+"/1", addrB)},
			Traces: []*simeth.Trace{tr(seed + "/0"), tr(seed + "/1")},
		}}}
	case 'c':
		return simeth.BlockSpec{Txs: []simeth.TxSpec{
			{Logs: []*simeth.Log{lg(seed+"/0", addrA), lg(seed+"/1", addrA)}, Traces: []*simeth.Trace{tr(seed + "/0")}},
			{Logs: []*simeth.Log{lg(seed+"/2", addrA), lg(seed+"/3", addrB)}, Traces: []*simeth.Trace{tr(seed + "/1")}},
		}}
	case 'd':
		return simeth.BlockSpec{Txs: []simeth.TxSpec{{Traces: []*simeth.Trace{tr(seed + "/0")}}}}
	}
	panic("block kind")
}

// buildChain builds genesis + one block per letter of word.
func buildChain(word string, d *world.Decl, salt uint64) *simeth.Chain {
	var specs []simeth.BlockSpec
	for i := 0; i < len(word); i++ {
		specs = append(specs, blockOfKind(word[i], d, fmt.Sprintf("s%d/b%d", salt, i+1)))
	}
	return simeth.Build(specs, salt)
}

// words enumerates all words of exactly n letters over alphabet.
func words(alphabet string, n int) []string {
	if n == 0 {
		return []string{""}
	}
	var out []string
	for _, w := range words(alphabet, n-1) {
		for i := 0; i < len(alphabet); i++ {
			out = append(out, w+string(alphabet[i]))
		}
	}
	return out
}

func ceilDiv(a, b int) int { return (a + b - 1) / b }
