//go:build verif

// Package pipe holds the pipeline harnesses (world = fake Postgres + simulated node + controlled runtime).
package pipe
