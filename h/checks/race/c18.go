//go:build verif

package race

import (
	"encoding/json"
	"fmt"
	"os"
	"regexp"
	"sort"
	"strings"
	"time"

	"verifh/checks"
	"verifh/explore"
	"verifh/fw"
	"verifh/simeth"
	"verifh/simpg"
	"verifh/vrt"
	sync "verifh/vrt/vsync"
	"verifh/world"
)

// C18 — the concurrent indexing pipeline is free of data races.
//
// The same pipeline bodies as the semantic harnesses run under the controlled scheduler in
// a -race build. The scheduler's hand-offs are hidden from the detector and the modelled
// primitives carry exactly the happens-before edges of the real ones (vrt, vsync), so the
// detector's happens-before analysis is applied to EVERY enumerated schedule instead of to
// whatever schedule the OS happens to produce. A report is attributed to the execution
// during which runtime.RaceErrors() increased; its identity is the unordered pair of the
// innermost indexsupply/shovel frames of the two conflicting accesses.

type job struct {
	Faults   bool   `json:"faults,omitempty"` // scenario a with one injected JSON-RPC fault (error paths of a partitioned load)
	Scenario string `json:"scenario"`         // a: one task, partitions; b: two tasks one client; c: b + head poller ticks; d: b + growth + reorg; e: phased poller announcements around cached-head reads
	Shapes   string `json:"shapes"`           // e.g. "L1" or "L1+T1"
	Batch    int    `json:"batch"`
	Conc     int    `json:"conc"`
	Free     bool   `json:"free"`  // step boundaries are free switches (all step-granular interleavings at bound 0)
	Total    int    `json:"total"` // bound on deviations per execution
}

type c18Case struct {
	Job     job    `json:"job"`
	Bounds  [6]int `json:"bounds"`
	Choices []int  `json:"choices"`
}

func init() {
	checks.Register(&checks.Check{
		ID:        "C18",
		Level:     "model_checking",
		Technique: "stateless model checking under the Go race detector: every schedule of the real pipeline enumerated by the controlled scheduler (hand-offs invisible to the detector, modelled primitives annotated with the real happens-before edges) is judged by the detector's happens-before analysis",
		Rule: "scenarios: (a) one task with concurrency 2..4 (partitioned load), (b) two tasks sharing one source client and its caches with equal and different data plans (headers+logs, blocks, blocks+receipts, blocks+traces) over the same range, (c) = (b) plus the background head poller receiving ticks, (d) = (b) plus head growth and a reorg in flight, (a+faults) = (a) with an error reply injected at any one JSON-RPC exchange (error paths of a partitioned load next to succeeding siblings), (e) = (b) with the head poller announcing one head before and a grown head after the steps that read the cached head; " +
			"per scenario every schedule with <= 1 preemption and <= 1 partition reordering (thorough: 2). An execution is non-trivial when at least two controlled threads of the code under test ran; distinct = distinct (job, choice sequence).",
		Assumptions: []string{
			"an execution whose replayed schedule prefix does not fit (observed once in ~10^5 executions of the thorough tier; the only wall-clock dependent code in the loop is net/http's 10 s Client.Timeout under the race detector's slowdown) is re-run up to 2 times and counted (transient_divergences_retried); a divergence that persists is a harness error",
			"the Go race detector (ThreadSanitizer) decides each explored schedule; its report de-duplication means a racing pair is reported once per process, so violations are identified by the pair of source locations, not counted per schedule",
			"simulators use real mutexes: they add happens-before edges a real out-of-process Postgres/node would not give (this can only hide, never invent, a race); the explorer compensates by preempting right after each access window",
			"library-internal goroutines (pgx, net/http) run uncontrolled but are correctly synchronised by their own primitives",
			"a self-test at worker start shows that a deliberately racy program IS reported and a mutex-protected one is NOT, in the same binary",
		},
		Budget:        map[string]time.Duration{"quick": 170 * time.Second, "thorough": 1100 * time.Second},
		MinNontrivial: 200,
		Inst:          true,
		Race:          true,
		ReplayLoose:   true,
		Run:           run,
		Replay:        replay,
	})
}

// ---- instrumented probe for the self-test (NOT norace) ---------------------------------------

type probe struct {
	mu sync.Mutex
	x  int
}

func poke(p *probe) { p.x++ }

//go:norace
func selfTest(locked bool) (reports int) {
	var b explore.Bounds
	b[vrt.KPreempt] = 2
	explore.Explore(b, false, func(r *explore.Run) bool {
		w := vrt.NewWorld(r)
		p := &probe{}
		before := vrt.RaceErrors()
		w.Run(func() { selfBody(w, p, locked) })
		if vrt.RaceErrors() > before {
			reports++
		}
		w.Close()
		return true
	})
	return reports
}

func selfBody(w *vrt.World, p *probe, locked bool) {
	work := func() {
		for k := 0; k < 2; k++ {
			if locked {
				p.mu.Lock()
			}
			vrt.Yield("io")
			poke(p)
			if locked {
				p.mu.Unlock()
			}
		}
	}
	t1 := w.GoNamed("a", work)
	t2 := w.GoNamed("b", work)
	w.Join(t1, t2)
}

// ---- jobs ------------------------------------------------------------------------------------

//go:norace
func jobs(thorough bool) []job {
	var js []job
	if !thorough {
		// quick: a representative of every scenario x plan family (race mode costs ~50-200 ms per execution)
		for _, sh := range []string{"L1", "T1", "R1", "TR1"} {
			js = append(js, job{Scenario: "a", Shapes: sh, Batch: 4, Conc: 2})
		}
		js = append(js, job{Scenario: "a", Shapes: "L1", Batch: 4, Conc: 4})
		js = append(js,
			job{Scenario: "b", Shapes: "L1+T1", Batch: 2, Conc: 1}, job{Scenario: "b", Shapes: "T1+R1", Batch: 2, Conc: 1},
			job{Scenario: "b", Shapes: "L1+L1", Batch: 2, Conc: 1}, job{Scenario: "b", Shapes: "R1+TR1", Batch: 4, Conc: 2},
			job{Scenario: "c", Shapes: "L1+T1", Batch: 2, Conc: 1},
			job{Scenario: "d", Shapes: "L1+T1", Batch: 2, Conc: 1},
			job{Scenario: "e", Shapes: "L1", Batch: 2, Conc: 1},
			job{Scenario: "a", Shapes: "L1", Batch: 4, Conc: 2, Faults: true}, job{Scenario: "a", Shapes: "T1", Batch: 4, Conc: 2, Faults: true})
		return js
	}
	for _, sh := range []string{"L1", "T1", "R1", "TR1"} {
		for _, cc := range []int{2, 3, 4} {
			js = append(js, job{Scenario: "a", Shapes: sh, Batch: 4, Conc: cc, Total: 2})
		}
	}
	for _, sh := range []string{"L1", "T1", "R1", "TR1"} {
		js = append(js, job{Scenario: "a", Shapes: sh, Batch: 4, Conc: 2, Faults: true, Total: 2}, job{Scenario: "a", Shapes: sh, Batch: 4, Conc: 4, Faults: true})
	}
	pairs := []string{"L1+L1", "L1+T1", "T1+R1", "L1+TR1", "T1+T1", "R1+TR1", "L1+R1"}
	for _, sc := range []string{"b", "c", "d", "e"} {
		for i, p := range pairs {
			js = append(js, job{Scenario: sc, Shapes: p, Batch: 2, Conc: 1, Free: sc == "b" && i < 3}, job{Scenario: sc, Shapes: p, Batch: 4, Conc: 2})
		}
	}
	return js
}

type prep struct {
	conf  string
	snap  *simpg.Snapshot
	chain *simeth.Chain
	grown *simeth.Chain
	reorg *simeth.Chain
}

var prepCache = map[string]*prep{}

//go:norace
func prepare(j job) (*prep, error) {
	key := fmt.Sprintf("%+v", j)
	if p, ok := prepCache[key]; ok {
		return p, nil
	}
	var decls []*world.Decl
	for i, sh := range strings.Split(j.Shapes, "+") {
		decls = append(decls, Shape(sh, fmt.Sprintf("ig%d", i+1), fmt.Sprintf("t%d", i+1), world.SrcRef{Name: "src1", Start: 1}))
	}
	p := &prep{}
	p.conf = world.ConfJSON([]world.Source{{Name: "src1", ChainID: 7, URL: "http://node1", Batch: j.Batch, Conc: j.Conc}}, decls)
	conf, err := world.ParseConf(p.conf)
	if err != nil {
		return nil, err
	}
	if p.snap, err = world.InitDB(conf); err != nil {
		return nil, err
	}
	// every block has two transactions with logs of the first declaration (and decoys) and traces
	word := "cccccccc"
	p.chain = buildChain(word[:6], decls[0], 1)
	p.grown = buildChain(word, decls[0], 1)
	p.reorg = p.grown.Reorg(5, []simeth.BlockSpec{blockOfKind('a', decls[0], "r/6"), blockOfKind('c', decls[0], "r/7"), blockOfKind('a', decls[0], "r/8")}, 2)
	prepCache[key] = p
	return p, nil
}

type result struct {
	reports  []report
	threads  int
	harness  string
	outcome  string
	trans    int64
	diverged string
}

//go:norace
func exec(j job, p *prep, ch vrt.Chooser, states *vrt.StateSet, log *raceLog) (res result) {
	w := world.New(ch, world.Cfg{Snap: p.snap, Chains: map[string]*simeth.Chain{"node1": p.chain}})
	w.V.States = states
	w.V.StateKey = w.StateKeyFn("node1")
	before := vrt.RaceErrors()
	log.mark()
	w.Run(func() { body(w, j, p) })
	// w.Run includes the teardown; only reports logged before the body ended count
	res.reports = log.collect(w.BodyEndRaceErrors > before)
	res.trans = w.V.Transitions
	res.threads = len(w.V.Threads())
	res.harness = w.HarnessErr
	if len(w.V.Panics) > 0 {
		res.outcome = "panic"
		res.harness = "panic in pipeline (judged by the semantic checks, not by C18): " + w.V.Panics[0]
	}
	if w.V.Deadlock {
		res.harness = "deadlock: " + w.V.DeadlockMsg
	}
	return res
}

// body is the main controlled thread. It is instrumented like application code, so it
// touches no state shared with the threads it starts except through the scheduler.
func body(w *world.W, j job, p *prep) {
	conf, err := world.ParseConf(p.conf)
	if err != nil {
		w.HarnessErr = err.Error()
		return
	}
	tasks, err := w.LoadTasks(conf)
	if err != nil {
		w.HarnessErr = "loadTasks: " + err.Error()
		return
	}
	if j.Faults {
		w.RPCFaultKinds = 1 // after start-up: an error reply at any one JSON-RPC exchange of the steps
	}
	var ts []*vrt.Thread
	if j.Scenario == "e" {
		// phased: the first step starts the head poller; it is then let run until it waits for its first tick, and is
		// ticked, so that by default it announces a head BEFORE the tasks' later steps read the cached head and
		// announces a second (grown) head after them: every schedule within the bound around that default is explored
		w.V.NoPreempt = true // the prefix is scripted; scenarios b and c explore the first step's interleavings
		first := w.V.GoNamed("task1-first", func() { tasks[0].Step() })
		w.V.Join(first)
		w.V.WaitIdle()
		w.V.NoPreempt = false
		for _, tk := range w.V.Tickers() {
			w.V.Tick(tk)
		}
	}
	for i, t := range tasks {
		t := t
		ts = append(ts, w.V.GoNamed(fmt.Sprintf("task%d", i+1), func() {
			steps := 2
			if j.Scenario == "e" {
				steps = 1 // one more step each after the phased first step
			}
			for s := 0; s < steps; s++ {
				if j.Free {
					vrt.Boundary("step")
				} else {
					vrt.Yield("boundary:step")
				}
				if w.V.Closing() {
					return
				}
				t.Step()
			}
		}))
	}
	switch j.Scenario {
	case "c":
		env := w.V.GoNamed("env", func() {
			for k := 0; k < 2; k++ {
				vrt.Yield("env:tick")
				for _, tk := range w.V.Tickers() {
					w.V.Tick(tk)
				}
			}
		})
		env.OnlyAt = rpcOrBoundary // a tick only feeds the poller; it commutes with everything but the exchanges
		ts = append(ts, env)
	case "e":
		env := w.V.GoNamed("env", func() {
			vrt.Yield("env:tick")
			w.SetChain("node1", p.grown, "grow")
			for _, tk := range w.V.Tickers() {
				w.V.Tick(tk)
			}
		})
		env.OnlyAt = rpcOrBoundary
		ts = append(ts, env)
	case "d":
		env := w.V.GoNamed("env", func() {
			w.SetChain("node1", p.grown, "grow")
			w.SetChain("node1", p.reorg, "reorg")
		})
		env.OnlyAt = rpcOrBoundary
		ts = append(ts, env)
	}
	w.V.Join(ts...)
	w.BodyEndRaceErrors = vrt.RaceErrors()
}

//go:norace
func rpcOrBoundary(l string) bool {
	return strings.HasPrefix(l, "rpc:") || strings.HasPrefix(l, "boundary:")
}

// ---- race report log -----------------------------------------------------------------------------

type report struct {
	Key  string
	Text string
}

type raceLog struct {
	path string
	off  int64
}

//go:norace
func openRaceLog() *raceLog {
	// GORACE=log_path=<p> makes the runtime write to <p>.<pid>
	for _, f := range strings.Fields(os.Getenv("GORACE")) {
		if strings.HasPrefix(f, "log_path=") {
			return &raceLog{path: fmt.Sprintf("%s.%d", strings.TrimPrefix(f, "log_path="), os.Getpid())}
		}
	}
	return &raceLog{}
}

//go:norace
func (l *raceLog) size() int64 {
	if l.path == "" {
		return 0
	}
	st, err := os.Stat(l.path)
	if err != nil {
		return 0
	}
	return st.Size()
}

//go:norace
func (l *raceLog) mark() { l.off = l.size() }

var (
	frameRe = regexp.MustCompile(`^\s+(\S+)\(\)\s*$`)
	headRe  = regexp.MustCompile(`^(Read|Write|Previous read|Previous write|Atomic read|Atomic write|Previous atomic read|Previous atomic write) at 0x[0-9a-f]+ by `)
)

// collect parses the reports appended since mark. any=false: nothing was reported before the body ended.
//
//go:norace
func (l *raceLog) collect(any bool) []report {
	if l.path == "" || !any {
		l.off = l.size()
		return nil
	}
	b, err := os.ReadFile(l.path)
	if err != nil || int64(len(b)) <= l.off {
		return nil
	}
	text := string(b[l.off:])
	l.off = int64(len(b))
	var out []report
	for _, blk := range strings.Split(text, "==================") {
		if !strings.Contains(blk, "WARNING: DATA RACE") {
			continue
		}
		var accesses []string
		var cur string
		inAccess := false
		for _, ln := range strings.Split(blk, "\n") {
			if m := headRe.FindStringSubmatch(ln); m != nil {
				if inAccess && cur != "" {
					accesses = append(accesses, cur)
				}
				kind := strings.ToLower(strings.TrimPrefix(m[1], "Previous "))
				cur, inAccess = kind+"@?", true
				continue
			}
			if strings.HasPrefix(ln, "Goroutine ") {
				if inAccess && cur != "" {
					accesses = append(accesses, cur)
				}
				inAccess, cur = false, ""
				continue
			}
			if inAccess && strings.HasSuffix(cur, "@?") {
				if m := frameRe.FindStringSubmatch(ln); m != nil && strings.Contains(m[1], "github.com/indexsupply/shovel/") {
					fn := strings.TrimPrefix(m[1], "github.com/indexsupply/shovel/")
					cur = strings.TrimSuffix(cur, "?") + fn
				}
			}
		}
		if inAccess && cur != "" {
			accesses = append(accesses, cur)
		}
		if len(accesses) > 2 {
			accesses = accesses[:2]
		}
		sort.Strings(accesses)
		key := "race:" + strings.Join(accesses, " <-> ")
		if len(blk) > 3000 {
			blk = blk[:3000]
		}
		out = append(out, report{Key: key, Text: strings.TrimSpace(blk)})
	}
	return out
}

// ---- run -----------------------------------------------------------------------------------------

//go:norace
func bounds(j job) explore.Bounds {
	var b explore.Bounds
	n := j.Total
	if n == 0 {
		n = 1
	}
	b[0], b[vrt.KPreempt], b[vrt.KOrder] = n, n, n
	if j.Faults {
		b[vrt.KFault] = 1 // one failing exchange, with or (Total 2) without a further deviation
	}
	return b
}

//go:norace
func run(c *fw.Ctx) {
	if !vrt.RaceEnabled {
		c.HarnessError("C18 needs the -race build")
		return
	}
	log := openRaceLog()
	if log.path == "" {
		c.HarnessError("GORACE log_path not set by the orchestrator")
		return
	}
	// self-test: the machinery must report a real race and must not report a protected access
	if n := selfTest(true); n != 0 {
		c.HarnessError("self-test: mutex-protected program reported races in %d schedules", n)
		return
	}
	if c.Shard == 0 {
		if n := selfTest(false); n == 0 {
			c.HarnessError("self-test: deliberately racy program was not reported")
			return
		}
		c.Count("selftest_racy_program_reported", 1)
	}
	log.mark()
	explore.MaxRetry = 2
	js := jobs(c.Thorough())
	if os.Getenv("C18_FREEONLY") != "" { // development aid: only the jobs with free step boundaries
		var sel []job
		for _, j := range js {
			if j.Free {
				sel = append(sel, j)
			}
		}
		js = sel
	}
	c.Bound("jobs", len(js))
	c.Bound("deviations_per_execution", "1 (quick); thorough: 2 for the single-task scenario, 1 plus free step boundaries for the multi-task scenarios")
	seen := map[string]bool{}
	for _, j := range js {
		// every worker explores its share of EVERY job (subtrees of the root execution are dealt round robin)
		if c.Expired() {
			return
		}
		p, err := prepare(j)
		if err != nil {
			c.HarnessError("prepare %+v: %v", j, err)
			return
		}
		states := vrt.NewStateSet()
		b := bounds(j)
		st := explore.ExploreShard(b, true, c.Shard, c.NShards, func(r *explore.Run) bool {
			res := exec(j, p, r, states, log)
			if r.Foreign && res.harness == "" && r.Diverged == "" {
				return !c.Expired()
			}
			if r.Diverged != "" && r.Attempt < explore.MaxRetry {
				// the replayed prefix did not fit: re-run it (the only known source is wall-clock behaviour of net/http's
				// client under the race detector's slowdown); a divergence that persists is a harness error below
				c.Count("transient_divergences_retried", 1)
				return !c.Expired()
			}
			if res.harness != "" {
				c.HarnessError("job %+v choices %v: %s", j, r.Trimmed(), res.harness)
				return false
			}
			if r.Diverged != "" {
				c.HarnessError("HARNESS-NONDETERMINISM job %+v: %s", j, r.Diverged)
				return false
			}
			c.Eval(res.threads >= 3)
			c.Res.Transitions += res.trans
			c.Res.Traces++
			if len(res.reports) == 0 {
				c.Outcome("no-report")
			}
			for _, rp := range res.reports {
				c.Outcome("race-report")
				if !strings.Contains(rp.Key, "@") || strings.Count(rp.Key, "@?") == 2 {
					c.Count("reports_without_shovel_frames", 1)
					if !seen[rp.Key] {
						seen[rp.Key] = true
						c.Sample(map[string]any{"report_without_shovel_frames": rp.Text})
					}
					continue
				}
				c.Violation("C18", "race", rp.Key, fmt.Sprintf("job %+v schedule %v\n%s", j, r.Trimmed(), rp.Text), c18Case{Job: j, Bounds: b, Choices: r.Choices()})
			}
			if c.Res.Evaluations%5003 == 1 {
				c.Sample(map[string]any{"job": j, "schedule": r.Trimmed(), "threads": res.threads})
			}
			return !c.Expired()
		})
		c.Res.States += int64(states.Len())
		if dbg := os.Getenv("C18_DEBUG"); dbg != "" {
			f, _ := os.OpenFile(dbg, os.O_APPEND|os.O_CREATE|os.O_WRONLY, 0o644)
			fmt.Fprintf(f, "shard %d job %+v: executions=%d maxdepth=%d complete=%v\n", c.Shard, j, st.Executions, st.MaxDepth, st.Complete)
			f.Close()
		}
		if !st.Complete {
			c.Cap("time-budget")
			return
		}
		c.Count("jobs_completed", 1)
		c.Count("lock_contentions", vrt.Contentions)
		vrt.Contentions = 0
	}
}

// replay re-executes the schedule in a fresh process: the detector reports a pair once per
// process, so the replay reproduces the report (the orchestrator starts one process per replay).
//
//go:norace
func replay(c *fw.Ctx, raw json.RawMessage) {
	var k c18Case
	if err := json.Unmarshal(raw, &k); err != nil {
		c.HarnessError("bad case: %v", err)
		return
	}
	log := openRaceLog()
	if log.path == "" {
		c.HarnessError("GORACE log_path not set")
		return
	}
	p, err := prepare(k.Job)
	if err != nil {
		c.HarnessError("prepare: %v", err)
		return
	}
	r := explore.Replay(k.Choices)
	res := exec(k.Job, p, r, nil, log)
	c.Eval(true)
	if res.harness != "" {
		c.HarnessError("%s", res.harness)
		return
	}
	for _, rp := range res.reports {
		c.Violation("C18", "race", rp.Key, rp.Text, k)
	}
}
