//go:build verif

// Package race holds world harnesses (see DESIGN.md §4).
package race
