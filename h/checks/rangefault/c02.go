//go:build verif

package rangefault

import (
	"encoding/json"
	"fmt"
	"os"
	"runtime"
	"sort"
	"strings"
	"time"

	"github.com/jackc/pgx/v5/pgxpool"

	"verifh/checks"
	"verifh/explore"
	"verifh/fw"
	"verifh/simeth"
	"verifh/simpg"
	"verifh/vrt"
	"verifh/world"
)

// C02 — rows and recorded position commit atomically; no partial state after failure.
//
// Scenario = a short history of one integration (growth-only for four plan shapes, a step that
// detects a reorg, a step of a dependent integration with reference look-ups). The fault-free
// run of the scenario is recorded; then the explorer enumerates, at every I/O operation after
// the set-up, every fault kind (SQL: error reply, connection drop; JSON-RPC: error object,
// transport error, HTTP 500, truncated body) and process death, singly (quick) and in pairs
// (thorough; the second fault may hit the retry). Oracle: every committed state is "rows cover
// exactly the blocks up to the recorded position", and the state after retrying to quiescence
// equals the final state of the fault-free run.

type c02Scn struct {
	Kind  string `json:"kind"`  // growth | reorg | dep
	Shape string `json:"shape"` // declaration shape of the integration under test (growth, reorg)
	Batch int    `json:"batch"`
	Conc  int    `json:"conc"`
	Fork  uint64 `json:"fork"`   // reorg: last common block (blocks fork+1..3 are replaced, the new chain has 4 blocks)
	NF    int    `json:"faults"` // fault budget of the enumeration
	// reorg with a SIBLING integration on the same source, indexed to the head before the reorg and idle since:
	// "other" = it writes another table, "same" = it shares the table of the integration under test. The old chain
	// then has 2*batch blocks (two positions of the integration under test), the last two are replaced.
	Sib string `json:"sib,omitempty"`
	// reorg whose positions are NOT aligned to the batch size: the old chain (Old blocks) was indexed while the head
	// stood at Pre and then at Old, so the last position covers only blocks Pre+1..Old although batch > that; blocks
	// Fork+1..Old are replaced by blocks with another transaction/log layout (their rows have other keys than the
	// orphaned rows) and the new chain has New blocks, so the position recorded after the reorg has another number
	// than the orphaned one.
	Pre uint64 `json:"pre,omitempty"`
	Old uint64 `json:"old,omitempty"`
	New uint64 `json:"new,omitempty"`
	// growth with a LARGE batch: the chain has Long blocks, most of them empty (rows in blocks 1, 32, 33, 64, 65, ... and
	// the last one), so that one step covers hundreds of blocks (batch sizes across the 256/257 boundary)
	Long int `json:"long,omitempty"`
	// the enumeration of one scenario is split into Parts disjoint slices: slice Part holds the executions
	// whose FIRST fault hits an I/O point with ordinal = Part (mod Parts)
	Part  int `json:"part"`
	Parts int `json:"parts"`
}

func (s c02Scn) name() string {
	switch s.Kind {
	case "reorg":
		if s.Sib != "" {
			return fmt.Sprintf("reorg:%s:fork%d:b%dc%d:sibling-%s-table", s.Shape, s.Fork, s.Batch, s.Conc, s.Sib)
		}
		if s.Pre > 0 {
			return fmt.Sprintf("reorg:%s:fork%d:b%dc%d:heads-%d-%d-then-%d-other-layout", s.Shape, s.Fork, s.Batch, s.Conc, s.Pre, s.Old, s.New)
		}
		return fmt.Sprintf("reorg:%s:fork%d:b%dc%d", s.Shape, s.Fork, s.Batch, s.Conc)
	case "dep":
		return fmt.Sprintf("dep:b%dc%d", s.Batch, s.Conc)
	}
	if s.Long > 0 {
		return fmt.Sprintf("growth:%s:b%dc%d:chain-of-%d-mostly-empty-blocks", s.Shape, s.Batch, s.Conc, s.Long)
	}
	return fmt.Sprintf("growth:%s:b%dc%d", s.Shape, s.Batch, s.Conc)
}

// class is the part of a violation key that names the scenario class (not the fault budget).
func (s c02Scn) class() string {
	switch s.Kind {
	case "reorg":
		if s.Sib != "" {
			return "reorg-with-sibling:" + s.Shape
		}
		if s.Pre > 0 {
			return "reorg-unaligned-other-layout:" + s.Shape
		}
		return "reorg:" + s.Shape
	case "dep":
		return "dep"
	}
	if s.Long > 0 {
		return "growth-large-batch:" + s.Shape
	}
	return "growth:" + s.Shape
}

type c02Case struct {
	Scn     c02Scn `json:"scn"`
	Choices []int  `json:"choices"`
}

func init() {
	checks.Register(&checks.Check{
		ID:        "C02",
		Level:     "fault_enumeration",
		Technique: "exhaustive fault enumeration on the real pipeline (instrumented code under the controlled scheduler, fake Postgres, simulated node): every I/O operation of the steps x every fault kind x process death, singly and in pairs; invariant checked in every committed state; differential check of the state after retry against the fault-free run",
		Rule: "scenarios = growth-only steps for shapes L1 (headers+logs), L2 (logs), T1 (blocks), R1 (blocks+receipts) x (batch,conc) in {1,3}x{1,2}; growth-only steps with a LARGE batch for L1 and T1: batch in {256, 257, 300} x conc in {1,2} on a chain of 302 mostly empty blocks (rows in blocks 1, 32, 33, 64, 65, ..., 256, 257, 288, 289, 302), so that one step covers 256 / 257 / 300 blocks and the next one the rest; a step that detects a reorg (3 blocks indexed, then the last 1 or 2 replaced and one appended) for L1 and T1; the same after a position that covers 2 or 3 blocks, with positions that are not aligned to the batch size and replacement blocks whose logs sit at other transaction/log indexes, alone and with a sibling integration of the same source (other table, same table) that sits at the head; a step of a dependent integration with reference look-ups (R indexed first). " +
			"Per scenario: every I/O point after the set-up (each SQL batch incl. begin/commit/COPY/copydone, each JSON-RPC exchange) x {SQL error, SQL connection drop | rpc error, transport error, HTTP 500, truncated body} and process death (all connections dropped, tasks and clients discarded, re-created by loadTasks); quick: every single fault, and every pair on the batch=1 conc=1 scenarios of L1 and T1 (growth, and reorg of the last block); thorough: every pair (large-batch scenarios: every single fault in both tiers). " +
			"After every step (failed or not) the code under test must hold nothing: no database session inside a transaction and no acquired pool connection; at the end the pool must close. " +
			"An execution is non-trivial when at least one fault or death was injected.",
		Assumptions: []string{
			"fake Postgres (h/simpg): a failed statement aborts the transaction, an error on COMMIT rolls back, a dropped connection rolls back; 'reply lost after the server executed the statement' is covered by process death before the next operation, not as a separate connection fault",
			"the chain does not change while the steps under test run (C01/C03 judge concurrent growth and reorgs)",
			"dependent scenario: the referenced integration is at the head and idle while the dependent one is stepped",
		},
		Budget:        map[string]time.Duration{"quick": 110 * time.Second, "thorough": 840 * time.Second},
		MinNontrivial: 1000,
		Inst:          true,
		Run:           c02Run,
		Replay:        c02Replay,
	})
}

func c02Scenarios(thorough bool) []c02Scn {
	var out []c02Scn
	// quick: every pair of faults on the batch=1 conc=1 scenarios of L1 and T1 (growth, reorg of the last block), single faults elsewhere
	nf := func(sh string, batch, conc int, fork uint64) int {
		if thorough || (batch == 1 && conc == 1 && (sh == "L1" || sh == "T1") && fork != 1) {
			return 2
		}
		return 1
	}
	for _, sh := range []string{"L1", "L2", "T1", "R1"} {
		for _, b := range []int{1, 3} {
			for _, c := range []int{1, 2} {
				out = append(out, c02Scn{Kind: "growth", Shape: sh, Batch: b, Conc: c, NF: nf(sh, b, c, 0)})
			}
		}
	}
	for _, sh := range []string{"L1", "T1"} {
		for _, fork := range []uint64{2, 1} {
			for _, c := range []int{1, 2} {
				out = append(out, c02Scn{Kind: "reorg", Shape: sh, Batch: 1, Conc: c, Fork: fork, NF: nf(sh, 1, c, fork)})
			}
		}
	}
	// the position rolled back by the reorg was recorded by a step of several blocks (the rows of the whole
	// batch have to go; found as a genuine defect of the pinned tree, repaired in /repo)
	out = append(out, c02Scn{Kind: "reorg", Shape: "L1", Batch: 3, Conc: 1, Fork: 2, NF: 1}, c02Scn{Kind: "reorg", Shape: "T1", Batch: 2, Conc: 1, Fork: 2, NF: 1})
	// ... and a sibling integration of the same source sits at the head (its positions must not influence the
	// range that is rolled back)
	for _, b := range []int{3, 2} {
		for _, sib := range []string{"other", "same"} {
			nfs := 1
			if thorough {
				nfs = 2
			}
			out = append(out, c02Scn{Kind: "reorg", Shape: "L1", Batch: b, Conc: 1, Fork: uint64(2*b - 2), NF: nfs, Sib: sib})
		}
	}
	// ... and the orphaned position is not aligned to the batch size while the replacement blocks have another
	// transaction/log layout: neither the position's nor the rows' unique index can stand in for a lost roll-back
	for _, v := range []c02Scn{
		{Batch: 3, Pre: 1, Old: 3, Fork: 1, New: 5}, // two blocks unwound (2,3), re-indexed as 2',3',4' -> position 4
		{Batch: 2, Pre: 2, Old: 3, Fork: 2, New: 5}, // one block unwound (3), re-indexed as 3',4' -> position 4
		{Batch: 3, Pre: 2, Old: 4, Fork: 2, New: 6}, // two blocks unwound (3,4), re-indexed as 3',4',5' -> position 5
	} {
		for _, c := range []int{1, 2} {
			v.Kind, v.Shape, v.Conc, v.NF = "reorg", "L1", c, 1
			if thorough {
				v.NF = 2
			}
			out = append(out, v)
		}
	}
	// large batches: one step covers hundreds of blocks (batch sizes across the 256/257 boundary, and 300) of a chain of
	// 302 mostly empty blocks; the second step takes the rest. Single faults (both tiers).
	for _, sh := range []string{"L1", "T1"} {
		for _, b := range []int{256, 257, 300} {
			for _, c := range []int{1, 2} {
				out = append(out, c02Scn{Kind: "growth", Shape: sh, Batch: b, Conc: c, NF: 1, Long: 302})
			}
		}
	}
	for _, bc := range [][2]int{{1, 1}, {3, 2}} {
		out = append(out, c02Scn{Kind: "dep", Batch: bc[0], Conc: bc[1], NF: nf("dep", bc[0], bc[1], 0)})
	}
	// heavier scenarios first (round-robin sharding); pair enumerations are split into slices
	sort.SliceStable(out, func(i, j int) bool { return out[i].NF*10+out[i].Batch > out[j].NF*10+out[j].Batch })
	var split []c02Scn
	for _, s := range out {
		s.Parts = 1
		if s.NF >= 2 {
			s.Parts = 8
		}
		for k := 0; k < s.Parts; k++ {
			s.Part = k
			split = append(split, s)
		}
	}
	return split
}

// pair = one (source, integration) whose invariant is judged.
type c02Pair struct {
	ig    string
	decl  *world.Decl
	table string
}

type c02Prep struct {
	scn      c02Scn
	conf     string
	snap     *simpg.Snapshot
	pairs    []c02Pair // integration under test LAST
	versions []*simeth.Chain
	final    *simeth.Chain
	test     string        // integration under test
	pre      *simeth.Chain // reorg with unaligned positions: the chain the node serves first
	word     string        // growth: block kinds of the chain
	// reference (fault-free) run
	refFinal string              // canonical final state
	want     map[string][]string // rendered projection per (integration, chain version, position, size of the referenced table)
	refSteps int
	refIO    []string
}

const (
	c02Src     = "src1"
	c02ChainID = 7
)

var c02PrepCache = map[string]*c02Prep{}

func c02Prepare(s c02Scn) (*c02Prep, error) {
	key := s.name()
	if p, ok := c02PrepCache[key]; ok {
		return p, nil
	}
	p := &c02Prep{scn: s}
	var decls []*world.Decl
	src := world.SrcRef{Name: c02Src, Start: 1}
	switch s.Kind {
	case "growth":
		d := shape(s.Shape, "ig1", "t1", src)
		decls = []*world.Decl{d}
		p.pairs = []c02Pair{{"ig1", d, "t1"}}
		p.test = "ig1"
		p.word = acWord(2 * s.Batch)
		if s.Long > 0 {
			p.word = sparseWord(s.Long)
		}
		c := buildChain(p.word, d, 1)
		p.versions, p.final = []*simeth.Chain{c}, c
	case "reorg":
		d := shape(s.Shape, "ig1", "t1", src)
		decls = []*world.Decl{d}
		p.pairs = []c02Pair{{"ig1", d, "t1"}}
		p.test = "ig1"
		oldLen := uint64(3)
		if s.Sib != "" {
			oldLen = uint64(2 * s.Batch)
			tbl := "t2"
			if s.Sib == "same" {
				tbl = "t1"
			}
			d2 := shape(s.Shape, "ig2", tbl, src)
			decls = append(decls, d2)
			p.pairs = []c02Pair{{"ig2", d2, tbl}, {"ig1", d, "t1"}}
		}
		newLen := oldLen + 1
		if s.Pre > 0 {
			oldLen, newLen = s.Old, s.New
		}
		old := buildChain(acWord(int(oldLen)), d, 1)
		// replacement blocks: other content (salt 2 seeds), the new chain is longer than the old one
		word := []byte(acWord(int(newLen))[s.Fork:])
		if s.Pre > 0 {
			for i := range word {
				if s.Fork+uint64(i)+1 <= oldLen {
					word[i] = 'z' // a replaced height: the matching log sits in another place of the block
				}
			}
		}
		repl := specsOf(string(word), d, 2, int(s.Fork)+1)
		nw := old.Reorg(s.Fork, repl, 2)
		p.versions, p.final = []*simeth.Chain{old, nw}, nw
		if s.Pre > 0 {
			p.pre = old.Truncate(s.Pre)
		}
	case "dep":
		r := shape("L1", "igr", "tr", src)
		d := &world.Decl{Name: "igd", Table: "td", Event: "Ping", Sources: []world.SrcRef{src},
			Inputs: []world.Input{
				{Name: "who", Type: "address", Indexed: true, Column: "who", Op: "contains", Ref: &world.Ref{Integration: "igr", Column: "f"}},
				{Name: "n", Type: "uint256", Column: "n"},
			},
			Fields: []world.Field{{Name: "tx_hash", Column: "tx_hash"}, {Name: "block_hash", Column: "block_hash"}},
		}
		decls = []*world.Decl{r, d}
		p.pairs = []c02Pair{{"igr", r, "tr"}, {"igd", d, "td"}}
		p.test = "igd"
		var specs []simeth.BlockSpec
		for b := 1; b <= 2*s.Batch; b++ {
			var txs []simeth.TxSpec
			for t := 0; t <= b%2; t++ {
				seed := fmt.Sprintf("dep/b%d/t%d", b, t)
				rl := mkLog(r, addrA, seed+"/r")
				from := rl.Note.(*world.LogNote).Vals[0].([]byte)
				hit := d.MkLog(addrB, from, scalarVal("uint256", seed+"/n1"))
				miss := d.MkLog(addrB, scalarVal("address", seed+"/nobody"), scalarVal("uint256", seed+"/n2"))
				txs = append(txs, simeth.TxSpec{Logs: []*simeth.Log{rl, miss, hit}})
			}
			specs = append(specs, simeth.BlockSpec{Txs: txs})
		}
		c := simeth.Build(specs, 1)
		p.versions, p.final = []*simeth.Chain{c}, c
	default:
		return nil, fmt.Errorf("unknown scenario kind %q", s.Kind)
	}
	p.conf = world.ConfJSON([]world.Source{{Name: c02Src, ChainID: c02ChainID, URL: "http://node1", Batch: s.Batch, Conc: s.Conc}}, decls)
	conf, err := world.ParseConf(p.conf)
	if err != nil {
		return nil, err
	}
	if p.snap, err = world.InitDB(conf); err != nil {
		return nil, err
	}
	// every block must produce rows for the integration under test (a written block is visible); on the long chains of
	// the large-batch scenarios: every block that is not declared empty
	td := p.pairs[len(p.pairs)-1].decl
	for _, v := range p.versions {
		for b := uint64(1); b < uint64(len(v.Blocks)); b++ {
			look := func(string, string, []byte) bool { return true }
			if s.Long > 0 && p.word[b-1] == 'e' {
				continue
			}
			if len(td.Expect(v, c02Src, c02ChainID, b, b, look)) == 0 {
				return nil, fmt.Errorf("scenario %s: block %d produces no rows", key, b)
			}
		}
	}
	// reference run
	ref := c02Exec(p, explore.Replay(nil), true, false)
	if ref.harness != "" {
		return nil, fmt.Errorf("reference run: %s", ref.harness)
	}
	p.refFinal, p.refSteps, p.refIO = ref.final, ref.steps, ref.io
	if len(ref.vios) > 0 {
		// the fault-free run itself violates the oracle: keep it, every execution will report it again
		return p, &c02RefFailed{ref.vios[0]}
	}
	if len(c02PrepCache) > 64 {
		c02PrepCache = map[string]*c02Prep{}
	}
	c02PrepCache[key] = p
	return p, nil
}

type c02RefFailed struct{ v fw.Violation }

func (e *c02RefFailed) Error() string { return "fault-free run: " + e.v.Key + ": " + e.v.Detail }

type c02Result struct {
	vios    []fw.Violation
	harness string
	final   string
	steps   int
	io      []string
	faults  []string
	deaths  int
	outcome string
	counts  map[string]int64
	trans   int64
}

// c02Canon renders the committed state for the differential oracle: every user table and the
// cursor table, without row ids and without the wall-clock columns.
func c02Canon(w *world.W, p *c02Prep) string {
	var sb strings.Builder
	tables := []string{"shovel.task_updates"}
	for _, pr := range p.pairs {
		dup := false
		for _, t := range tables {
			dup = dup || t == pr.table
		}
		if !dup {
			tables = append(tables, pr.table)
		}
	}
	for _, t := range tables {
		var cols []string
		for _, c := range w.TableCols(t) {
			if c != "insert_at" && c != "latency" {
				cols = append(cols, c)
			}
		}
		fmt.Fprintf(&sb, "== %s\n", t)
		for _, l := range world.RenderDump(w.PG.Dump(t), cols) {
			sb.WriteString(l)
			sb.WriteByte('\n')
		}
	}
	return sb.String()
}

// c02AwaitReleased returns the number of pool connections that stay acquired for good. pgxpool hands a broken
// connection back asynchronously (puddle destroys it in a goroutine of its own), so "still acquired" alone is a
// matter of timing. The verdict is not: a connection is leaked when it is still acquired although no goroutine of
// the pool is busy handing one back (goroutine dump) - that state cannot change any more.
func c02AwaitReleased(pool *pgxpool.Pool) int {
	t0 := time.Now()
	buf := []byte(nil)
	for i := 0; ; i++ {
		n := int(pool.Stat().AcquiredConns())
		if n == 0 {
			return 0
		}
		if i < 20 {
			time.Sleep(50 * time.Microsecond)
			continue
		}
		if buf == nil {
			buf = make([]byte, 1<<20)
		}
		stacks := string(buf[:runtime.Stack(buf, true)])
		pending := false
		for _, f := range []string{"destroyAcquiredResource", "AcquireAllIdle", "checkConnsHealth", "checkMinConns", "releaseAcquiredResource"} {
			pending = pending || strings.Contains(stacks, f)
		}
		if n = int(pool.Stat().AcquiredConns()); n == 0 {
			return 0
		}
		if !pending || time.Since(t0) > 60*time.Second {
			return n
		}
		time.Sleep(time.Millisecond)
	}
}

func c02SQLLabel(b simpg.Batch) string {
	s := ""
	if len(b.SQL) > 0 {
		f := strings.Fields(b.SQL[0])
		for i := 0; i < len(f) && i < 3; i++ {
			if i > 0 {
				s += " "
			}
			s += strings.ToLower(f[i])
		}
	}
	return "sql:" + b.Kind + ":" + s
}

func c02Exec(p *c02Prep, ch vrt.Chooser, reference, trace bool) (res c02Result) {
	s := p.scn
	chain0 := p.versions[0]
	if p.pre != nil {
		chain0 = p.pre
	}
	w := world.New(ch, world.Cfg{Snap: p.snap, Chains: map[string]*simeth.Chain{"node1": chain0}})
	w.V.TraceOn = trace
	res.counts = map[string]int64{}
	cls := s.class()
	vio := func(class, key, detail string) {
		for _, v := range res.vios {
			if v.Key == key {
				return
			}
		}
		res.vios = append(res.vios, fw.Violation{Property: "C02", Class: class, Key: key, Detail: detail})
	}

	// ---- oracle 1: the invariant of a committed state ----
	cols := map[string][]string{}
	checkState := func(where string) {
		if len(res.vios) > 0 {
			return
		}
		for _, pr := range p.pairs {
			cur, has := w.Latest(c02Src, pr.ig)
			c := uint64(0) // start-1
			if has {
				c = cur.Num
			}
			// chain version that served the blocks up to c
			ver := p.versions[0]
			if has && len(p.versions) > 1 {
				ver = nil
				for _, v := range p.versions {
					if c < uint64(len(v.Blocks)) && string(v.Blocks[c].Hash) == string(cur.Hash) {
						ver = v
						break
					}
				}
				if ver == nil {
					vio("partial", "partial:position-hash-of-no-chain-version:"+cls, fmt.Sprintf("%s: %s position %d carries hash %x, which is block %d of neither chain version", where, pr.ig, c, cur.Hash, c))
					return
				}
			}
			var rows []simpg.Row
			for _, r := range w.PG.Dump(pr.table) {
				if ig, _ := r.Vals["ig_name"].(string); ig == pr.ig { // (a table may be shared)
					rows = append(rows, r)
				}
			}
			var beyond []uint64
			for _, r := range rows {
				if n, ok := bigU(r.Vals["block_num"]); ok && n > c {
					beyond = append(beyond, n)
				}
			}
			if len(beyond) > 0 {
				vio("partial", "partial:rows-beyond-cursor:"+cls, fmt.Sprintf("%s: %s has %d rows of blocks %v beyond its recorded position %d (recorded: %v)", where, pr.ig, len(beyond), beyond, c, has))
				return
			}
			if cols[pr.table] == nil {
				cols[pr.table] = w.TableCols(pr.table)
			}
			var look world.RefLookup
			if s.Kind == "dep" {
				look = func(ig, col string, v []byte) bool {
					for _, pp := range p.pairs {
						if pp.ig != ig {
							continue
						}
						for _, r := range w.PG.Dump(pp.table) {
							if b, ok := r.Vals[col].([]byte); ok && string(b) == string(v) {
								return true
							}
						}
					}
					return false
				}
			}
			got := world.RenderDump(rows, cols[pr.table])
			vi, nref := 0, 0
			for i, v := range p.versions {
				if v == ver {
					vi = i
				}
			}
			if s.Kind == "dep" {
				nref = len(w.PG.Dump(p.pairs[0].table))
			}
			wkey := fmt.Sprintf("%s/%d/%d/%d", pr.ig, vi, c, nref)
			want, ok := p.want[wkey]
			if !ok {
				want = world.RenderRows(pr.decl.Expect(ver, c02Src, c02ChainID, 1, c, look), cols[pr.table])
				if p.want == nil {
					p.want = map[string][]string{}
				}
				p.want[wkey] = want
			}
			if strings.Join(got, "\n") != strings.Join(want, "\n") {
				key := "partial:rows-differ:" + cls
				if len(got) < len(want) {
					key = "partial:cursor-without-rows:" + cls
				}
				vio("partial", key, fmt.Sprintf("%s: %s recorded position %d but its rows are not the projection of blocks 1..%d (%d rows, expected %d)\n%s", where, pr.ig, c, c, len(got), len(want), world.DiffSorted(got, want)))
				return
			}
		}
	}

	armed := false // faults and death are offered
	dead := false
	leaked := false
	// slice of the enumeration: before the first fault, only I/O points of this slice offer alternatives
	ord, allowed := 0, true
	decide := func() {
		allowed = !(s.Parts > 1 && len(w.Faults)+res.deaths == 0 && ord%s.Parts != s.Part)
		ord++
	}
	w.FaultFilter = func(label string) bool {
		if !strings.HasPrefix(label, "rpc:") { // (for an rpc point OnExchange has decided already)
			decide()
		}
		return allowed
	}
	var saveSQL, saveRPC int
	die := func(label string) {
		dead, armed = true, false
		saveSQL, saveRPC = w.SQLFaultKinds, w.RPCFaultKinds
		w.SQLFaultKinds, w.RPCFaultKinds = 0, 0
		res.deaths++
		res.faults = append(res.faults, label+"=death")
		w.Death()
	}
	// process death as one more alternative at every SQL point (after the world's own gate: scheduling point + fault choice)
	inner := w.PG.Gate
	w.PG.Gate = func(b simpg.Batch) simpg.Fault {
		f := inner(b)
		if !armed || w.V.Cur() == nil || w.V.Closing() {
			return f
		}
		if b.Kind == "startup" || b.Kind == "terminate" || b.PrepareOnly || len(b.SQL) == 0 || strings.HasPrefix(strings.TrimSpace(b.SQL[0]), "--") {
			return f
		}
		label := c02SQLLabel(b)
		if f != simpg.FaultNone {
			res.counts["fault_sql"]++
			if b.InTx {
				res.counts["fault_inside_open_tx"]++
			}
			switch {
			case strings.HasPrefix(label, "sql:query:commit"):
				res.counts["fault_on_commit"]++
			case strings.HasPrefix(label, "sql:query:begin"):
				res.counts["fault_on_begin"]++
			case b.Kind == "copydone":
				res.counts["fault_on_copydone"]++
			case strings.HasPrefix(label, "sql:query:copy"):
				res.counts["fault_on_copy"]++
			case strings.HasPrefix(label, "sql:query:rollback"):
				res.counts["fault_on_rollback"]++
			}
			return f
		}
		if allowed && w.V.ChooseEnv(2, vrt.KFault, "death@"+label) == 1 {
			if b.InTx {
				res.counts["death_inside_open_tx"]++
			}
			if strings.HasPrefix(label, "sql:query:commit") {
				res.counts["death_before_commit"]++
			}
			die(label)
			return simpg.FaultDrop
		}
		return f
	}
	w.OnExchange = func(ex *simeth.Exchange) {
		if !armed {
			return
		}
		decide()
		if allowed && w.V.ChooseEnv(2, vrt.KFault, "death@rpc") == 1 {
			die("rpc")
			ex.Fault = simeth.Fault{Kind: "transport"}
		}
	}
	w.OnCommit = func(cm world.Commit) {
		res.counts["committed_states_checked"]++
		checkState(fmt.Sprintf("after %s #%d", cm.Ev.Kind, len(w.Commits)))
	}

	body := func() {
		conf, err := world.ParseConf(p.conf)
		if err != nil {
			w.HarnessErr = err.Error()
			return
		}
		var task *world.Task
		var all []*world.Task
		load := func() bool {
			ts, err := w.LoadTasks(conf)
			if err != nil {
				w.HarnessErr = fmt.Sprintf("loadTasks: %v", err)
				return false
			}
			task, all = nil, ts
			for _, t := range ts {
				if t.IG == p.test {
					task = t
				}
			}
			if task == nil {
				w.HarnessErr = "task under test not found"
				return false
			}
			return true
		}
		if !load() {
			return
		}
		// ---- set-up (no faults) ----
		runTo := func(t *world.Task, ig string, head uint64) bool {
			for i := 0; i < 40; i++ {
				out, err := t.Step()
				if w.V.Closing() {
					return false
				}
				w.V.WaitIdle() // a head poller started by the step parks on its ticker
				if out == "nothing" {
					if c, has := w.Latest(c02Src, ig); has && c.Num == head {
						return true
					}
					continue
				}
				if out != "ok" {
					vio("setup", "setup:"+out+":"+cls, fmt.Sprintf("set-up step of %s returned %q: %v", ig, out, err))
					return false
				}
			}
			vio("setup", "setup:noconverge:"+cls, fmt.Sprintf("set-up of %s did not reach block %d", ig, head))
			return false
		}
		switch s.Kind {
		case "reorg":
			if s.Sib != "" { // the sibling of the same process reaches the head first and then idles
				for _, t := range all {
					if t.IG == "ig2" && !runTo(t, "ig2", chain0.Head().Num) {
						return
					}
				}
			}
			if !runTo(task, p.test, chain0.Head().Num) {
				return
			}
			if p.pre != nil { // the head moves on and is indexed by a second, shorter position
				w.Node("node1").SetChain(p.versions[0])
				w.V.Bump()
				if !runTo(task, p.test, p.versions[0].Head().Num) {
					return
				}
			}
			w.Node("node1").SetChain(p.final)
			w.V.Bump()
		case "dep":
			ts, _ := w.LoadTasks(conf)
			var rt *world.Task
			for _, t := range ts {
				if t.IG == "igr" {
					rt = t
				}
			}
			if rt == nil || !runTo(rt, "igr", p.final.Head().Num) {
				if rt == nil {
					w.HarnessErr = "igr task not found"
				}
				return
			}
			if !load() { // the process the scenario is about starts here
				return
			}
		}
		checkState("after set-up")
		ioStart := len(w.IOLabels)
		w.RecordIO = reference
		arm := func() {
			armed = true
			if !reference {
				w.SQLFaultKinds, w.RPCFaultKinds = 2, 4
			}
		}
		if reference {
			armed = false
		} else {
			arm()
		}
		finalHead := p.final.Head().Num
		maxSteps := 24
		if p.refSteps > 0 {
			maxSteps = p.refSteps + 6*s.NF + 6
		}
		idle, okAfterFault, lastOut := 0, 0, ""
		var lastErr error
		for res.steps = 0; res.steps < maxSteps; {
			res.steps++
			nf := len(w.Faults) + res.deaths
			out, err := task.Step()
			lastOut, lastErr = out, err
			if w.V.Closing() {
				return
			}
			w.V.WaitIdle() // a head poller started by the step parks on its ticker
			if w.V.Closing() {
				return
			}
			injected := len(w.Faults)+res.deaths > nf
			if dead {
				// process death: every in-memory object is discarded, a new process starts
				checkState("after process death")
				if err := w.Revive(); err != nil {
					w.HarnessErr = "revive: " + err.Error()
					return
				}
				dead = false
				if !load() {
					return
				}
				w.SQLFaultKinds, w.RPCFaultKinds = saveSQL, saveRPC
				armed = true
			}
			checkState(fmt.Sprintf("after step %d returned %s", res.steps, out))
			if len(res.vios) > 0 {
				return
			}
			// ---- a step that has returned holds nothing: no session inside a transaction, no pool connection ----
			how := "failed-step"
			if out == "ok" {
				how = "step"
			}
			if txs := w.PG.OpenTxs(); len(txs) > 0 {
				leaked = true
				vio("leak", "leak:open-tx-after-"+how+":"+cls, fmt.Sprintf("step %d returned %q (%v) but %d database session(s) are still inside a transaction: nothing will ever end it (its rows stay locked, its connection is lost to the pool)", res.steps, out, err, len(txs)))
				return
			}
			if n := c02AwaitReleased(w.Pool); n > 0 {
				leaked = true
				vio("leak", "leak:pool-connection-after-"+how+":"+cls, fmt.Sprintf("step %d returned %q (%v) but %d pool connection(s) are still acquired: the step dropped a transaction handle without Commit/Rollback", res.steps, out, err, n))
				return
			}
			res.counts["steps_checked_for_leaks"]++
			switch out {
			case "panic":
				vio("panic", "panic:converge:"+cls, fmt.Sprintf("Converge panicked: %v (faults so far: %v)", err, append(append([]string{}, w.Faults...), res.faults...)))
				return
			case "ok":
				if len(w.Faults)+res.deaths > 0 {
					okAfterFault++
				}
			case "nothing", "error":
			case "reorg", "ahead", "done":
				if !injected && len(w.Faults)+res.deaths == 0 {
					vio("outcome", "outcome:"+out+":"+cls, fmt.Sprintf("fault-free step returned %q: %v", out, err))
					return
				}
			}
			if out == "error" && !injected && reference {
				vio("outcome", "outcome:error-without-fault:"+cls, fmt.Sprintf("fault-free step failed: %v", err))
				return
			}
			if out == "nothing" {
				idle++
			} else {
				idle = 0
			}
			if c, has := w.Latest(c02Src, p.test); idle >= 2 && has && c.Num == finalHead {
				break
			}
		}
		armed = false
		w.SQLFaultKinds, w.RPCFaultKinds = 0, 0
		if reference {
			res.io = append([]string{}, w.IOLabels[ioStart:]...)
		}
		res.final = c02Canon(w, p)
		if c, has := w.Latest(c02Src, p.test); idle < 2 || !has || c.Num != finalHead {
			vio("retry", "retry-stuck:"+cls+":"+errClass(lastErr), fmt.Sprintf("after %d steps the integration is not quiescent at block %d (position %v/%d, last outcome %q: %v)", res.steps, finalHead, has, c.Num, lastOut, lastErr))
			return
		}
		if !reference && res.final != p.refFinal {
			vio("retry", "retry-differs:"+cls, "final state after retry differs from the final state of the fault-free run\n"+
				world.DiffSorted(strings.Split(res.final, "\n"), strings.Split(p.refFinal, "\n")))
		}
		if okAfterFault > 0 {
			res.counts["executions_retry_redid_work"]++
		}
	}
	w.Run(func() {
		// the steps run in a thread of their own so that a deadlock of the code under test unwinds through its error paths at teardown
		tt := w.V.GoNamed("task", body)
		w.V.Join(tt)
		// Close the pool here: a connection the code under test never released would make Close wait for ever.
		if pool := w.Pool; pool != nil {
			if !leaked {
				if n := c02AwaitReleased(pool); n > 0 {
					leaked = true
					vio("leak", "leak:pool-connection-never-released:"+cls, fmt.Sprintf("at the end of the run %d pool connection(s) are still acquired and nothing is handing them back", n))
				}
			}
			done := make(chan struct{})
			go func() { pool.Close(); close(done) }()
			if !leaked {
				select {
				case <-done:
				case <-time.After(30 * time.Second):
					w.HarnessErr = "teardown: pool.Close hung although no connection is acquired"
				}
			}
			w.Pool = nil // (world teardown must not wait for it again)
		}
	})
	res.trans = w.V.Transitions
	res.faults = append(append([]string{}, w.Faults...), res.faults...)
	if w.HarnessErr != "" {
		res.harness = w.HarnessErr
	}
	if len(w.V.Panics) > 0 {
		vio("panic", "panic:thread:"+cls, strings.Join(w.V.Panics, "\n"))
	}
	if w.V.Deadlock && res.harness == "" {
		vio("deadlock", "deadlock:"+cls, w.V.DeadlockMsg)
	}
	for i := range res.vios {
		res.vios[i].Detail += fmt.Sprintf("\ninjected: %v", res.faults)
		if trace {
			res.vios[i].Detail += "\ntrace: " + strings.Join(tailLabels(w.V.Trace, 60), " ")
		}
	}
	switch {
	case len(res.vios) > 0:
		res.outcome = "VIOLATION:" + res.vios[0].Class
	case len(res.faults) == 0:
		res.outcome = "fault-free"
	default:
		kinds := map[string]bool{}
		for _, f := range res.faults {
			kinds[f[strings.LastIndex(f, "=")+1:]] = true
		}
		var ks []string
		for k := range kinds {
			ks = append(ks, k)
		}
		sort.Strings(ks)
		res.outcome = "recovered:" + strings.Join(ks, "+")
	}
	return res
}

func c02Bounds(s c02Scn) explore.Bounds {
	var b explore.Bounds
	b[vrt.KFault] = s.NF
	return b
}

func c02Run(c *fw.Ctx) {
	scns := c02Scenarios(c.Thorough())
	if only := os.Getenv("C02_ONLY"); only != "" { // debugging aid: run one slice (name/part) in every worker
		var sel []c02Scn
		for _, s := range scns {
			if fmt.Sprintf("%s/%d", s.name(), s.Part) == only {
				for i := 0; i < c.NShards; i++ {
					sel = append(sel, s)
				}
			}
		}
		scns = sel
	}
	c.Bound("scenario_slices", len(scns))
	c.Bound("sql_fault_kinds", "error,drop,death")
	c.Bound("rpc_fault_kinds", "rpcerror,transport,status500,truncate,death")
	if c.Thorough() {
		c.Bound("faults_per_execution", 2)
	} else {
		c.Bound("faults_per_execution", "2 on batch=1 conc=1 L1/T1 scenarios (growth, reorg of the last block), 1 otherwise")
	}
	for _, s := range scns {
		if !c.Mine() {
			continue
		}
		if c.Expired() {
			return
		}
		p, err := c02Prepare(s)
		if rf, ok := err.(*c02RefFailed); ok {
			// the fault-free run already violates the oracle: report it on its own, then enumerate as usual
			if s.Part == 0 {
				c.Violation("C02", rf.v.Class, rf.v.Key+":fault-free", fmt.Sprintf("scenario %s, NO fault injected\n%s", s.name(), rf.v.Detail), c02Case{Scn: s})
			}
			err = nil
		}
		if err != nil {
			c.HarnessError("prepare %s: %v", s.name(), err)
			return
		}
		if s.Part == 0 {
			c.Count("io_points_fault_free:"+s.name(), int64(len(p.refIO)))
			c.Count("io_points_fault_free_total", int64(len(p.refIO)))
			c.Count("scenarios_started", 1)
		}
		b := c02Bounds(s)
		st := explore.Explore(b, true, func(r *explore.Run) bool {
			res := c02Exec(p, r, false, false)
			// A replayed prefix that does not reproduce means wall-clock time leaked into the run (the client's
			// 10 s HTTP timeout and pgx's deadlines are real timers; on an overloaded machine they can fire). Re-run the
			// same prefix twice; only a divergence that persists (or re-runs that disagree) is reported.
			if r.Diverged != "" && res.harness == "" {
				c.Count("diverged_executions_rerun", 1)
				f1, f2 := explore.Replay(r.Trimmed()), explore.Replay(r.Trimmed())
				res1 := c02Exec(p, f1, false, false)
				c02Exec(p, f2, false, false)
				if f1.Diverged == "" && f2.Diverged == "" && strings.Join(f1.Labels(), "\n") == strings.Join(f2.Labels(), "\n") {
					*r, res = *f1, res1 // the two re-runs agree with each other: the first run was the outlier
				}
			}
			if res.harness != "" {
				c.HarnessError("scenario %s choices %v: %s", s.name(), r.Trimmed(), res.harness)
				return false
			}
			if r.Diverged != "" {
				c.HarnessError("HARNESS-NONDETERMINISM scenario %s: %s", s.name(), r.Diverged)
				return false
			}
			if len(res.faults) == 0 && s.Part > 0 {
				return !c.Expired() // the fault-free execution is counted in slice 0 only
			}
			c.Eval(len(res.faults) > 0)
			c.Outcome(res.outcome)
			c.Res.Transitions += res.trans
			c.Res.Traces++
			c.Count("faults_injected", int64(len(res.faults)-res.deaths))
			c.Count("deaths", int64(res.deaths))
			for k, v := range res.counts {
				c.Count(k, v)
			}
			for _, v := range res.vios {
				c.Violation("C02", v.Class, v.Key, fmt.Sprintf("scenario %s\n%s", s.name(), v.Detail), c02Case{Scn: s, Choices: r.Choices()})
			}
			if c.Res.Evaluations%5003 == 1 {
				c.Sample(map[string]any{"scenario": s.name(), "faults": res.faults, "steps": res.steps, "outcome": res.outcome})
			}
			return !c.Expired()
		})
		if dbg := os.Getenv("C02_DEBUG"); dbg != "" {
			f, _ := os.OpenFile(dbg, os.O_APPEND|os.O_CREATE|os.O_WRONLY, 0o644)
			fmt.Fprintf(f, "scenario %s part %d/%d nf=%d: io=%d refsteps=%d executions=%d points=%d complete=%v\n  %v\n", s.name(), s.Part, s.Parts, s.NF, len(p.refIO), p.refSteps, st.Executions, st.Points, st.Complete, p.refIO)
			f.Close()
		}
		if !st.Complete {
			c.Cap("time-budget")
			return
		}
		c.Count("scenario_slices_completed", 1)
	}
}

func c02Replay(c *fw.Ctx, raw json.RawMessage) {
	var k c02Case
	if err := json.Unmarshal(raw, &k); err != nil {
		c.HarnessError("bad case: %v", err)
		return
	}
	p, err := c02Prepare(k.Scn)
	if rf, ok := err.(*c02RefFailed); ok {
		if len(k.Choices) == 0 {
			c.Eval(true)
			c.Violation("C02", rf.v.Class, rf.v.Key+":fault-free", rf.v.Detail, k)
			return
		}
		err = nil
	}
	if err != nil {
		c.HarnessError("prepare: %v", err)
		return
	}
	r := explore.Replay(k.Choices)
	res := c02Exec(p, r, false, true)
	c.Eval(true)
	if res.harness != "" {
		c.HarnessError("%s", res.harness)
		return
	}
	if r.Diverged != "" {
		c.HarnessError("HARNESS-NONDETERMINISM replay diverged: %s", r.Diverged)
		return
	}
	for _, v := range res.vios {
		c.Violation("C02", v.Class, v.Key, v.Detail, k)
	}
}
