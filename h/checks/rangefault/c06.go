//go:build verif

package rangefault

import (
	"encoding/json"
	"fmt"
	"os"
	"regexp"
	"strings"
	"time"

	"verifh/checks"
	"verifh/explore"
	"verifh/fw"
	"verifh/simeth"
	"verifh/simpg"
	"verifh/vrt"
	"verifh/world"
)

// C06 — start, stop and resume: only blocks inside the configured range are written.
//
// Job = (shape, head h, start, stop, batch, conc, prior recorded position). For each job the
// explorer enumerates the interleavings of the task thread (steps until it has reported
// completion / reached the final head) with an environment that grows the chain to h+3,
// preemption-bounded, and the placement of process restarts (tasks discarded and re-created
// by the real loadTasks) before any step. The environment's only operation (replace the
// node's chain) is atomic and commutes with everything but JSON-RPC exchanges, so it is
// modelled as a harness-level choice at step boundaries and at every exchange instead of a
// thread (an always-enabled second thread multiplied the schedules by the pending head
// poller of the client without adding behaviours).

type c06Job struct {
	Shape string `json:"shape"`
	H     int    `json:"h"`     // head when the run starts
	Start uint64 `json:"start"` // 0 = not configured
	Stop  uint64 `json:"stop"`  // 0 = not configured
	Batch int    `json:"batch"`
	Conc  int    `json:"conc"`
	Prior string `json:"prior"` // none | inside | stop | reconf
	// reconf: the position P was recorded under ANOTHER configured range (start PriorStart, no stop); the tasks are then
	// rebuilt with start/stop of this job (a restart with an edited configuration). Expected: resume from P.
	PriorStart uint64 `json:"prior_start,omitempty"`
	P          uint64 `json:"p"`    // recorded position before the run (prior != none)
	Grow       int    `json:"grow"` // number of growth operations of the environment (1: h→h+3; 2: h→h+1→h+3; 3: +1,+1,+1)
	// Sib adds a second integration ig0 on the same source (same shape, table t0, same start, NO stop) that is stepped
	// before every step of the integration under test and shares its client: "free" = unrelated; "ref" = the integration
	// under test carries a filter reference to ig0's column f (so it also waits for ig0's position)
	Sib string `json:"sib,omitempty"`
	// Spell is the way start and stop are written in the configuration: "" JSON number, "str" quoted decimal string,
	// "zstr" quoted decimal string padded with zeros to 7 digits, "env"/"zenv" a "$NAME" reference to an environment
	// variable holding the plain / the zero-padded decimal string. The configured range is the decimal value.
	Spell string `json:"spell,omitempty"`
	// Fault > 0: source-fault family. ONE fault is injected at any JSON-RPC exchange the task makes after the set-up (the
	// fault point is the ordinal of the exchange, whatever the method: a call that only a changed tree makes is a fault
	// point like any other); Fault = number of fault kinds offered (1: JSON-RPC error object, 2: + transport error,
	// 3: + HTTP 500, 4: + truncated body). No placed growth and no restart on these jobs.
	Fault int  `json:"fault,omitempty"`
	Tick  bool `json:"tick"` // the environment may also grow the chain right AFTER the node answered an exchange and fire the client's head-poller ticker (the poller refreshes the head cache behind the task's back)
}

type c06Case struct {
	Job     c06Job `json:"job"`
	Bounds  [6]int `json:"bounds"`
	Choices []int  `json:"choices"`
}

const c06KnownPanic = "panic:start-beyond-head:hash-null-result"

func init() {
	checks.Register(&checks.Check{
		ID:        "C06",
		Level:     "model_checking",
		Technique: "stateless model checking of the real pipeline (controlled scheduler over instrumented code, fake Postgres, simulated node): every (start, stop) pair relative to the head x batch x concurrency x prior recorded position, all interleavings of task steps with head growth up to a preemption bound, every placement of a process restart; one source fault at every JSON-RPC exchange of the task on every range with a start and a stop; range oracle evaluated on every commit",
		Rule: "jobs = head h in 1..5 (every block produces rows) x start in 0..h+2 x stop in {unset} u 1..h+2 x batch in 1..3 x conc in 1..2 x prior position in {none, inside the range (produced by really running the task on a shorter chain), at stop} x shape {L1 headers+logs, T1 blocks}, plus reconfigured ranges (position 2 recorded with start 1, tasks rebuilt with start in {1,2,3,4,8} and stop in {unset,2,4,h+2}: must resume from 3), plus start/stop written as JSON number, quoted decimal, zero-padded quoted decimal, $ENV reference to a plain and to a zero-padded value (h=8, start 8..10, stop unset,9..11), plus, for every range with a start and a stop and batch >= 2 (conc 1), the same job with a SECOND integration on the source that is stepped before every step of the one under test: unrelated, or referenced by it through a filter reference (one client and block cache, dependency limit), plus the SOURCE-FAULT family: every range with 1 <= start <= stop <= h+2 x batch 1..3 x conc 1..2 without a recorded position, where ONE fault (quick: JSON-RPC error object, transport error; thorough: + HTTP 500, truncated body) is injected at any one JSON-RPC exchange the task makes, identified by its ordinal whatever the method (a call only a changed tree makes is a fault point too); the faulted step may fail, every range clause is judged as before (so also when the batch of the faulted step would reach beyond stop while the head is beyond stop) (quick: the shape alternates with batch+conc and one inside position, the middle one; thorough: both shapes, every inside position); " +
			"per job: the environment grows the chain to h+3 in two operations; by default it acts whenever the task idles (one operation, or both: enumerated); deviations enumerated exhaustively: growth operations placed before any step or at any JSON-RPC exchange of the task (the preemption), and process restarts (tasks discarded, real loadTasks again) before any step; on jobs without a recorded position whose start is unset or beyond the head a placed growth may also happen right after the node answered the exchange, followed by a tick of the client's head poller (the poller refreshes the head cache between two reads of the task). quick: <= 1 placed growth, <= 1 restart, both in one execution only when h <= 2 or start is unset; thorough: <= 2 of each, 2 in total (h = 5: one of each); source-fault jobs: the one fault is the only deviation (growth only while the task idles, no restart). " +
			"An execution is non-trivial when rows were written or a restart happened; distinct = distinct (job, choice sequence).",
		Assumptions: []string{
			"fake Postgres (h/simpg) interprets the SQL shovel sends; simulated node (h/simeth) answers like a well-behaved geth: a block beyond the head answers result null",
			"start=0 (begin at head): the first written block must be a head the node announced between world start and the first commit",
			"growth-only histories (reorgs are judged by C03); faults: single faults of the source (JSON-RPC exchanges) on the source-fault family only; database faults, process death and multiple faults are judged by C02",
			"a step in which a source fault was injected may return an error (nothing written); any other outcome of it is judged like that of a fault-free step",
			"a cursor recorded at stop while the node's head is lower is produced by running the task against the longer chain first (a node that fell behind)",
		},
		Budget:        map[string]time.Duration{"quick": 140 * time.Second, "thorough": 840 * time.Second},
		MinNontrivial: 1000,
		Inst:          true,
		Run:           c06Run,
		Replay:        c06Replay,
	})
}

func c06Jobs(thorough bool) []c06Job {
	var jobs []c06Job
	for h := 1; h <= 5; h++ {
		for start := uint64(0); start <= uint64(h+2); start++ {
			for stop := uint64(0); stop <= uint64(h+2); stop++ {
				for batch := 1; batch <= 3; batch++ {
					for conc := 1; conc <= 2; conc++ {
						shapes := []string{"L1", "T1"}
						grow := 2
						if !thorough {
							// quick: one shape per (batch, conc) cell, alternating
							shapes = []string{[]string{"L1", "T1"}[(batch+conc)%2]}
						}
						for _, sh := range shapes {
							base := c06Job{Shape: sh, H: h, Start: start, Stop: stop, Batch: batch, Conc: conc, Grow: grow}
							j := base
							j.Prior = "none"
							j.Tick = start == 0 || start >= uint64(h)+1
							jobs = append(jobs, j)
							if stop > 0 && start > 0 && start <= stop && conc == 1 && batch >= 2 && (thorough || h >= 2) {
								// several integrations on one source (one client, one block cache, dependency limits)
								for _, sib := range []string{"free", "ref"} {
									j := base
									j.Prior, j.Sib = "none", sib
									if sib == "ref" {
										j.Shape = "L1" // (the reference is on an event input)
									}
									jobs = append(jobs, j)
								}
							}
							if stop > 0 && start > stop {
								continue // nothing can ever be recorded: no prior position exists
							}
							// inside: start <= p < stop, p <= h
							s0 := start
							if s0 == 0 {
								s0 = 1
							}
							pmax := uint64(h)
							if stop > 0 && stop-1 < pmax {
								pmax = stop - 1
							}
							if s0 <= pmax {
								if thorough {
									for p := s0; p <= pmax; p++ {
										j := base
										j.Prior, j.P = "inside", p
										jobs = append(jobs, j)
									}
								} else {
									j := base
									j.Prior, j.P = "inside", (s0+pmax)/2
									jobs = append(jobs, j)
								}
							}
							if stop > 0 {
								j := base
								j.Prior, j.P = "stop", stop
								jobs = append(jobs, j)
							}
						}
					}
				}
			}
		}
	}
	// reconfigured range: position p=2 recorded with start=1, then restarted with start in {p-1,p,p+1,p+2,p+6}, with/without stop
	for _, h := range []int{3, 5} {
		for _, start := range []uint64{1, 2, 3, 4, 8} {
			for _, stop := range []uint64{0, 2, 4, uint64(h) + 2} { // (a stop must be reachable: <= h+2)
				for batch := 1; batch <= 3; batch++ {
					jobs = append(jobs, c06Job{Shape: []string{"L1", "T1"}[batch%2], H: h, Start: start, Stop: stop, Batch: batch, Conc: 1, Prior: "reconf", P: 2, PriorStart: 1, Grow: 2})
				}
			}
		}
	}
	// configuration spellings of start/stop (block numbers >= 8, so that a zero-padded number is not also valid octal)
	for _, start := range []uint64{8, 9, 10} {
		for _, stop := range []uint64{0, 9, 10, 11} {
			for _, sp := range []string{"", "str", "zstr", "env", "zenv"} {
				jobs = append(jobs, c06Job{Shape: "L1", H: 8, Start: start, Stop: stop, Batch: 2, Conc: 1, Prior: "none", Grow: 2, Spell: sp, Tick: start >= 9})
			}
		}
	}
	// source faults: every range with a start and a stop (start <= stop, both relative to the head: before, at, after) x
	// batch x conc, no recorded position; one fault at any exchange (so also in the step whose batch straddles stop,
	// while the head is below, at and beyond stop)
	kinds := 2
	if thorough {
		kinds = 4
	}
	for h := 1; h <= 5; h++ {
		for start := uint64(1); start <= uint64(h+2); start++ {
			for stop := start; stop <= uint64(h+2); stop++ {
				for batch := 1; batch <= 3; batch++ {
					for conc := 1; conc <= 2; conc++ {
						shapes := []string{"L1", "T1"}
						if !thorough {
							shapes = []string{[]string{"L1", "T1"}[(batch+conc)%2]}
						}
						for _, sh := range shapes {
							jobs = append(jobs, c06Job{Shape: sh, H: h, Start: start, Stop: stop, Batch: batch, Conc: conc, Prior: "none", Grow: 2, Fault: kinds})
						}
					}
				}
			}
		}
	}
	return jobs
}

// c06ConfRejected: a spelling of start/stop that the configuration format accepts was rejected.
type c06ConfRejected struct{ spell, detail string }

func (e *c06ConfRejected) Error() string { return "configuration rejected: " + e.detail }

var (
	c06RangeRe  = regexp.MustCompile(`"(start|stop)":([0-9]+)`)
	c06RangeRe2 = regexp.MustCompile(`"(start|stop)":"[^"]*"`)
)

// c06Spell rewrites the start/stop numbers of a rendered configuration in the job's spelling and sets the
// environment variables the "$NAME" spellings refer to.
func c06Spell(j c06Job, conf string) string {
	if j.Spell == "" {
		return conf
	}
	return c06RangeRe.ReplaceAllStringFunc(conf, func(m string) string {
		sm := c06RangeRe.FindStringSubmatch(m)
		dec := sm[2]
		if j.Spell == "zstr" || j.Spell == "zenv" {
			dec = fmt.Sprintf("%07s", dec)
		}
		if j.Spell == "env" || j.Spell == "zenv" {
			name := "C06_" + strings.ToUpper(sm[1])
			os.Setenv(name, dec)
			return fmt.Sprintf(`"%s":"$%s"`, sm[1], name)
		}
		return fmt.Sprintf(`"%s":"%s"`, sm[1], dec)
	})
}

// c06PriorFailed: the run that should have produced the prior recorded position did not (a
// failure of the code under test, reported as a violation of the job, not as a harness error).
type c06PriorFailed struct{ what, detail string }

func (e *c06PriorFailed) Error() string { return "prior run: " + e.what + ": " + e.detail }

type c06Prep struct {
	decl       *world.Decl
	conf       string
	snap       *simpg.Snapshot
	full       *simeth.Chain
	init       *simeth.Chain
	grow       []*simeth.Chain
	priorFirst uint64 // first block written by the prior run (prior != none)
}

var c06PrepCache = map[string]*c06Prep{}

func c06Prepare(j c06Job) (*c06Prep, error) {
	key := fmt.Sprintf("%+v", j)
	if p, ok := c06PrepCache[key]; ok {
		return p, nil
	}
	d := shape(j.Shape, "ig1", "t1", world.SrcRef{Name: "src1", Start: j.Start, Stop: j.Stop})
	p := &c06Prep{decl: d}
	decls := []*world.Decl{d}
	if j.Sib != "" {
		decls = append(decls, shape(j.Shape, "ig0", "t0", world.SrcRef{Name: "src1", Start: j.Start}))
		if j.Sib == "ref" {
			d.Inputs[0].Op, d.Inputs[0].Ref = "contains", &world.Ref{Integration: "ig0", Column: "f"}
		}
	}
	p.conf = c06Spell(j, world.ConfJSON([]world.Source{{Name: "src1", ChainID: 7, URL: "http://node1", Batch: j.Batch, Conc: j.Conc}}, decls))
	conf, err := world.ParseConf(p.conf)
	if err != nil && j.Spell != "" {
		return nil, &c06ConfRejected{j.Spell, fmt.Sprintf("start=%d stop=%d written as %v: %v", j.Start, j.Stop, c06RangeRe2.FindAllString(p.conf, -1), err)}
	}
	if err != nil {
		return nil, err
	}
	p.snap, err = world.InitDB(conf)
	if err != nil {
		return nil, err
	}
	n := j.H + 3
	p.full = buildChain(acWord(n), d, 1)
	for b := uint64(1); b <= uint64(n); b++ {
		if len(d.Expect(p.full, "src1", 7, b, b, func(string, string, []byte) bool { return true })) == 0 {
			return nil, fmt.Errorf("block %d of the job chain produces no rows for shape %s", b, j.Shape)
		}
	}
	p.init = p.full.Truncate(uint64(j.H))
	switch j.Grow {
	case 1:
		p.grow = []*simeth.Chain{p.full}
	case 2:
		p.grow = []*simeth.Chain{p.full.Truncate(uint64(j.H + 1)), p.full}
	default:
		p.grow = []*simeth.Chain{p.full.Truncate(uint64(j.H + 1)), p.full.Truncate(uint64(j.H + 2)), p.full}
	}
	if j.Prior != "none" {
		// produce the recorded position by really running the task against the chain cut at P
		w := world.New(nil, world.Cfg{Snap: p.snap, Chains: map[string]*simeth.Chain{"node1": p.full.Truncate(j.P)}})
		var perr error
		w.Run(func() {
			priorConf := conf
			if j.Prior == "reconf" { // the position is recorded under the earlier configuration
				da := shape(j.Shape, "ig1", "t1", world.SrcRef{Name: "src1", Start: j.PriorStart})
				pc, err := world.ParseConf(world.ConfJSON([]world.Source{{Name: "src1", ChainID: 7, URL: "http://node1", Batch: j.Batch, Conc: j.Conc}}, []*world.Decl{da}))
				if err != nil {
					perr = fmt.Errorf("prior run: configuration: %v", err)
					return
				}
				priorConf = pc
			}
			tasks, err := w.LoadTasks(priorConf)
			if err != nil || len(tasks) != 1 {
				perr = fmt.Errorf("prior run: loadTasks: %v", err)
				return
			}
			for s := 0; s < 3*int(j.P)+6; s++ {
				out, err := tasks[0].Step()
				if out == "nothing" || out == "done" {
					break
				}
				if out != "ok" {
					perr = &c06PriorFailed{"outcome:" + out, fmt.Sprintf("step %d of the run to position %d returned %q: %v", s, j.P, out, err)}
					return
				}
			}
			cur, has := w.Latest("src1", "ig1")
			if !has || cur.Num != j.P {
				perr = &c06PriorFailed{"position", fmt.Sprintf("chain of %d blocks, start=%d stop=%d: position %v/%d recorded, expected %d", j.P, j.Start, j.Stop, has, cur.Num, j.P)}
				return
			}
			p.priorFirst = j.P
			for _, r := range w.PG.Dump("t1") {
				if b, ok := bigU(r.Vals["block_num"]); ok && b < p.priorFirst {
					p.priorFirst = b
				}
			}
			p.snap = w.PG.Snapshot()
		})
		if perr == nil && w.HarnessErr != "" {
			perr = fmt.Errorf("prior run: %s", w.HarnessErr)
		}
		if perr != nil {
			return nil, perr
		}
		want := j.Start
		if j.Prior == "reconf" {
			want = j.PriorStart
		}
		if want == 0 {
			want = j.P
		}
		if p.priorFirst != want {
			return nil, &c06PriorFailed{"first-block", fmt.Sprintf("chain of %d blocks, start=%d: first block written is %d, expected %d", j.P, j.Start, p.priorFirst, want)}
		}
	}
	if len(c06PrepCache) > 32 {
		c06PrepCache = map[string]*c06Prep{}
	}
	c06PrepCache[key] = p
	return p, nil
}

type c06Result struct {
	vios     []fw.Violation // at most one per key
	rows     int
	restarts int
	faults   []string // injected source faults
	outcome  string
	harness  string
	trans    int64
	counts   map[string]int64
}

func c06Exec(j c06Job, p *c06Prep, ch vrt.Chooser, states *vrt.StateSet, trace bool) (res c06Result) {
	w := world.New(ch, world.Cfg{Snap: p.snap, Chains: map[string]*simeth.Chain{"node1": p.init}})
	w.V.States = states
	w.V.TraceOn = trace
	res.counts = map[string]int64{}
	d := p.decl
	finalHead := uint64(j.H + 3)
	fatal := false // a violation after which the model is no longer in step with the run
	vio := func(class, key, detail string) {
		for _, v := range res.vios {
			if v.Key == key {
				return
			}
		}
		res.vios = append(res.vios, fw.Violation{Property: "C06", Class: class, Key: key, Detail: detail})
	}
	tag := j.Shape
	if j.Spell != "" {
		tag += ":spelled-" + j.Spell
	}
	if j.Sib != "" {
		tag += ":sibling-" + j.Sib
	}
	if j.Fault > 0 {
		tag += ":source-fault"
	}
	w.V.StateKey = func() uint64 { return w.CommitHash ^ uint64(w.Node("node1").Version)<<48 }

	// ---- reference model of the recorded position, updated on every commit ----
	var (
		mHas   bool
		mCur   uint64
		first  uint64 // first block ever written (0 = nothing yet)
		h0     = uint64(j.H)
		stopOK = func() bool { return j.Stop > 0 && mHas && mCur >= j.Stop }
	)
	if j.Prior != "none" {
		mHas, mCur, first = true, j.P, p.priorFirst
	}
	w.OnCommit = func(cm world.Commit) {
		if cm.Ev.Kind != "commit" && cm.Ev.Kind != "autocommit" {
			return
		}
		var mine []simpg.Change // changes of the integration under test (a sibling's are not judged)
		for _, c := range cm.Ev.Changes {
			if c.Table == "public.t1" || (c.Table == "shovel.task_updates" && fmt.Sprint(c.Row.Vals["ig_name"]) == "ig1") {
				mine = append(mine, c)
			}
		}
		if len(mine) == 0 {
			return
		}
		res.counts["commits_with_changes"]++
		if stopOK() {
			vio("write-after-stop", "write-after-stop:"+tag, fmt.Sprintf("position %d >= stop %d is recorded, yet a later transaction changed %d rows (first: %s %s)", mCur, j.Stop, len(mine), mine[0].Op, mine[0].Table))
			fatal = true
		}
		var (
			rowLo, rowHi uint64
			nrows        int
			curNums      []uint64
		)
		for _, c := range mine {
			var n uint64
			var ok bool
			switch c.Table {
			case "public.t1":
				n, ok = bigU(c.Row.Vals["block_num"])
			case "shovel.task_updates":
				n, ok = bigU(c.Row.Vals["num"])
			default:
				continue
			}
			if !ok {
				vio("range", "row-without-block-number:"+tag, fmt.Sprintf("%s of a row in %s without a block number", c.Op, c.Table))
				fatal = true
				continue
			}
			if c.Op != "insert" {
				vio("delete", "delete-on-growth-only-history:"+tag, fmt.Sprintf("a committed transaction deleted a row of block %d from %s although the chain only grew", n, c.Table))
				fatal = true
				continue
			}
			what := "row"
			if c.Table == "shovel.task_updates" {
				what = "position"
				curNums = append(curNums, n)
			} else {
				if nrows == 0 || n < rowLo {
					rowLo = n
				}
				if nrows == 0 || n > rowHi {
					rowHi = n
				}
				nrows++
			}
			// (a block after a position recorded under an earlier, lower start is resumed, not "before start": the
			// property's resume clause decides there, see the resume check below)
			if j.Start > 0 && n < j.Start && !(j.Prior == "reconf" && n > j.P) {
				vio("range", "before-start:"+what+":"+tag, fmt.Sprintf("%s written for block %d < start %d", what, n, j.Start))
				fatal = true
			}
			if j.Stop > 0 && n > j.Stop {
				vio("range", "after-stop:"+what+":"+tag, fmt.Sprintf("%s written for block %d > stop %d", what, n, j.Stop))
				fatal = true
			}
		}
		res.rows += nrows
		if len(curNums) != 1 {
			vio("cursor", "commit-without-single-position:"+tag, fmt.Sprintf("a committed transaction with changes recorded %d positions", len(curNums)))
			fatal = true
			return
		}
		nc := curNums[0]
		// resume / first block
		lo := rowLo
		if nrows == 0 {
			lo = 0
		}
		head := w.Node("node1").Chain().Head().Num
		switch {
		case mHas:
			if nrows > 0 && lo != mCur+1 {
				vio("resume", "resume-not-at-position+1:"+j.Prior+":"+tag, fmt.Sprintf("recorded position %d, but the first block written afterwards is %d", mCur, lo))
				fatal = true
			}
			if nc <= mCur {
				vio("resume", "position-not-advanced:"+tag, fmt.Sprintf("recorded position %d, new position %d", mCur, nc))
				fatal = true
			}
		case j.Start > 0:
			if nrows > 0 && lo != j.Start {
				vio("first", "first-block-not-start:"+tag, fmt.Sprintf("no recorded position, start=%d, but the first block written is %d", j.Start, lo))
				fatal = true
			}
			first = lo
		default:
			if nrows > 0 && (lo < h0 || lo > head) {
				vio("first", "first-block-not-a-head:"+tag, fmt.Sprintf("no recorded position, no start: first block written is %d, heads announced so far are %d..%d", lo, h0, head))
				fatal = true
			}
			first = lo
		}
		if nrows > 0 && nc != rowHi {
			vio("cursor", "position-differs-from-last-row-block:"+tag, fmt.Sprintf("rows written up to block %d but position recorded is %d", rowHi, nc))
			fatal = true
		}
		if nc > head {
			vio("cursor", "position-beyond-head:"+tag, fmt.Sprintf("position %d recorded, head is %d", nc, head))
			fatal = true
		}
		mHas, mCur = true, nc
	}

	waited, knownPanic, emptyDone, beyondSeen := false, false, false, false
	v0 := w.Node("node1").Version
	headOf := func(version int) uint64 { // head of the chain a node version served
		if k := version - v0; k > 0 && k <= len(p.grow) {
			return p.grow[k-1].Head().Num
		}
		return p.init.Head().Num
	}
	w.Run(func() {
		if j.Spell == "env" || j.Spell == "zenv" { // (the environment variables of the "$NAME" spellings belong to this job)
			c06Spell(j, fmt.Sprintf(`"start":%d "stop":%d`, j.Start, j.Stop))
		}
		conf, err := world.ParseConf(p.conf)
		if err != nil {
			w.HarnessErr = err.Error()
			return
		}
		var task, sib *world.Task
		pick := func(ts []*world.Task) bool {
			task, sib = nil, nil
			for _, t := range ts {
				switch t.IG {
				case "ig1":
					task = t
				case "ig0":
					sib = t
				}
			}
			return task != nil && (sib != nil) == (j.Sib != "")
		}
		tasks, err := w.LoadTasks(conf)
		if err != nil || !pick(tasks) {
			w.HarnessErr = fmt.Sprintf("loadTasks: %v (%d tasks)", err, len(tasks))
			return
		}
		if task.Start != j.Start || task.Stop != j.Stop {
			// the harness' own view of the configuration: judged below through the behaviour, not here
			res.counts["task_range_differs_from_config"]++
		}
		cols := w.TableCols("t1")
		if c, has := w.Latest("src1", "ig1"); has != mHas || (has && c.Num != mCur) {
			w.HarnessErr = fmt.Sprintf("prior state: cursor %v/%d, model %v/%d", has, c.Num, mHas, mCur)
			return
		}
		// ---- environment: growth operations applied at harness-level choice points ----
		// (before any step and at every JSON-RPC exchange of the task: exactly the places where an
		// environment thread whose only operation is "replace the node's chain" can be observed)
		applied := 0
		envDone := func() bool { return applied == len(p.grow) }
		apply := func(k int) {
			for ; k > 0 && applied < len(p.grow); k-- {
				w.Node("node1").SetChain(p.grow[applied])
				applied++
				res.counts["growth_ops"]++
			}
			w.V.Bump()
		}
		never := func(string) bool { return false }
		tickBase := 0 // tickers of discarded clients (before the last restart) are not fired
		tickPollers := func() {
			w.V.WaitIdle() // a poller that was just spawned creates its ticker and parks
			for _, t := range w.V.Tickers()[tickBase:] {
				w.V.Tick(t)
			}
			res.counts["poller_ticks"]++
			w.V.WaitIdle() // the poller asks the node for the head, updates the client's head cache and parks again
		}
		growChoice := func(kind uint8, where string, ex *simeth.Exchange) {
			if cur := w.V.Cur(); cur != nil && strings.HasPrefix(cur.Name, "g") {
				return // an exchange of the head poller itself
			}
			// head pollers started by the client park on their ticker; starting them commutes with everything
			for _, t := range w.V.Threads() {
				if t.OnlyAt == nil && strings.HasPrefix(t.Name, "g") {
					t.OnlyAt = never
				}
			}
			n := len(p.grow) - applied
			if n == 0 {
				return
			}
			alts := 1 + n
			if j.Tick {
				alts = 1 + 2*n
			}
			k := w.V.ChooseEnv(alts, kind, "grow:"+where)
			switch {
			case k == 0:
			case k <= n:
				res.counts["growth_"+where]++
				apply(k)
			default:
				// the blocks arrive right after the node answered this exchange, and the client's head poller sees
				// them before the task continues
				res.counts["growth_and_tick_"+where]++
				kk := k - n
				if ex != nil {
					ex.Mutate = func(resp any) any {
						apply(kk)
						tickPollers()
						return resp
					}
				} else {
					apply(kk)
					tickPollers()
				}
			}
		}
		w.OnExchange = func(ex *simeth.Exchange) { growChoice(vrt.KPreempt, "rpc", ex) }
		if j.Fault > 0 {
			// set-up is over: from here on every JSON-RPC exchange of the task offers the fault alternatives
			w.RPCFaultKinds = j.Fault
			w.FaultFilter = func(label string) bool {
				cur := w.V.Cur()
				return strings.HasPrefix(label, "rpc:") && !(cur != nil && strings.HasPrefix(cur.Name, "g")) // (not the head poller's own request)
			}
		}
		tt := w.V.GoNamed("task", func() {
			maxSteps := 3*int(finalHead) + 12
			doneStreak, idleStreak := 0, 0
			var lastErr error
			for s := 0; s < maxSteps; s++ {
				vrt.Boundary("step")
				if w.V.Closing() {
					return
				}
				growChoice(vrt.KPreempt, "boundary", nil)
				if w.V.ChooseEnv(2, vrt.KEnv, "restart") == 1 {
					// process restart without crash: every in-memory object is discarded
					ts, err := w.LoadTasks(conf)
					if w.V.Closing() {
						return
					}
					if err != nil || !pick(ts) {
						w.HarnessErr = fmt.Sprintf("restart: loadTasks: %v", err)
						return
					}
					tickBase = len(w.V.Tickers())
					res.restarts++
				}
				if sib != nil {
					// the sibling integration of the same process takes its step first (same client, same caches)
					sout, serr := sib.Step()
					if w.V.Closing() {
						return
					}
					w.V.WaitIdle()
					if w.V.Closing() || fatal {
						return
					}
					res.counts["sibling_steps_"+sout]++
					if sout == "panic" {
						vio("panic", "panic:sibling:"+tag, fmt.Sprintf("Converge of the sibling integration panicked: %v", serr))
						return
					}
				}
				hadStop := stopOK()
				hadCur, curBefore := mHas, mCur
				headBefore := w.Node("node1").Chain().Head().Num
				nEx := len(w.Net.Exchanges())
				hashBefore := w.CommitHash
				nFaults := len(w.Faults)
				out, err := task.Step()
				if w.V.Closing() {
					return
				}
				w.V.WaitIdle() // let a head poller spawned by this step reach its ticker
				if w.V.Closing() {
					return
				}
				if fatal {
					return
				}
				// start beyond the head: the node answered result:null for block start-1 in this step
				beyond := false
				if exs := w.Net.Exchanges(); !hadCur && j.Start > 0 && len(exs) > nEx {
					ex := exs[len(exs)-1]
					beyond = len(ex.Calls) == 1 && ex.Calls[0].Method == "eth_getBlockByNumber" && len(ex.Calls[0].Params) == 2 &&
						fmt.Sprint(ex.Calls[0].Params[0]) == fmt.Sprintf("0x%x", j.Start-1) && strings.Contains(string(ex.Body), `"result":null`)
				}
				if beyond {
					beyondSeen = true
				}
				if len(w.Faults) > nFaults {
					pos := j.Start - 1
					if hadCur {
						pos = curBefore
					}
					if pos < j.Stop && pos+uint64(j.Batch) > j.Stop && w.Node("node1").Chain().Head().Num > j.Stop {
						res.counts["source_fault_in_stop_straddling_step"]++ // (non-vacuity: the batch of the faulted step would reach beyond stop)
					}
					res.counts["source_fault_step_outcome_"+out]++
				}
				if hadStop {
					if out != "done" {
						vio("completion", "not-done-after-stop:"+out+":"+tag, fmt.Sprintf("position %d >= stop %d is recorded but the step returned %q (%v)", curBefore, j.Stop, out, err))
						return
					}
					if w.CommitHash != hashBefore {
						vio("write-after-stop", "write-after-stop:"+tag, "committed state changed by a step after completion")
						return
					}
				}
				progress := false
				switch out {
				case "ok":
					if !mHas || (hadCur && mCur <= curBefore) {
						vio("cursor", "ok-without-progress:"+tag, fmt.Sprintf("step returned nil but the recorded position did not advance (%v/%d → %v/%d)", hadCur, curBefore, mHas, mCur))
						return
					}
					progress = true
				case "done":
					// begins at a head beyond stop: nothing to do (the head is the one the node answered in this step)
					emptyAtHead := false
					if j.Stop > 0 && !hadCur && j.Start == 0 {
						for _, ex := range w.Net.Exchanges()[nEx:] {
							if len(ex.Calls) == 1 && ex.Calls[0].Method == "eth_getBlockByNumber" && len(ex.Calls[0].Params) == 2 && fmt.Sprint(ex.Calls[0].Params[0]) == "latest" && fmt.Sprint(ex.Calls[0].ID) != "1" { // (id 1 = the head poller's own request)
								emptyAtHead = headOf(ex.Version) > j.Stop
								break
							}
						}
					}
					if emptyAtHead {
						emptyDone = true
					}
					if !hadStop && !(j.Stop > 0 && !hadCur && j.Start > j.Stop) && !emptyAtHead {
						vio("completion", "done-before-stop:"+tag, fmt.Sprintf("step reported completion but no position >= stop %d is recorded (position %v/%d, start %d)", j.Stop, hadCur, curBefore, j.Start))
						return
					}
				case "nothing":
				case "panic":
					if beyond {
						knownPanic = true
						vio("panic", c06KnownPanic, fmt.Sprintf("start=%d, head=%d: Converge panicked after the node answered result:null for block start-1=%d: %v", j.Start, headBefore, j.Start-1, err))
					} else {
						vio("panic", "panic:"+tag, fmt.Sprintf("Converge panicked: %v", err))
						return
					}
				case "ahead", "error":
					if faulted := len(w.Faults) > nFaults; faulted && out == "error" {
						// the source failed in this step: the step may fail (it is retried); what it must not do is
						// write (judged on every commit and by state-changed-without-ok below)
						res.counts["steps_failed_by_source_fault"]++
						lastErr = err
						break
					}
					if !beyond {
						vio("outcome", "outcome:"+out+":"+tag+":"+errClass(err), fmt.Sprintf("unexpected step outcome %q: %v", out, err))
						return
					}
					lastErr = err
				default:
					vio("outcome", "outcome:"+out+":"+tag, fmt.Sprintf("unexpected step outcome %q on a growth-only history: %v", out, err))
					return
				}
				if out != "ok" && w.CommitHash != hashBefore {
					vio("state-changed-by-failed-step", "state-changed-without-ok:"+out+":"+tag, fmt.Sprintf("step outcome %q but the committed state changed", out))
					return
				}
				if out == "done" {
					doneStreak++
				} else {
					doneStreak = 0
				}
				if out == "nothing" && mHas && mCur == finalHead {
					idleStreak++
				} else {
					idleStreak = 0
				}
				if envDone() && (doneStreak >= 2 || idleStreak >= 2) {
					break
				}
				if !progress && !envDone() {
					// the task would sleep until something changes: the environment acts (one operation, or all that remain)
					waited = true
					k := 1
					if n := len(p.grow) - applied; n >= 2 && w.V.ChooseEnv(2, vrt.KFree, "grow:idle") == 1 {
						k = n
					}
					apply(k)
				}
				if s == maxSteps-1 {
					vio("noconverge", "noconverge:"+tag+":"+errClass(lastErr), fmt.Sprintf("after %d steps position=%v/%d, final head=%d; last error: %v", maxSteps, mHas, mCur, finalHead, lastErr))
					return
				}
			}
			// ---- final state ----
			want := finalHead
			if j.Stop > 0 && j.Stop < want {
				want = j.Stop
			}
			if j.Prior == "reconf" && j.Stop > 0 && j.P >= j.Stop {
				want = j.P // the recorded position is at or past the new stop: complete as it is
			}
			cur, has := w.Latest("src1", "ig1")
			if has != mHas || (has && cur.Num != mCur) {
				w.HarnessErr = fmt.Sprintf("model lost track of the cursor: db %v/%d model %v/%d", has, cur.Num, mHas, mCur)
				return
			}
			dump := world.RenderDump(w.PG.Dump("t1"), cols)
			if (j.Prior != "reconf" && j.Stop > 0 && j.Start > j.Stop) || (emptyDone && !has) {
				if has || len(dump) > 0 {
					vio("range", "written-with-empty-range:"+tag, fmt.Sprintf("start %d > stop %d but position=%v/%d and %d rows exist", j.Start, j.Stop, has, cur.Num, len(dump)))
				}
				return
			}
			if !has || cur.Num != want {
				vio("completion", "final-position:"+tag, fmt.Sprintf("run ended with position %v/%d, expected %d (stop=%d, final head=%d)", has, cur.Num, want, j.Stop, finalHead))
				return
			}
			if j.Stop > 0 && doneStreak < 2 {
				vio("completion", "ended-without-done:"+tag, fmt.Sprintf("position %d = stop recorded but the run did not end with completion reports", cur.Num))
				return
			}
			look := func(_, col string, v []byte) bool { // reference look-ups are answered from the sibling's committed table
				for _, r := range w.PG.Dump("t0") {
					if b, ok := r.Vals[col].([]byte); ok && string(b) == string(v) {
						return true
					}
				}
				return false
			}
			exp := world.RenderRows(d.Expect(p.full, "src1", 7, first, cur.Num, look), cols)
			if strings.Join(dump, "\n") != strings.Join(exp, "\n") {
				vio("rows", "final-table:"+tag, fmt.Sprintf("table != projection of blocks %d..%d\n%s", first, cur.Num, world.DiffSorted(dump, exp)))
			}
		})
		w.V.Join(tt)
	})
	res.trans = w.V.Transitions
	res.faults = append([]string{}, w.Faults...)
	if w.HarnessErr != "" {
		res.harness = w.HarnessErr
	}
	if len(w.V.Panics) > 0 {
		vio("panic", "panic-thread:"+tag, strings.Join(w.V.Panics, "\n"))
	}
	if w.V.Deadlock && res.harness == "" {
		vio("deadlock", "deadlock:"+tag, w.V.DeadlockMsg)
	}
	// outcome class
	switch {
	case len(res.vios) > 0 && !(len(res.vios) == 1 && res.vios[0].Key == c06KnownPanic):
		res.outcome = "VIOLATION:" + res.vios[len(res.vios)-1].Class
	case (j.Prior != "reconf" && j.Stop > 0 && j.Start > j.Stop) || (emptyDone && !mHas):
		res.outcome = "empty-range"
	case j.Stop > 0 && j.Stop <= finalHead:
		res.outcome = "done-at-stop"
	default:
		res.outcome = "at-final-head"
	}
	if res.rows == 0 {
		res.outcome += ":no-writes"
	}
	if res.restarts > 0 {
		res.outcome += ":restarted"
	}
	if waited {
		res.outcome += ":waited"
	}
	if beyondSeen {
		res.outcome += ":start-beyond-head"
	}
	if knownPanic {
		res.outcome += ":known-panic"
	}
	if len(res.faults) > 0 {
		res.outcome += ":source-fault"
	}
	for i := range res.vios {
		if len(res.faults) > 0 {
			res.vios[i].Detail += fmt.Sprintf("\ninjected: %v", res.faults)
		}
		if trace {
			res.vios[i].Detail += "\ntrace: " + strings.Join(w.V.Trace, " ")
		}
	}
	return res
}

// c06Bounds: deviations from the default schedule (growth only when the task idles, no restart):
// KPreempt = growth operations placed before a step or at a JSON-RPC exchange, KEnv = restarts.
func c06Bounds(j c06Job, thorough bool) explore.Bounds {
	var b explore.Bounds
	if j.Fault > 0 {
		b[0], b[vrt.KFault] = 1, 1 // one source fault, no other deviation
		return b
	}
	b[0], b[vrt.KPreempt], b[vrt.KEnv] = 1, 1, 1
	if j.H <= 2 || j.Start == 0 {
		b[0] = 2 // a placed growth AND a restart in one execution
	}
	if j.Sib != "" && !thorough {
		b[0], b[vrt.KEnv] = 1, 0 // (quick: no restarts on the two-integration jobs)
	}
	if thorough {
		b[0], b[vrt.KPreempt], b[vrt.KEnv] = 2, 2, 2
		if j.H >= 5 {
			b[vrt.KPreempt], b[vrt.KEnv] = 1, 1 // one placed growth and one restart
		}
	}
	return b
}

func c06Run(c *fw.Ctx) {
	jobs := c06Jobs(c.Thorough())
	c.Bound("jobs", len(jobs))
	c.Bound("head", "1..5")
	c.Bound("start", "0..h+2")
	c.Bound("stop", "unset,1..h+2")
	c.Bound("batch", "1..3")
	c.Bound("concurrency", "1..2")
	if c.Thorough() {
		c.Bound("deviations", "h <= 4: placed growth operations <= 2, restarts <= 2, together <= 2; h = 5: one placed growth and one restart")
	} else {
		c.Bound("deviations", "placed growth operations <= 1, restarts <= 1; both in one execution when h <= 2 or start unset, else one of them")
	}
	if c.Thorough() {
		c.Bound("source_fault", "1 fault per execution at any JSON-RPC exchange of the task: rpcerror,transport,status500,truncate")
	} else {
		c.Bound("source_fault", "1 fault per execution at any JSON-RPC exchange of the task: rpcerror,transport")
	}
	for _, j := range jobs {
		if !c.Mine() {
			continue
		}
		if c.Expired() {
			return
		}
		p, err := c06Prepare(j)
		if pf, ok := err.(*c06PriorFailed); ok {
			c.Eval(true)
			c.Outcome("VIOLATION:prior-run")
			c.Violation("C06", "prior-run", "prior-run:"+pf.what+":"+j.Shape, fmt.Sprintf("job %+v\n%s", j, pf.detail), c06Case{Job: j})
			continue
		}
		if cr, ok := err.(*c06ConfRejected); ok {
			c.Eval(true)
			c.Outcome("VIOLATION:config")
			c.Violation("C06", "config", "config:range-spelling-rejected:"+cr.spell, fmt.Sprintf("job %+v\n%s", j, cr.detail), c06Case{Job: j})
			continue
		}
		if err != nil {
			c.HarnessError("prepare %+v: %v", j, err)
			return
		}
		states := vrt.NewStateSet()
		tJob := time.Now()
		b := c06Bounds(j, c.Thorough())
		st := explore.Explore(b, true, func(r *explore.Run) bool {
			res := c06Exec(j, p, r, states, false)
			// (see C02: a prefix that does not reproduce is re-run twice; only a persistent divergence is reported)
			if r.Diverged != "" && res.harness == "" {
				c.Count("diverged_executions_rerun", 1)
				f1, f2 := explore.Replay(r.Trimmed()), explore.Replay(r.Trimmed())
				res1 := c06Exec(j, p, f1, states, false)
				c06Exec(j, p, f2, states, false)
				if f1.Diverged == "" && f2.Diverged == "" && strings.Join(f1.Labels(), "\n") == strings.Join(f2.Labels(), "\n") {
					*r, res = *f1, res1 // the two re-runs agree with each other: the first run was the outlier
				}
			}
			if res.harness != "" {
				c.HarnessError("job %+v choices %v: %s", j, r.Trimmed(), res.harness)
				return false
			}
			if r.Diverged != "" {
				c.HarnessError("HARNESS-NONDETERMINISM job %+v: %s", j, r.Diverged)
				return false
			}
			c.Eval(res.rows > 0 || res.restarts > 0)
			c.Count("source_faults_injected", int64(len(res.faults)))
			c.Outcome(res.outcome)
			c.Res.Transitions += res.trans
			c.Res.Traces++
			c.Count("rows_written", int64(res.rows))
			c.Count("restarts", int64(res.restarts))
			for k, v := range res.counts {
				c.Count(k, v)
			}
			for _, v := range res.vios {
				c.Violation("C06", v.Class, v.Key, fmt.Sprintf("job %+v\n%s", j, v.Detail), c06Case{Job: j, Bounds: b, Choices: r.Choices()})
			}
			if c.Res.Evaluations%20011 == 1 {
				c.Sample(map[string]any{"job": j, "schedule": r.Trimmed(), "labels_tail": tailLabels(r.Labels(), 6), "outcome": res.outcome})
			}
			return !c.Expired()
		})
		c.Res.States += int64(states.Len())
		if dbg := os.Getenv("C06_DEBUG"); dbg != "" {
			f, _ := os.OpenFile(dbg, os.O_APPEND|os.O_CREATE|os.O_WRONLY, 0o644)
			fmt.Fprintf(f, "job %+v: executions=%d points=%d maxdepth=%d complete=%v ms=%d shard=%d\n", j, st.Executions, st.Points, st.MaxDepth, st.Complete, time.Since(tJob).Milliseconds(), c.Shard)
			f.Close()
		}
		if !st.Complete {
			c.Cap("time-budget")
			return
		}
		c.Count("jobs_completed", 1)
		c.Count("jobs_prior_"+j.Prior, 1)
		if j.Sib != "" {
			c.Count("jobs_sibling_"+j.Sib, 1)
		}
		if j.Fault > 0 {
			c.Count("jobs_source_fault", 1)
		}
	}
}

func c06Replay(c *fw.Ctx, raw json.RawMessage) {
	var k c06Case
	if err := json.Unmarshal(raw, &k); err != nil {
		c.HarnessError("bad case: %v", err)
		return
	}
	p, err := c06Prepare(k.Job)
	if pf, ok := err.(*c06PriorFailed); ok {
		c.Eval(true)
		c.Violation("C06", "prior-run", "prior-run:"+pf.what+":"+k.Job.Shape, pf.detail, k)
		return
	}
	if cr, ok := err.(*c06ConfRejected); ok {
		c.Eval(true)
		c.Violation("C06", "config", "config:range-spelling-rejected:"+cr.spell, cr.detail, k)
		return
	}
	if err != nil {
		c.HarnessError("prepare: %v", err)
		return
	}
	r := explore.Replay(k.Choices)
	res := c06Exec(k.Job, p, r, nil, true)
	c.Eval(true)
	if res.harness != "" {
		c.HarnessError("%s", res.harness)
		return
	}
	if r.Diverged != "" {
		c.HarnessError("HARNESS-NONDETERMINISM replay diverged: %s", r.Diverged)
		return
	}
	for _, v := range res.vios {
		c.Violation("C06", v.Class, v.Key, v.Detail, k)
	}
}
