//go:build verif

package rangefault

import (
	"fmt"
	"math/big"
	"regexp"
	"strings"

	"verifh/ref"
	"verifh/simeth"
	"verifh/world"
)

// ---- declaration shapes (copied from checks/pipe/common.go) ---------------------------------

var (
	addrA = simeth.Addr("contract-A")
	addrB = simeth.Addr("contract-B")
)

// shape returns a fresh declaration of the named shape for integration name ig / table tbl.
func shape(name, ig, tbl string, srcs ...world.SrcRef) *world.Decl {
	d := &world.Decl{Name: ig, Table: tbl, Sources: srcs}
	switch name {
	case "L1": // log event, indexed + non-indexed scalars + block fields; plan headers+logs
		d.Event = "Transfer"
		d.Inputs = []world.Input{
			{Name: "from", Type: "address", Indexed: true, Column: "f"},
			{Name: "to", Type: "address", Indexed: true, Column: "t"},
			{Name: "value", Type: "uint256", Column: "v"},
		}
		d.Fields = []world.Field{{Name: "block_time", Column: "block_time"}, {Name: "tx_hash", Column: "tx_hash"}, {Name: "log_addr", Column: "log_addr"}, {Name: "block_hash", Column: "block_hash"}}
	case "L2": // dynamic array input: several rows per log; plan logs only (no block hashes)
		d.Event = "Batch"
		d.Inputs = []world.Input{
			{Name: "op", Type: "address", Indexed: true, Column: "op"},
			{Name: "ids", Type: "uint256[]", Column: "id"},
		}
	case "T1": // transaction indexing with a filter; plan blocks
		d.Fields = []world.Field{{Name: "tx_hash", Column: "tx_hash"}, {Name: "tx_to", Column: "tx_to"}, {Name: "tx_value", Column: "tx_value"},
			{Name: "tx_input", Column: "tx_input"}, {Name: "tx_nonce", Column: "tx_nonce", Op: "gt", Arg: []string{"1"}}, {Name: "block_hash", Column: "block_hash"}}
	case "R1": // transaction + receipt fields; plan blocks+receipts
		d.Fields = []world.Field{{Name: "tx_hash", Column: "tx_hash"}, {Name: "tx_input", Column: "tx_input"}, {Name: "tx_status", Column: "tx_status"},
			{Name: "tx_gas_used", Column: "tx_gas_used"}, {Name: "block_hash", Column: "block_hash"}}
	default:
		panic("unknown shape " + name)
	}
	return d
}

var decoyOther = &world.Decl{Name: "decoy", Event: "Other", Inputs: []world.Input{{Name: "x", Type: "address", Indexed: true, Column: "x"}, {Name: "y", Type: "uint256", Column: "y"}}}

// mkLog builds a matching log of decl d (values derived from a seed string).
func mkLog(d *world.Decl, addr []byte, seed string) *simeth.Log {
	var vals []ref.Value
	for i, in := range d.Inputs {
		s := fmt.Sprintf("%s/%s/%d", seed, in.Name, i)
		switch {
		case strings.HasSuffix(in.Type, "[]"):
			n := int(simeth.Word(s + "/len")[0])%3 + 1 // 1..3 elements
			var els []any
			for k := 0; k < n; k++ {
				els = append(els, scalarVal(strings.TrimSuffix(in.Type, "[]"), fmt.Sprintf("%s/%d", s, k)))
			}
			vals = append(vals, els)
		default:
			vals = append(vals, scalarVal(in.Type, s))
		}
	}
	return d.MkLog(addr, vals...)
}

func scalarVal(typ, seed string) []byte {
	switch {
	case typ == "address":
		return world.AddrWord(simeth.Addr(seed))
	case typ == "bool":
		return world.U(uint64(simeth.Word(seed)[0] & 1))
	case strings.HasPrefix(typ, "uint"), strings.HasPrefix(typ, "int"):
		x := new(big.Int).SetBytes(simeth.Word(seed)[:12])
		return world.WordBig(x)
	case typ == "string", typ == "bytes":
		return simeth.Word(seed)[:7]
	}
	return simeth.Word(seed)
}

// blockOfKind builds the content of one block of the given kind for decl d.
//
//	e: empty block (no transactions): produces no rows
//	a: one tx, one matching log, one trace
//	c: two txs with two matching logs each, one trace each
//
// (kinds a and c produce rows for every shape used here, so a block that was written is visible in the table)
func blockOfKind(kind byte, d *world.Decl, seed string) simeth.BlockSpec {
	tr := func(s string) *simeth.Trace {
		return &simeth.Trace{From: simeth.Addr(s + "/tf"), To: simeth.Addr(s + "/tt"), Value: new(big.Int).SetBytes(simeth.Word(s + "/tv")[:9]), CallType: "call"}
	}
	lg := func(s string, addr []byte) *simeth.Log {
		if d.Event == "" {
			return mkLog(decoyOther, addr, s)
		}
		return mkLog(d, addr, s)
	}
	switch kind {
	case 'e':
		return simeth.BlockSpec{}
	case 'a':
		return simeth.BlockSpec{Txs: []simeth.TxSpec{{Logs: []*simeth.Log{lg(seed+"/0", addrA)}, Traces: []*simeth.Trace{tr(seed + "/0")}}}}
	case 'z': // one tx: four logs of another event, then one matching log (log index 4: no row key in common with kinds a and c)
		var logs []*simeth.Log
		for i := 0; i < 4; i++ {
			logs = append(logs, mkLog(decoyOther, addrA, fmt.Sprintf("%s/d%d", seed, i)))
		}
		logs = append(logs, lg(seed+"/0", addrA))
		return simeth.BlockSpec{Txs: []simeth.TxSpec{{Logs: logs, Traces: []*simeth.Trace{tr(seed + "/0")}}}}
	case 'c':
		return simeth.BlockSpec{Txs: []simeth.TxSpec{
			{Logs: []*simeth.Log{lg(seed+"/0", addrA), lg(seed+"/1", addrA)}, Traces: []*simeth.Trace{tr(seed + "/0")}},
			{Logs: []*simeth.Log{lg(seed+"/2", addrA), lg(seed+"/3", addrB)}, Traces: []*simeth.Trace{tr(seed + "/1")}},
		}}
	}
	panic("block kind")
}

func specsOf(word string, d *world.Decl, salt uint64, firstNum int) []simeth.BlockSpec {
	var specs []simeth.BlockSpec
	for i := 0; i < len(word); i++ {
		specs = append(specs, blockOfKind(word[i], d, fmt.Sprintf("s%d/b%d", salt, firstNum+i)))
	}
	return specs
}

// buildChain builds genesis + one block per letter of word.
func buildChain(word string, d *world.Decl, salt uint64) *simeth.Chain {
	return simeth.Build(specsOf(word, d, salt, 1), salt)
}

// acWord is the alternating word "acac…" of length n: every block produces rows.
func acWord(n int) string {
	b := make([]byte, n)
	for i := range b {
		b[i] = "ac"[i%2]
	}
	return string(b)
}

// sparseWord is a word of length n of mostly empty blocks: blocks b with b mod 32 in {0,1} (so 1, 32, 33, ..., 256, 257,
// ...) and the last block carry rows (kinds a and c alternating), every other block is empty.
func sparseWord(n int) string {
	b := make([]byte, n)
	for i := range b {
		num := i + 1
		switch {
		case num%32 <= 1 || num == n:
			b[i] = "ac"[(num/32+num)%2]
		default:
			b[i] = 'e'
		}
	}
	return string(b)
}

var numRe = regexp.MustCompile(`[0-9]+`)

func errClass(err error) string {
	if err == nil {
		return ""
	}
	s := err.Error()
	if len(s) > 120 {
		s = s[:120]
	}
	return numRe.ReplaceAllString(s, "N")
}

func bigU(v any) (uint64, bool) {
	if x, ok := v.(*big.Int); ok && x != nil {
		return x.Uint64(), true
	}
	return 0, false
}

func tailLabels(l []string, n int) []string {
	if len(l) > n {
		return l[len(l)-n:]
	}
	return l
}
