//go:build verif

package rangefault

import (
	"fmt"
	"os"

	"verifh/vrt"
)

type dbgChooser struct {
	in vrt.Chooser
	f  *os.File
}

func (d *dbgChooser) Choose(kinds []uint8, label string) int {
	c := d.in.Choose(kinds, label)
	fmt.Fprintf(d.f, "  %v %s -> %d\n", kinds, label, c)
	return c
}
