//go:build verif

// Package rangefault holds world harnesses (see DESIGN.md §4).
package rangefault
