// Package checks holds one harness per property. Pure harnesses (no scheduler,
// no simulators) live in files without a build tag and are also compiled into
// the un-instrumented binary; world harnesses carry `//go:build verif`.
package checks

import (
	"encoding/json"
	"sort"
	"time"

	"verifh/fw"
)

type Check struct {
	ID            string
	Level         string // evidence level: exploration | fault_enumeration | model_checking
	Rule          string // how cases are enumerated and what makes one non-trivial
	Technique     string
	Assumptions   []string
	Run           func(c *fw.Ctx)
	Replay        func(c *fw.Ctx, raw json.RawMessage)   // re-execute one recorded case; must report the violation again if it still fails
	Budget        map[string]time.Duration               // per tier internal time cap per worker (exit 0, exhaustive:false when hit)
	MinNontrivial int64                                  // non-vacuity floor (harness error when not met on an exhaustive run)
	Shards        int                                    // 0 = default
	Inst          bool                                   // needs the instrumented (overlay) build
	Race          bool                                   // needs the -race build
	ReplayLoose   bool                                   // a replay reproduces when it reports ANY violation (the race detector picks the reported previous access non-deterministically)
	CaseLimit     time.Duration                          // watchdog: a single guarded case running longer than this is a violation (C10)
	Crumbs        bool                                   // keep a crash breadcrumb (a worker killed by a fatal runtime error names its case)
	Extra         func(m *fw.Merged, cov map[string]any) // extra coverage keys
}

var reg = map[string]*Check{}

func Register(c *Check)    { reg[c.ID] = c }
func Get(id string) *Check { return reg[id] }
func IDs() []string {
	var ids []string
	for k := range reg {
		ids = append(ids, k)
	}
	sort.Strings(ids)
	return ids
}
