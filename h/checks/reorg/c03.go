//go:build verif

package reorg

import (
	"encoding/json"
	"fmt"
	"os"
	"sort"
	"strconv"
	"strings"
	"time"

	"verifh/checks"
	"verifh/explore"
	"verifh/fw"
	"verifh/simeth"
	"verifh/simpg"
	"verifh/vrt"
	"verifh/world"
)

// C03 — after a reorg the table converges to the canonical chain; orphaned rows vanish.
//
// Job = (integration set, n, index-time batch b0, batch b1, conc, pre-growth, fork depth d,
// replacement length r, content variant, optional second reorg, post-growth).
// Phase 1 (real pipeline, sequential, once per job; its database is the start state of every
// execution): index the n-block chain to the head with batch b0. Every execution restarts with new
// settings (second config: batch b1 / conc). Phase 2 (explored): task thread(s)
// stepping, environment thread applying [grow] reorg [reorg2] [grow]; the reorg may land at every
// RPC point of the task threads. Oracle at quiescence + frame condition at every commit.

type c03Second struct {
	Off   int `json:"off"`   // fork2 = fork1 + Off (on the chain produced by the first reorg)
	Extra int `json:"extra"` // replacement length = (head1 - fork2) + Extra
}

type c03Job struct {
	Igs  string     `json:"igs"` // L1 | T1 | R1 | TR1 | L1+T1 | T1+R1 | T1+TR1
	N    int        `json:"n"`
	B0   int        `json:"b0"`
	B1   int        `json:"b1"`
	Conc int        `json:"conc"`
	Pre  int        `json:"pre"`  // blocks appended (not yet indexed) before the reorg
	D    int        `json:"d"`    // fork = n - d
	R    int        `json:"r"`    // replacement length relative to the indexed depth: replaces d(+pre) blocks by r(+pre)
	Var  string     `json:"var"`  // same | removed | added | moved
	Post int        `json:"post"` // blocks appended after the last reorg
	Sec  *c03Second `json:"sec,omitempty"`
	Deep bool       `json:"deep,omitempty"` // explore with two deviations (thorough tier, selected jobs)
	Flat bool       `json:"flat,omitempty"` // free switches only, no deviation: jobs about the DEPTH of a reorg, not about interleavings
	Poll int        `json:"poll,omitempty"` // k > 0: the client's background head poller answers once before every k-th step of a task (0: it never answers)
}

type c03Case struct {
	Job     c03Job `json:"job"`
	Bounds  [6]int `json:"bounds"`
	Choices []int  `json:"choices"`
}

const c03Word = "caacaca"

func init() {
	checks.Register(&checks.Check{
		ID:        "C03",
		Level:     "model_checking",
		Technique: "stateless model checking of the real pipeline (controlled scheduler over instrumented code, fake Postgres, simulated node): a chain indexed with batch b0, restart with batch b1/conc, then every interleaving (preemption-bounded, reorg landing at every RPC point) of the task thread(s) with an environment thread applying growth and one or two reorgs, without and with a live background head poller answering between the steps; oracle = independent projection of the final canonical chain + frame condition on every commit diff",
		Rule: "jobs = integration sets {L1 (headers+logs), T1 (blocks), R1 (blocks+receipts), TR1 (blocks+traces), and L1+T1, T1+R1, T1+TR1 sharing one source client} x n in {4,5} (thorough 6) x index batch b0 in 1..3 x batch b1 in 1..3 x conc in {1,2} x pre-growth {0,1} x fork depth d in 1..3 x replacement length r in {d-1,d,d+1,d+2} x content {same, log removed, added, moved} x post-growth {0,1} x optional second reorg at fork-1/fork/fork+1 (equal or longer), plus deep reorgs orphaning 12-15 recorded positions (n=14..26, explored with free switches only), plus the live-head-poller family: fork depth d in 1..2 (thorough 1..3) x r in {d-1,d,d+1} x growth afterwards {no,yes} x index batch 1..2 (thorough 1..3) with shape/b1/conc/pre-growth/content rotating (thorough: every shape), in which the client's background head poller answers once before EVERY step of the task (a poller answer between every two head queries of the task, while the source changes and after it has settled; also: before every second step, two head replacements in a row, two integrations on one client); thorough = the product with content/growth flags rotating over it, quick = a hand-picked covering subset (see c03Jobs); " +
			"per job every schedule of task thread(s) and the environment thread with <= 1 deviation (thorough: 2 on the single-integration jobs with index batch 1), free switches at step boundaries and between environment operations, environment switches otherwise only at RPC points; both partition orders when conc=2 and index batch 1. An execution is non-trivial when the code under test deleted at least one row or cursor (a reorg was unwound) or the oracle rejected it; distinct = distinct (job, choice sequence).",
		Assumptions: []string{
			"fake Postgres (h/simpg) interprets the SQL shovel sends; simulated node (h/simeth) answers like a well-behaved geth that switches chains atomically between two requests",
			"phase 1 (index the n-block chain to its head with batch b0, real pipeline, sequential) runs once per job in a scratch world; its database is the start state of every execution, which begins with a process restart: fresh tasks and source client from the second config (batch b1 / conc), then one idle poll per task (nothing new yet) — if the real pipeline fails phase 1 (plain indexing, C01/C04 territory) the job is reported as violation class 'setup' (key index-phase-failed:<set>), not explored",
			"'the source settles' = the environment thread has applied its last chain change; afterwards each task is stepped until it reports 'no new blocks' (number of integrations + 1) times in a row (the head cache may serve that many stale answers), horizon 4n+8 steps",
			"while the source has not changed since its last poll a task does not poll again (it would repeat the same step)",
			"head poller: in the jobs without 'poll' the client's background head poller never answers (its ticker never fires); in the jobs with poll=k its ticker fires once before every k-th step of a task and the step begins when the poller has fed the node's answer to the head cache and parked again — a poller answer never lands INSIDE a step, and the environment thread is held while a poller answer is in progress (a chain change commutes with everything the poller does but its one RPC exchange: 'during the poll' equals 'at the step boundary in front of it' or 'at the next RPC point after it', which are both enumerated); with several task threads the poller answers only while the tasks are drained after the source settled",
			"reductions with several tasks on one client: the schedule space is explored while the source changes (afterwards the tasks are drained one after the other); only the first task's step boundaries are free switch points; preemptive switches to a task happen at RPC exchanges / step boundaries only; at most two environment operations",
		},
		Budget:        map[string]time.Duration{"quick": 140 * time.Second, "thorough": 850 * time.Second},
		MinNontrivial: 1000,
		Inst:          true,
		Run:           c03Run,
		Replay:        c03Replay,
	})
}

// ---- job enumeration ----------------------------------------------------------------------

func c03Valid(j c03Job) bool {
	if j.D < 1 || j.D > j.N-1 || j.R < 0 {
		return false
	}
	if j.R+j.Pre == 0 && j.Var != "same" {
		return false
	}
	if j.Var == "moved" && j.R+j.Pre < 2 {
		return false
	}
	if j.Sec != nil {
		fork1 := j.N - j.D
		head1 := fork1 + j.R + j.Pre
		f2 := fork1 + j.Sec.Off
		if f2 < 0 || f2 >= head1 || head1-f2+j.Sec.Extra < 0 {
			return false
		}
	}
	return true
}

// c03DeepJobs: reorgs that orphan more than ten recorded positions (the roll-back walks one position per loop turn).
func c03DeepJobs(thorough bool) []c03Job {
	jobs := []c03Job{
		{Igs: "L1", N: 14, B0: 1, B1: 1, Conc: 1, D: 13, R: 14, Var: "same", Flat: true},             // 13 positions, batch 1
		{Igs: "T1", N: 14, B0: 1, B1: 3, Conc: 1, D: 12, R: 13, Var: "same", Post: 1, Flat: true},    // 12 positions, re-indexed in batches of 3
		{Igs: "L1", N: 26, B0: 2, B1: 2, Conc: 1, D: 24, R: 25, Var: "removed", Flat: true},          // 12 positions of 2 blocks each
	}
	if thorough {
		jobs = append(jobs,
			c03Job{Igs: "R1", N: 14, B0: 1, B1: 2, Conc: 2, Pre: 1, D: 13, R: 13, Var: "added", Post: 1, Flat: true},
			c03Job{Igs: "TR1", N: 16, B0: 1, B1: 1, Conc: 1, D: 15, R: 16, Var: "same", Flat: true},
			c03Job{Igs: "L1", N: 14, B0: 1, B1: 1, Conc: 1, D: 13, R: 14, Var: "same"}, // the same depth with one deviation
		)
	}
	return jobs
}

func c03Jobs(thorough bool) []c03Job {
	var jobs []c03Job
	seen := map[string]bool{}
	add := func(j c03Job) {
		if !c03Valid(j) {
			return
		}
		k := c03JobString(j)
		if seen[k] {
			return
		}
		seen[k] = true
		jobs = append(jobs, j)
	}
	vars := []string{"same", "removed", "added", "moved"}
	for _, j := range c03DeepJobs(thorough) {
		add(j)
	}
	if thorough {
		// broad product; content variant and growth flags rotate with the other dimensions
		grid := func(ig string, ns, b0s, b1s, concs, ds []int) {
			for _, n := range ns {
				for _, b0 := range b0s {
					for _, b1 := range b1s {
						for _, conc := range concs {
							for _, d := range ds {
								for r := d - 1; r <= d+2; r++ {
									h := n + b0*3 + b1*5 + conc*7 + d*11 + r*13 + len(ig)
									if strings.Contains(ig, "+") {
										// several tasks: at most two environment operations (growth before or after the reorg)
										add(c03Job{Igs: ig, N: n, B0: b0, B1: b1, Conc: conc, Pre: h % 2, D: d, R: r, Var: vars[h%4], Post: 1 - h%2})
										continue
									}
									add(c03Job{Igs: ig, N: n, B0: b0, B1: b1, Conc: conc, Pre: h % 2, D: d, R: r, Var: vars[h%4], Post: 1 - (h/2)%4/3})
									if r >= d {
										add(c03Job{Igs: ig, N: n, B0: b0, B1: b1, Conc: conc, Pre: (h + 1) % 2, D: d, R: r, Var: vars[(h+2)%4], Post: 1})
									}
								}
							}
						}
					}
				}
			}
		}
		grid("L1", []int{4, 5}, []int{1, 2, 3}, []int{1, 2, 3}, []int{1, 2}, []int{1, 2, 3})
		grid("L1", []int{6}, []int{2, 3}, []int{1, 3}, []int{1}, []int{1, 2, 3})
		grid("T1", []int{5}, []int{1, 2, 3}, []int{1, 2, 3}, []int{1, 2}, []int{1, 2, 3})
		grid("R1", []int{5}, []int{1, 2, 3}, []int{1, 2, 3}, []int{1, 2}, []int{1, 2, 3})
		grid("TR1", []int{5}, []int{1, 2, 3}, []int{1, 2, 3}, []int{1, 2}, []int{1, 2, 3})
		grid("L1+T1", []int{4}, []int{1, 2, 3}, []int{1, 2}, []int{1}, []int{1, 2})
		grid("T1+R1", []int{4}, []int{1, 2}, []int{1, 2}, []int{1}, []int{1, 2})
		grid("T1+TR1", []int{4}, []int{1, 2}, []int{1, 2}, []int{1}, []int{1, 2})
		// two deviations on the single-integration jobs with index batch 1
		for i := range jobs {
			if jobs[i].B0 == 1 && jobs[i].N <= 6 && !strings.Contains(jobs[i].Igs, "+") {
				jobs[i].Deep = true
			}
		}
		// repeated / nested reorgs
		for _, ig := range []string{"L1", "T1", "R1", "TR1", "L1+T1"} {
			for _, b0 := range []int{1, 2, 3} {
				for _, b1 := range []int{1, 2} {
					for _, d := range []int{1, 2} {
						for _, off := range []int{-1, 0, 1} {
							for _, extra := range []int{0, 1} {
								if strings.Contains(ig, "+") { // several tasks: the two reorgs are the only environment operations
									add(c03Job{Igs: ig, N: 4, B0: b0, B1: b1, Conc: 1, D: d, R: d + 1, Var: "same", Sec: &c03Second{Off: off, Extra: 1}})
									continue
								}
								add(c03Job{Igs: ig, N: 5, B0: b0, B1: b1, Conc: 1, Pre: (b0 + d) % 2, D: d, R: d + 1, Var: "same", Post: 1, Sec: &c03Second{Off: off, Extra: extra}, Deep: b0 == 1})
							}
						}
					}
				}
			}
		}
		// live head poller (explored with one deviation)
		for _, j := range c03PollJobs(true) {
			add(j)
		}
		return jobs
	}
	// quick: a covering subset.
	// A: L1, index batch 1: every (d, r) x pre-growth, growth afterwards; b1 / conc / n / content rotate
	for d := 1; d <= 3; d++ {
		for r := d - 1; r <= d+2; r++ {
			for pre := 0; pre <= 1; pre++ {
				h := d*3 + r*5 + pre
				add(c03Job{Igs: "L1", N: 4 + h%2, B0: 1, B1: 1 + h%3, Conc: 1 + (h/3)%2, Pre: pre, D: d, R: r, Var: vars[h%4], Post: 1})
			}
		}
	}
	// B: T1 / R1, index batch 1
	for _, ig := range []string{"T1", "R1", "TR1"} {
		for i, dr := range [][2]int{{1, 2}, {2, 1}, {2, 3}, {3, 2}} {
			for pre := 0; pre <= 1; pre++ {
				h := i + pre*2 + len(ig)
				add(c03Job{Igs: ig, N: 5, B0: 1, B1: 1 + h%3, Conc: 1 + h%2, Pre: pre, D: dr[0], R: dr[1], Var: vars[(h+1)%4], Post: 1})
			}
		}
	}
	// C: no growth after the reorg: shorter / equal / longer, every content variant
	for i, v := range vars {
		add(c03Job{Igs: "L1", N: 4, B0: 1, B1: 1, Conc: 1, Pre: 0, D: 2, R: 1 + i%3, Var: v, Post: 0})
		add(c03Job{Igs: "T1", N: 4, B0: 1, B1: 2, Conc: 1, Pre: i % 2, D: 1 + i%2, R: i, Var: v, Post: 0})
	}
	// D: index batch > 1 (the orphaned batch starts above the previous recorded position): L1 every (d, r), T1/R1 three
	for b0 := 2; b0 <= 3; b0++ {
		for d := 1; d <= 3; d++ {
			for r := d - 1; r <= d+2; r++ {
				h := b0*7 + d*3 + r*5
				add(c03Job{Igs: "L1", N: 4 + h%2, B0: b0, B1: 1 + h%3, Conc: 1, Pre: h % 2, D: d, R: r, Var: vars[h%4], Post: 1})
			}
		}
		for i, dr := range [][2]int{{1, 2}, {2, 3}, {3, 2}} {
			add(c03Job{Igs: "T1", N: 5, B0: b0, B1: 1 + (i+b0)%3, Conc: 1, Pre: i % 2, D: dr[0], R: dr[1], Var: vars[(i+b0)%4], Post: 1})
			add(c03Job{Igs: "R1", N: 4 + i%2, B0: b0, B1: 1 + (i+b0+1)%3, Conc: 1, Pre: (i + 1) % 2, D: dr[0], R: dr[1], Var: vars[(i+b0+2)%4], Post: 1})
			add(c03Job{Igs: "TR1", N: 4 + (i+1)%2, B0: b0, B1: 1 + (i+b0+2)%3, Conc: 1, Pre: i % 2, D: dr[0], R: dr[1], Var: vars[(i+b0+3)%4], Post: 1})
		}
	}
	add(c03Job{Igs: "L1", N: 4, B0: 2, B1: 2, Conc: 2, Pre: 1, D: 1, R: 2, Var: "same", Post: 1})
	// E: two integrations with different plans on one source client (at most two environment operations)
	for i, x := range [][6]int{{1, 1, 1, 2, 1, 0}, {1, 2, 1, 2, 0, 1}, {1, 1, 2, 3, 1, 0}, {1, 2, 2, 1, 0, 1}, {2, 1, 1, 2, 1, 0}, {3, 2, 2, 3, 1, 0}} {
		add(c03Job{Igs: "L1+T1", N: 4, B0: x[0], B1: x[1], Conc: 1, Pre: x[4], D: x[2], R: x[3], Var: vars[i%4], Post: x[5]})
	}
	add(c03Job{Igs: "T1+R1", N: 4, B0: 1, B1: 1, Conc: 1, Pre: 1, D: 1, R: 2, Var: "same", Post: 0})
	add(c03Job{Igs: "T1+TR1", N: 4, B0: 1, B1: 1, Conc: 1, Pre: 1, D: 1, R: 2, Var: "same", Post: 0})
	add(c03Job{Igs: "T1+TR1", N: 4, B0: 2, B1: 1, Conc: 1, Pre: 1, D: 2, R: 3, Var: "removed", Post: 0})
	// F: repeated / nested reorgs
	for i, off := range []int{-1, 0, 1} {
		add(c03Job{Igs: "L1", N: 4, B0: 1, B1: 1, Conc: 1, Pre: i % 2, D: 1, R: 2, Var: "same", Post: 1, Sec: &c03Second{Off: off, Extra: 1}})
		add(c03Job{Igs: "T1", N: 4, B0: 1, B1: 2, Conc: 1, Pre: 1 - i%2, D: 2, R: 3, Var: "same", Post: 1, Sec: &c03Second{Off: off, Extra: i % 2}})
	}
	add(c03Job{Igs: "L1+T1", N: 4, B0: 1, B1: 1, Conc: 1, Pre: 0, D: 1, R: 2, Var: "same", Post: 0, Sec: &c03Second{Off: 0, Extra: 1}})
	add(c03Job{Igs: "TR1", N: 4, B0: 1, B1: 1, Conc: 1, Pre: 1, D: 2, R: 3, Var: "same", Post: 1, Sec: &c03Second{Off: -1, Extra: 1}})
	for _, j := range c03PollJobs(false) {
		add(j)
	}
	return jobs
}

// c03PollJobs: the client's background head poller is alive: it answers once before every step (Poll=1) or every
// second step (Poll=2) of a task, while the source changes and after it has settled. The head cache is then fed
// from two sides (the poller and the task's own head queries).
func c03PollJobs(thorough bool) []c03Job {
	vars := []string{"same", "removed", "added", "moved"}
	var jobs []c03Job
	// every (d, r) with r in d-1..d+1 x growth afterwards {no, yes} x index batch; the integration shape, the batch after
	// the restart, growth before the reorg and the content variant rotate (thorough: every shape, d and index batch up to 3)
	igs, dmax, b0max, n := []string{"L1", "T1", "R1", "TR1"}, 2, 2, 4
	reps := 1
	if thorough {
		dmax, b0max, n, reps = 3, 3, 5, 4
	}
	k := 0
	for rep := 0; rep < reps; rep++ {
		for d := 1; d <= dmax; d++ {
			for r := d - 1; r <= d+1; r++ {
				for post := 0; post <= 1; post++ {
					for b0 := 1; b0 <= b0max; b0++ {
						jobs = append(jobs, c03Job{Igs: igs[(k+k/4+rep)%4], N: n, B0: b0, B1: 1 + (k/2)%3, Conc: 1 + (k/3)%2, Pre: (k / 4) % 2, D: d, R: r, Var: vars[(k/5)%4], Post: post, Poll: 1})
						k++
					}
				}
			}
		}
	}
	// the poller answers before every second step only
	jobs = append(jobs,
		c03Job{Igs: "L1", N: 4, B0: 1, B1: 1, Conc: 1, D: 1, R: 1, Var: "same", Post: 0, Poll: 2},
		c03Job{Igs: "T1", N: 4, B0: 1, B1: 2, Conc: 1, Pre: 1, D: 2, R: 2, Var: "removed", Post: 0, Poll: 2},
	)
	// two replacements of the head in a row, the second of equal height, then quiet
	jobs = append(jobs, c03Job{Igs: "L1", N: 4, B0: 1, B1: 1, Conc: 1, D: 1, R: 2, Var: "same", Post: 0, Sec: &c03Second{Off: 0, Extra: 0}, Poll: 1})
	// two integrations on one client (head cache budget 2): the poller answers while the tasks are drained
	jobs = append(jobs,
		c03Job{Igs: "L1+T1", N: 4, B0: 1, B1: 1, Conc: 1, D: 1, R: 1, Var: "same", Post: 0, Poll: 1},
		c03Job{Igs: "T1+R1", N: 4, B0: 2, B1: 1, Conc: 1, D: 2, R: 2, Var: "added", Post: 0, Poll: 1},
	)
	if thorough {
		jobs = append(jobs,
			c03Job{Igs: "L1+T1", N: 4, B0: 1, B1: 2, Conc: 1, Pre: 1, D: 1, R: 2, Var: "removed", Post: 0, Poll: 1},
			c03Job{Igs: "T1+TR1", N: 4, B0: 1, B1: 1, Conc: 1, D: 2, R: 2, Var: "same", Post: 0, Poll: 2},
			c03Job{Igs: "L1", N: 5, B0: 3, B1: 2, Conc: 2, D: 3, R: 3, Var: "moved", Post: 0, Poll: 1},
			c03Job{Igs: "R1", N: 5, B0: 1, B1: 3, Conc: 2, Pre: 1, D: 3, R: 3, Var: "same", Post: 0, Poll: 1},
		)
	}
	return jobs
}

// ---- preparation ----------------------------------------------------------------------------

type c03Op struct {
	label string
	chain *simeth.Chain
	fork  int // >= 0: a reorg with this fork point; -1: growth
}

type c03Prep struct {
	decls []*world.Decl
	conf0 string // index-time settings
	conf1 string // settings after the restart
	snap  *simpg.Snapshot
	orig  *simeth.Chain
	ops   []c03Op
	final *simeth.Chain
	hist  []uint64 // cursor positions written at index time
}

// indexPhaseErr: the REAL pipeline failed to index the original chain (before any reorg). That is a finding about
// the code under test (plain indexing, C01/C04 territory), not a harness problem: it is reported as a violation of
// class "setup" because the premise of the property cannot even be established.
type indexPhaseErr struct{ msg string }

func (e *indexPhaseErr) Error() string { return e.msg }

// c03Phase1 indexes the original chain to its head with batch b0 (sequentially, real pipeline) and
// keeps the resulting database; every execution of the job starts from it with a process restart.
func c03Phase1(j c03Job, p *c03Prep) error {
	w := world.New(nil, world.Cfg{Snap: p.snap, Chains: map[string]*simeth.Chain{"node1": p.orig}})
	var perr error
	w.Run(func() {
		conf0, err := world.ParseConf(p.conf0)
		if err != nil {
			perr = err
			return
		}
		tasks0, err := w.LoadTasks(conf0)
		if err != nil || len(tasks0) != len(p.decls) {
			perr = fmt.Errorf("loadTasks(conf0): %v (%d tasks)", err, len(tasks0))
			return
		}
		for _, t := range tasks0 {
			for s := 0; ; s++ {
				out, err := t.Step()
				if out == "nothing" {
					break
				}
				if out != "ok" || s > 3*j.N {
					perr = &indexPhaseErr{fmt.Sprintf("index phase: task %s step %d: %s %v", t.Key(), s, out, err)}
					return
				}
			}
		}
		for _, d := range p.decls {
			cols := w.TableCols(d.Table)
			got := world.RenderDump(w.PG.Dump(d.Table), cols)
			want := world.RenderRows(d.Expect(p.orig, "src1", 7, 1, uint64(j.N), nil), cols)
			if strings.Join(got, "\n") != strings.Join(want, "\n") {
				perr = &indexPhaseErr{fmt.Sprintf("index phase: after indexing the original chain to its head (no reorg yet) table %s != projection\n%s", d.Table, world.DiffSorted(got, want))}
				return
			}
		}
		for _, c := range w.Cursors() {
			if c.IG == p.decls[0].Name {
				p.hist = append(p.hist, c.Num)
			}
		}
		sort.Slice(p.hist, func(a, b int) bool { return p.hist[a] < p.hist[b] })
		w.V.WaitIdle()
		p.snap = w.PG.Snapshot()
	})
	if perr == nil && w.HarnessErr != "" {
		perr = fmt.Errorf("phase 1: %s", w.HarnessErr)
	}
	return perr
}

var c03PrepCache = map[string]*c03Prep{}

func c03Decls(igs string) []*world.Decl {
	src := world.SrcRef{Name: "src1", Start: 1}
	var ds []*world.Decl
	switch igs {
	case "L1", "T1", "R1", "TR1":
		ds = []*world.Decl{shape(igs, "ig1", "t1", src)}
	case "T1+TR1": // transaction indexing next to trace indexing (both read the client's block cache)
		ds = []*world.Decl{shape("T1", "ig1", "t1", src), shape("TR1", "ig2", "t2", src)}
	case "L1+T1":
		ds = []*world.Decl{shape("L1", "ig1", "t1", src), shape("T1", "ig2", "t2", src)}
	case "T1+R1": // both read the client's block cache
		ds = []*world.Decl{shape("T1", "ig1", "t1", src), shape("R1", "ig2", "t2", src)}
	default:
		panic("igs " + igs)
	}
	// content-derived names (ig1_…, ig2_… keep the task order): see uniqueName
	for i, d := range ds {
		uniqueName(d, fmt.Sprintf("ig%d", i+1))
	}
	return ds
}

func c03Prepare(j c03Job) (*c03Prep, error) {
	kb, _ := json.Marshal(j)
	key := string(kb)
	if p, ok := c03PrepCache[key]; ok {
		return p, nil
	}
	p := &c03Prep{decls: c03Decls(j.Igs)}
	p.conf0 = world.ConfJSON([]world.Source{{Name: "src1", ChainID: 7, URL: "http://node1", Batch: j.B0, Conc: 1}}, p.decls)
	p.conf1 = world.ConfJSON([]world.Source{{Name: "src1", ChainID: 7, URL: "http://node1", Batch: j.B1, Conc: j.Conc}}, p.decls)
	conf, err := world.ParseConf(p.conf0)
	if err != nil {
		return nil, err
	}
	if p.snap, err = world.InitDB(conf); err != nil {
		return nil, err
	}
	p.orig = simeth.Build(specsFor(c03Word, 1, j.N), 1)
	if err := c03Phase1(j, p); err != nil {
		return nil, err
	}
	cur := p.orig
	if j.Pre > 0 {
		cur = cur.Extend(specsFor(c03Word, j.N+1, j.N+j.Pre), 1)
		p.ops = append(p.ops, c03Op{label: "grow", chain: cur, fork: -1})
	}
	fork := j.N - j.D
	rl := j.R + j.Pre
	cur = cur.Reorg(uint64(fork), applyVariant(specsFor(c03Word, fork+1, fork+rl), j.Var, fork+1), 2)
	p.ops = append(p.ops, c03Op{label: "reorg", chain: cur, fork: fork})
	head := fork + rl
	if j.Sec != nil {
		f2 := fork + j.Sec.Off
		rl2 := head - f2 + j.Sec.Extra
		cur = cur.Reorg(uint64(f2), specsFor(c03Word, f2+1, f2+rl2), 3)
		p.ops = append(p.ops, c03Op{label: "reorg2", chain: cur, fork: f2})
		head = f2 + rl2
	}
	if j.Post > 0 {
		cur = cur.Extend(specsFor(c03Word, head+1, head+j.Post), 4)
		p.ops = append(p.ops, c03Op{label: "postgrow", chain: cur, fork: -1})
	}
	p.final = cur
	for _, op := range p.ops {
		if !op.chain.Sealed() {
			return nil, fmt.Errorf("chain of op %s not sealed", op.label)
		}
	}
	if len(c03PrepCache) > 32 {
		c03PrepCache = map[string]*c03Prep{}
	}
	c03PrepCache[key] = p
	return p, nil
}

// ---- one execution ----------------------------------------------------------------------------

type c03Result struct {
	vio      *fw.Violation
	outcome  string
	harness  string
	trans    int64
	unwound  int // delete changes committed by the code under test
	midStep  bool
	versions map[int]int // chain version -> requests served
	steps    []string    // step log (trace mode)
	lagged   int         // node-lag answers injected
	polls    int         // answers of the background head poller (ticks delivered and served)
}

func c03Exec(j c03Job, p *c03Prep, ch vrt.Chooser, states *vrt.StateSet, trace bool) (res c03Result) {
	g := &gate{inner: ch}
	w := world.New(g, world.Cfg{Snap: p.snap, Chains: map[string]*simeth.Chain{"node1": p.orig}})
	w.V.States = states
	w.V.TraceOn = trace
	res.versions = map[int]int{}
	vio := func(class, key, detail string) {
		if res.vio == nil {
			res.vio = &fw.Violation{Property: "C03", Class: class, Key: key, Detail: detail}
		}
	}
	w.V.StateKey = func() uint64 { return w.CommitHash ^ uint64(w.Node("node1").Version)<<48 }
	nIG := len(p.decls)
	finalHead := p.final.Head().Num
	phase2Seq := 0
	var info string       // further facts about the job (for details)
	multiUnwound := false // a recorded position covering more than one block was unwound (observed on commit diffs)
	cond := func() string { // necessary-condition tags for violation keys
		s := "unwound-single-block-batches"
		if multiUnwound {
			s = "unwound-multiblock-batch"
		}
		if nIG > 1 {
			s += ":shared-client"
		}
		return s
	}
	w.Run(func() {
		cols := map[string][]string{}
		for _, d := range p.decls {
			cols[d.Table] = w.TableCols(d.Table)
		}
		info = c03Info(j, p.hist)
		// ---- restart with new settings (the database is the one phase 1 left behind)
		conf1, err := world.ParseConf(p.conf1)
		if err != nil {
			w.HarnessErr = err.Error()
			return
		}
		tasks, err := w.LoadTasks(conf1)
		if err != nil || len(tasks) != nIG {
			w.HarnessErr = fmt.Sprintf("loadTasks(conf1): %v (%d tasks)", err, len(tasks))
			return
		}
		// one idle poll per task (nothing new yet); this also starts the client's head poller, which is
		// then parked before the explored phase begins (it only ever waits for ticks nobody sends)
		for _, t := range tasks {
			if out, err := t.Step(); out != "nothing" {
				w.HarnessErr = fmt.Sprintf("idle poll after restart: %s %v", out, err)
				return
			}
		}
		// jobs with a live head poller: the environment thread exists before the explored phase begins and is held at
		// a gate (a) until the task threads exist and (b) while a poller answer is in progress — a chain change commutes
		// with everything the poller does except its one RPC exchange, so "during the poll" is equivalent to "right
		// before it" (the step boundary in front of it) or "right after it" (the next RPC point / step boundary)
		polling, envGo := false, false
		var envBody func()
		var env *vrt.Thread
		envFree := func() bool { return envGo && !polling }
		if j.Poll > 0 {
			env = w.V.GoNamed("env", func() {
				w.V.Point("env-start", false, envFree)
				if w.V.Closing() {
					return
				}
				envBody()
			})
		}
		w.V.WaitIdle()
		g.open = true
		phase2Seq = len(w.Net.Exchanges())
		// pollOnce: the ticker of the client's background head poller fires once; the calling (task or main) thread
		// waits until the poller has asked the node for its head, fed the answer to the client's head cache and parked
		// on its ticker again (or ended: a poller that saw an error stops its ticker)
		pollOnce := func() {
			tks := w.V.Tickers()
			if len(tks) == 0 || w.V.Closing() {
				return
			}
			polling = true
			n := 0
			for _, tk := range tks {
				if w.V.Tick(tk) {
					n++
				}
			}
			if n > 0 {
				res.polls += n
				w.V.Point("wait-poll", false, func() bool { return w.V.TickerWaiters() >= len(w.V.Tickers()) })
			}
			polling = false
		}
		// environment answer "node lag" (at most once per execution, an environment deviation): the node already
		// announces its head but still answers null for that block inside a batch of block/header requests
		lagLeft := 1
		w.OnExchange = func(ex *simeth.Exchange) {
			if lagLeft == 0 || !ex.Batch || len(ex.Calls) == 0 {
				return
			}
			for _, c := range ex.Calls {
				if c.Method != "eth_getBlockByNumber" || len(c.Params) == 0 {
					return
				}
			}
			tag, _ := ex.Calls[len(ex.Calls)-1].Params[0].(string)
			head := w.Node("node1").Chain().Head().Num
			if tag != fmt.Sprintf("0x%x", head) {
				return
			}
			if w.V.ChooseEnv(2, vrt.KEnv, "node-lag") != 1 {
				return
			}
			lagLeft--
			res.lagged++
			ex.Mutate = func(resp any) any {
				if arr, ok := resp.([]any); ok && len(arr) > 0 {
					if m, ok := arr[len(arr)-1].(map[string]any); ok {
						m["result"] = nil
					}
				}
				return resp
			}
		}

		// ---- frame condition on every commit
		reorgs := 0
		floor := map[string]uint64{} // ig -> min over reorgs of (greatest cursor <= fork at reorg time)
		tableIG := map[string]string{}
		for _, d := range p.decls {
			tableIG[d.Table] = d.Name
		}
		w.OnCommit = func(c world.Commit) {
			if c.Ev.Kind != "commit" && c.Ev.Kind != "autocommit" {
				return
			}
			// a deleted position whose distance to the next lower position of the pair is >= 2 covered several blocks
			var delCur []simpg.Row
			for _, chg := range c.Ev.Changes {
				if chg.Op == "delete" && chg.Table == "shovel.task_updates" {
					delCur = append(delCur, chg.Row)
				}
			}
			for _, dr := range delCur {
				num, _ := numOf(dr, "num")
				prev := uint64(0)
				for _, o := range delCur {
					if n, _ := numOf(o, "num"); strOf(o, "ig_name") == strOf(dr, "ig_name") && n < num && n > prev {
						prev = n
					}
				}
				for _, o := range w.Cursors() {
					if o.IG == strOf(dr, "ig_name") && o.Num < num && o.Num > prev {
						prev = o.Num
					}
				}
				if num-prev >= 2 {
					multiUnwound = true
				}
			}
			for _, chg := range c.Ev.Changes {
				if chg.Op != "delete" {
					continue
				}
				res.unwound++
				var ig string
				var num uint64
				what := "row"
				if chg.Table == "shovel.task_updates" {
					ig, what = strOf(chg.Row, "ig_name"), "cursor"
					num, _ = numOf(chg.Row, "num")
				} else if g, ok := tableIG[strings.TrimPrefix(chg.Table, "public.")]; ok {
					ig = g
					num, _ = blockNumOf(chg.Row)
				} else {
					continue
				}
				if reorgs == 0 {
					vio("frame", "delete-without-reorg:"+what, fmt.Sprintf("thread %s deleted %s of block %d (table %s) although the source has not replaced any block", c.Thread, what, num, chg.Table))
					return
				}
				if num <= floor[ig] {
					vio("frame", "deleted-below-fork:"+what+":"+cond(), fmt.Sprintf("thread %s deleted %s id=%d of block %d (table %s, integration %s): blocks <= %d lie at or below the greatest recorded position under every fork point so far and must stay untouched", c.Thread, what, chg.Row.ID, num, chg.Table, ig, floor[ig]))
					return
				}
			}
		}

		envDone, envOps := false, 0
		quiet := make([]bool, len(tasks))
		stepStart := make([]int, len(tasks)) // exchanges logged when the running step began; -1 = between steps
		for i := range stepStart {
			stepStart[i] = -1
		}
		var threads []*vrt.Thread
		// runTask steps one task. explored=true: the body of the task's thread; with several tasks it ends as soon
		// as the source has settled, and the tasks are then drained one after the other by the main thread
		// (explored=false) — the schedule space of several tasks is only explored while the source changes.
		horizon := 4*j.N + 8
		runTask := func(ti int, task *world.Task, explored bool) {
			nothing, settled, stepNo := 0, 0, 0
			var lastOut string
			var lastErr error
			for settled < horizon {
				if explored {
					if nIG > 1 && envDone {
						return
					}
					if ti == 0 {
						vrt.Boundary("step")
					} else {
						// several tasks: only the first task's step boundaries are free switch points; the others'
						// are ordinary scheduling points (their steps interleave through waits, thread ends and preemptions)
						vrt.Yield("step")
					}
				}
				if w.V.Closing() {
					return
				}
				// the head poller answers between two steps (with several task threads only once the source has settled
				// and the tasks are drained one after the other: see Assumptions)
				if j.Poll > 0 && stepNo%j.Poll == 0 && (nIG == 1 || !explored) {
					pollOnce()
					if w.V.Closing() {
						return
					}
				}
				stepNo++
				wasDone := envDone
				stepStart[ti] = len(w.Net.Exchanges())
				out, err := task.Step()
				stepStart[ti] = -1
				if trace {
					cur, _ := w.Latest(task.Src, task.IG)
					res.steps = append(res.steps, fmt.Sprintf("%s step: %s (%v) -> cursor %d %x, served through v%d, settled=%v", task.Key(), out, err, cur.Num, cur.Hash, w.Node("node1").Version, wasDone))
				}
				if w.V.Closing() || res.vio != nil {
					return
				}
				if out == "panic" {
					vio("panic", "panic:"+j.Igs, fmt.Sprintf("Converge of %s panicked: %v", task.Key(), err))
					return
				}
				if wasDone {
					settled++
					lastOut, lastErr = out, err
				}
				if out == "nothing" && wasDone {
					nothing++ // only polls that began after the source settled count
				} else {
					nothing = 0
				}
				if wasDone && nothing >= nIG+1 {
					quiet[ti] = true
					return
				}
				if !envDone && out != "ok" {
					// polling an unchanged source again would repeat the step: wait for the next change of the source
					seen := envOps
					w.V.Point("wait-source", false, func() bool { return envOps != seen || envDone })
				}
			}
			cur, _ := w.Latest(task.Src, task.IG)
			key := "noconverge:" + lastOut + ":" + cond()
			switch lastOut {
			case "error":
				key = "noconverge:error:" + errClass(lastErr) + ":" + cond()
			case "ahead":
				// the step refuses to run while the recorded position is above the source's head
				key = "reorg-undetected:new-head<recorded-position"
			}
			vio("noconverge", key, fmt.Sprintf("%s: after the source settled (final head %d, hash %x) %d further steps did not reach quiescence: cursor=%d hash %x, last outcome %q: %v [%s]", task.Key(), finalHead, p.final.Head().Hash[:4], settled, cur.Num, cur.Hash, lastOut, lastErr, info))
		}
		for ti, task := range tasks {
			ti, task := ti, task
			name := "task"
			if nIG > 1 {
				name = fmt.Sprintf("task%d", ti+1)
			}
			th := w.V.GoNamed(name, func() { runTask(ti, task, true) })
			// reduction (several tasks): a task thread is switched to preemptively only while the running thread is
			// at an RPC exchange (the shared source client) or at a step boundary; the SQL statements of the two
			// integrations touch different tables and positions stamped with different integration names
			th.OnlyAt = func(l string) bool { return strings.HasPrefix(l, "rpc:") || strings.HasPrefix(l, "boundary:") || l == "step" }
			threads = append(threads, th)
		}
		envBody = func() {
			for i, op := range p.ops {
				if i > 0 {
					if j.Poll > 0 {
						w.V.Point("boundary:env", true, envFree)
					} else {
						vrt.Boundary("env")
					}
				}
				if w.V.Closing() {
					return
				}
				w.SetChain("node1", op.chain, op.label)
				envOps++
				if op.fork >= 0 {
					// greatest recorded position <= fork, per integration, at the moment the reorg lands
					for _, d := range p.decls {
						pmax := uint64(0) // start-1
						for _, c := range w.Cursors() {
							if c.IG == d.Name && c.Src == "src1" && c.Num <= uint64(op.fork) && c.Num > pmax {
								pmax = c.Num
							}
						}
						if f, ok := floor[d.Name]; !ok || pmax < f {
							floor[d.Name] = pmax
						}
					}
					reorgs++
					for ti := range tasks {
						if stepStart[ti] >= 0 && len(w.Net.Exchanges()) > stepStart[ti] {
							res.midStep = true // at least one RPC of a running step was already answered
						}
					}
				}
			}
			envDone = true
			w.V.Bump()
		}
		if env == nil {
			env = w.V.GoNamed("env", envBody)
		}
		envGo = true
		env.OnlyAt = onlyAtIO
		w.V.Join(append(threads, env)...)
		// (the chooser stays open: while the tasks are drained only the main thread runs, the remaining choices are
		// environment answers)
		if res.vio != nil || w.V.Closing() {
			return
		}
		if nIG > 1 {
			for ti, task := range tasks {
				runTask(ti, task, false)
				if res.vio != nil || w.V.Closing() {
					return
				}
			}
		}
		// ---- oracle at quiescence
		for ti, task := range tasks {
			if !quiet[ti] {
				return // thread ended early (violation recorded or teardown)
			}
			d := p.decls[ti]
			got := world.RenderDump(w.PG.Dump(d.Table), cols[d.Table])
			want := world.RenderRows(d.Expect(p.final, "src1", 7, 1, finalHead, nil), cols[d.Table])
			if cur, has := w.Latest(task.Src, task.IG); has && cur.Num == finalHead && len(cur.Hash) == 32 && string(cur.Hash) != string(p.final.Head().Hash) {
				// quiescent on a tip that is not the canonical block of that height: the step only compares numbers
				rowsOK := strings.Join(got, "\n") == strings.Join(want, "\n")
				vio("stale-tip", "reorg-undetected:new-head=recorded-position", fmt.Sprintf("%s quiescent at cursor %d with hash %x, but canonical block %d has hash %x (table matches the canonical chain: %v) [%s]\n%s", task.Key(), cur.Num, cur.Hash[:6], finalHead, p.final.Head().Hash[:6], rowsOK, info, world.DiffSorted(got, want)))
				return
			}
			if strings.Join(got, "\n") != strings.Join(want, "\n") {
				sym := c03RowSymptom(w.PG.Dump(d.Table), p, d, got, want)
				cur, _ := w.Latest(task.Src, task.IG)
				vio("rows", sym+":"+cond(), fmt.Sprintf("%s quiescent (cursor %d, final head %d) but table %s != projection of the canonical chain [%s]\n%s", task.Key(), cur.Num, finalHead, d.Table, info, world.DiffSorted(got, want)))
				return
			}
			for _, c := range w.Cursors() {
				if c.IG != d.Name {
					continue
				}
				if c.Num > finalHead {
					vio("cursor", "cursor-beyond-head:"+cond(), fmt.Sprintf("%s: cursor row num=%d but the canonical head is %d", task.Key(), c.Num, finalHead))
					return
				}
				if hb := p.final.Blocks[c.Num].Hash; len(c.Hash) == 32 && string(c.Hash) != string(hb) {
					vio("cursor", "cursor-off-chain:"+cond(), fmt.Sprintf("%s: cursor row num=%d has hash %x, canonical block %d has hash %x", task.Key(), c.Num, c.Hash[:6], c.Num, hb[:6]))
					return
				}
			}
			cur, has := w.Latest(task.Src, task.IG)
			if !has || cur.Num != finalHead {
				vio("cursor", "cursor-not-at-head:"+cond(), fmt.Sprintf("%s quiescent with cursor %d (present=%v), canonical head %d", task.Key(), cur.Num, has, finalHead))
				return
			}
		}
		res.outcome = "converged"
	})
	res.trans = w.V.Transitions
	if w.HarnessErr != "" {
		res.harness = w.HarnessErr
	}
	for _, ex := range w.Net.Exchanges() {
		if ex.Seq >= phase2Seq {
			res.versions[ex.Version]++
		}
	}
	if len(w.V.Panics) > 0 && res.vio == nil {
		vio("panic", "panic-thread:"+j.Igs, strings.Join(w.V.Panics, "\n"))
	}
	if w.V.Deadlock && res.vio == nil && res.harness == "" {
		vio("deadlock", "deadlock:"+j.Igs, w.V.DeadlockMsg)
	}
	if res.vio != nil {
		res.outcome = "VIOLATION:" + strings.SplitN(res.vio.Key, ":", 2)[0]
		if trace {
			res.vio.Detail += "\nchain version that served each request of phase 2 (v0 = original chain; ops: " + c03OpsString(p) + "):\n" + exchangeLog(w, phase2Seq)
			res.vio.Detail += "schedule: " + strings.Join(w.V.Trace, " ")
		}
	}
	if res.outcome == "" {
		res.outcome = "ended"
	}
	if res.outcome == "converged" && res.unwound > 0 {
		res.outcome = "converged-after-unwind"
	}
	return res
}

func c03OpsString(p *c03Prep) string {
	var s []string
	for i, op := range p.ops {
		x := fmt.Sprintf("v%d=%s", i+1, op.label)
		if op.fork >= 0 {
			x += fmt.Sprintf("(fork %d → head %d)", op.fork, op.chain.Head().Num)
		} else {
			x += fmt.Sprintf("(head %d)", op.chain.Head().Num)
		}
		s = append(s, x)
	}
	return strings.Join(s, ", ")
}

// c03Info renders facts about the job for violation details.
func c03Info(j c03Job, hist []uint64) string {
	fork := uint64(j.N - j.D)
	if j.Sec != nil && j.Sec.Off < 0 {
		fork = uint64(j.N - j.D + j.Sec.Off)
	}
	info := fmt.Sprintf("positions recorded at index time %v, lowest fork point %d", hist, fork)
	if len(hist) > 0 && fork < hist[0] {
		info += " (below the first recorded position)"
	}
	if j.Poll > 0 {
		info += fmt.Sprintf("; the background head poller answered before every step with step number divisible by %d", j.Poll)
	}
	return info
}

// c03RowSymptom classifies a table mismatch at quiescence.
func c03RowSymptom(rows []simpg.Row, p *c03Prep, d *world.Decl, got, want []string) string {
	wantSet := map[string]int{}
	for _, s := range want {
		wantSet[s]++
	}
	gotSet := map[string]int{}
	for _, s := range got {
		gotSet[s]++
	}
	// rows of any chain version the node ever served
	known := map[string]bool{}
	cols := []string{}
	if len(rows) > 0 {
		for c := range rows[0].Vals {
			cols = append(cols, c)
		}
		sort.Strings(cols)
	}
	chains := []*simeth.Chain{p.orig}
	for _, op := range p.ops {
		chains = append(chains, op.chain)
	}
	for _, c := range chains {
		for _, s := range world.RenderRows(d.Expect(c, "src1", 7, 1, c.Head().Num, nil), cols) {
			known[s] = true
		}
	}
	extra, missing, dup, hybrid := 0, 0, 0, 0
	for s, n := range gotSet {
		if n > 1 {
			dup++
		}
		if wantSet[s] == 0 {
			extra++
			if !known[s] {
				hybrid++
			}
		}
	}
	for s := range wantSet {
		if gotSet[s] == 0 {
			missing++
		}
	}
	switch {
	case hybrid > 0:
		return "hybrid-rows" // a row that belongs to no chain version the node ever served (merged from two versions)
	case dup > 0:
		return "duplicate-rows"
	case extra > 0 && missing > 0:
		return "orphans-survive+canonical-missing"
	case extra > 0:
		return "orphans-survive"
	default:
		return "canonical-rows-missing"
	}
}

// ---- driver ---------------------------------------------------------------------------------------

func c03Bounds(thorough bool, j c03Job) explore.Bounds {
	var b explore.Bounds
	b[0], b[vrt.KPreempt] = 1, 1
	if j.Deep {
		b[0], b[vrt.KPreempt] = 2, 2
	}
	b[vrt.KEnv] = 1 // one node-lag answer per execution (counts as a deviation)
	if j.Flat {
		return explore.Bounds{} // b[0]=0: no total bound, every costed kind 0 => free choices only
	}
	if j.Conc > 1 && j.B0 == 1 {
		b[vrt.KOrder] = 1 // both orders of the two partitions of a step (jobs with index batch 1; the others keep the spawn order)
	}
	return b
}

func c03Run(c *fw.Ctx) {
	jobs := c03Jobs(c.Thorough())
	c.Bound("jobs_in_tier", len(jobs))
	if n, _ := strconv.Atoi(os.Getenv("C03_MAXJOBS")); n > 0 && n < len(jobs) {
		stride := len(jobs) / n
		var sel []c03Job
		for i := 0; i < len(jobs); i += stride {
			sel = append(sel, jobs[i])
		}
		jobs = sel
	}
	if js := os.Getenv("C03_JOB"); js != "" { // development aid: one job given as JSON
		var one c03Job
		if err := json.Unmarshal([]byte(js), &one); err != nil {
			c.HarnessError("C03_JOB: %v", err)
			return
		}
		jobs = []c03Job{one}
	}
	c.Bound("jobs", len(jobs))
	c.Bound("deviations_per_execution", map[bool]int{false: 1, true: 2}[c.Thorough()])
	c.Bound("reorgs_per_execution", 2)
	for _, j := range jobs {
		if !c.Mine() {
			continue
		}
		if c.Expired() {
			return
		}
		p, err := c03Prepare(j)
		if ipe, ok := err.(*indexPhaseErr); ok {
			c.Eval(true)
			c.Outcome("VIOLATION:index-phase")
			c.Violation("C03", "setup", "index-phase-failed:"+j.Igs, fmt.Sprintf("job %s\n%s", c03JobString(j), ipe.msg), c03Case{Job: j})
			continue
		}
		if err != nil {
			c.HarnessError("prepare %+v: %v", j, err)
			return
		}
		states := vrt.NewStateSet()
		b := c03Bounds(c.Thorough(), j)
		t0, cpu0 := time.Now(), cpuSeconds()
		st := explore.Explore(b, true, func(r *explore.Run) bool {
			res := c03Exec(j, p, r, states, false)
			if res.harness != "" {
				c.HarnessError("job %+v choices %v: %s", j, r.Trimmed(), res.harness)
				return false
			}
			if r.Diverged != "" {
				c.HarnessError("HARNESS-NONDETERMINISM job %+v: %s", j, r.Diverged)
				return false
			}
			if f := os.Getenv("C03_EXECS"); f != "" {
				fh, _ := os.OpenFile(f, os.O_APPEND|os.O_CREATE|os.O_WRONLY, 0o644)
				ls := r.Labels()
				var dev []string
				for i, ch := range r.Choices() {
					if ch != 0 {
						dev = append(dev, fmt.Sprintf("%d@%s", ch, ls[i]))
					}
				}
				cj, _ := json.Marshal(r.Trimmed())
				fmt.Fprintf(fh, "%s mid=%v unwound=%d dev=%v choices=%s\n", res.outcome, res.midStep, res.unwound, dev, cj)
				fh.Close()
			}
			if os.Getenv("C03_LABELS") != "" && c.Res.Traces < 3 {
				f, _ := os.OpenFile(os.Getenv("C03_LABELS"), os.O_APPEND|os.O_CREATE|os.O_WRONLY, 0o644)
				fmt.Fprintf(f, "job %s choices=%v outcome=%s\n  %s\n", c03JobString(j), r.Trimmed(), res.outcome, strings.Join(r.Labels(), "\n  "))
				f.Close()
			}
			c.Eval(res.unwound > 0 || res.vio != nil)
			c.Outcome(res.outcome)
			c.Res.Transitions += res.trans
			c.Res.Traces++
			c.Count("rows_or_cursors_deleted", int64(res.unwound))
			if res.midStep {
				c.Count("reorg_landed_inside_a_step", 1)
			}
			c.Count("node_lag_answers", int64(res.lagged))
			c.Count("head_poller_answers", int64(res.polls))
			if j.Poll > 0 {
				c.Count("executions_with_live_head_poller", 1)
			}
			for v, n := range res.versions {
				c.Count(fmt.Sprintf("requests_served_by_chain_v%d", v), int64(n))
			}
			if res.vio != nil {
				c.Violation("C03", res.vio.Class, res.vio.Key, fmt.Sprintf("job %s\n%s", c03JobString(j), res.vio.Detail), c03Case{Job: j, Bounds: b, Choices: r.Choices()})
			}
			if c.Res.Evaluations%5003 == 1 {
				c.Sample(map[string]any{"job": j, "schedule": r.Trimmed(), "labels_tail": tailLabels(r.Labels(), 6), "outcome": res.outcome, "served_by_version": res.versions})
			}
			return !c.Expired()
		})
		c.Res.States += int64(states.Len())
		if dbg := os.Getenv("C03_DEBUG"); dbg != "" {
			f, _ := os.OpenFile(dbg, os.O_APPEND|os.O_CREATE|os.O_WRONLY, 0o644)
			fmt.Fprintf(f, "job %s: executions=%d points=%d maxdepth=%d complete=%v wall=%.1fs cpu=%.1fs\n", c03JobString(j), st.Executions, st.Points, st.MaxDepth, st.Complete, time.Since(t0).Seconds(), cpuSeconds()-cpu0)
			f.Close()
		}
		if !st.Complete {
			if c.Res.HarnessErr == "" {
				c.Cap("time-budget")
			}
			return
		}
		c.Count("jobs_completed", 1)
		c.Count("lock_contentions", vrt.Contentions)
		vrt.Contentions = 0
	}
}

func c03JobString(j c03Job) string {
	b, _ := json.Marshal(j)
	return string(b)
}

func c03Replay(c *fw.Ctx, raw json.RawMessage) {
	var k c03Case
	if err := json.Unmarshal(raw, &k); err != nil {
		c.HarnessError("bad case: %v", err)
		return
	}
	p, err := c03Prepare(k.Job)
	if ipe, ok := err.(*indexPhaseErr); ok {
		c.Eval(true)
		c.Violation("C03", "setup", "index-phase-failed:"+k.Job.Igs, fmt.Sprintf("job %s\n%s", c03JobString(k.Job), ipe.msg), k)
		return
	}
	if err != nil {
		c.HarnessError("prepare: %v", err)
		return
	}
	r := explore.Replay(k.Choices)
	res := c03Exec(k.Job, p, r, nil, true)
	c.Eval(true)
	if os.Getenv("C03_VERBOSE") != "" {
		fmt.Printf("outcome %s unwound=%d mid=%v\n%s\n", res.outcome, res.unwound, res.midStep, strings.Join(res.steps, "\n"))
	}
	if res.harness != "" {
		c.HarnessError("%s", res.harness)
		return
	}
	if r.Diverged != "" {
		c.HarnessError("HARNESS-NONDETERMINISM replay diverged: %s", r.Diverged)
		return
	}
	if res.vio != nil {
		c.Violation("C03", res.vio.Class, res.vio.Key, fmt.Sprintf("job %s\n%s", c03JobString(k.Job), res.vio.Detail), k)
	}
}
