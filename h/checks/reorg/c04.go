//go:build verif

package reorg

import (
	"encoding/hex"
	"encoding/json"
	"fmt"
	"os"
	"sort"
	"strings"
	"time"

	"github.com/indexsupply/shovel/shovel"

	"verifh/checks"
	"verifh/explore"
	"verifh/fw"
	"verifh/simeth"
	"verifh/simpg"
	"verifh/vrt"
	"verifh/world"
)

// C04 — tasks are isolated: one task never alters another task's rows or position.
//
// Pairs P1=(srcA, ig1), P2=(srcA, ig2) — same table, same source, hence the same jrpc2.Client and
// caches — and P3=(srcB, ig1) — same integration and table, another node with a different chain.
// One thread per pair running K steps, one environment thread per source (growth + one reorg),
// optionally a driver that restarts (discards and rebuilds all tasks) between steps. Afterwards
// every pair is drained to quiescence. Oracle: frame condition on every commit diff, stamps of
// inserted rows, per-pair projection at quiescence.

type c04Job struct {
	Pairs   string `json:"pairs"` // subset of "123"
	Var     string `json:"var"`   // same | event | addr | plans-tx | plans-ev | idcols-all | idcols-some | ref
	Restart string `json:"restart"` // "" | P1 | P2 | P3: this pair's thread restarts everything (loadTasks) before its second step
	K       int    `json:"k"` // steps per pair thread in the explored phase
	Batch   int    `json:"batch"`
	CID     string `json:"cid,omitempty"`   // "" srcB has its own chain id | "same": both sources declare chain id 7 (two providers), different chains behind them | "same+chain": same id and node2 serves node1's chain
	Names   string `json:"names,omitempty"`  // name coincidences: "ig1=srcB" (integration named like its 2nd source) | "ig1=srcA" (like its 1st) | "ig2=srcB" (like a source only the OTHER integration uses)
	Ranges  string `json:"ranges,omitempty"` // per-reference ranges of ig1's two sources: "ranged-unranged" | "unranged-ranged" | "different" (ig2's reference stays unranged)
	Prune   int    `json:"prune,omitempty"` // n > 0: housekeeping shovel.PruneTask(ctx, pg, n) runs once, between steps:
	PruneBy string `json:"prune_by,omitempty"` // … on the thread of this pair, before the pair's second step (as restarts do)
	Deep    bool   `json:"deep,omitempty"` // two deviations instead of one (thorough tier, two-pair jobs without restart)
}

type c04Case struct {
	Job     c04Job `json:"job"`
	Bounds  [6]int `json:"bounds"`
	Choices []int  `json:"choices"`
}

func init() {
	checks.Register(&checks.Check{
		ID:        "C04",
		Level:     "model_checking",
		Technique: "stateless model checking of the real pipeline (controlled scheduler over instrumented code, fake Postgres, two simulated nodes): all step-granular interleavings (plus preemption-bounded finer ones) of one thread per (source, integration) pair, one environment thread per source (growth + reorg) and a restart driver; oracle = frame condition on every commit diff (only rows and positions stamped with the acting pair may change), stamp of every inserted row, and per-pair projection of the pair's own canonical chain at quiescence",
		Rule: "jobs = every subset of size 2 and 3 of {P1=(srcA,ig1), P2=(srcA,ig2), P3=(srcB,ig1)} (one shared table; srcA and srcB are different nodes with different chains; every pair has indexed block 1 before the explored phase) x declaration variant {same event, different events, same event with disjoint log_addr filters, different data plans on one client: headers+logs next to transaction indexing (full blocks) / next to the same event selecting tx_input (blocks+logs), identity columns (all / some) listed by the user in table.columns of the integration that shares the table (or of the only integration), one integration on two sources whose first input is filtered by reference (a database lookup per log inside Insert; no reorg in this job)} x restart {none, by P1 before its second step in the subset {P1,P2} (quick: variants same and addr; thorough: also by P2 there, and by P3 in {P1,P3} and {P2,P3})} x K=2 steps per pair (thorough also 3) with one reorg (longer replacement) per source; for the subsets with two sources also: name coincidences (integration named like its first / second source, or like a source only the other integration uses), per-reference ranges of the two-source integration (ranged then unranged, unranged then ranged, different ranges; three-block chains, reorg of block 3), both sources declaring the SAME chain id (different chains / the same chain behind them) and housekeeping shovel.PruneTask(n=2) once, before the second step of P1 or of P3 (on that pair's thread, like restarts); " +
			"per job every schedule with free switches at the step boundaries of the first source's pairs and <= 1 preemption (thorough: 2 on the two-pair jobs without restart; three-pair jobs: quick 0, thorough 1); preemptive switches to a pair/environment thread only at RPC exchanges with its own node. Non-trivial = rows inserted by two different pairs or a reorg deletion committed; distinct = distinct (job, choice sequence).",
		Assumptions: []string{
			"fake Postgres (h/simpg) interprets the SQL shovel sends; simulated nodes (h/simeth) answer like well-behaved geth nodes",
			"a commit is attributed to the pair whose harness thread issued it (goroutines spawned by a step belong to the step's thread)",
			"a restart rebuilds ALL tasks (loadTasks, new source clients); a step already running on an old task finishes on it",
			"a pair whose own reference has a stop is finished when it reports 'this is the end' at or above that stop; its blocks are start..stop of its OWN reference (an unranged pair starts at the head it first sees: block 1 in these jobs)",
			"after the explored phase every pair is stepped sequentially until it reports 'no new blocks' (number of integrations + 1) times in a row, horizon 4*head+8 steps",
			"reductions: in restart jobs only the restarting pair has free step boundaries; SQL statements of different pairs are not interleaved preemptively (only at step boundaries); the pair of the second source uses non-free step boundaries when both sources are present; in three-pair jobs the second source's reorg lands between that pair's two steps",
		},
		Budget:        map[string]time.Duration{"quick": 140 * time.Second, "thorough": 850 * time.Second},
		MinNontrivial: 500,
		Inst:          true,
		Run:           c04Run,
		Replay:        c04Replay,
	})
}

func c04Jobs(thorough bool) []c04Job {
	var jobs []c04Job
	for _, ps := range []string{"12", "13", "23", "123"} {
		for _, v := range []string{"same", "event", "addr", "plans-tx", "plans-ev", "idcols-all", "idcols-some", "ref"} {
			only2 := v == "event" || v == "plans-tx" || v == "plans-ev" // variants that only change ig2
			if only2 && (!strings.Contains(ps, "2") || (v != "event" && !strings.Contains(ps, "1"))) {
				continue // ig2 absent, or (data-plan variants) no sibling of ig2 on the same source client
			}
			if v == "ref" {
				// one integration on two sources, every log looked up in a referenced table inside Insert
				if ps == "13" {
					jobs = append(jobs, c04Job{Pairs: ps, Var: v, K: 2, Batch: 1})
					if thorough {
						jobs = append(jobs, c04Job{Pairs: ps, Var: v, K: 2, Batch: 1, Deep: true})
					}
				}
				continue
			}
			if idcQ := strings.HasPrefix(v, "idcols"); idcQ && !thorough && ps != "12" && ps != "13" {
				continue // quick: declared identity columns on the sharing (12) and the lone (13) integration
			}
			if v == "plans-ev" && !thorough && ps == "123" {
				continue
			}
			if !thorough && ps == "23" && (v == "event" || v == "addr") {
				continue // quick: the least related two pairs (other source AND other integration) run two variants only
			}
			idc := strings.HasPrefix(v, "idcols")
			jobs = append(jobs, c04Job{Pairs: ps, Var: v, K: 2, Batch: 1})
			if thorough && len(ps) == 2 {
				jobs = append(jobs, c04Job{Pairs: ps, Var: v, K: 2, Batch: 1, Deep: true})
				jobs = append(jobs, c04Job{Pairs: ps, Var: v, K: 3, Batch: 1})
			}
			for i := 0; i < len(ps); i++ {
				if !thorough && (i > 0 || only2 || idc || ps != "12") {
					continue // quick: P1 restarts next to P2 (same source client)
				}
				if thorough && (len(ps) > 2 || only2 || idc || (ps != "12" && (v != "same" || ps[i] != '3'))) {
					continue // thorough: both pairs of {P1,P2} restart; next to P3 (other source) P3 restarts
				}
				jobs = append(jobs, c04Job{Pairs: ps, Var: v, Restart: "P" + ps[i:i+1], K: 2, Batch: 1})
			}
		}
	}
	// two providers of one chain id (different chains behind them / the same chain), and housekeeping prunes
	for _, ps := range []string{"13", "123"} {
		jobs = append(jobs, c04Job{Pairs: ps, Var: "same", CID: "same", K: 2, Batch: 1})
		jobs = append(jobs, c04Job{Pairs: ps, Var: "same", Prune: 2, PruneBy: "P1", K: 2, Batch: 1})
		if ps == "13" || thorough {
			jobs = append(jobs, c04Job{Pairs: ps, Var: "same", Prune: 2, PruneBy: "P3", K: 2, Batch: 1})
		}
		if ps == "13" || thorough {
			jobs = append(jobs, c04Job{Pairs: ps, Var: "same", CID: "same+chain", K: 2, Batch: 1})
		}
		if thorough {
			jobs = append(jobs, c04Job{Pairs: ps, Var: "addr", CID: "same", K: 2, Batch: 1})
			jobs = append(jobs, c04Job{Pairs: ps, Var: "same", Prune: 1, PruneBy: "P1", K: 3, Batch: 1})
			jobs = append(jobs, c04Job{Pairs: ps, Var: "same", CID: "same", Prune: 2, PruneBy: "P3", K: 2, Batch: 1})
		}
	}
	// name coincidences between integrations and sources; per-reference ranges of a multi-source integration
	jobs = append(jobs,
		c04Job{Pairs: "13", Var: "same", Names: "ig1=srcB", K: 2, Batch: 1},
		c04Job{Pairs: "13", Var: "same", Names: "ig1=srcA", K: 2, Batch: 1},
		c04Job{Pairs: "123", Var: "same", Names: "ig2=srcB", K: 2, Batch: 1},
		c04Job{Pairs: "13", Var: "same", Ranges: "ranged-unranged", K: 2, Batch: 1},
		c04Job{Pairs: "13", Var: "same", Ranges: "unranged-ranged", K: 2, Batch: 1},
		c04Job{Pairs: "123", Var: "same", Ranges: "ranged-unranged", K: 2, Batch: 1},
	)
	if thorough {
		jobs = append(jobs,
			c04Job{Pairs: "123", Var: "same", Names: "ig1=srcB", K: 2, Batch: 1},
			c04Job{Pairs: "123", Var: "event", Names: "ig1=srcA", K: 2, Batch: 1},
			c04Job{Pairs: "13", Var: "same", Names: "ig1=srcB", Restart: "P3", K: 2, Batch: 1},
			c04Job{Pairs: "13", Var: "same", Ranges: "different", K: 2, Batch: 1},
			c04Job{Pairs: "123", Var: "same", Ranges: "different", K: 2, Batch: 1},
			c04Job{Pairs: "123", Var: "same", Ranges: "unranged-ranged", K: 2, Batch: 1},
			c04Job{Pairs: "13", Var: "same", Ranges: "ranged-unranged", Restart: "P1", K: 2, Batch: 1},
		)
	}
	// heavy jobs first: the round-robin shards then get at most one of them each
	weight := func(j c04Job) int {
		switch {
		case len(j.Pairs) > 2 && thorough, j.Restart != "" && j.Pairs != "12":
			return 5
		case j.Deep:
			return 3
		case j.K > 2:
			return 2
		case j.Restart != "":
			return 1
		}
		return 0
	}
	sort.SliceStable(jobs, func(a, b int) bool { return weight(jobs[a]) > weight(jobs[b]) })
	// shard balance (16 round-robin shards): the lightest job (variant ref, < 1 s) shares the shard of the heaviest
	if len(jobs) > 16 {
		for i := range jobs {
			if jobs[i].Var == "ref" && !jobs[i].Deep && i != 16 {
				jobs[i], jobs[16] = jobs[16], jobs[i]
				break
			}
		}
	}
	return jobs
}

// ---- preparation ------------------------------------------------------------------------------

type c04Pair struct {
	name    string // P1 | P2 | P3
	src, ig string
	host    string
	chainID uint64
	decl    *world.Decl
	start   uint64 // the range of the pair's OWN source reference (0 = not given)
	stop    uint64
}

// lo / hi: the blocks the pair has to index, given the block its source's head was at when an unranged pair first
// polled (1 in these jobs) and the final head.
func (pr *c04Pair) lo() uint64 {
	if pr.start > 0 {
		return pr.start
	}
	return 1
}

func (pr *c04Pair) hi(head uint64) uint64 {
	if pr.stop > 0 && pr.stop < head {
		return pr.stop
	}
	return head
}

type c04Prep struct {
	pairs  []c04Pair
	decls  []*world.Decl
	conf   string
	snap   *simpg.Snapshot
	gen    map[string]*simeth.Chain   // host -> one-block chain indexed before the explored phase
	init   map[string]*simeth.Chain   // host -> chain when the explored phase starts
	ops    map[string][]*simeth.Chain // host -> chains applied by the environment thread (grow, reorg)
	final  map[string]*simeth.Chain
	nIG    int
	hosts  []string
	srcOf  map[string]string
	cidOf  map[string]uint64
	tables []string
	aux    []c04Pair // pairs of auxiliary integrations (variant ref), never run by an explored thread
}

var c04PrepCache = map[string]*c04Prep{}

// identity columns as `shovel -print-schema` lists them (shovel supplies the values; the user only names the columns)
var (
	idColsAll  = [][2]string{{"ig_name", "text"}, {"src_name", "text"}, {"block_num", "numeric"}, {"tx_idx", "int"}, {"log_idx", "int"}, {"abi_idx", "int2"}}
	idColsSome = [][2]string{{"ig_name", "text"}, {"block_num", "numeric"}}
)

// c04Decl builds the declaration of role ig ("ig1" | "ig2") for a variant. declares: this integration is the one
// that lists identity columns in table.columns (variants idcols-*).
func c04Decl(variant, ig string, srcs []world.SrcRef, declares bool) *world.Decl {
	var d *world.Decl
	switch {
	case variant == "event" && ig == "ig2":
		d = shape("L3", ig, "t1", srcs...)
	case variant == "plans-tx" && ig == "ig2":
		// another DATA PLAN on the same client: ig1 needs headers+logs, ig2 full blocks (transaction indexing)
		d = shape("T1", ig, "t1", srcs...)
	case variant == "plans-ev" && ig == "ig2":
		// same event as ig1 but it also selects tx_input: plan blocks+logs instead of headers+logs
		d = shape("L1", ig, "t1", srcs...)
		d.Fields = append(d.Fields, world.Field{Name: "tx_input", Column: "tx_input"}, world.Field{Name: "tx_value", Column: "tx_value"})
	default:
		d = shape("L1", ig, "t1", srcs...)
	}
	d.Fields = append(d.Fields, world.Field{Name: "chain_id", Column: "chain_id"})
	switch variant {
	case "addr":
		a := addrA
		if ig == "ig2" {
			a = addrB
		}
		for i := range d.Fields {
			if d.Fields[i].Name == "log_addr" {
				d.Fields[i].Op, d.Fields[i].Arg = "contains", []string{"0x" + hex.EncodeToString(a)}
			}
		}
	case "idcols-all":
		if declares {
			d.ExtraCols = append(d.ExtraCols, idColsAll...)
		}
	case "idcols-some":
		if declares {
			d.ExtraCols = append(d.ExtraCols, idColsSome...)
		}
	case "ref":
		// the first input is filtered by reference: a database lookup per log INSIDE Insert, between decoding the log
		// data and reading the remaining columns
		d.Inputs[0].Op, d.Inputs[0].Ref = "contains", &world.Ref{Integration: "@ref", Column: "rf"}
	}
	return d
}

// c04RefDecl is the referenced integration of variant "ref": every Transfer's sender, table tr.
func c04RefDecl(srcs []world.SrcRef) *world.Decl {
	d := &world.Decl{Table: "tr", Sources: srcs, Event: "Transfer"}
	d.Inputs = []world.Input{
		{Name: "from", Type: "address", Indexed: true, Column: "rf"},
		{Name: "to", Type: "address", Indexed: true},
		{Name: "value", Type: "uint256"},
	}
	return d
}

func c04Prepare(j c04Job) (*c04Prep, error) {
	kb, _ := json.Marshal(j)
	key := string(kb)
	if p, ok := c04PrepCache[key]; ok {
		return p, nil
	}
	p := &c04Prep{gen: map[string]*simeth.Chain{}, init: map[string]*simeth.Chain{}, ops: map[string][]*simeth.Chain{}, final: map[string]*simeth.Chain{},
		srcOf: map[string]string{"node1": "srcA", "node2": "srcB"}, cidOf: map[string]uint64{"node1": 7, "node2": 8}}
	has := func(c string) bool { return strings.Contains(j.Pairs, c) }
	cidB := uint64(8)
	if j.CID != "" {
		cidB = 7 // a second provider of the same chain id
		p.cidOf["node2"] = 7
	}
	// ranges of the source references (default: every reference starts at block 1, no stop)
	rA, rB, r2 := world.SrcRef{Start: 1}, world.SrcRef{Start: 1}, world.SrcRef{Start: 1}
	switch j.Ranges {
	case "ranged-unranged": // a back-fill reference followed by a live one
		rA, rB, r2 = world.SrcRef{Start: 1, Stop: 2}, world.SrcRef{}, world.SrcRef{}
	case "unranged-ranged":
		// (every stop lies below the fork point: a pair that has reached its stop never looks at its source again, so a
		// later replacement of its last block would stay unrepaired — a matter of C03, not of isolation)
		rA, rB, r2 = world.SrcRef{}, world.SrcRef{Start: 2, Stop: 2}, world.SrcRef{}
	case "different":
		rA, rB, r2 = world.SrcRef{Start: 1, Stop: 2}, world.SrcRef{Start: 2}, world.SrcRef{}
	}
	rA.Name, rB.Name, r2.Name = "srcA", "srcB", "srcA"
	var s1, s2 []world.SrcRef
	if has("1") {
		s1 = append(s1, rA)
	}
	if has("3") {
		s1 = append(s1, rB)
	}
	if has("2") {
		s2 = append(s2, r2)
	}
	var d1, d2, dr *world.Decl
	declares1 := len(s2) == 0 // identity columns are declared by ig2 when present (sharing the table), else by ig1 (alone)
	if j.Var == "ref" {
		dr = c04RefDecl(append([]world.SrcRef{}, s1...))
		uniqueName(dr, "igr")
	}
	if len(s1) > 0 {
		d1 = c04Decl(j.Var, "ig1", s1, declares1)
		if dr != nil {
			d1.Inputs[0].Ref.Integration = dr.Name
		}
		uniqueName(d1, "ig1")
		p.decls = append(p.decls, d1)
	}
	if len(s2) > 0 {
		d2 = c04Decl(j.Var, "ig2", s2, !declares1)
		if dr != nil {
			d2.Inputs[0].Ref.Integration = dr.Name
		}
		uniqueName(d2, "ig2")
		p.decls = append(p.decls, d2)
	}
	if dr != nil {
		p.decls = append(p.decls, dr)
	}
	p.nIG = len(p.decls)
	// source names; name coincidences between integrations and sources (decl names do not depend on source names)
	nameA, nameB := "srcA", "srcB"
	switch j.Names {
	case "ig1=srcB":
		nameB = d1.Name
	case "ig1=srcA":
		nameA = d1.Name
	case "ig2=srcB":
		nameB = d2.Name
	}
	for _, d := range p.decls {
		for i := range d.Sources {
			if d.Sources[i].Name == "srcA" {
				d.Sources[i].Name = nameA
			} else {
				d.Sources[i].Name = nameB
			}
		}
	}
	if has("1") {
		p.pairs = append(p.pairs, c04Pair{"P1", nameA, d1.Name, "node1", 7, d1, rA.Start, rA.Stop})
	}
	if has("2") {
		p.pairs = append(p.pairs, c04Pair{"P2", nameA, d2.Name, "node1", 7, d2, r2.Start, r2.Stop})
	}
	if has("3") {
		p.pairs = append(p.pairs, c04Pair{"P3", nameB, d1.Name, "node2", cidB, d1, rB.Start, rB.Stop})
	}
	if dr != nil { // the referenced integration's own pairs: stepped by the main thread only (set-up and drain)
		for _, sr := range dr.Sources {
			if sr.Name == nameA {
				p.aux = append(p.aux, c04Pair{"R-A", nameA, dr.Name, "node1", 7, dr, sr.Start, sr.Stop})
			} else {
				p.aux = append(p.aux, c04Pair{"R-B", nameB, dr.Name, "node2", cidB, dr, sr.Start, sr.Stop})
			}
		}
	}
	var srcs []world.Source
	if has("1") || has("2") {
		srcs = append(srcs, world.Source{Name: nameA, ChainID: 7, URL: "http://node1", Batch: j.Batch, Conc: 1})
		p.hosts = append(p.hosts, "node1")
	}
	if has("3") {
		srcs = append(srcs, world.Source{Name: nameB, ChainID: cidB, URL: "http://node2", Batch: j.Batch, Conc: 1})
		p.hosts = append(p.hosts, "node2")
	}
	p.conf = world.ConfJSON(srcs, p.decls)
	conf, err := world.ParseConf(p.conf)
	if err != nil {
		return nil, err
	}
	if p.snap, err = world.InitDB(conf); err != nil {
		return nil, err
	}
	// node1: block c indexed before the explored phase, then c p | reorg at 1: a p (longer).
	// node2 (another chain): p, then p c | reorg at 1: c a.
	mk := func(host string, salt uint64, w0, repl string) {
		fork := 1
		if j.Ranges != "" {
			// range jobs: three blocks, the reorg replaces block 3 only — a reference that stops at block 2 has
			// finished below the fork (a finished pair does not look at its source again)
			w0, fork = w0+"a", 2
		}
		c0 := simeth.Build(specsFor(w0, 1, len(w0)), salt)
		p.gen[host] = c0.Truncate(1)
		p.init[host] = c0
		word := w0[:fork] + repl
		c1 := c0.Reorg(uint64(fork), specsFor(word, fork+1, fork+len(repl)), salt+1)
		if j.Var == "ref" {
			// the job about overlapping inserts of ONE integration on two sources keeps both sources still
			p.final[host] = c0
			return
		}
		p.ops[host] = []*simeth.Chain{c1}
		p.final[host] = c1
	}
	mk("node1", 1, "cp", "ap")
	if j.CID == "same+chain" {
		mk("node2", 1, "cp", "ap") // the second provider serves the very same chain (and the same reorg)
	} else {
		mk("node2", 11, "pc", "ca")
	}
	if len(c04PrepCache) > 32 {
		c04PrepCache = map[string]*c04Prep{}
	}
	c04PrepCache[key] = p
	return p, nil
}

// ---- one execution ----------------------------------------------------------------------------

type c04Result struct {
	vio       *fw.Violation
	outcome   string
	harness   string
	trans     int64
	inserters int // pairs that inserted at least one row
	deletes   int // delete changes committed
	restarts  int
	pruned    int // positions deleted by the housekeeping prune
	stepErrs  map[string]int
	steps     []string
}

func c04Exec(j c04Job, p *c04Prep, ch vrt.Chooser, states *vrt.StateSet, trace bool) (res c04Result) {
	chains := map[string]*simeth.Chain{}
	for _, h := range p.hosts {
		chains[h] = p.gen[h]
	}
	g := &gate{inner: ch}
	w := world.New(g, world.Cfg{Snap: p.snap, Chains: chains})
	w.V.States = states
	w.V.TraceOn = trace
	res.stepErrs = map[string]int{}
	vio := func(class, key, detail string) {
		if res.vio == nil {
			res.vio = &fw.Violation{Property: "C04", Class: class, Key: key, Detail: detail}
		}
	}
	w.V.StateKey = func() uint64 {
		k := w.CommitHash
		for i, h := range p.hosts {
			k ^= uint64(w.Node(h).Version) << (40 + 8*uint(i))
		}
		return k
	}
	tag := j.Var // declaration variant; the subset of pairs is in the job
	if j.Names != "" {
		tag += ":names(" + j.Names + ")"
	}
	rtag := tag
	if j.Ranges != "" {
		rtag += ":" + j.Ranges
	}
	pairByThread := map[string]*c04Pair{}
	for i := range p.pairs {
		pairByThread[p.pairs[i].name] = &p.pairs[i]
	}
	var acting *c04Pair // pair the main thread is working for (drain phase)
	pruning := false    // the running thread is inside the housekeeping prune
	inserted := map[string]bool{}
	w.Run(func() {
		conf, err := world.ParseConf(p.conf)
		if err != nil {
			w.HarnessErr = err.Error()
			return
		}
		tasks, err := w.LoadTasks(conf)
		if err != nil || len(tasks) != len(p.pairs)+len(p.aux) {
			w.HarnessErr = fmt.Sprintf("loadTasks: %v (%d tasks, %d pairs)", err, len(tasks), len(p.pairs)+len(p.aux))
			return
		}
		current := map[string]*world.Task{}
		for _, t := range tasks {
			current[t.Key()] = t
		}
		allPairs := make([]*c04Pair, 0, len(p.pairs)+len(p.aux)) // auxiliary pairs first (others depend on them)
		for i := range p.aux {
			allPairs = append(allPairs, &p.aux[i])
		}
		for i := range p.pairs {
			allPairs = append(allPairs, &p.pairs[i])
		}
		pairByKey := map[string]*c04Pair{}
		colsOf := map[string][]string{} // data table -> columns
		for _, pr := range allPairs {
			pairByKey[pr.src+"/"+pr.ig] = pr
			if _, ok := colsOf[pr.decl.Table]; !ok {
				colsOf[pr.decl.Table] = w.TableCols(pr.decl.Table)
			}
		}
		// every task is built with the range of ITS OWN source reference
		checkRanges := func(ts []*world.Task, when string) bool {
			for _, t := range ts {
				pr := pairByKey[t.Key()]
				if pr == nil {
					vio("stamp", "task-for-unknown-pair:"+tag, fmt.Sprintf("%s: loadTasks built a task for (%s, %s), which is no configured pair", when, t.Src, t.IG))
					return false
				}
				if t.Start != pr.start || t.Stop != pr.stop {
					vio("range", "range:task-built-with-foreign-range:"+rtag, fmt.Sprintf("%s: the task of pair (%s, %s) was built with start=%d stop=%d, its own source reference says start=%d stop=%d", when, pr.src, pr.ig, t.Start, t.Stop, pr.start, pr.stop))
					return false
				}
			}
			return true
		}
		if !checkRanges(tasks, "start-up") {
			return
		}
		// finished(pr): the pair has a stop and has reached it
		finished := func(pr *c04Pair) bool {
			cur, has := w.Latest(pr.src, pr.ig)
			return pr.stop > 0 && has && cur.Num >= pr.stop
		}
		// reference filters look values up in the referenced integration's table (whatever source wrote them)
		refVals := map[string]bool{}
		for i := range p.aux {
			a := &p.aux[i]
			for _, r := range a.decl.Expect(p.final[a.host], a.src, a.chainID, 1, p.final[a.host].Head().Num, nil) {
				if b, ok := r["rf"].([]byte); ok {
					refVals[string(b)] = true
				}
			}
		}
		look := func(integration, column string, v []byte) bool { return refVals[string(v)] }
		// ---- frame condition and stamps on every commit
		w.OnCommit = func(c world.Commit) {
			if c.Ev.Kind != "commit" && c.Ev.Kind != "autocommit" || len(c.Ev.Changes) == 0 {
				return
			}
			name := c.Thread
			if i := strings.IndexByte(name, '.'); i >= 0 {
				name = name[:i]
			}
			pr := pairByThread[name]
			if name == "main" {
				pr = acting
			}
			if pruning {
				// housekeeping: may only delete positions, never a pair's latest one, never rows, and leaves at most n per pair
				del := map[string][]uint64{}
				for _, chg := range c.Ev.Changes {
					tbl := strings.TrimPrefix(chg.Table, "public.")
					if tbl != "shovel.task_updates" || chg.Op != "delete" {
						vio("frame", "prune:changed-"+tbl+":"+tag, fmt.Sprintf("the prune (n=%d) %ss a row of table %s (row id %d)", j.Prune, chg.Op, tbl, chg.Row.ID))
						return
					}
					k := strOf(chg.Row, "src_name") + "/" + strOf(chg.Row, "ig_name")
					num, _ := numOf(chg.Row, "num")
					del[k] = append(del[k], num)
				}
				kept := map[string][]uint64{}
				for _, cu := range w.Cursors() {
					kept[cu.Src+"/"+cu.IG] = append(kept[cu.Src+"/"+cu.IG], cu.Num)
				}
				for _, k := range sortedKeys(del) {
					maxDel := uint64(0)
					for _, n := range del[k] {
						if n > maxDel {
							maxDel = n
						}
					}
					minKept, nk := ^uint64(0), len(kept[k])
					for _, n := range kept[k] {
						if n < minKept {
							minKept = n
						}
					}
					if nk == 0 || maxDel >= minKept {
						vio("frame", "prune:latest-position-deleted:"+tag, fmt.Sprintf("the prune (n=%d) deleted positions %v of pair %s and kept %v: the pair's latest position is gone or a newer position was deleted before an older one", j.Prune, del[k], k, kept[k]))
						return
					}
					if nk != j.Prune {
						vio("frame", "prune:kept-count:"+tag, fmt.Sprintf("the prune (n=%d) deleted positions %v of pair %s but kept %d positions %v", j.Prune, del[k], k, nk, kept[k]))
						return
					}
				}
				res.pruned += len(c.Ev.Changes)
				return
			}
			if pr == nil {
				vio("frame", "commit-by-non-task-thread:"+tag, fmt.Sprintf("thread %s (no pair) committed %d changes, first on table %s", c.Thread, len(c.Ev.Changes), c.Ev.Changes[0].Table))
				return
			}
			for _, chg := range c.Ev.Changes {
				chg.Table = strings.TrimPrefix(chg.Table, "public.")
				if chg.Table != pr.decl.Table && chg.Table != "shovel.task_updates" {
					vio("frame", "foreign-table:"+tag, fmt.Sprintf("thread %s (pair %s/%s, table %s) changed table %s", c.Thread, pr.src, pr.ig, pr.decl.Table, chg.Table))
					return
				}
				if chg.Op == "insert" && chg.Table != "shovel.task_updates" {
					// every stored row carries the identity of what produced it
					for _, col := range []string{"src_name", "ig_name", "block_num", "tx_idx"} {
						if v, ok := chg.Row.Vals[col]; !ok || v == nil {
							vio("stamp", "stamp:identity-column-null:"+col+":"+tag, fmt.Sprintf("pair (%s, %s) inserted a row into %s whose %s is NULL (row id %d): %s", pr.src, pr.ig, chg.Table, col, chg.Row.ID, world.RenderRow(world.Row(chg.Row.Vals), colsOf[chg.Table])))
							return
						}
					}
				}
				what := "row"
				if chg.Table == "shovel.task_updates" {
					what = "position"
				}
				rs, ri := strOf(chg.Row, "src_name"), strOf(chg.Row, "ig_name")
				if rs != pr.src || ri != pr.ig {
					other := "another"
					if rs == pr.src {
						other = "same-source"
					} else if ri == pr.ig {
						other = "same-integration"
					}
					num, _ := blockNumOf(chg.Row)
					if what == "position" {
						num, _ = numOf(chg.Row, "num")
					}
					vio("frame", fmt.Sprintf("frame:%s-of-%s-pair-%s:%s", what, other, map[string]string{"insert": "inserted", "delete": "deleted"}[chg.Op], tag),
						fmt.Sprintf("a commit of thread %s working for pair (%s, %s) %ss a %s stamped (%s, %s) (block %d, row id %d, table %s)", c.Thread, pr.src, pr.ig, chg.Op, what, rs, ri, num, chg.Row.ID, chg.Table))
					return
				}
				if chg.Op == "insert" && chg.Table == "t1" {
					inserted[pr.name] = true
					if bn, _ := blockNumOf(chg.Row); bn == 0 || bn > 16 {
						vio("stamp", "stamp:block-num:"+tag, fmt.Sprintf("pair (%s, %s) inserted a row with block_num=%d", pr.src, pr.ig, bn))
						return
					}
					if cid, ok := chg.Row.Vals["chain_id"].(int64); !ok || uint64(cid) != pr.chainID {
						vio("stamp", "stamp:chain-id:"+tag, fmt.Sprintf("pair (%s, %s) of chain %d inserted a row with chain_id=%v", pr.src, pr.ig, pr.chainID, chg.Row.Vals["chain_id"]))
						return
					}
				}
				if chg.Op == "delete" {
					res.deletes++
				}
			}
		}

		// before the explored phase every pair indexes block 1 of its one-block chain and polls once more (nothing
		// new); this also starts the clients' head pollers, which are parked before the explored phase
		// (passes over all tasks until a whole pass reports nothing new: a task may have to wait for another one)
		settle := func(what string, only []*c04Pair, patient bool) bool {
			for pass := 0; ; pass++ {
				progress := false
				for _, pr := range only {
					t := current[pr.src+"/"+pr.ig]
					acting = pr
					for s, idle := 0, 0; ; s++ {
						out, err := t.Step()
						if res.vio != nil || w.V.Closing() {
							return false
						}
						if out == "done" && finished(pr) {
							break
						}
						if out == "nothing" {
							// patient: the client's head cache may answer up to (number of integrations) polls with an older head
							if idle++; idle > p.nIG || !patient {
								break
							}
							continue
						}
						idle = 0
						if out != "ok" || s > 12 || pass > 6 {
							vio("setup", what+":"+out+":"+errClass(err)+":"+tag, fmt.Sprintf("%s: pair %s/%s cannot index its source's chain (other pairs already did or will): %s %v", what, pr.src, pr.ig, out, err))
							return false
						}
						progress = true
					}
				}
				if !progress || (!patient && len(p.aux) == 0) {
					// (without auxiliary integrations no task waits for another: one pass is enough, and every pair
					// polls exactly once after its last block — the head cache is then due for a refresh)
					acting = nil
					return true
				}
			}
		}
		if !settle("initial-indexing", allPairs, false) {
			return
		}
		acting = nil
		w.V.WaitIdle()
		for _, h := range p.hosts {
			w.SetChain(h, p.init[h], "init")
		}
		if len(p.aux) > 0 { // auxiliary integrations follow their sources before the explored phase
			var aux []*c04Pair
			for i := range p.aux {
				aux = append(aux, &p.aux[i])
			}
			if !settle("initial-indexing", aux, true) {
				return
			}
		}
		g.open = true

		// the head poller a (re)built client starts only ever waits for ticks nobody sends: its pending operation
		// commutes with everything, so it is never switched to preemptively
		w.OnExchange = func(ex *simeth.Exchange) {
			for _, th := range w.V.Threads() {
				if th.OnlyAt == nil && len(th.Name) > 1 && th.Name[0] == 'g' && th.Name[1] >= '0' && th.Name[1] <= '9' {
					th.OnlyAt = func(string) bool { return false }
				}
			}
		}

		// ---- explored phase
		scriptB := len(p.pairs) > 2 // see below
		envLeft := map[string]int{}
		for _, h := range p.hosts {
			if len(p.ops[h]) > 0 {
				envLeft[h] = 1
			}
		}
		var threads []*vrt.Thread
		for i := range p.pairs {
			pr := &p.pairs[i]
			// pairs of the second source (another node, another client) share only the database with the others:
			// when both sources are present their step boundaries are ordinary scheduling points (a switch there
			// costs a preemption), the boundaries of the first source's pairs are free
			coarse := pr.host == "node2" && len(p.hosts) > 1
			if j.Restart != "" && j.Restart != pr.name {
				coarse = true // restart jobs: only the restarting pair's step boundaries are free switch points
			}
			pth := w.V.GoNamed(pr.name, func() {
				stale, repoll := 0, false
				for s := 0; s < j.K; s++ {
					if repoll {
						repoll = false // the poll a second after a stale head answer follows without a step boundary
					} else if coarse {
						vrt.Yield("step:" + pr.name)
					} else {
						vrt.Boundary("step")
					}
					if w.V.Closing() {
						return
					}
					if scriptB && pr.host == "node2" && s == 1 {
						// three-pair jobs: the second source's reorg lands between this pair's two steps
						w.SetChain("node2", p.ops["node2"][0], "reorg")
						envLeft["node2"] = 0
					}
					if j.Prune > 0 && j.PruneBy == pr.name && s == 1 {
						// housekeeping between two steps: keep the n newest positions of every pair
						pruning = true
						err := shovel.PruneTask(w.Ctx, w.Pool, j.Prune)
						pruning = false
						if w.V.Closing() {
							return
						}
						if err != nil {
							vio("prune", "prune:error:"+errClass(err)+":"+tag, fmt.Sprintf("PruneTask(n=%d): %v", j.Prune, err))
							return
						}
						cnt := map[string]int{}
						for _, cu := range w.Cursors() {
							cnt[cu.Src+"/"+cu.IG]++
						}
						for _, k := range sortedKeys(cnt) {
							if cnt[k] > j.Prune {
								vio("prune", "prune:more-than-n-kept:"+tag, fmt.Sprintf("after PruneTask(n=%d) pair %s still has %d positions", j.Prune, k, cnt[k]))
								return
							}
						}
					}
					if j.Restart == pr.name && s == 1 {
						// restart: discard every task and source client, rebuild them as the start-up path does
						nt, err := w.LoadTasks(conf)
						if w.V.Closing() {
							return
						}
						if err != nil || len(nt) != len(p.pairs)+len(p.aux) {
							w.HarnessErr = fmt.Sprintf("restart loadTasks: %v (%d tasks)", err, len(nt))
							return
						}
						if !checkRanges(nt, "restart") {
							return
						}
						for _, t := range nt {
							current[t.Key()] = t
						}
						res.restarts++
					}
					t := current[pr.src+"/"+pr.ig]
					out, err := t.Step()
					if w.V.Closing() {
						return
					}
					if trace {
						cur, _ := w.Latest(pr.src, pr.ig)
						nrows := 0
						for _, r := range w.PG.Dump("t1") {
							if strOf(r, "src_name") == pr.src && strOf(r, "ig_name") == pr.ig {
								nrows++
							}
						}
						res.steps = append(res.steps, fmt.Sprintf("%s (%s,%s) step: %s (%v) -> cursor %d, %d rows", pr.name, pr.src, pr.ig, out, err, cur.Num, nrows))
					}
					switch out {
					case "panic":
						vio("panic", "panic:"+tag, fmt.Sprintf("Converge of (%s, %s) panicked: %v", pr.src, pr.ig, err))
						return
					case "error":
						res.stepErrs[errClass(err)]++
					case "done":
						if !finished(pr) {
							cur, _ := w.Latest(pr.src, pr.ig)
							vio("range", "range:done-without-own-stop:"+rtag, fmt.Sprintf("pair (%s, %s) (own reference: start=%d stop=%d) reports 'this is the end' at position %d", pr.src, pr.ig, pr.start, pr.stop, cur.Num))
						}
						return // a finished pair takes no further steps
					}
					if cur, _ := w.Latest(pr.src, pr.ig); out == "nothing" && cur.Num < w.Node(pr.host).Chain().Head().Num && stale < p.nIG {
						// the head cache answered with an older head although the source is ahead: a real task polls again
						// a second later; this poll is not one of the pair's K steps
						stale++
						s--
						repoll = true
						continue
					}
					stale = 0
					if out != "ok" && envLeft[pr.host] > 0 && s < j.K-1 && !(scriptB && pr.host == "node2") {
						// polling an unchanged source again would repeat the same step: wait for the source's reorg
						host := pr.host
						w.V.Point("wait-source", false, func() bool { return envLeft[host] == 0 })
					}
				}
			})
			// reduction: a pair thread is switched to preemptively only while the running thread is at an RPC
			// exchange with the pair's own node (the shared source client and its caches) or at a step boundary;
			// SQL statements of different pairs touch disjointly stamped rows and are not interleaved preemptively
			host := pr.host
			pth.OnlyAt = func(l string) bool {
				return strings.HasPrefix(l, "rpc:"+host+":") || strings.HasPrefix(l, "boundary:") || strings.HasPrefix(l, "step:") ||
					strings.HasPrefix(l, "sql:extended:select true from") // the reference-filter lookup inside Insert (variant ref)
			}
			threads = append(threads, pth)
		}
		for _, h := range p.hosts {
			h := h
			name := "envA"
			if h == "node2" {
				name = "envB"
				if scriptB {
					continue
				}
			}
			if len(p.ops[h]) == 0 {
				continue
			}
			th := w.V.GoNamed(name, func() {
				for i, c := range p.ops[h] {
					if i > 0 {
						vrt.Boundary("env")
					}
					if w.V.Closing() {
						return
					}
					w.SetChain(h, c, "reorg")
				}
				envLeft[h] = 0
				w.V.Bump()
			})
			th.OnlyAt = func(l string) bool {
				return strings.HasPrefix(l, "rpc:"+h+":") || strings.HasPrefix(l, "boundary:") || strings.HasPrefix(l, "step:")
			}
			threads = append(threads, th)
		}
		w.V.Join(threads...)
		g.open = false
		if res.vio != nil || w.V.Closing() || w.HarnessErr != "" {
			return
		}
		// ---- drain: every pair to quiescence, sequentially
		for _, pr := range allPairs {
			acting = pr
			head := p.final[pr.host].Head().Num
			t := current[pr.src+"/"+pr.ig]
			nothing := 0
			if finished(pr) {
				continue
			}
			var lastOut string
			var lastErr error
			for s := 0; s < 4*int(head)+8 && nothing < p.nIG+1; s++ {
				lastOut, lastErr = t.Step()
				if trace {
					cur, _ := w.Latest(pr.src, pr.ig)
					res.steps = append(res.steps, fmt.Sprintf("drain %s (%s,%s) step: %s (%v) -> cursor %d", pr.name, pr.src, pr.ig, lastOut, lastErr, cur.Num))
				}
				if res.vio != nil {
					return
				}
				if lastOut == "panic" {
					vio("panic", "panic:"+tag, fmt.Sprintf("Converge of (%s, %s) panicked: %v", pr.src, pr.ig, lastErr))
					return
				}
				if lastOut == "done" {
					if !finished(pr) {
						cur, _ := w.Latest(pr.src, pr.ig)
						vio("range", "range:done-without-own-stop:"+rtag, fmt.Sprintf("pair (%s, %s) (own reference: start=%d stop=%d) reports 'this is the end' at position %d", pr.src, pr.ig, pr.start, pr.stop, cur.Num))
						return
					}
					nothing = p.nIG + 1
					break
				}
				if lastOut == "nothing" {
					nothing++
				} else {
					nothing = 0
				}
			}
			if nothing < p.nIG+1 {
				key := "noconverge:" + lastOut
				if lastOut == "error" {
					key += ":" + errClass(lastErr)
				}
				cur, _ := w.Latest(pr.src, pr.ig)
				vio("noconverge", key+":"+tag, fmt.Sprintf("pair (%s, %s) did not reach quiescence in %d steps after all sources settled: cursor %d, head %d, last outcome %q: %v", pr.src, pr.ig, 4*int(head)+8, cur.Num, head, lastOut, lastErr))
				return
			}
		}
		acting = nil
		// ---- per-pair projection at quiescence
		byPair := map[string][]simpg.Row{} // table|src/ig -> rows
		for tbl := range colsOf {
			for _, r := range w.PG.Dump(tbl) {
				k := tbl + "|" + strOf(r, "src_name") + "/" + strOf(r, "ig_name")
				byPair[k] = append(byPair[k], r)
			}
		}
		known := map[string]bool{}
		knownPos := map[string]bool{}
		for _, pr := range allPairs {
			cols := colsOf[pr.decl.Table]
			known[pr.decl.Table+"|"+pr.src+"/"+pr.ig] = true
			knownPos[pr.src+"/"+pr.ig] = true
			final := p.final[pr.host]
			head := pr.hi(final.Head().Num) // the pair's own stop, when below the source's head
			got := world.RenderDump(byPair[pr.decl.Table+"|"+pr.src+"/"+pr.ig], cols)
			want := world.RenderRows(pr.decl.Expect(final, pr.src, pr.chainID, pr.lo(), head, look), cols)
			if trace {
				res.steps = append(res.steps, fmt.Sprintf("quiescence: pair (%s, %s) has %d rows, projection has %d", pr.src, pr.ig, len(got), len(want)))
			}
			if strings.Join(got, "\n") != strings.Join(want, "\n") {
				sym := c04Symptom(p, pr, cols, got, want, look)
				vio("rows", "rows:"+sym+":"+rtag, fmt.Sprintf("at quiescence the rows stamped (%s, %s) != projection of %s's canonical chain, blocks %d..%d (the pair's own reference: start=%d stop=%d), for %s\n%s", pr.src, pr.ig, pr.src, pr.lo(), head, pr.start, pr.stop, pr.ig, world.DiffSorted(got, want)))
				return
			}
			cur, has := w.Latest(pr.src, pr.ig)
			if !has || cur.Num != head || (len(cur.Hash) == 32 && string(cur.Hash) != string(final.Blocks[head].Hash)) {
				vio("cursor", "position:"+rtag, fmt.Sprintf("at quiescence pair (%s, %s) (own reference: start=%d stop=%d) has position %d (present=%v, hash %x); it has to be at block %d (%x)", pr.src, pr.ig, pr.start, pr.stop, cur.Num, has, cur.Hash, head, final.Blocks[head].Hash[:6]))
				return
			}
			for _, c := range w.Cursors() {
				if c.Src == pr.src && c.IG == pr.ig && (c.Num > head || (len(c.Hash) == 32 && string(c.Hash) != string(final.Blocks[c.Num].Hash))) {
					vio("cursor", "position-off-chain:"+tag, fmt.Sprintf("pair (%s, %s) keeps position %d with hash %x which is not on its source's chain", pr.src, pr.ig, c.Num, c.Hash))
					return
				}
			}
		}
		for k, rows := range byPair {
			if !known[k] {
				vio("stamp", "stamp:unknown-pair:"+tag, fmt.Sprintf("%d rows are stamped %q, which is no configured (source, integration) pair", len(rows), k))
				return
			}
		}
		for _, c := range w.Cursors() {
			if !knownPos[c.Src+"/"+c.IG] {
				vio("stamp", "stamp:unknown-pair-position:"+tag, fmt.Sprintf("a position row is stamped (%s, %s), which is no configured pair", c.Src, c.IG))
				return
			}
		}
		res.outcome = "isolated"
	})
	res.trans = w.V.Transitions
	res.inserters = len(inserted)
	if w.HarnessErr != "" {
		res.harness = w.HarnessErr
	}
	if len(w.V.Panics) > 0 && res.vio == nil {
		vio("panic", "panic-thread:"+tag, strings.Join(w.V.Panics, "\n"))
	}
	if w.V.Deadlock && res.vio == nil && res.harness == "" {
		vio("deadlock", "deadlock:"+tag, w.V.DeadlockMsg)
	}
	if res.vio != nil {
		res.outcome = "VIOLATION:" + res.vio.Class
		if trace {
			res.vio.Detail += "\nsteps:\n  " + strings.Join(res.steps, "\n  ") + "\nrequests and the chain version that served them:\n" + exchangeLog(w, 0)
			res.vio.Detail += "schedule: " + strings.Join(w.V.Trace, " ")
		}
	}
	if res.outcome == "" {
		res.outcome = "ended"
	}
	if res.outcome == "isolated" {
		switch {
		case res.deletes > 0 && len(res.stepErrs) > 0:
			res.outcome = "isolated:reorg-unwound+step-errors"
		case res.deletes > 0:
			res.outcome = "isolated:reorg-unwound"
		case len(res.stepErrs) > 0:
			res.outcome = "isolated:step-errors"
		}
	}
	return res
}

// c04Symptom classifies a per-pair mismatch: rows that belong to ANOTHER pair's projection (leak),
// rows of an older version of the own chain (orphans), missing rows, duplicates.
func c04Symptom(p *c04Prep, pr *c04Pair, cols []string, got, want []string, look world.RefLookup) string {
	wantSet, gotSet := map[string]int{}, map[string]int{}
	for _, s := range want {
		wantSet[s]++
	}
	for _, s := range got {
		gotSet[s]++
	}
	own := map[string]bool{}
	for _, c := range append([]*simeth.Chain{p.init[pr.host]}, p.ops[pr.host]...) {
		for _, s := range world.RenderRows(pr.decl.Expect(c, pr.src, pr.chainID, 1, c.Head().Num, look), cols) {
			own[s] = true
		}
	}
	dup, extraOwn, extraForeign, missing := 0, 0, 0, 0
	for s, n := range gotSet {
		if n > 1 {
			dup++
		}
		if wantSet[s] == 0 {
			if own[s] {
				extraOwn++
			} else {
				extraForeign++
			}
		}
	}
	for s := range wantSet {
		if gotSet[s] == 0 {
			missing++
		}
	}
	var parts []string
	if extraForeign > 0 {
		parts = append(parts, "foreign-content")
	}
	if dup > 0 {
		parts = append(parts, "duplicates")
	}
	if extraOwn > 0 {
		parts = append(parts, "orphans")
	}
	if missing > 0 {
		parts = append(parts, "missing")
	}
	sort.Strings(parts)
	return strings.Join(parts, "+")
}

// ---- driver ---------------------------------------------------------------------------------------

func c04Bounds(thorough bool, j c04Job) explore.Bounds {
	var b explore.Bounds
	b[0], b[vrt.KPreempt] = 1, 1
	if j.Deep {
		b[0], b[vrt.KPreempt] = 2, 2
	}
	if len(j.Pairs) > 2 && !thorough {
		// three pairs, quick: step-granular interleavings only (thorough: one preemption); the finer
		// interleavings of every two of them are covered by the two-pair jobs
		b[0], b[vrt.KPreempt] = 0, 0
	}
	return b
}

func c04Run(c *fw.Ctx) {
	jobs := c04Jobs(c.Thorough())
	if js := os.Getenv("C04_JOB"); js != "" { // development aid: one job given as JSON
		var one c04Job
		if err := json.Unmarshal([]byte(js), &one); err != nil {
			c.HarnessError("C04_JOB: %v", err)
			return
		}
		jobs = []c04Job{one}
	}
	c.Bound("jobs", len(jobs))
	c.Bound("preemptions", c04Bounds(c.Thorough(), c04Job{})[vrt.KPreempt])
	for _, j := range jobs {
		if !c.Mine() {
			continue
		}
		if c.Expired() {
			return
		}
		p, err := c04Prepare(j)
		if err != nil {
			c.HarnessError("prepare %+v: %v", j, err)
			return
		}
		states := vrt.NewStateSet()
		b := c04Bounds(c.Thorough(), j)
		t0, cpu0 := time.Now(), cpuSeconds()
		st := explore.Explore(b, true, func(r *explore.Run) bool {
			res := c04Exec(j, p, r, states, false)
			if res.harness != "" {
				c.HarnessError("job %+v choices %v: %s", j, r.Trimmed(), res.harness)
				return false
			}
			if r.Diverged != "" {
				c.HarnessError("HARNESS-NONDETERMINISM job %+v: %s", j, r.Diverged)
				return false
			}
			if f := os.Getenv("C04_EXECS"); f != "" {
				fh, _ := os.OpenFile(f, os.O_APPEND|os.O_CREATE|os.O_WRONLY, 0o644)
				ls := r.Labels()
				var dev []string
				for i, ch := range r.Choices() {
					if ch != 0 {
						dev = append(dev, fmt.Sprintf("%d@%d:%s", ch, i, ls[i]))
					}
				}
				cj, _ := json.Marshal(r.Trimmed())
				fmt.Fprintf(fh, "%s del=%d dev=%v choices=%s\n", res.outcome, res.deletes, dev, cj)
				if c.Res.Traces == 0 {
					fmt.Fprintf(fh, "LABELS\n  %s\n", strings.Join(ls, "\n  "))
				}
				fh.Close()
			}
			c.Eval(res.inserters >= 2 || res.deletes > 0 || res.vio != nil)
			c.Outcome(res.outcome)
			c.Res.Transitions += res.trans
			c.Res.Traces++
			c.Count("reorg_deletions_committed", int64(res.deletes))
			c.Count("restarts", int64(res.restarts))
			c.Count("positions_pruned", int64(res.pruned))
			if res.inserters >= 2 {
				c.Count("executions_with_rows_of_several_pairs", 1)
			}
			for k, n := range res.stepErrs {
				c.Count("step_error:"+k, int64(n))
			}
			if res.vio != nil {
				c.Violation("C04", res.vio.Class, res.vio.Key, fmt.Sprintf("job %s\n%s", c04JobString(j), res.vio.Detail), c04Case{Job: j, Bounds: b, Choices: r.Choices()})
			}
			if c.Res.Evaluations%5003 == 1 {
				c.Sample(map[string]any{"job": j, "schedule": r.Trimmed(), "labels_tail": tailLabels(r.Labels(), 6), "outcome": res.outcome})
			}
			return !c.Expired()
		})
		c.Res.States += int64(states.Len())
		if dbg := os.Getenv("C04_DEBUG"); dbg != "" {
			f, _ := os.OpenFile(dbg, os.O_APPEND|os.O_CREATE|os.O_WRONLY, 0o644)
			fmt.Fprintf(f, "job %s: executions=%d points=%d maxdepth=%d complete=%v wall=%.1fs cpu=%.1fs\n", c04JobString(j), st.Executions, st.Points, st.MaxDepth, st.Complete, time.Since(t0).Seconds(), cpuSeconds()-cpu0)
			f.Close()
		}
		if !st.Complete {
			if c.Res.HarnessErr == "" {
				c.Cap("time-budget")
			}
			return
		}
		c.Count("jobs_completed", 1)
		c.Count("lock_contentions", vrt.Contentions)
		vrt.Contentions = 0
	}
}

func c04JobString(j c04Job) string {
	b, _ := json.Marshal(j)
	return string(b)
}

func c04Replay(c *fw.Ctx, raw json.RawMessage) {
	var k c04Case
	if err := json.Unmarshal(raw, &k); err != nil {
		c.HarnessError("bad case: %v", err)
		return
	}
	p, err := c04Prepare(k.Job)
	if err != nil {
		c.HarnessError("prepare: %v", err)
		return
	}
	r := explore.Replay(k.Choices)
	res := c04Exec(k.Job, p, r, nil, true)
	c.Eval(true)
	if os.Getenv("C04_VERBOSE") != "" {
		fmt.Printf("outcome %s deletes=%d\n%s\n", res.outcome, res.deletes, strings.Join(res.steps, "\n"))
	}
	if res.harness != "" {
		c.HarnessError("%s", res.harness)
		return
	}
	if r.Diverged != "" {
		c.HarnessError("HARNESS-NONDETERMINISM replay diverged: %s", r.Diverged)
		return
	}
	if res.vio != nil {
		c.Violation("C04", res.vio.Class, res.vio.Key, fmt.Sprintf("job %s\n%s", c04JobString(k.Job), res.vio.Detail), k)
	}
}
