//go:build verif

package reorg

import (
	"encoding/json"
	"fmt"
	"hash/fnv"
	"math/big"
	"regexp"
	"sort"
	"strings"
	"syscall"

	"verifh/ref"
	"verifh/simeth"
	"verifh/simpg"
	"verifh/vrt"
	"verifh/world"
)

// ---- declaration shapes (copied from checks/pipe/common.go; only plans with block hashes) -----

var (
	addrA = simeth.Addr("contract-A")
	addrB = simeth.Addr("contract-B")
)

// shape returns a fresh declaration of the named shape for integration name ig / table tbl.
//
//	L1: log event + block fields; plan headers+logs
//	L3: all-indexed log event; plan headers+logs (second event of C04)
//	T1: transaction indexing; plan blocks
//	R1: transaction + receipt fields; plan blocks+receipts
//	TR1: trace indexing (+ tx_hash); plan blocks+traces
func shape(name, ig, tbl string, srcs ...world.SrcRef) *world.Decl {
	d := &world.Decl{Name: ig, Table: tbl, Sources: srcs}
	switch name {
	case "L1":
		d.Event = "Transfer"
		d.Inputs = []world.Input{
			{Name: "from", Type: "address", Indexed: true, Column: "f"},
			{Name: "to", Type: "address", Indexed: true, Column: "t"},
			{Name: "value", Type: "uint256", Column: "v"},
		}
		d.Fields = []world.Field{{Name: "block_time", Column: "block_time"}, {Name: "tx_hash", Column: "tx_hash"}, {Name: "log_addr", Column: "log_addr"}, {Name: "block_hash", Column: "block_hash"}}
	case "L3":
		d.Event = "Ping"
		d.Inputs = []world.Input{
			{Name: "a", Type: "address", Indexed: true, Column: "a"},
			{Name: "n", Type: "uint256", Indexed: true, Column: "n"},
		}
		d.Fields = []world.Field{{Name: "block_time", Column: "block_time"}, {Name: "block_hash", Column: "block_hash"}}
	case "T1":
		d.Fields = []world.Field{{Name: "tx_hash", Column: "tx_hash"}, {Name: "tx_to", Column: "tx_to"}, {Name: "tx_value", Column: "tx_value"},
			{Name: "tx_input", Column: "tx_input"}, {Name: "tx_nonce", Column: "tx_nonce", Op: "gt", Arg: []string{"1"}}, {Name: "block_hash", Column: "block_hash"}}
	case "R1":
		d.Fields = []world.Field{{Name: "tx_hash", Column: "tx_hash"}, {Name: "tx_input", Column: "tx_input"}, {Name: "tx_status", Column: "tx_status"},
			{Name: "tx_gas_used", Column: "tx_gas_used"}, {Name: "block_hash", Column: "block_hash"}}
	case "TR1": // trace indexing; plan blocks+traces (tx_hash needs full blocks, hence parent hashes)
		d.Fields = []world.Field{{Name: "trace_action_from", Column: "tfrom"}, {Name: "trace_action_to", Column: "tto"},
			{Name: "trace_action_value", Column: "tval"}, {Name: "trace_action_call_type", Column: "tct"}, {Name: "tx_hash", Column: "tx_hash"}}
	default:
		panic("unknown shape " + name)
	}
	return d
}

// logDecls are the event declarations used to BUILD logs (values the oracle knows).
var (
	declTransfer = shape("L1", "mk", "mk")
	declPing     = shape("L3", "mk", "mk")
)

func scalarVal(typ, seed string) []byte {
	switch {
	case typ == "address":
		return world.AddrWord(simeth.Addr(seed))
	case strings.HasPrefix(typ, "uint"), strings.HasPrefix(typ, "int"):
		x := new(big.Int).SetBytes(simeth.Word(seed)[:12])
		return world.WordBig(x)
	}
	return simeth.Word(seed)
}

// mkLog builds a log of event declaration d from addr whose values derive from seed only
// (NOT from the chain salt: a replacement block can carry "the same log").
func mkLog(d *world.Decl, addr []byte, seed string) *simeth.Log {
	var vals []ref.Value
	for i, in := range d.Inputs {
		vals = append(vals, scalarVal(in.Type, fmt.Sprintf("%s/%s/%d", seed, in.Name, i)))
	}
	return d.MkLog(addr, vals...)
}

// blockSpec builds the content of one block of the given kind at height h.
//
//	e: empty block
//	a: one tx, one Transfer log from A
//	c: two txs: (Transfer A, Transfer A, Ping A) and (Transfer A, Transfer B, Ping B)
//	d: one tx without logs
//	p: one tx: Transfer A, Transfer B, Ping A
func blockSpec(kind byte, h int) simeth.BlockSpec {
	lt := func(addr []byte, i int) *simeth.Log { return mkLog(declTransfer, addr, fmt.Sprintf("h%d/T%d", h, i)) }
	lp := func(addr []byte, i int) *simeth.Log { return mkLog(declPing, addr, fmt.Sprintf("h%d/P%d", h, i)) }
	// every transaction carries traces (values derive from height/tx only, like the logs): tx 0 one, tx 1 two
	tr := func(tx, i int) *simeth.Trace {
		s := fmt.Sprintf("h%d/x%d/tr%d", h, tx, i)
		return &simeth.Trace{From: simeth.Addr(s + "/f"), To: simeth.Addr(s + "/t"), Value: new(big.Int).SetBytes(simeth.Word(s + "/v")[:9]), CallType: "call"}
	}
	switch kind {
	case 'e':
		return simeth.BlockSpec{}
	case 'a':
		return simeth.BlockSpec{Txs: []simeth.TxSpec{{Logs: []*simeth.Log{lt(addrA, 0)}, Traces: []*simeth.Trace{tr(0, 0)}}}}
	case 'c':
		return simeth.BlockSpec{Txs: []simeth.TxSpec{
			{Logs: []*simeth.Log{lt(addrA, 0), lt(addrA, 1), lp(addrA, 0)}, Traces: []*simeth.Trace{tr(0, 0)}},
			{Logs: []*simeth.Log{lt(addrA, 2), lt(addrB, 3), lp(addrB, 1)}, Traces: []*simeth.Trace{tr(1, 0), tr(1, 1)}},
		}}
	case 'd':
		return simeth.BlockSpec{Txs: []simeth.TxSpec{{Traces: []*simeth.Trace{tr(0, 0)}}}}
	case 'p':
		return simeth.BlockSpec{Txs: []simeth.TxSpec{{Logs: []*simeth.Log{lt(addrA, 0), lt(addrB, 1), lp(addrA, 0)}, Traces: []*simeth.Trace{tr(0, 0)}}}}
	}
	panic("block kind")
}

// specsFor returns the specs of heights lo..hi (inclusive) following word (1-based heights;
// heights beyond the word are kind 'a').
func specsFor(word string, lo, hi int) []simeth.BlockSpec {
	var out []simeth.BlockSpec
	for h := lo; h <= hi; h++ {
		k := byte('a')
		if h-1 < len(word) {
			k = word[h-1]
		}
		out = append(out, blockSpec(k, h))
	}
	return out
}

// applyVariant edits replacement specs (heights lo..): content variants of a reorg.
//
//	same:    identical logs (only tx/block identity differs through the salt)
//	removed: the first matching log of the replaced range is gone
//	added:   the first replacement block carries one more matching log
//	moved:   the first matching log moves to the next replacement block (needs >= 2 blocks)
func applyVariant(specs []simeth.BlockSpec, variant string, lo int) []simeth.BlockSpec {
	firstLog := func() (bi, ti, li int, ok bool) {
		for bi := range specs {
			for ti := range specs[bi].Txs {
				if len(specs[bi].Txs[ti].Logs) > 0 {
					return bi, ti, 0, true
				}
			}
		}
		return 0, 0, 0, false
	}
	switch variant {
	case "same", "":
	case "removed":
		if bi, ti, li, ok := firstLog(); ok {
			l := specs[bi].Txs[ti].Logs
			specs[bi].Txs[ti].Logs = append(append([]*simeth.Log{}, l[:li]...), l[li+1:]...)
		}
	case "added":
		if len(specs) > 0 {
			nl := mkLog(declTransfer, addrA, fmt.Sprintf("h%d/added", lo))
			if len(specs[0].Txs) == 0 {
				specs[0].Txs = []simeth.TxSpec{{}}
			}
			specs[0].Txs[0].Logs = append(append([]*simeth.Log{}, specs[0].Txs[0].Logs...), nl)
		}
	case "moved":
		if bi, ti, li, ok := firstLog(); ok && bi+1 < len(specs) {
			l := specs[bi].Txs[ti].Logs
			mv := l[li]
			specs[bi].Txs[ti].Logs = append(append([]*simeth.Log{}, l[:li]...), l[li+1:]...)
			if len(specs[bi+1].Txs) == 0 {
				specs[bi+1].Txs = []simeth.TxSpec{{}}
			}
			specs[bi+1].Txs[0].Logs = append(append([]*simeth.Log{}, specs[bi+1].Txs[0].Logs...), mv)
		}
	default:
		panic("variant " + variant)
	}
	return specs
}

// uniqueName gives the declaration a name derived from its content (everything but name and sources): within one
// worker process the same integration name always means the same declaration. The code under test may keep
// per-name state in package-level variables (e.g. compiled destinations); with content-derived names a case never
// depends on which other jobs ran before it in the same process, so every case is self-contained and replayable.
func uniqueName(d *world.Decl, base string) {
	d.Name = ""
	m := d.Integration()
	delete(m, "name")
	delete(m, "sources")
	b, _ := json.Marshal(m)
	h := fnv.New32a()
	h.Write(b)
	d.Name = fmt.Sprintf("%s_%08x", base, h.Sum32())
}

// ---- small helpers ------------------------------------------------------------------------------

var numRe = regexp.MustCompile(`[0-9]+`)
var hexRe = regexp.MustCompile(`(0x|\\x)?[0-9a-f]{8,}`)

func errClass(err error) string {
	if err == nil {
		return ""
	}
	s := err.Error()
	if strings.Contains(s, "SQLSTATE 23505") {
		// e.g. inserting data: inserting blocks: ERROR: duplicate key value violates unique constraint "u_t1" (SQLSTATE 23505)
		return "unique-violation"
	}
	if i := strings.Index(s, "(SQLSTATE"); i >= 0 {
		// keep the SQLSTATE, drop the free text in front of it
		s = strings.TrimSpace(s[:i]) + " " + s[i:]
	}
	s = hexRe.ReplaceAllString(s, "H")
	s = numRe.ReplaceAllString(s, "N")
	if len(s) > 140 {
		s = s[:140]
	}
	return s
}

func blockNumOf(r simpg.Row) (uint64, bool) {
	if x, ok := r.Vals["block_num"].(*big.Int); ok && x != nil {
		return x.Uint64(), true
	}
	return 0, false
}

func numOf(r simpg.Row, col string) (uint64, bool) {
	if x, ok := r.Vals[col].(*big.Int); ok && x != nil {
		return x.Uint64(), true
	}
	return 0, false
}

func strOf(r simpg.Row, col string) string {
	s, _ := r.Vals[col].(string)
	return s
}

// exchangeLog renders which chain version served every request (evidence for violations).
func exchangeLog(w *world.W, from int) string {
	var sb strings.Builder
	for _, ex := range w.Net.Exchanges() {
		if ex.Seq < from {
			continue
		}
		var cs []string
		for i, c := range ex.Calls {
			if i >= 4 {
				cs = append(cs, "…")
				break
			}
			p := ""
			if len(c.Params) > 0 {
				switch x := c.Params[0].(type) {
				case string:
					p = x
				case map[string]any:
					p = fmt.Sprintf("%v..%v", x["fromBlock"], x["toBlock"])
				}
			}
			cs = append(cs, strings.TrimPrefix(c.Method, "eth_")+"("+p+")")
		}
		fmt.Fprintf(&sb, "  #%d %s [%s] served by chain v%d\n", ex.Seq, ex.Host, strings.Join(cs, ","), ex.Version)
	}
	return sb.String()
}

func tailLabels(l []string, n int) []string {
	if len(l) > n {
		return l[len(l)-n:]
	}
	return l
}

func sortedKeys[V any](m map[string]V) []string {
	var ks []string
	for k := range m {
		ks = append(ks, k)
	}
	sort.Strings(ks)
	return ks
}

// onlyAtIO is the env-thread reduction: a chain change commutes with everything but RPC exchanges
// (and is free at step boundaries anyway).
func onlyAtIO(l string) bool {
	return strings.HasPrefix(l, "rpc:") || strings.HasPrefix(l, "boundary:") || l == "step"
}

// cpuSeconds is the CPU time consumed by this worker process (development statistics only; never an oracle).
func cpuSeconds() float64 {
	var ru syscall.Rusage
	if syscall.Getrusage(syscall.RUSAGE_SELF, &ru) != nil {
		return 0
	}
	return float64(ru.Utime.Sec+ru.Stime.Sec) + float64(ru.Utime.Usec+ru.Stime.Usec)/1e6
}

// gate is a chooser that takes the default alternative without consulting (or recording anything in)
// the explorer while it is closed: the sequential set-up and drain phases of an execution are not
// part of the explored schedule space.
type gate struct {
	inner vrt.Chooser
	open  bool
}

func (g *gate) Choose(kinds []uint8, label string) int {
	if !g.open || g.inner == nil {
		return 0
	}
	return g.inner.Choose(kinds, label)
}
