//go:build verif

// Package reorg holds world harnesses (see DESIGN.md §4).
package reorg
