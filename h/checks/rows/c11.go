//go:build verif

package rows

import (
	"encoding/json"
	"fmt"
	"time"

	"verifh/checks"
	"verifh/fw"
	"verifh/world"
)

// C11 — each column receives the value of the field it names, with documented typing.
//
// Sequential world harness: one task thread, no environment thread, all exploration bounds 0, so
// each case is ONE execution of the real pipeline (JSON-RPC response → jrpc2.Client → dig row
// builder → pgx COPY → value stored by the fake Postgres). The enumeration is over declarations
// and chains; the oracle is the cell-by-cell equality of the table dump with world.Decl.Expect.

func init() {
	checks.Register(&checks.Check{
		ID:        "C11",
		Level:     "exploration",
		Technique: "bounded-exhaustive enumeration of event declarations (indexed x selected patterns, input orders, ABI types incl. fixed array lengths across the one/two-digit boundary at top level, nested and as tuple components, integer boundary values), field selections and column orders, each run once through the real pipeline (simulated node → client → row builder → COPY → fake Postgres); oracle = cell-by-cell equality with the independent declared projection",
		Rule: "cases = (a) events with 1..4 inputs: every distinct order of each type multiset x every {indexed,not} x {selected,not} pattern with >= 1 selected input, <= 3 indexed, dynamic types never indexed, with and without two block fields; " +
			"(b) every integer width 8..256 step 8, signed and unsigned, as topic and as data, two value rotations, values from the sign/width boundary sets (0, 1, max, min, -1, 2^(n-1), 2^(n-1)-1) AND the machine-word value boundaries +-(2^63-1), +-2^63, +-(2^63+1), +-(2^64-1), +-2^64, +-(2^64+1), +-12500000000000000000 wherever the width admits them, as sign-extended words, every value as topic and as data; " +
			"(c) every field name alone (log / log-without-data / tx / trace indexing where the field is well-formed, two column namings) and every subset of size <= 3 of a representative field set in both column orders; " +
			"(d) array inputs uint256[], address[], int64[], int128[], address[2], uint8[3], bytes[], bytes[2], bytes[3], string[], string[2] and the nested bytes[][], bytes[2][], bytes[][2], string[][], string[2][], uint256[][], address[2][] (elements include empty byte strings / strings) with 0..3 elements combined with scalar inputs before/after and an explicit abi_idx column; " +
			"(e) fixed-size arrays T[k] for EVERY k in {9, 10, 11, 12, 21} (one- and two-digit lengths: the 9/10 boundary, a palindrome, a digit pair in both orders) x T in {uint256, address, int64, bytes, string}, plus the nested uint256[k][], uint256[][k], bytes[k][], address[k][2], in the seven patterns of (d) and in two patterns where the array is NOT selected and selected columns are declared after it (a wrong extent shifts the next field), with and without the explicit abi_idx column; " +
			"(f) the arrays T[k], k in {2, 9, 10, 11, 12, 21}, T in {uint256, address, bytes, string}, as a COMPONENT of a non-array tuple input (static tuple = inline, dynamic tuple = behind an offset), selected or not, in four patterns with selected columns after the array inside and outside the tuple (topic = keccak of the canonical signature with the tuple expanded, data by the reference encoder). " +
			"Chains: 2-3 blocks, 1-2 txs per block, 1-3 matching logs per tx plus decoys, 1-2 traces per tx; every tx/receipt/trace field distinct and non-zero. A case is non-trivial when the declared projection has at least one row; cases are distinct declarations.",
		Assumptions: []string{
			"fake Postgres (h/simpg) decodes binary COPY by column type; simulated node (h/simeth) answers like a well-behaved geth/erigon",
			"column types are the documented ones: numeric for integers, bytea, text, bool, int",
			"indexed inputs of dynamic type (topic = hash) are not enumerated; strings are valid UTF-8 without NUL",
			"the cell of an array column in the singleton row of an EMPTY array is not judged (the property does not define it); all other cells of that row are",
			"tuple declarations (f): the declared projection is computed from a twin chain that carries the same values as logs of the FLAT event (components declared side by side; a non-array tuple's components project like top-level inputs), so content-derived fields (block_hash) are not selected in (f)",
			"log_idx/log_addr are only selected together with log indexing, trace_action_* only without selected event inputs",
		},
		Budget:        map[string]time.Duration{"quick": 110 * time.Second, "thorough": 850 * time.Second},
		MinNontrivial: 1000,
		Inst:          true,
		Run:           c11Run,
		Replay:        c11Replay,
	})
}

var c11Runner = &runner{prop: "C11"}

func c11Run(c *fw.Ctx) {
	specs := c11Specs(c.Thorough())
	parts := map[string]int{}
	for _, s := range specs {
		parts[s.Part]++
	}
	for k, v := range parts {
		c.Bound("cases:"+k, v)
	}
	c.Bound("schedules_per_case", 1)
	c11Runner.run(c, specs)
}

func c11Replay(c *fw.Ctx, raw json.RawMessage) { c11Runner.replay(c, raw) }

var c11Types = []string{"address", "bool", "uint8", "uint64", "uint256", "int8", "int64", "int256", "bytes32", "bytes", "string"}

func c11TypeSets(thorough bool) map[int][][]string {
	m := map[int][][]string{
		2: {{"address", "uint256"}, {"bool", "int64"}, {"bytes32", "string"}, {"bytes", "uint8"}, {"int256", "address"}, {"uint64", "int8"}, {"address", "address"}},
		3: {{"address", "address", "uint256"}, {"bool", "int256", "bytes"}, {"uint8", "string", "bytes32"}},
		4: {{"address", "uint256", "int64", "bool"}, {"address", "bytes", "string", "int8"}},
	}
	for _, t := range c11Types {
		m[1] = append(m[1], []string{t})
	}
	if thorough {
		m[2] = append(m[2], []string{"int8", "int256"}, []string{"bool", "bytes32"}, []string{"string", "bytes"}, []string{"uint64", "address"}, []string{"uint256", "uint256"})
		m[3] = append(m[3], []string{"int64", "uint64", "address"}, []string{"bytes32", "bool", "int8"}, []string{"uint256", "bytes", "string"}, []string{"int256", "int256", "address"})
		m[4] = append(m[4], []string{"bytes32", "int256", "uint8", "address"}, []string{"uint64", "uint64", "bool", "string"}, []string{"int8", "int64", "int256", "uint256"})
	}
	return m
}

// c11Repr: the representative field set for subsets of size <= 3.
var c11Repr = []string{"block_hash", "block_time", "tx_hash", "tx_signer", "tx_to", "tx_value", "tx_input", "tx_nonce", "tx_type", "tx_status",
	"tx_gas_used", "tx_gas_price", "log_addr", "log_idx", "trace_action_from", "trace_action_value", "trace_action_call_type", "chain_id"}

func c11Specs(thorough bool) []spec {
	var out []spec
	// (a) event patterns
	sets := c11TypeSets(thorough)
	idx := 0
	for k := 1; k <= 4; k++ {
		for _, set := range sets[k] {
			for _, order := range perms(set) {
				for pat := 0; pat < 1<<(2*k); pat++ {
					ins := make([]inSpec, k)
					nsel, nix, ok := 0, 0, true
					for i := 0; i < k; i++ {
						ins[i] = inSpec{T: order[i], Ix: pat>>(2*i)&1 == 1, Sel: pat>>(2*i+1)&1 == 1}
						if ins[i].Sel {
							nsel++
						}
						if ins[i].Ix {
							nix++
							if isDynamicType(order[i]) {
								ok = false
							}
						}
					}
					if !ok || nsel == 0 || nix > 3 {
						continue
					}
					idx++
					withFields := []bool{false, true}
					if k == 4 && !thorough {
						withFields = []bool{idx%2 == 0}
					}
					for _, wf := range withFields {
						s := spec{Part: "event", Inputs: ins, Shape: idx % 2, VOff: idx % 5}
						if wf {
							s.Fields = []string{"block_time", "log_addr"}
						}
						out = append(out, s)
					}
				}
			}
		}
	}
	// (b) integer widths and sign patterns
	for n := 8; n <= 256; n += 8 {
		for _, sg := range []string{"uint", "int"} {
			for _, ix := range []bool{false, true} {
				t := fmt.Sprintf("%s%d", sg, n)
				// shape 3 has 9 logs: rotate by 9 until every boundary value of the type occurred (plus the old rotation by 3)
				vos := []int{3}
				for vo := 0; vo < len(boundary(t)); vo += 9 {
					vos = append(vos, vo)
				}
				for _, vo := range vos {
					out = append(out, spec{Part: "ints", Inputs: []inSpec{{T: t, Ix: ix, Sel: true}}, Shape: 3, VOff: vo})
				}
			}
		}
	}
	// bare uint / int spellings are not enumerated: the documented spellings carry a width
	// (c) fields
	evData := []inSpec{{T: "address", Ix: true, Sel: true}, {T: "uint256", Sel: true}}
	evNoData := []inSpec{{T: "address", Ix: true, Sel: true}}
	type ctx struct {
		name   string
		inputs []inSpec
		extra  []string // fields appended to make the selection the intended indexing kind
	}
	ctxs := []ctx{{"log", evData, nil}, {"lognodata", evNoData, nil}, {"tx", nil, nil}, {"trace", nil, nil}}
	fits := func(cx ctx, fields []string) bool {
		hasTrace, hasLog := hasPrefixAny(fields, "trace_"), hasPrefixAny(fields, "log_")
		for _, f := range fields {
			if f == "abi_idx" && cx.name != "log" {
				return false
			}
		}
		switch cx.name {
		case "log", "lognodata":
			return !hasTrace
		case "tx":
			return !hasTrace && !hasLog
		case "trace":
			return hasTrace && !hasLog
		}
		return false
	}
	singles := append(append([]string{}, world.AllFields...), "abi_idx")
	n := 0
	for _, f := range singles {
		for _, cx := range ctxs {
			if !fits(cx, []string{f}) {
				continue
			}
			for _, pre := range []string{"", "c_"} {
				n++
				out = append(out, spec{Part: "field1", Inputs: cx.inputs, Fields: []string{f}, Prefix: pre, Shape: n % 2})
			}
		}
	}
	for _, sub := range subsets(c11Repr, 3) {
		for _, cx := range ctxs {
			if !fits(cx, sub) {
				continue
			}
			orders := [][]string{sub}
			if len(sub) > 1 {
				orders = append(orders, reversed(sub))
			}
			for oi, o := range orders {
				n++
				pre := ""
				if (n+oi)%3 == 0 {
					pre = "c_"
				}
				out = append(out, spec{Part: "fields", Inputs: cx.inputs, Fields: o, Prefix: pre, Shape: n % 2})
			}
		}
	}
	// (d) arrays and the element index
	arrTypes := []string{"uint256[]", "address[]", "int64[]", "address[2]", "uint8[3]", "int128[]",
		// arrays of dynamic elements (empty and non-empty byte strings / strings), fixed-size and nested
		"bytes[]", "bytes[2]", "bytes[3]", "string[]", "string[2]", "bytes[][]", "bytes[2][]", "bytes[][2]", "string[][]", "string[2][]", "uint256[][]", "address[2][]"}
	lens := [][]int{{0, 1, 2, 3}, {3, 0, 2, 1}, {1, 1, 0, 0}}
	// (string arrays: an empty element used to be stored as NULL; repaired in /repo e5b1031)
	// (e) fixed-size arrays whose declared length is written with one and with two digits (9, 10, 11, 12, 21: the
	// 9/10 boundary, a palindrome, a digit pair in both orders), static and dynamic element types, at top level and
	// as the inner / outer dimension of a nested array; every pattern below puts another selected column after
	// (or before) the array, so a wrong extent of the array shifts the neighbouring field
	nFirstFixed := len(arrTypes)
	for _, k := range []int{9, 10, 11, 12, 21} {
		for _, b := range []string{"uint256", "address", "int64", "bytes", "string"} {
			arrTypes = append(arrTypes, fmt.Sprintf("%s[%d]", b, k))
		}
		arrTypes = append(arrTypes, fmt.Sprintf("uint256[%d][]", k), fmt.Sprintf("uint256[][%d]", k), fmt.Sprintf("bytes[%d][]", k), fmt.Sprintf("address[%d][2]", k))
	}
	for ai, at := range arrTypes {
		pats := [][]inSpec{
			{{T: at, Sel: true}},
			{{T: "address", Ix: true, Sel: true}, {T: at, Sel: true}},
			{{T: "uint256", Sel: true}, {T: at, Sel: true}},
			{{T: at, Sel: true}, {T: "int64", Sel: true}},
			{{T: "bool"}, {T: at, Sel: true}, {T: "address", Ix: true}},
			{{T: "string", Sel: true}, {T: at, Sel: true}, {T: "address", Ix: true, Sel: true}},
			{{T: "address", Ix: true}, {T: at, Sel: true}, {T: "address", Ix: true, Sel: true}},
		}
		if ai >= nFirstFixed {
			// the array itself NOT selected: the columns declared after it must still hold their own values
			pats = append(pats,
				[][]inSpec{{{T: at}, {T: "uint256", Sel: true}},
					{{T: "address", Ix: true, Sel: true}, {T: at}, {T: "string", Sel: true}, {T: "int64", Sel: true}}}...)
		}
		for pi, pat := range pats {
			for li, ls := range lens {
				if _, dims := parseDims(at); (len(dims) != 1 || dims[0] != 0) && li > 0 {
					continue // the element-count rotations only apply to one-dimensional dynamic arrays
				}
				for _, explicit := range []bool{false, true} {
					s := spec{Part: "array", Inputs: pat, Shape: (pi + li) % 2, ArrLens: ls, VOff: pi}
					if ai >= nFirstFixed {
						s.Part = "array-fixed-length-digits"
					}
					if explicit {
						s.Fields = []string{"abi_idx", "tx_hash"}
						s.Prefix = "c_"
					}
					out = append(out, s)
				}
			}
		}
	}
	// (f) the same fixed-size arrays as COMPONENTS of a (non-array) tuple input, static tuples (inline) and dynamic
	// tuples (behind an offset), the array selected or not, always with selected columns declared after it inside
	// and outside the tuple; single-digit lengths 2 and 9 are the controls
	for _, k := range []int{2, 9, 10, 11, 12, 21} {
		for _, b := range []string{"uint256", "address", "bytes", "string"} {
			at := fmt.Sprintf("%s[%d]", b, k)
			type tp struct {
				ins []inSpec
				tup []int
			}
			pats := []tp{
				{[]inSpec{{T: at, Sel: true}, {T: "uint256", Sel: true}, {T: "int64", Sel: true}}, []int{0, 2}},
				{[]inSpec{{T: "address", Ix: true, Sel: true}, {T: "uint256", Sel: true}, {T: at, Sel: true}, {T: "string", Sel: true}}, []int{1, 3}},
				{[]inSpec{{T: at}, {T: "uint256", Sel: true}, {T: "int64", Sel: true}}, []int{0, 2}},
				{[]inSpec{{T: "bool"}, {T: at, Sel: true}, {T: "address", Sel: true}}, []int{0, 3}},
			}
			for pi, pat := range pats {
				for _, explicit := range []bool{false, true} {
					s := spec{Part: "tuple-fixed-length-digits", Inputs: pat.ins, Tup: pat.tup, Shape: (pi + k) % 2, VOff: pi + k}
					if explicit {
						s.Fields = []string{"abi_idx", "tx_hash"} // (block_hash is content-derived: not selected with a twin oracle chain)
						s.Prefix = "c_"
					}
					out = append(out, s)
				}
			}
		}
	}
	return out
}
