//go:build verif

package rows

import (
	"encoding/json"
	"fmt"

	"verifh/ref"
	"verifh/simeth"
	"verifh/world"
)

// Tuple declarations (spec.Tup = [from, to)): the inputs from..to-1 of the event are declared as the components of
// one non-array tuple input "tp". The configuration, the log topic (canonical signature with the tuple expanded) and
// the log data (reference encoder: a tuple with a dynamic component is encoded behind an offset) are those of the
// tuple event; the values and the declared projection are those of the same inputs declared side by side.

// tupleConf rewrites the event of the (single) integration of a rendered configuration.
func tupleConf(conf string, from, to int) (string, error) {
	var tree map[string]any
	if err := json.Unmarshal([]byte(conf), &tree); err != nil {
		return "", err
	}
	igs, _ := tree["integrations"].([]any)
	if len(igs) != 1 {
		return "", fmt.Errorf("tupleConf: %d integrations", len(igs))
	}
	ev, _ := igs[0].(map[string]any)["event"].(map[string]any)
	ins, _ := ev["inputs"].([]any)
	if from < 0 || to > len(ins) || from >= to {
		return "", fmt.Errorf("tupleConf: range %d..%d of %d inputs", from, to, len(ins))
	}
	comps := append([]any{}, ins[from:to]...)
	for _, c := range comps {
		if ix, _ := c.(map[string]any)["indexed"].(bool); ix {
			return "", fmt.Errorf("tupleConf: indexed component")
		}
	}
	out := append([]any{}, ins[:from]...)
	out = append(out, map[string]any{"name": "tp", "type": "tuple", "indexed": false, "components": comps})
	out = append(out, ins[to:]...)
	ev["inputs"] = out
	b, err := json.Marshal(tree)
	return string(b), err
}

// tupleNodes returns the reference type tree of ALL inputs of the tuple event (for the signature) .
func tupleNodes(s spec) (all []*ref.Node) {
	var fields []*ref.Node
	for i, in := range s.Inputs {
		base, dims := parseDims(in.T)
		n := ref.Leaf(base, dims...)
		switch {
		case i >= s.Tup[0] && i < s.Tup[1]:
			fields = append(fields, n)
			if i == s.Tup[1]-1 {
				all = append(all, ref.Tuple(fields))
			}
		default:
			all = append(all, n)
		}
	}
	return all
}

// mkLogTuple builds the log of the tuple event. vals: one value per input of s (nested for arrays); flat: the values as
// the projection sees them (the oracle note, as for the flat event).
func mkLogTuple(d *world.Decl, s spec, addr []byte, vals, flat []ref.Value) *simeth.Log {
	l := &simeth.Log{Address: addr, Topics: [][]byte{ref.Topic0(d.Event, tupleNodes(s))}, Note: &world.LogNote{Decl: d, Vals: flat}, Tag: d.Name}
	var nodes []*ref.Node
	var nvals []ref.Value
	var fields []*ref.Node
	var fvals []any
	for i, in := range s.Inputs {
		if in.Ix {
			l.Topics = append(l.Topics, vals[i].([]byte))
			continue
		}
		base, dims := parseDims(in.T)
		n := ref.Leaf(base, dims...)
		if i >= s.Tup[0] && i < s.Tup[1] {
			fields, fvals = append(fields, n), append(fvals, vals[i])
			if i == s.Tup[1]-1 {
				nodes, nvals = append(nodes, ref.Tuple(fields)), append(nvals, fvals)
			}
			continue
		}
		nodes, nvals = append(nodes, n), append(nvals, vals[i])
	}
	if len(nodes) > 0 {
		l.Data = ref.EncodeInputs(nodes, nvals)
	}
	return l
}
