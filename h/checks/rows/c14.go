//go:build verif

package rows

import (
	"encoding/json"
	"sort"
	"strings"
	"time"

	"verifh/checks"
	"verifh/fw"
	"verifh/world"
)

// C14 — every selectable field is actually fetched: no column silently left zero.
//
// Sequential world harness (one execution per case, see C11). The enumeration is over field
// selections; every field of every item of the chain is distinct and non-zero, so a field that
// no fetched response carries shows up as a zero / empty / NULL cell and fails the oracle.

func init() {
	checks.Register(&checks.Check{
		ID:        "C14",
		Level:     "exploration",
		Technique: "bounded-exhaustive enumeration of field selections (every field alone, all pairs, triples by planner membership class) with and without an event declaration, each run once through the real pipeline against a chain whose every field is distinct and non-zero; oracle = every stored cell equals the node's value",
		Rule: "cases = the 28 field names the row builder understands: each alone, all 378 unordered pairs, all triples over one representative per membership class of the planner's tables (header/block/receipt/log/trace; every data field of the class 'in no table' is its own representative; thorough: all 3276 triples), " +
			"each WITH an event declaration that has one selected input (log indexing; thorough: also an all-indexed event whose logs carry no data) and WITHOUT (transaction indexing; trace indexing when a trace field is selected). Chain: 2 blocks x 2 txs x 2 logs x 2 traces, every value distinct and non-zero, tx.to non-nil. " +
			"Chain variants: every selection without event also on a chain whose blocks have transactions and traces but no logs (all logs blooms empty), and every single and pair on three-block chains (one step, batch 3) with a transaction-less block first / in the middle / last. Every selection is also run with each field stored under a renamed column (column name != field name). Every well-formed single and pair is also run against a transiently inconsistent source: during the first step the answers of one fetch method (blocks, headers, receipts, logs, the header fetched with logs, traces) for the first / last / every block of the range are {\"result\": null}, followed by a faithful retry; a step must either fail and write nothing or write the declared projection. Only well-formed selections are judged (log_idx/log_addr only with log indexing, trace_action_* only without selected event inputs); ill-formed ones are executed and only 'did it crash' is recorded as an observation. A case is non-trivial when the declared projection has at least one row.",
		Assumptions: []string{
			"simulated node (h/simeth) answers eth_getBlockByNumber / eth_getBlockReceipts / eth_getLogs / trace_block like a well-behaved geth/erigon; fake Postgres (h/simpg) stores what COPY sends",
			"every block of the chain has transactions, logs and traces (the separately tracked defect 'trace_block answers [] for a block without traces' is not exercised)",
			"abi_idx is not a fetched field and is not enumerated",
		},
		Budget:        map[string]time.Duration{"quick": 110 * time.Second, "thorough": 850 * time.Second},
		MinNontrivial: 500,
		Inst:          true,
		Run:           c14Run,
		Replay:        c14Replay,
	})
}

// c14WellFormed: log fields need a log (log indexing); trace fields need trace indexing (no selected event input).
func c14WellFormed(s spec) bool {
	hasEvent := len(s.Inputs) > 0
	hasTrace, hasLog := hasPrefixAny(s.Fields, "trace_"), hasPrefixAny(s.Fields, "log_")
	if hasEvent {
		return !hasTrace
	}
	return !hasLog
}

var c14Runner = &runner{prop: "C14", judge: c14WellFormed}

func c14Run(c *fw.Ctx) {
	specs := c14Specs(c.Thorough())
	parts := map[string]int{}
	wf := 0
	for _, s := range specs {
		parts[s.Part]++
		if c14WellFormed(s) {
			wf++
		}
	}
	for k, v := range parts {
		c.Bound("cases:"+k, v)
	}
	c.Bound("well_formed_cases", wf)
	c.Bound("ill_formed_cases_observed_only", len(specs)-wf)
	c.Bound("schedules_per_case", 1)
	c14Runner.run(c, specs)
}

func c14Replay(c *fw.Ctx, raw json.RawMessage) { c14Runner.replay(c, raw) }

// The planner's tables as of the pinned tree (/repo/shovel/glf/filter.go), used ONLY to group the
// field names into membership classes for the triple enumeration; the oracle never looks at them.
var c14Tables = map[string][]string{
	"header":  {"block_hash", "block_num", "block_time"},
	"block":   {"block_hash", "block_num", "block_time", "tx_hash", "tx_idx", "tx_nonce", "tx_signer", "tx_to", "tx_input", "tx_value", "tx_type", "tx_max_priority_fee_per_gas", "tx_max_fee_per_gas"},
	"receipt": {"block_hash", "block_num", "tx_hash", "tx_idx", "tx_signer", "tx_to", "tx_type", "tx_status", "tx_gas_used", "tx_contract_address", "log_addr", "log_idx"},
	"log":     {"block_hash", "block_num", "tx_hash", "tx_idx", "log_addr", "log_idx"},
	"trace":   {"trace_action_call_type", "trace_action_from", "trace_action_to", "trace_action_value"},
}

// c14Classes groups the field names by membership signature; returns the representatives.
func c14Representatives() (reps []string, classes map[string][]string) {
	classes = map[string][]string{}
	var order []string
	for _, f := range world.AllFields {
		var sig []string
		for _, t := range []string{"header", "block", "receipt", "log", "trace"} {
			for _, x := range c14Tables[t] {
				if x == f {
					sig = append(sig, t)
				}
			}
		}
		k := strings.Join(sig, "+")
		if k == "" {
			k = "none"
		}
		if _, ok := classes[k]; !ok {
			order = append(order, k)
		}
		classes[k] = append(classes[k], f)
	}
	for _, k := range order {
		if k == "none" {
			// context values (src_name, ig_name, chain_id) share one representative; every DATA field unknown to the planner is its own
			ctxDone := false
			for _, f := range classes[k] {
				switch f {
				case "src_name", "ig_name", "chain_id":
					if !ctxDone {
						reps = append(reps, f)
						ctxDone = true
					}
				default:
					reps = append(reps, f)
				}
			}
			continue
		}
		reps = append(reps, classes[k][0])
	}
	return reps, classes
}

func c14Specs(thorough bool) []spec {
	var sels [][]string
	var parts []string
	names := world.AllFields
	for _, f := range names {
		sels, parts = append(sels, []string{f}), append(parts, "single")
	}
	for i := range names {
		for j := i + 1; j < len(names); j++ {
			sels, parts = append(sels, []string{names[i], names[j]}), append(parts, "pair")
		}
	}
	reps, _ := c14Representatives()
	sort.Strings(reps)
	triples := reps
	if thorough {
		triples = append([]string{}, names...) // thorough: ALL 3276 triples, a superset of the class triples
	}
	for _, t := range subsets(triples, 3) {
		if len(t) == 3 {
			sels, parts = append(sels, t), append(parts, "triple")
		}
	}
	event := []inSpec{{T: "uint256", Sel: true}}
	eventNoData := []inSpec{{T: "address", Ix: true, Sel: true}} // all inputs indexed: the log has no data
	var out []spec
	for i, sel := range sels {
		out = append(out, spec{Part: parts[i] + ":event", Inputs: event, Fields: sel, Shape: 2})
		out = append(out, spec{Part: parts[i] + ":noevent", Fields: sel, Shape: 2})
		if thorough && parts[i] != "triple" {
			out = append(out, spec{Part: parts[i] + ":event-nodata", Inputs: eventNoData, Fields: sel, Shape: 2})
		}
	}
	// the same selections with every field stored under a column whose name differs from the field name:
	// the planner must go by the FIELD (nothing else in the selection is named like its field, so nothing
	// else pulls in the RPC method that supplies it)
	for i, sel := range sels {
		out = append(out, spec{Part: parts[i] + ":event:renamed", Inputs: event, Fields: sel, Prefix: "c_", Shape: 2})
		out = append(out, spec{Part: parts[i] + ":noevent:renamed", Fields: sel, Prefix: "c_", Shape: 2})
	}
	// chain variants: (4) every block has transactions and traces but NO logs, so every logs bloom is empty (the
	// receipt-only fields still exist for every transaction); (5..7) a block without transactions first / in the
	// middle / last of a three-block step (batch 3), so the per-block fetch loops must carry on past it
	for i, sel := range sels {
		out = append(out, spec{Part: parts[i] + ":noevent:no-logs-in-chain", Fields: sel, Shape: 4})
		if parts[i] == "triple" && !thorough {
			continue
		}
		for sh := 5; sh <= 7; sh++ {
			out = append(out, spec{Part: parts[i] + ":event:empty-block", Inputs: event, Fields: sel, Shape: sh})
			out = append(out, spec{Part: parts[i] + ":noevent:empty-block", Fields: sel, Shape: sh})
		}
	}
	// transient inconsistency of the source: during the first step the answers of one fetch method for the
	// first / last / every block of the range are {"result": null} (a lagging backend), then a faithful retry.
	// Oracle unchanged: a step either fails and writes nothing, or what it wrote is the declared projection.
	for i, sel := range sels {
		if parts[i] == "triple" && !thorough {
			continue
		}
		for _, ins := range [][]inSpec{event, nil} {
			base := spec{Part: parts[i] + ":null-answer", Inputs: ins, Fields: sel, Shape: 2}
			if !c14WellFormed(base) {
				continue
			}
			for _, m := range nullMethods {
				targets := []string{"first", "last", "all"}
				if m == "logs" || m == "logs-head" {
					targets = []string{"all"} // one call per range
				}
				for _, t := range targets {
					x := base
					x.Null = &nullAns{Method: m, Target: t}
					out = append(out, x)
				}
			}
		}
	}
	return out
}
